# Framework of /verif/bin/check: theorem leg (coqc + audit), correspondence leg (Go harness
# compiled into /repo's working tree through -overlay, cases evaluated by coqc/vm_compute
# against the executable model), monitor leg (the property's decidable statement evaluated in
# Coq on what the implementation did), verdict, evidence, replay.  Python 3 stdlib only.
import fcntl, glob, hashlib, json, os, re, shutil, subprocess, sys, time

VERIF = os.path.dirname(os.path.dirname(os.path.dirname(os.path.abspath(__file__))))
REPO = os.environ.get("VERIF_REPO", "/repo")
COQ = os.path.join(VERIF, "coq")
WORK = os.path.join(VERIF, "work")
GOENV = {"GOFLAGS": "-mod=mod", "GOPROXY": "off", "GOSUMDB": "off", "GOTOOLCHAIN": "local",
         "CGO_ENABLED": "0"}

FORBIDDEN = re.compile(
    r"\b(Admitted|admit|Axiom|Axioms|Parameter|Parameters|Conjecture|Conjectures|Abort All)\b"
    r"|Unset\s+Guard|Unset\s+Positivity|Unset\s+Universe|bypass_check|type-in-type|impredicative-set"
    r"|Admit\s+Obligations|native_compute")
# axioms of the standard library that may appear in Print Assumptions (named in the trusted base)
STDLIB_AXIOMS = {"functional_extensionality_dep", "Eqdep.Eq_rect_eq.eq_rect_eq", "classic",
                 "proof_irrelevance", "JMeq_eq", "propositional_extensionality"}


def sh(cmd, cwd=None, env=None, timeout=None, inp=None):
    e = dict(os.environ)
    if env:
        e.update(env)
    p = subprocess.run(cmd, cwd=cwd, env=e, timeout=timeout, input=inp,
                       stdout=subprocess.PIPE, stderr=subprocess.STDOUT, text=True)
    return p.returncode, p.stdout


class Ctx:
    def __init__(self, prop, tier, seed):
        self.prop, self.tier, self.seed = prop, tier, seed
        self.work = os.path.join(WORK, prop)
        os.makedirs(self.work, exist_ok=True)
        self.t0 = time.time()
        self.log = []
        self.obligations = []     # (name, ok, detail)
        self.trusted = []
        self.assumptions = []
        self.coverage = {}
        self.samples = []
        self.violations = []      # dicts: kind, what, replay
        self.known = []           # strings
        self.stats = {}

    def say(self, *a):
        msg = " ".join(str(x) for x in a)
        self.log.append(msg)
        print("[%s %6.1fs] %s" % (self.prop, time.time() - self.t0, msg), flush=True)

    def oblige(self, name, ok, detail=""):
        self.obligations.append((name, bool(ok), detail))


# ---------------------------------------------------------------- leg A: theorems

def coq_lock():
    os.makedirs(WORK, exist_ok=True)
    f = open(os.path.join(WORK, ".coq.lock"), "w")
    fcntl.flock(f, fcntl.LOCK_EX)
    return f


def coq_build(ctx, targets):
    """Full .vo build (never -vos) of the given targets and everything they depend on."""
    lock = coq_lock()
    try:
        if not os.path.exists(os.path.join(COQ, "Makefile")) or \
           os.path.getmtime(os.path.join(COQ, "Makefile")) < os.path.getmtime(os.path.join(COQ, "_CoqProject")):
            sh(["coq_makefile", "-f", "_CoqProject", "-o", "Makefile"], cwd=COQ)
        rc, out = sh(["timeout", "1500", "make", "-j16"] + targets, cwd=COQ)
    finally:
        lock.close()
    open(os.path.join(ctx.work, "coq_build.log"), "w").write(out)
    if rc != 0:
        m = re.findall(r'File "\./([^"]+)", line (\d+)', out)
        where = ", ".join("%s:%s" % x for x in m[:3]) or "make"
        err = re.findall(r"Error:[^\n]*(?:\n[^\n]+){0,3}", out)
        return False, where + " :: " + (err[0].replace("\n", " ") if err else out[-300:])
    if ctx.tier == "thorough":
        coqchk(ctx, targets)
    return True, ""


def coqchk(ctx, targets):
    """Thorough tier: Coq's independent checker over the compiled files of the property and everything they
    depend on; it also lists the axioms they rely on."""
    mods = ["Maddy." + t[len("theories/"):-3].replace("/", ".") for t in targets
            if t.startswith("theories/") and t.endswith(".vo")]
    rc, out = sh(["timeout", "3000", "coqchk", "-silent", "-o", "-Q", "theories", "Maddy"] + mods, cwd=COQ)
    open(os.path.join(ctx.work, "coqchk.log"), "w").write(out)
    flat = re.sub(r"\s+", " ", out)
    wanted = ["Axioms: <none>", "relying on type-in-type: <none>", "relying on unsafe (co)fixpoints: <none>",
              "positivity is assumed: <none>"]
    ok = rc == 0 and all(w in flat for w in wanted)
    ctx.oblige("coqchk -silent -o over %d modules and their dependencies: no axioms, no unchecked definitions" % len(mods),
               ok, "" if ok else flat[-400:])


def audit(ctx):
    bad = []
    files = glob.glob(os.path.join(COQ, "theories", "**", "*.v"), recursive=True)
    files += glob.glob(os.path.join(COQ, "gen", "*.v"))
    for f in files:
        txt = open(f).read()
        txt_nc = strip_comments(txt)
        for m in FORBIDDEN.finditer(txt_nc):
            bad.append("%s: %s" % (os.path.relpath(f, VERIF), m.group(0)))
        # Variable / Hypothesis outside a Section declare axioms
        depth = 0
        for line in txt_nc.splitlines():
            s = line.strip()
            if re.match(r"Section\s+\w+", s):
                depth += 1
            elif re.match(r"End\s+\w+\s*\.", s) and depth > 0:
                depth -= 1
            elif depth == 0 and re.match(r"(Variable|Variables|Hypothesis|Hypotheses|Context)\b", s):
                bad.append("%s: %s outside a section" % (os.path.relpath(f, VERIF), s[:40]))
    proj = open(os.path.join(COQ, "_CoqProject")).read()
    if "type-in-type" in proj or "impredicative-set" in proj:
        bad.append("_CoqProject: forbidden flag")
    ctx.oblige("audit: no Admitted/admit/Axiom/Parameter/unchecked flags in %d files" % len(files),
               not bad, "; ".join(bad[:5]))
    return not bad


def strip_comments(s):
    out, depth, i = [], 0, 0
    while i < len(s):
        if s.startswith("(*", i):
            depth += 1; i += 2
        elif s.startswith("*)", i) and depth:
            depth -= 1; i += 2
        else:
            if depth == 0:
                out.append(s[i])
            elif s[i] == "\n":
                out.append("\n")
            i += 1
    return "".join(out)


def theorem_names(props_file):
    txt = strip_comments(open(os.path.join(COQ, props_file)).read())
    return re.findall(r"^\s*(?:Theorem|Lemma|Corollary)\s+([A-Za-z0-9_']+)", txt, re.M)


def coqc_file(ctx, path, extra_q=(), timeout=1200):
    cmd = ["timeout", str(timeout), "coqc", "-Q", os.path.join(COQ, "theories"), "Maddy"]
    for d, n in extra_q:
        cmd += ["-Q", d, n]
    cmd += ["-w", "-notation-overridden,-deprecated-hint-without-locality", os.path.basename(path)]
    return sh(cmd, cwd=os.path.dirname(path))


def check_theorems(ctx, props_file, module):
    """Every theorem of the property file compiles; Print Assumptions of each is closed or
    names only standard-library axioms."""
    names = theorem_names(props_file)
    src = "From Maddy Require Import %s.\n" % module
    for n in names:
        src += 'Print Assumptions %s.\n' % n
    p = os.path.join(ctx.work, "assumptions_%s.v" % ctx.prop)
    open(p, "w").write(src)
    rc, out = coqc_file(ctx, p)
    chunks = re.split(r"(?=Closed under the global context|Axioms:)", out)
    chunks = [c for c in chunks if c.startswith("Closed") or c.startswith("Axioms:")]
    if rc != 0 or len(chunks) != len(names):
        for n in names:
            ctx.oblige("theorem " + n, False, "Print Assumptions failed: " + out[-200:])
        return False
    ok_all = True
    for n, c in zip(names, chunks):
        if c.startswith("Closed"):
            ctx.oblige("theorem " + n, True, "Closed under the global context")
        else:
            ax = re.findall(r"^\s*([A-Za-z0-9_.']+)\s*:", c, re.M)
            extra = [a for a in ax if a.split(".")[-1] not in {x.split(".")[-1] for x in STDLIB_AXIOMS}]
            ctx.oblige("theorem " + n, not extra, "axioms: " + ", ".join(ax))
            ctx.assumptions.append("%s depends on standard-library axioms: %s" % (n, ", ".join(ax)))
            ok_all = ok_all and not extra
    return ok_all


# ---------------------------------------------------------------- leg B/C: harness + cases

def write_overlay(ctx, mapping, util_pkgs):
    """mapping: {repo-relative path: file under /verif}; util_pkgs: {repo-relative dir: package name}"""
    rep = {}
    for rel, src in mapping.items():
        rep[os.path.join(REPO, rel)] = os.path.join(VERIF, src) if not os.path.isabs(src) else src
    tmpl = open(os.path.join(VERIF, "harness/common/util.go.tmpl")).read()
    for d, pkg in util_pkgs.items():
        p = os.path.join(ctx.work, "util_%s.go" % pkg)
        open(p, "w").write(tmpl.replace("@PKG@", pkg))
        rep[os.path.join(REPO, d, "zz_verif_util_test.go")] = p
    ov = os.path.join(ctx.work, "overlay.json")
    json.dump({"Replace": rep}, open(ov, "w"), indent=1)
    return ov


def run_harness(ctx, overlay, pkg, run, n, out_name, seed=None, timeout=1500, extra_env=None):
    out = os.path.join(ctx.work, out_name)
    if os.path.exists(out):
        os.remove(out)
    env = dict(GOENV)
    env.update({"VERIF_SEED": str(ctx.seed if seed is None else seed), "VERIF_TIER": ctx.tier,
                "VERIF_OUT": out, "VERIF_N": str(n), "VERIF_WORK": ctx.work})
    if extra_env:
        env.update(extra_env)
    cmd = ["go", "test", "-vet=off", "-count=1", "-tags", "verif", "-overlay", overlay,
           "-run", "^%s$" % run, "-timeout", "%ds" % timeout, "./" + pkg + "/"]
    t = time.time()
    rc, log = sh(cmd, cwd=REPO, env=env, timeout=timeout + 120)
    open(os.path.join(ctx.work, out_name + ".golog"), "w").write(log)
    ctx.say("harness %s/%s n=%d rc=%d %.1fs" % (pkg, run, n, rc, time.time() - t))
    cases, stats = [], {}
    if os.path.exists(out):
        for line in open(out):
            line = line.rstrip("\n")
            if line.startswith("# "):
                k, _, v = line[2:].partition(" ")
                stats[k] = v
            elif line:
                cases.append(line)
    return rc, log, cases, stats


def _section(out, name):
    m = re.search(r"^%s\s*=\s*(.*?)\n\s*:\s" % re.escape(name), out, re.S | re.M)
    return m.group(1) if m else None


def eval_cases(ctx, corr_module, cases, tag="cases", shard=400, extra_q=()):
    """Evaluate mismatches / monitor / tags of the correspondence module on the cases.
    Returns (mismatch idx list, [(idx, [clauses])], tags, error or None)."""
    shards = [cases[i:i + shard] for i in range(0, len(cases), shard)] or [[]]
    procs = []
    for si, sc in enumerate(shards):
        p = os.path.join(ctx.work, "%s_%s_%d.v" % (tag, ctx.prop, si))
        with open(p, "w") as f:
            f.write("From Maddy Require Import Lib.Base %s.\n" % corr_module)
            f.write("Definition cases : list case := [\n")
            f.write(";\n".join(sc))
            f.write("\n].\n")
            f.write("Definition MISM := Eval vm_compute in mismatches cases.\nPrint MISM.\n")
            f.write("Definition MONF := Eval vm_compute in monitor_failures cases.\nPrint MONF.\n")
            f.write("Definition TAGS := Eval vm_compute in tags cases.\nPrint TAGS.\n")
        cmd = ["timeout", "1500", "coqc", "-Q", os.path.join(COQ, "theories"), "Maddy"]
        for d, n in extra_q:
            cmd += ["-Q", d, n]
        cmd += ["-w", "-notation-overridden", os.path.basename(p)]
        # long list literals (whole configuration files, spool contents) need a deep stack in coqc
        cmd = ["bash", "-c", "ulimit -s unlimited 2>/dev/null || ulimit -s 1000000 2>/dev/null; exec \"$@\"", "coqc-wrap"] + cmd
        procs.append((si, p, cmd))
    mism, monf, tags = [], [], []
    running = []
    results = {}
    maxpar = 12
    queue = list(procs)
    while queue or running:
        while queue and len(running) < maxpar:
            si, p, cmd = queue.pop(0)
            running.append((si, p, subprocess.Popen(cmd, cwd=ctx.work, stdout=subprocess.PIPE,
                                                     stderr=subprocess.STDOUT, text=True)))
        si, p, pr = running.pop(0)
        out, _ = pr.communicate()
        results[si] = (pr.returncode, out, p)
    for si in sorted(results):
        rc, out, p = results[si]
        base = si * shard
        a, b, c = _section(out, "MISM"), _section(out, "MONF"), _section(out, "TAGS")
        if rc != 0 or a is None or b is None or c is None:
            return None, None, None, "coqc failed on %s: %s" % (os.path.basename(p), out[-600:])
        mism += [base + int(x) for x in re.findall(r"(\d+)%N", a)]
        # Coq wraps long lists wherever a break is allowed, also right after an opening parenthesis
        found = 0
        for m in re.finditer(r"\(\s*(\d+)%N\s*,\s*\[([^\]]*)\]\s*\)", b):
            monf.append((base + int(m.group(1)), [int(x) for x in re.findall(r"(\d+)%N", m.group(2))]))
            found += 1
        # every inner list of the printed term is one entry: nothing may be lost to the printer's layout
        if found != max(0, b.count("[") - 1):
            return None, None, None, "could not read the monitor's answer in %s: %d of %d entries" % (
                os.path.basename(p), found, b.count("[") - 1)
        tags += [int(x) for x in re.findall(r"(\d+)%N", c)]
    return mism, monf, tags, None


# ---------------------------------------------------------------- findings, verdict, evidence

def load_known():
    p = os.path.join(VERIF, "known_findings.json")
    return json.load(open(p)) if os.path.exists(p) else {"findings": []}


def write_replay(ctx, kind, payload):
    d = os.path.join(WORK, "replay")
    os.makedirs(d, exist_ok=True)
    payload = dict(payload)
    payload.update({"property": ctx.prop, "kind": kind, "seed": ctx.seed, "tier": ctx.tier})
    h = hashlib.sha1(json.dumps(payload, sort_keys=True).encode()).hexdigest()[:10]
    p = os.path.join(d, "%s-%s.json" % (ctx.prop, h))
    json.dump(payload, open(p, "w"), indent=1)
    return p


def classify_monitor(ctx, monf, cases, clause_names, source):
    """Split monitor failures into known findings (listed clause ids) and violations."""
    known = {(k["property"], k["clause"]): k for k in load_known()["findings"]
             if k.get("status") == "known" and "clause" in k}
    seen_known, viol = {}, []
    for idx, clauses in monf:
        for c in clauses:
            k = known.get((ctx.prop, c))
            if k:
                seen_known.setdefault(c, (k, idx))
            else:
                viol.append((idx, c))
    for c, (k, idx) in sorted(seen_known.items()):
        ctx.known.append("KNOWN-FINDING: property=%s %s" % (ctx.prop, k["what"]))
    if viol:
        idx, c = viol[0]
        rp = write_replay(ctx, "impl-violates", {
            "source": source, "case_index": idx, "case": cases[idx] if idx < len(cases) else None,
            "clause": c, "clause_text": clause_names.get(c, ""),
            "all": [(i, cl, clause_names.get(cl, "")) for i, cl in viol[:20]]})
        ctx.violations.append({"kind": "impl-violates", "replay": rp, "suffix": "",
                               "what": "monitor clause %d (%s) fails on implementation case %d of %s; %d failing cases"
                                       % (c, clause_names.get(c, ""), idx, source, len(viol))})
    return len(viol)


def finish(ctx, level="proof", technique_note=""):
    wall = time.time() - ctx.t0
    obl = len(ctx.obligations)
    dis = sum(1 for o in ctx.obligations if o[1])
    broken = [o for o in ctx.obligations if not o[1]]
    if broken and not any(v["kind"] == "impl-violates" for v in ctx.violations):
        rp = write_replay(ctx, "obligation", {"obligations_not_checked": [(o[0], o[2]) for o in broken]})
        ctx.violations.append({"kind": "obligation", "replay": rp, "suffix": " no-failing-input-found",
                               "what": "obligation no longer checks: " + "; ".join(o[0] for o in broken[:4])})
    cov = {"obligations": obl, "discharged": dis,
           "checker_cmd": "make -C /verif/coq (coqc 8.16.1, full .vo build) + coqc on generated obligations and cases; bin/check %s --tier %s" % (ctx.prop, ctx.tier),
           "trusted_base": ctx.trusted,
           "obligation_list": [{"name": o[0], "ok": o[1], "detail": o[2]} for o in ctx.obligations]}
    cov.update(ctx.coverage)
    cov["samples"] = ctx.samples[:6] or ["(none)"]
    ev = {"property_id": ctx.prop, "tier": ctx.tier, "seed": ctx.seed, "level": level,
          "coverage": cov, "assumptions": ctx.assumptions, "wall_s": round(wall, 2),
          "violations": len(ctx.violations), "known_findings": ctx.known, "log": ctx.log[-40:]}
    os.makedirs(os.path.join(VERIF, "evidence"), exist_ok=True)
    json.dump(ev, open(os.path.join(VERIF, "evidence", ctx.prop + ".json"), "w"), indent=1, ensure_ascii=False)
    for k in ctx.known:
        print(k)
    if ctx.violations:
        for v in ctx.violations:
            print("# " + v["what"])
        # one VIOLATION line per distinct replay; impl-violates first
        vs = sorted(ctx.violations, key=lambda v: v["kind"] != "impl-violates")
        v = vs[0]
        print("VIOLATION property=%s replay=%s%s" % (ctx.prop, v["replay"], v["suffix"]), flush=True)
        return 1
    print("OK property=%s tier=%s obligations=%d/%d wall=%.1fs" % (ctx.prop, ctx.tier, dis, obl, wall), flush=True)
    return 0


def distinct_nontrivial(cases, tags, trivial_tags=()):
    seen = set()
    for c, t in zip(cases, tags):
        if t in trivial_tags:
            continue
        seen.add(hashlib.sha1(c.encode()).hexdigest())
    return len(seen)


def generic_corr(ctx, *, overlay, pkg, run, n, corr_module, clause_names, name, trusted=None,
                 search_factor=4, shard=400, timeout=1500, extra_env=None, extra_q=()):
    """Harness run -> correspondence + monitor, with directed search when the tie breaks."""
    rc, log, cases, stats = run_harness(ctx, overlay, pkg, run, n, name + ".cases", timeout=timeout,
                                        extra_env=extra_env)
    ctx.stats[name] = stats
    if rc != 0 or not cases:
        ctx.oblige("harness %s runs to completion on the current tree" % name, False,
                   "go test rc=%d: %s" % (rc, log[-800:]))
        return None
    mism, monf, tags, err = eval_cases(ctx, corr_module, cases, tag=name, shard=shard, extra_q=extra_q)
    if err:
        ctx.oblige("correspondence %s evaluates" % name, False, err)
        return None
    nviol = classify_monitor(ctx, monf, cases, clause_names, name)
    ctx.oblige("correspondence %s: model = implementation on %d cases" % (name, len(cases)),
               not mism, "" if not mism else "first disagreeing case #%d: %s" % (mism[0], cases[mism[0]][:600]))
    hist = {}
    for t in tags:
        hist[str(t)] = hist.get(str(t), 0) + 1
    ctx.coverage.setdefault("streams", {})[name] = {
        "cases": len(cases), "mismatches": len(mism), "monitor_failures": len(monf),
        "tag_histogram": hist, "generator_stats": stats}
    ctx.coverage["evaluations"] = ctx.coverage.get("evaluations", 0) + len(cases)
    ctx.coverage["distinct_nontrivial"] = ctx.coverage.get("distinct_nontrivial", 0) + \
        distinct_nontrivial(cases, tags, trivial_tags=(0,))
    ctx.coverage["traces_validated_against_impl"] = ctx.coverage.get("traces_validated_against_impl", 0) + len(cases)
    ctx.samples += [c[:700] for c in cases[:2]]
    if mism and not nviol:
        # the tie is broken: search the implementation for a failing input with a wider budget
        ctx.say("correspondence broken (%d cases); directed search with %dx budget" % (len(mism), search_factor))
        for k in range(1, 3):
            rc2, log2, cases2, _ = run_harness(ctx, overlay, pkg, run, n * search_factor, name + ".search",
                                               seed=ctx.seed + 7919 * k, timeout=timeout, extra_env=extra_env)
            if rc2 != 0 or not cases2:
                break
            m2, monf2, _, err2 = eval_cases(ctx, corr_module, cases2, tag=name + "_search", shard=shard, extra_q=extra_q)
            if err2:
                break
            if classify_monitor(ctx, monf2, cases2, clause_names, name + " (search seed %d)" % (ctx.seed + 7919 * k)):
                break
        if not any(v["kind"] == "impl-violates" for v in ctx.violations):
            rp = write_replay(ctx, "correspondence", {
                "obligation": "correspondence %s (%s.mismatches = [])" % (name, corr_module),
                "case_index": mism[0], "case": cases[mism[0]], "disagreeing": mism[:50]})
            ctx.violations.append({"kind": "correspondence", "replay": rp, "suffix": " no-failing-input-found",
                                   "what": "model and implementation disagree on %d cases of %s; monitor found no failing input" % (len(mism), name)})
    return cases
