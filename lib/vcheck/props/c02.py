# C02 - crash safety of the spool
import os, subprocess
from .. import core

CLAUSES = {
    1: "a recipient of a message accepted before the stop is neither delivered/reported before it nor attempted (with intact header and body) after the restart",
    2: "a transaction aborted before the stop was delivered after the restart",
    3: "the restarted queue delivered to an address that is not a recipient of the stored message",
    4: "a recipient finalised before a later attempt began was sent to again after the restart",
    5: "header or body delivered after the restart differ from what was accepted",
}
TRUSTED = [
    "Coq 8.16.1 kernel (coqc); vm_compute",
    "tools/oswrap (redirects queue.go's import of os to harness/verifos, regenerated every run) and harness/verifos (records create/write/sync/rename/remove while performing them)",
    "harness/c02 (scenario runner, materialisation of every prefix of the recorded operations incl. torn last write and unsynced data dropped, restarted queue with recording target)",
    "crash model: directory operations durable once they return, rename atomic, file data durable after fsync (strong variant) or as written (weak variant); JSON decoding of .meta is a table recorded per case",
]

def run(ctx):
    ctx.trusted = TRUSTED
    ok, detail = core.coq_build(ctx, ["theories/Props/C02.vo", "theories/Queue/SpoolCorr.vo"])
    ctx.oblige("coq build of Props/C02.vo and its dependencies", ok, detail)
    core.audit(ctx)
    if not ok:
        return
    core.check_theorems(ctx, "theories/Props/C02.v", "Props.C02")
    # regenerate the instrumented queue.go from the current source
    env = dict(os.environ); env.update(core.GOENV)
    p = subprocess.run(["go", "run", "./oswrap", os.path.join(core.REPO, "internal/target/queue/queue.go"),
                        "github.com/foxcpp/maddy/internal/verifos"], cwd=os.path.join(core.VERIF, "tools"), env=env,
                       stdout=subprocess.PIPE, stderr=subprocess.PIPE, text=True)
    wrapped = os.path.join(ctx.work, "queue_oswrapped.go")
    open(wrapped, "w").write(p.stdout)
    ctx.oblige("translator oswrap rewrites the os import of the current queue.go", p.returncode == 0 and "verifos" in p.stdout, p.stderr[-300:])
    if p.returncode != 0:
        return
    ov = core.write_overlay(ctx, {
        "internal/target/queue/queue.go": wrapped,
        "internal/verifos/verifos.go": "harness/verifos/verifos.go",
        "internal/target/queue/zz_verif_c02_test.go": "harness/c02/c02_test.go",
    }, {"internal/target/queue": "queue"})
    core.generic_corr(ctx, overlay=ov, pkg="internal/target/queue", run="TestVerif_C02",
                      n=(3 if ctx.tier == "quick" else 40), corr_module="Queue.SpoolCorr", clause_names=CLAUSES,
                      name="crash", shard=120, extra_env={"VERIF_THOROUGH": "1" if ctx.tier == "thorough" else "0"})
    ctx.coverage["rule"] = ("6 fixed scenarios (delivery, temporary then success, abort, permanent+temporary over three attempts, two "
                            "messages with an accept during a pending retry, repeated temporary failures) plus generated ones (1-3 messages, "
                            "1-3 recipients, aborts, scripted failures); every crash point before a mutating file operation and after the last, "
                            "each also with unsynced data dropped, every write also torn (quick: a third of the points of generated scenarios); "
                            "non-trivial = every case, distinct by case text")
    ctx.coverage["exhaustive"] = False
