# C18 - failure reports
from .. import core

CLAUSES = {
    1: "emitDSN panicked",
    2: "no report was handed to the bounce pipeline although one was due and could be built",
    3: "a report was generated although the sender is the null address / no bounce pipeline / nobody failed",
    4: "report envelope: return path not null, or not addressed to the sender of the failed message",
    5: "per-recipient groups do not list exactly the failed recipients under their original addresses with their last status (or a field contains CR/LF)",
    6: "report is not a well-formed multipart/report with the original header as third part",
    7: "the report itself carries an original sender: a failing report could trigger another report",
    8: "hand-over to the bounce pipeline: wrong call sequence for the injected failure (missing or spurious Abort)",
    105: "no failure report at all when the last error of a failed recipient carries no enhanced status code (x.0.0 unset: a plain go-smtp error, or a next-hop reply without enhanced code): RecipientInfo.WriteTo refuses ('Status is required') and emitDSN drops the whole report",
}
TRUSTED = [
    "Coq 8.16.1 kernel (coqc); vm_compute",
    "harness/c18 (Go: emitDSN driven directly; the report is parsed with mime/multipart + a 30-line field parser, independent of go-message)",
    "IDNA selection (address.SelectIDNA / dns.SelectIDNA) = Section variables with per-case tables; MIME framing and header folding are go-message's (checked well-formed on the implementation only); dates are ignored",
]

def run(ctx):
    ctx.trusted = TRUSTED
    ok, detail = core.coq_build(ctx, ["theories/Props/C18.vo", "theories/Queue/DsnCorr.vo", "theories/Queue/Corr.vo"])
    ctx.oblige("coq build of Props/C18.vo and its dependencies", ok, detail)
    core.audit(ctx)
    if not ok:
        return
    core.check_theorems(ctx, "theories/Props/C18.v", "Props.C18")
    ov = core.write_overlay(ctx, {"internal/target/queue/zz_verif_c18_test.go": "harness/c18/c18_test.go",
                                  "internal/target/queue/zz_verif_export.go": "harness/queue/export.go"},
                            {"internal/target/queue": "queue"})
    n = 500 if ctx.tier == "quick" else 15000
    core.generic_corr(ctx, overlay=ov, pkg="internal/target/queue", run="TestVerif_C18", n=n,
                      corr_module="Queue.DsnCorr", clause_names=CLAUSES, name="dsn", shard=400)
    # integrated stream: the real queue over several attempts (same harness as C01); a report must name
    # exactly the recipients that failed terminally in that attempt, once
    Q_CLAUSES = {1: "over several attempts a recipient is named by more than one report, by a report although it was delivered, or by none although it failed terminally",
                 2: "recipient attempted more than max_tries times", 3: "re-attempt after success/permanent failure", 4: "message still queued"}
    ov2 = core.write_overlay(ctx, {"internal/target/queue/zz_verif_c01_test.go": "harness/c01/c01_test.go"},
                             {"internal/target/queue": "queue"})
    core.generic_corr(ctx, overlay=ov2, pkg="internal/target/queue", run="TestVerif_C01", n=(200 if ctx.tier == "quick" else 6000),
                      corr_module="Queue.Corr", clause_names=Q_CLAUSES, name="attempts", shard=600)
    ctx.coverage["rule"] = ("generated failed-recipient sets (1-3; ASCII, IDN, non-ASCII local part), rewritten recipients with original "
                            "addresses, EAI and non-EAI messages, last errors (codes, enhanced codes incl. unset, multi-line and non-ASCII texts), "
                            "senders (null, IDN, rewritten), IDN reporting host, with/without bounce pipeline, report delivery failing at "
                            "Start/AddRcpt/Body/Commit; non-trivial = every case, distinct by case text")
