# C19 - pooled connection used by one delivery at a time and closed once
from .. import core

CLAUSES = {
    7: "Get handed out a connection that was unusable or had been idle for longer than the configured lifetime",
    1: "a pooled connection was handed out while another actor held it (or used / returned by an actor that does not hold it)",
    2: "a connection was handed out or used after it had been closed",
    3: "a connection was closed twice",
    4: "the pool closed a connection that an actor was holding",
    5: "an operation on the pool panicked",
    6: "operations on the pool did not terminate",
}
TRUSTED = [
    "Coq 8.16.1 kernel (coqc); vm_compute",
    "harness/c19 (Go: instrumented connection objects; sequential operation sequences, and concurrent workers with random yields whose event log is appended under one mutex in an order consistent with happens-before)",
    "Conc/Pool.v is a hand-written transition system of pool.go (atomic sections under keysLock, unlocked receive loop, drains); the location of a connection is a function of the connection (a value sent on a Go channel is received once) and buffer occupancy is a choice of the step; Conc/PoolSeq.v is its sequential, executable counterpart used for the correspondence - the link between the two is by construction, not proved",
    "the Go scheduler is not controlled: the concurrent stream samples interleavings, the theorems quantify over all of them",
]

def run(ctx):
    ctx.trusted = TRUSTED
    ok, detail = core.coq_build(ctx, ["theories/Props/C19.vo", "theories/Conc/PoolCorr.vo"])
    ctx.oblige("coq build of Props/C19.vo and its dependencies", ok, detail)
    core.audit(ctx)
    if not ok:
        return
    core.check_theorems(ctx, "theories/Props/C19.v", "Props.C19")
    ov = core.write_overlay(ctx, {"internal/smtpconn/pool/zz_verif_c19_test.go": "harness/c19/c19_test.go",
                                  "internal/target/remote/zz_verif_c19r_test.go": "harness/c19/c19_remote_test.go"},
                            {"internal/smtpconn/pool": "pool", "internal/target/remote": "remote"})
    q = ctx.tier == "quick"
    core.generic_corr(ctx, overlay=ov, pkg="internal/smtpconn/pool", run="TestVerif_C19", n=300 if q else 6000,
                      corr_module="Conc.PoolCorr", clause_names=CLAUSES, name="sequential", shard=300)
    core.generic_corr(ctx, overlay=ov, pkg="internal/smtpconn/pool", run="TestVerif_C19Conc", n=25 if q else 400,
                      corr_module="Conc.PoolCorr", clause_names=CLAUSES, name="concurrent", shard=5)
    core.generic_corr(ctx, overlay=ov, pkg="internal/target/remote", run="TestVerif_C19Remote", n=150 if q else 3000,
                      corr_module="Conc.PoolCorr", clause_names=CLAUSES, name="remote", shard=300)
    ctx.coverage["rule"] = ("sequential: sequences of 2-15 operations over 3 keys, idle bound 0-2, key bound 1-3, connection and "
                            "bucket lifetimes never / always exceeded, unusable and old connections, one shutdown; concurrent: 2-8 "
                            "workers x 30-70 get/use/return-or-close iterations on 1-3 keys with idle bound 1-2, clean-up sweeps and "
                            "one shutdown racing with them")
