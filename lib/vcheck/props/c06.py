# C06 - check verdicts enforced, every stage seen once
from .. import core

CLAUSES = {
    1: "a command (MAIL, RCPT or the body stage) was accepted although a check called for it rejected",
    4: "a target received the message without the quarantine flag although a check quarantined in an accepted command or the DMARC policy quarantines",
    5: "the quarantine flag was set although no check quarantined and the DMARC policy does not ('ignore' must change nothing)",
    6: "a per-message check state saw the same stage twice",
    7: "the message was delivered although an applicable check did not see connection, sender, every accepted recipient of its scope and the body exactly once",
    8: "the message was delivered although the DMARC policy rejects",
    9: "the atomic (SMTP) and the per-recipient (LMTP) body path disagree on accept / reject / quarantine",
    10: "the remote target did not refuse a quarantined message for some recipient",
}
TRUSTED = [
    "Coq 8.16.1 kernel (coqc); vm_compute",
    "harness/c06 (Go: scripted checks with per-call delays of 0-300 us to vary completion order; recording targets; pipeline built directly from its configuration structs; DMARC policy published through go-mockdns)",
    "Pipeline/Checks.v is a hand-written model of check_runner.go and of Body / BodyNonAtomic; targets never fail in it (C03), modifiers and header rewriting are outside it",
    "the order in which destination blocks are consulted at the body stage is a Go map iteration; the model uses first-use order, logs of refused bodies are compared without the body calls",
]

def run(ctx):
    ctx.trusted = TRUSTED
    ok, detail = core.coq_build(ctx, ["theories/Props/C06.vo", "theories/Pipeline/ChecksCorr.vo"])
    ctx.oblige("coq build of Props/C06.vo and its dependencies", ok, detail)
    core.audit(ctx)
    if not ok:
        return
    core.check_theorems(ctx, "theories/Props/C06.v", "Props.C06")
    ov = core.write_overlay(ctx, {"internal/msgpipeline/zz_verif_c06_test.go": "harness/c06/c06_test.go",
                                  "internal/target/remote/zz_verif_c06r_test.go": "harness/c06/c06_remote_test.go"},
                            {"internal/msgpipeline": "msgpipeline", "internal/target/remote": "remote"})
    n = 500 if ctx.tier == "quick" else 10000
    core.generic_corr(ctx, overlay=ov, pkg="internal/msgpipeline", run="TestVerif_C06", n=n,
                      corr_module="Pipeline.ChecksCorr", clause_names=CLAUSES, name="checks", shard=125)
    core.generic_corr(ctx, overlay=ov, pkg="internal/msgpipeline", run="TestVerif_C06Repeat", n=0,
                      corr_module="Pipeline.ChecksCorr", clause_names=CLAUSES, name="repeated_rcpt")
    core.generic_corr(ctx, overlay=ov, pkg="internal/target/remote", run="TestVerif_C06Remote", n=20,
                      corr_module="Pipeline.ChecksCorr", clause_names=CLAUSES, name="remote", shard=100)
    ctx.coverage["rule"] = ("1-4 scripted checks over global / source / 1-3 destination blocks (shared instances allowed), 0-3 "
                            "verdicts (ignore / quarantine / reject) over the stages of the case, DMARC policy none / quarantine / "
                            "reject, 1-3 recipients routed to the blocks, each case run on the atomic and on the per-recipient "
                            "body path with independent random per-call delays; non-trivial = tag != 0")
