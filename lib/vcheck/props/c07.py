# C07 - DMARC verdict and action
from .. import core

CLAUSES = {
    1: "verdict 'pass' differs from 'an aligned passing DKIM signature or aligned passing SPF identity exists'",
    2: "action differs from the published policy for a non-pass verdict (or a pass was not accepted)",
    3: "temporary DNS failure while fetching the policy did not refuse with 450 4.7.1",
    4: "a header without exactly one author address obtained a pass",
    5: "reject policy: reply code class does not match (permanent for fail, temporary for temperror)",
    6: "pass without any applicable policy record",
    7: "message not accepted although no policy record applies",
    8: "verdict temperror differs from 'alignment left undecided by a temporary authentication error'",
}
TRUSTED = [
    "Coq 8.16.1 kernel (coqc); vm_compute",
    "harness/c07 (Go generator, scripted TXT resolver, checkRunner.applyResults driven directly)",
    "public-suffix list = Section variables org/psuffix; per case a table recorded from golang.org/x/net/publicsuffix",
    "record syntax (go-msgauth dmarc.Parse) and From parsing (net/mail) are library code: the model takes the parsed record and the header shape",
    "pct: only absent/100 are exercised (math/rand is not controlled)",
]

def run(ctx):
    ctx.trusted = TRUSTED
    ok, detail = core.coq_build(ctx, ["theories/Props/C07.vo", "theories/Dmarc/Corr.vo"])
    ctx.oblige("coq build of Props/C07.vo and its dependencies", ok, detail)
    core.audit(ctx)
    if not ok:
        return
    core.check_theorems(ctx, "theories/Props/C07.v", "Props.C07")
    ov = core.write_overlay(ctx, {"internal/msgpipeline/zz_verif_c07_test.go": "harness/c07/c07_test.go"},
                            {"internal/msgpipeline": "msgpipeline"})
    n = 1200 if ctx.tier == "quick" else 30000
    core.generic_corr(ctx, overlay=ov, pkg="internal/msgpipeline", run="TestVerif_C07", n=n,
                      corr_module="Dmarc.Corr", clause_names=CLAUSES, name="dmarc", shard=500,
                      extra_env={"VERIF_THOROUGH": "1" if ctx.tier == "thorough" else "0"})
    ctx.coverage["rule"] = ("structured sweep SPF value x DKIM value x identifier-domain relation x alignment mode (a third of it in the "
                            "quick tier, all 3528 in thorough) plus generated cases over 15 domains (exact/sub/sibling/public-suffix/"
                            "unrelated/upper-case), 6 From-header shapes, 10 policy placements / lookup outcomes, 0-3 DKIM results, "
                            "p/sp/adkim/aspf/pct; non-trivial = every case (tag = verdict, action, header, record, dns bits), distinct by case text")
