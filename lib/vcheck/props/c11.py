# C11 - limits enforced, permits returned
from .. import core

CLAUSES = {
    20: "target.remote kept a limit permit (message, source or destination scope) after the delivery was committed, aborted or refused",
    1: "more deliveries hold a permit than the configured concurrency limit of a scope (all / source IP / sender domain / destination domain)",
    2: "returning a permit that is held crashed (mismatched Release)",
    3: "acquiring a permit crashed",
    30: "bucket reaper: more holders of a key than its concurrency limit (a bucket with permits out was dropped, or a dropped bucket was handed out)",
    31: "bucket reaper: returning a held permit crashed, or a take crashed",
    4: "after quiescence (everything returned) a permit could not be acquired although only concurrency limits are configured",
}
TRUSTED = [
    "Coq 8.16.1 kernel (coqc); vm_compute",
    "harness/c11 (Go: Group built through Init from configuration nodes; sequential histories with 2 ms time-outs, 20 020 distinct keys, 64-worker stress run counting concurrent holders)",
    "Limits/Model.v: a blocked take is represented by its time-out outcome; rate limiters never refill during a run (1 h period); bucket reaping is outside that model and has its own: Limits/Reap.v (one BucketSet of semaphores, ReapInterval 150 ms, idle periods of 200 ms; histories whose segments between idle periods took more than 75 ms are re-run, then dropped and counted)",
    "session-level and remote-target permit lifetimes are covered by C03 / C05 harnesses, not here",
]

def run(ctx):
    ctx.trusted = TRUSTED
    ok, detail = core.coq_build(ctx, ["theories/Props/C11.vo", "theories/Limits/Corr.vo", "theories/Limits/Reap.vo", "theories/Limits/ReapLemmas.vo", "theories/Limits/ReapMon.vo", "theories/Limits/RemoteCorr.vo", "theories/Limits/SessionCorr.vo"])
    ctx.oblige("coq build of Props/C11.vo and its dependencies", ok, detail)
    core.audit(ctx)
    if not ok:
        return
    core.check_theorems(ctx, "theories/Props/C11.v", "Props.C11")
    ov = core.write_overlay(ctx, {"internal/limits/zz_verif_c11_test.go": "harness/c11/c11_test.go",
                                  "internal/limits/zz_verif_c11reap_test.go": "harness/c11/c11_reap_test.go",
                                  "internal/target/remote/zz_verif_c11r_test.go": "harness/c11/c11_remote_test.go",
                                  "internal/endpoint/smtp/zz_verif_c03_test.go": "harness/c03/c03_test.go"},
                            {"internal/limits": "limits", "internal/target/remote": "remote", "internal/endpoint/smtp": "smtp"})
    core.generic_corr(ctx, overlay=ov, pkg="internal/limits", run="TestVerif_C11",
                      n=(400 if ctx.tier == "quick" else 15000), corr_module="Limits.Corr", clause_names=CLAUSES,
                      name="limits", shard=500)
    core.generic_corr(ctx, overlay=ov, pkg="internal/limits", run="TestVerif_C11Reap",
                      n=(90 if ctx.tier == "quick" else 1500), corr_module="Limits.Reap", clause_names=CLAUSES,
                      name="reaper", shard=500)
    core.generic_corr(ctx, overlay=ov, pkg="internal/target/remote", run="TestVerif_C11Remote",
                      n=(60 if ctx.tier == "quick" else 1200), corr_module="Limits.RemoteCorr", clause_names=CLAUSES,
                      name="remote", shard=600)
    # the endpoint's side of the permit lifetime: the sessions of the C03 harness (limits configured;
    # transactions ended by DATA, RSET, QUIT, disconnect, a repeated EHLO, refusals at every stage, targets
    # whose Start / AddRcpt / Body / Commit / Abort fail), looked at for leaked permits only
    core.generic_corr(ctx, overlay=ov, pkg="internal/endpoint/smtp", run="TestVerif_C03",
                      n=(250 if ctx.tier == "quick" else 4000), corr_module="Limits.SessionCorr",
                      clause_names={6: "endpoint: a permit taken for a transaction (all / source IP / sender domain) was not returned by the end of the session"},
                      name="endpoint", shard=125)
    st = ctx.stats.get("limits", {})
    def num(k):
        try:
            return int(st.get(k, -1))
        except ValueError:
            return -1
    ctx.coverage["stress"] = {k: num(k) for k in ("stress_over_cap", "stress_free_after", "stress_cap_all", "many_keys_crashes")}
    bad = []
    if num("stress_over_cap") != 0:
        bad.append("concurrent stress run: %d observations of more holders than the limit" % num("stress_over_cap"))
    if num("many_keys_crashes") != 0:
        bad.append("%d crashes while cycling through 20 020 distinct keys" % num("many_keys_crashes"))
    if num("stress_free_after") != num("stress_cap_all"):
        bad.append("after the stress run only %d of %d permits can be acquired" % (num("stress_free_after"), num("stress_cap_all")))
    if bad:
        rp = core.write_replay(ctx, "impl-violates", {"source": "stress / many-keys runs of harness/c11", "detail": bad})
        ctx.violations.append({"kind": "impl-violates", "replay": rp, "suffix": "", "what": "; ".join(bad)})
    ctx.coverage["rule"] = ("limit configurations of 1-4 lines over the four scopes (concurrency 0-3, rate 0-4), bucket-table capacity 2-4 or 50, "
                            "histories of 4-20 operations over 2-5 keys with well-bracketed releases, followed by release of everything and a probe "
                            "of 8 takes; every tenth history has unmatched releases; plus 20 020 distinct keys and a 64-worker stress run; "
                            "non-trivial = every case, distinct by case text")
