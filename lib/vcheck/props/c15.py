# C15 - sender authorisation
from .. import core

CLAUSES = {
    1: "an unauthenticated client was not refused",
    2: "accepted although the envelope sender is not an address the user is entitled to",
    4: "a normalisation setting identified two strings its contract keeps apart (casefold: different lower-case forms; noop: different strings), so an address that is not the user's compares equal to one that is",
    3: "accepted although a From address (in some From field) is not one the user is entitled to and no entitled Sender address covers it",
}
TRUSTED = [
    "Coq 8.16.1 kernel (coqc); vm_compute",
    "harness/c15 (Go generator; normalizers, prepare_email / user_to_email tables, address.Split and net/mail ParseAddressList / ParseAddress recorded as tables per case on the strings the case can reach; header fields as go-message textproto returns them)",
    "Auth/Authz.v is a hand-written model of check.authorize_sender and authz.AuthorizeEmailUse; ReasonOverride of a fail action and the debug log are not modelled",
    "the contract of the normalisation settings noop and casefold (Auth/NormCorr.v) is stated against Go's unicode.ToLower, recorded per string; the precis* settings are oracles (golang.org/x/text)",
    "submissionPrepare (header sanity on submission) runs after the checks and is not part of this model",
]

def run(ctx):
    ctx.trusted = TRUSTED
    ok, detail = core.coq_build(ctx, ["theories/Props/C15.vo", "theories/Auth/AuthzCorr.vo", "theories/Auth/NormCorr.vo"])
    ctx.oblige("coq build of Props/C15.vo and its dependencies", ok, detail)
    core.audit(ctx)
    if not ok:
        return
    core.check_theorems(ctx, "theories/Props/C15.v", "Props.C15")
    ov = core.write_overlay(ctx, {"internal/check/authorize_sender/zz_verif_c15_test.go": "harness/c15/c15_test.go"},
                            {"internal/check/authorize_sender": "authorize_sender"})
    n = 600 if ctx.tier == "quick" else 12000
    core.generic_corr(ctx, overlay=ov, pkg="internal/check/authorize_sender", run="TestVerif_C15", n=n,
                      corr_module="Auth.AuthzCorr", clause_names=CLAUSES, name="authz", shard=200)
    core.generic_corr(ctx, overlay=ov, pkg="internal/check/authorize_sender", run="TestVerif_C15Norm", n=400 if ctx.tier == "quick" else 6000,
                      corr_module="Auth.NormCorr", clause_names=CLAUSES, name="normalizers", shard=400)
    ctx.coverage["rule"] = ("generated configurations (7 normalizers on either side, identity / single / list / domain / '*' "
                            "entitlement tables, identity / single / multi prepare_email tables, reject / quarantine / ignore "
                            "actions, check_header on/off) x messages (MAIL FROM, 0-2 From fields, 0-2 Sender fields, each "
                            "address entitled or not, in case / NFD / upper-case-domain / IDN spellings, as bare address, "
                            "angle form, display-name tricks, encoded words, folded, lists, groups, malformed); non-trivial = tag != 0.  normalizers: the functions behind the seven setting names on pairs of "
                            "spellings (case pairs, sharp s / ss, long s, final sigma, ligatures, full-width, dotted I, Kelvin sign, "
                            "titlecase digraphs) in local part or domain, against the contract of noop and casefold (per-character "
                            "lower case from Go's unicode tables)")
