# C20 - configuration parser
from .. import core

CLAUSES = {
    1: "parser.Read panicked",
    2: "accepted tree violates a post-condition (macro/snippet/import left, ill-formed directive name, nesting beyond the limit)",
    3: "canonical print of an accepted, expressible tree does not read back as the same tree",
}
TRUSTED = [
    "Coq 8.16.1 kernel (coqc); vm_compute",
    "harness/c20 (Go generator: grammar + mutation + random bytes + corpus + shipped files; canonical printer mirrored in Cfg/Model.v print_nodes and compared byte for byte)",
    "C20_print_read_roundtrip assumes two facts about the Unicode tables (no letter/digit above U+007F is a space; U+FEFF is neither letter nor digit): checked against Go's unicode package over all code points on every run",
    "Cfg/Model.v is a hand-written model of the lexer, dispenser, parser, macro/snippet/import and environment expansion over rune lists; unicode.IsSpace/IsLetter/IsDigit above U+007F are tables recorded per case; regexp and strings.Replacer semantics are re-implemented for the two patterns used",
    "inputs whose import expansion is exponential are not generated (known finding C20/103); a 5 s guard skips a case that is slow",
]

def shipped(ctx):
    """generated obligation: the model reader accepts the shipped configuration files (current bytes)"""
    import os, unicodedata
    GO_SPACES = {0x85, 0xA0, 0x1680, 0x2028, 0x2029, 0x202F, 0x205F, 0x3000} | set(range(0x2000, 0x200B))
    defs, goals = [], []
    for i, name in enumerate(["maddy.conf", "maddy.conf.docker"]):
        data = open(os.path.join(core.REPO, name), "rb").read()
        runes = [ord(c) for c in data.decode("utf-8", errors="replace")]
        hi = sorted(set(r for r in runes if r >= 128))
        sp = [r for r in hi if r in GO_SPACES]
        le = [r for r in hi if unicodedata.category(chr(r)).startswith("L")]
        di = [r for r in hi if unicodedata.category(chr(r)) == "Nd"]
        tab = lambda l: "[" + ";".join("%d%%N" % x for x in l) + "]"
        defs.append("Definition conf%d : list N := [%s]%%N." % (i, ";".join(str(r) for r in runes)))
        defs.append("Definition tab%d (t : list N) (c : N) : bool := existsb (N.eqb c) t." % i)
        goals.append("match read (tab%d %s) (tab%d %s) (tab%d %s) (fun _ => None) [] conf%d with POk (_ :: _ as t) => forallb (goodb (tab%d %s) (tab%d %s)) t = true | _ => False end"
                     % (i, tab(sp), i, tab(le), i, tab(di), i, i, tab(le), i, tab(di)))
    src = "(* generated from the shipped configuration files of the current tree; do not edit *)\n"
    src += "From Maddy Require Import Lib.Base Cfg.Model Cfg.Lemmas.\n" + "\n".join(defs) + "\n"
    src += "Theorem C20_shipped_ok :\n  " + " /\\\n  ".join(goals) + ".\nProof. vm_compute. split; reflexivity. Qed.\nPrint Assumptions C20_shipped_ok.\n"
    vf = os.path.join(ctx.work, "ShippedConf.v")
    open(vf, "w").write(src)
    rc, out = core.sh(["bash", "-c", "ulimit -s unlimited 2>/dev/null; exec timeout 600 coqc -Q %s Maddy -w -notation-overridden ShippedConf.v" % os.path.join(core.COQ, "theories")], cwd=ctx.work)
    ok = rc == 0 and "Closed under the global context" in out
    ctx.oblige("generated theorem C20_shipped_ok: the model reader accepts maddy.conf and maddy.conf.docker with all post-conditions", ok, "" if ok else out[-400:])

def run(ctx):
    ctx.trusted = TRUSTED
    ok, detail = core.coq_build(ctx, ["theories/Props/C20.vo", "theories/Cfg/Corr.vo", "theories/Cfg/Lemmas.vo", "theories/Cfg/RoundTripTop.vo"])
    ctx.oblige("coq build of Props/C20.vo and its dependencies", ok, detail)
    core.audit(ctx)
    if not ok:
        return
    core.check_theorems(ctx, "theories/Props/C20.v", "Props.C20")
    shipped(ctx)
    ov = core.write_overlay(ctx, {"framework/cfgparser/zz_verif_c20_test.go": "harness/c20/c20_test.go"},
                            {"framework/cfgparser": "parser"})
    # the hypotheses of the round-trip theorem about unicode.IsSpace / IsLetter / IsDigit
    rc, log, _, _ = core.run_harness(ctx, ov, "framework/cfgparser", "TestVerif_C20Unicode", 0, "unicode.cases")
    ctx.oblige("oracle facts of C20_print_read_roundtrip hold for Go's Unicode tables (no letter or digit is a space; U+FEFF is neither), all code points",
               rc == 0 and "ok" in log, "" if rc == 0 else log[-400:])
    n = 300 if ctx.tier == "quick" else 8000
    core.generic_corr(ctx, overlay=ov, pkg="framework/cfgparser", run="TestVerif_C20", n=n,
                      corr_module="Cfg.Corr", clause_names=CLAUSES, name="cfg", shard=60)
    st = ctx.stats.get("cfg", {})
    try:
        nodes, nbytes = int(st.get("amplify_nodes", 0)), int(st.get("amplify_input_bytes", 1))
    except ValueError:
        nodes, nbytes = 0, 1
    ctx.coverage["amplification_probe"] = {"input_bytes": nbytes, "nodes": nodes}
    if nodes > 20 * nbytes:
        known = [k for k in core.load_known()["findings"] if k.get("property") == "C20" and k.get("clause") == 103 and k.get("status") == "known"]
        if known:
            ctx.known.append("KNOWN-FINDING: property=C20 " + known[0]["what"])
        else:
            rp = core.write_replay(ctx, "impl-violates", {"source": "amplification probe", "detail": "%d bytes expand to %d nodes" % (nbytes, nodes)})
            ctx.violations.append({"kind": "impl-violates", "replay": rp, "suffix": "", "what": "import expansion amplifies %d bytes to %d nodes" % (nbytes, nodes)})
    ctx.coverage["rule"] = ("corpus of corner cases, the two shipped configuration files, file-import scenarios, grammar-generated "
                            "configurations (macros, snippets with backward imports, env placeholders, comments, CRLF, BOM, continuations, "
                            "nested blocks), byte-level mutations of them and random byte strings; non-trivial = tag != 0 (accepted or panicking), distinct by case text")
