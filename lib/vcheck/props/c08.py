# C08 - DKIM signatures survive spooling and SMTP
from .. import core

CLAUSES = {
    1: "a message signed by modify.dkim did not verify at the next hop after the spool and SMTP",
    2: "the bytes read by the next hop's session differ from the header and body handed to the SMTP client",
    3: "a tampered message (added over-signed field, altered or removed signed field, altered body) still verified",
    4: "the h= tag does not list every over-signed field once more than it occurs and every signed field as often as it occurs",
    5: "adding a field that is not signed broke the signature (sanity of the verifier set-up)",
}
TRUSTED = [
    "Coq 8.16.1 kernel (coqc); vm_compute",
    "harness/c08 (Go: real modify.dkim with generated rsa2048 / ed25519 keys, real queue restarted between attempts, real target.smtp through a recording TCP proxy to a go-smtp server; verification by go-msgauth with the generated public key)",
    "cryptography, hashing and RFC 6376 canonicalization are go-msgauth's (library): the theorems are about the bytes and the field selection, equality of the bytes implies equality of every function of them; Wire/Dot.v models net/textproto's dotWriter and go-smtp's dataReader by hand and is compared with the bytes on the wire",
]

def run(ctx):
    ctx.trusted = TRUSTED
    ok, detail = core.coq_build(ctx, ["theories/Props/C08.vo", "theories/Dkim/Corr.vo"])
    ctx.oblige("coq build of Props/C08.vo and its dependencies", ok, detail)
    core.audit(ctx)
    if not ok:
        return
    core.check_theorems(ctx, "theories/Props/C08.v", "Props.C08")
    ov = core.write_overlay(ctx, {"internal/target/queue/zz_verif_c08_test.go": "harness/c08/c08_test.go"},
                            {"internal/target/queue": "queue"})
    n = 60 if ctx.tier == "quick" else 1500
    core.generic_corr(ctx, overlay=ov, pkg="internal/target/queue", run="TestVerif_C08", n=n,
                      corr_module="Dkim.Corr", clause_names=CLAUSES, name="dkim", shard=60)
    ctx.coverage["rule"] = ("generated messages: 3-9 header fields from 14 names in three spellings of case, with empty / folded / "
                            "long / 8-bit / no-leading-space values and ' :' separators, bodies of 0-8 lines with leading dots, "
                            "trailing white space, empty lines (also at the end), long and 8-bit lines, or empty; rsa2048 and "
                            "ed25519, the four canonicalization pairs, EAI and non-EAI, ASCII and IDN signing domain; three "
                            "terms per message (h= list, wire bytes, verification results)")
