# C17 - address normalization
from .. import core

CLAUSES = {
    1: "Equal(a,b) differs from equality of lookup keys",
    2: "IsASCII differs from 'all code points below U+0080'",
    3: "Split succeeded but re-joining does not give the address back",
    4: "UnquoteMbox(QuoteMbox(m)) != m",
    5: "lookup key not idempotent on a valid address",
    6: "a case / NFC / A-label / trailing-dot variant of a valid address has a different lookup key",
    7: "ToUnicode(ToASCII(a)) != a on a valid address",
}
TRUSTED = [
    "Coq 8.16.1 kernel (coqc); vm_compute",
    "harness/c17 (Go generator; oracle tables recorded from golang.org/x/text norm.NFC, strings.ToLower, x/net/idna on exactly the strings of each case; an unrecorded argument is mapped to itself)",
    "Addr/Model.v is a hand-written model of framework/address and framework/dns helpers over code-point strings (invalid UTF-8 is outside the model; crash-freedom on arbitrary bytes is exercised on the implementation only)",
    "C17_*_partial: hypotheses about the Unicode/IDNA library are premises of the theorem, tested not proved",
]

def run(ctx):
    ctx.trusted = TRUSTED
    ok, detail = core.coq_build(ctx, ["theories/Props/C17.vo", "theories/Addr/Corr.vo"])
    ctx.oblige("coq build of Props/C17.vo and its dependencies", ok, detail)
    core.audit(ctx)
    if not ok:
        return
    core.check_theorems(ctx, "theories/Props/C17.v", "Props.C17")
    ov = core.write_overlay(ctx, {"framework/address/zz_verif_c17_test.go": "harness/c17/c17_test.go"},
                            {"framework/address": "address"})
    n = 250 if ctx.tier == "quick" else 4000
    core.generic_corr(ctx, overlay=ov, pkg="framework/address", run="TestVerif_C17", n=n,
                      corr_module="Addr.Corr", clause_names=CLAUSES, name="addr", shard=150,
                      extra_env={"VERIF_THOROUGH": "1" if ctx.tier == "thorough" else "0"})
    ctx.coverage["rule"] = ("(i) every string of length <= 2 (thorough: 3) over a 12-symbol sub-alphabet, (ii) generated valid "
                            "addresses (IDNA-valid U-labels, NFC, lower case) each with 8-9 spelling variants, (iii) random strings "
                            "over the 35-symbol alphabet of the property, (iv) arbitrary bytes for crash-freedom (implementation only, "
                            "counted in generator_stats); non-trivial = tag != 0, distinct by case text")
