# C09 - per-recipient results name exactly the accepted recipients
from .. import core

CLAUSES = {
    1: "target.remote: the statuses of a transaction do not name exactly the recipients accepted in it, as given (converted address, recipient of an earlier transaction on the reused connection, missing or extra key)",
    2: "target.lmtp: the statuses do not name exactly the accepted recipients, as given",
    3: "the pipeline reported the result of a rewritten recipient under another address than the one the client supplied",
    110: "two client addresses rewritten to the same effective address: MsgMetadata.OriginalRcpts is a single-valued map, both results are reported under the address rewritten last and none under the other",
}
TRUSTED = [
    "Coq 8.16.1 kernel (coqc); vm_compute",
    "harness/c09 (Go: real remote target with go-mockdns and its connection pool, real target.lmtp, scripted testutils SMTP/LMTP servers; address.ToASCII recorded as a table per case)",
    "Remote/Status.v is a hand-written model of smtpconn.C's recipient bookkeeping, remote / lmtp BodyNonAtomic and the pipeline's statusCollector; one connection per history (recipients of one domain), MX selection, TLS and policies are outside it (C05)",
]

def run(ctx):
    ctx.trusted = TRUSTED
    ok, detail = core.coq_build(ctx, ["theories/Props/C09.vo", "theories/Remote/StatusCorr.vo"])
    ctx.oblige("coq build of Props/C09.vo and its dependencies", ok, detail)
    core.audit(ctx)
    if not ok:
        return
    core.check_theorems(ctx, "theories/Props/C09.v", "Props.C09")
    ov = core.write_overlay(ctx, {"internal/target/remote/zz_verif_c09_test.go": "harness/c09/c09_remote_test.go",
                                  "internal/target/smtp/zz_verif_c09l_test.go": "harness/c09/c09_lmtp_test.go",
                                  "internal/msgpipeline/zz_verif_c09p_test.go": "harness/c09/c09_pipe_test.go"},
                            {"internal/target/remote": "remote", "internal/target/smtp": "smtp_downstream",
                             "internal/msgpipeline": "msgpipeline"})
    q = ctx.tier == "quick"
    core.generic_corr(ctx, overlay=ov, pkg="internal/target/remote", run="TestVerif_C09Remote", n=80 if q else 1500,
                      corr_module="Remote.StatusCorr", clause_names=CLAUSES, name="remote", shard=200)
    core.generic_corr(ctx, overlay=ov, pkg="internal/target/remote", run="TestVerif_C09RemoteSpell", n=80 if q else 1500,
                      corr_module="Remote.StatusCorr", clause_names=CLAUSES, name="remote_spellings", shard=200)
    core.generic_corr(ctx, overlay=ov, pkg="internal/target/smtp", run="TestVerif_C09Lmtp", n=80 if q else 1500,
                      corr_module="Remote.StatusCorr", clause_names=CLAUSES, name="lmtp", shard=200)
    core.generic_corr(ctx, overlay=ov, pkg="internal/msgpipeline", run="TestVerif_C09Pipe", n=200 if q else 4000,
                      corr_module="Remote.StatusCorr", clause_names=CLAUSES, name="pipeline", shard=400)
    core.generic_corr(ctx, overlay=ov, pkg="internal/msgpipeline", run="TestVerif_C09PipeE2E", n=200 if q else 4000,
                      corr_module="Remote.StatusCorr", clause_names=CLAUSES, name="pipeline_e2e", shard=400)
    ctx.coverage["rule"] = ("remote_spellings: one transaction of 2-4 recipients spelling one destination domain in several ways (letter case, A-label / U-label), DATA accepted or refused.  remote: histories of 1-4 transactions over one pooled connection, 1-4 recipients each over case "
                            "variants, non-ASCII local parts, duplicates, an IDN or ASCII domain; next hop with / without "
                            "SMTPUTF8, refused recipients, failing DATA.  lmtp: 1-4 recipients incl. IDN in both spellings, "
                            "per-recipient replies, transfer failures.  pipeline: rewrite tables incl. N-to-1 and status sequences; pipeline end to end: 1-to-N rewrite tables of one pipeline or of two nested ones, forwarding chains whose middle address the client also names, real AddRcpt and BodyNonAtomic over a next hop answering per recipient")
