# C13 - DANE
from .. import core

CLAUSES = {
    1: "authenticated differs from: usable EE record matches the leaf, or usable TA record + chain verifies to matched CA certificates",
    2: "refusal differs from: records exist and (no TLS, or usable records exist and none authenticates)",
    3: "exclusively unusable records authenticated or refused a TLS connection",
    4: "verifyDANE panicked on a non-empty chain",
    5: "TLSA discovery failure did not defer (temporary error expected)",
    6: "NXDOMAIN during discovery changed the outcome",
    7: "CheckConn authenticated without a matching record",
    8: "CheckConn returned no opinion although the record set authenticates or refuses",
    9: "CheckConn refused permanently although the specification does not refuse",
    10: "CheckConn panicked / temporary failure with records present",
    22: "discoverTLSA ignored authenticated TLSA records published at the MX name although the canonical name has none of its own (no fallback to the initial name)",
    23: "discoverTLSA swallowed a failing TLSA lookup at the canonical name of an aliased MX instead of deferring (the connection then goes ahead without the records that could not be fetched)",
    21: "discoverTLSA used records from an answer without the AD bit, or did not defer on a failing query",
}
TRUSTED = [
    "Coq 8.16.1 kernel (coqc); vm_compute",
    "harness/c13 (Go: real ECDSA certificate chains, miekg/dns TLSA records; the discovery future is preset for CheckConn)",
    "TLSA.Verify and crypto/x509 Verify are Section variables matches/chains; per case tables recorded from the real functions (x509 for every subset of the presented chain as roots)",
    "an empty PeerCertificates slice with a completed handshake is outside the model's guard (Go's TLS client always reports the server chain)",
]

def run(ctx):
    ctx.trusted = TRUSTED
    ok, detail = core.coq_build(ctx, ["theories/Props/C13.vo", "theories/Remote/DaneCorr.vo", "theories/Remote/DaneDiscCorr.vo"])
    ctx.oblige("coq build of Props/C13.vo and its dependencies", ok, detail)
    core.audit(ctx)
    if not ok:
        return
    core.check_theorems(ctx, "theories/Props/C13.v", "Props.C13")
    ov = core.write_overlay(ctx, {"internal/target/remote/zz_verif_c13_test.go": "harness/c13/c13_test.go",
                                  "internal/target/remote/zz_verif_c13d_test.go": "harness/c13/c13_disc_test.go"},
                            {"internal/target/remote": "remote"})
    n = 800 if ctx.tier == "quick" else 20000
    core.generic_corr(ctx, overlay=ov, pkg="internal/target/remote", run="TestVerif_C13", n=n,
                      corr_module="Remote.DaneCorr", clause_names=CLAUSES, name="dane", shard=500)
    core.generic_corr(ctx, overlay=ov, pkg="internal/target/remote", run="TestVerif_C13Disc", n=0,
                      corr_module="Remote.DaneDiscCorr", clause_names=CLAUSES, name="discovery", shard=500)
    ctx.coverage["rule"] = ("record multisets of 0-4 TLSA records (usage 0-4/255, selector 0-3/255, matching type 0-4/255; data of the leaf, "
                            "intermediate, root, an unrelated CA, or garbage) against 9 real chains (leaf only, +intermediate, +root, expired, "
                            "wrong name, extra CA, self-signed CA leaf), with/without handshake; discovery outcome records/SERVFAIL/timeout/NXDOMAIN; "
                            "non-trivial = every case, distinct by case text")
