# C12 - queue scheduler dispatches each entry once; shutdown safe in every interleaving
from .. import core

CLAUSES = {
    1: "an entry was dispatched more than once (or not at all although it was due long before the end of the run)",
    2: "something was dispatched that was never added",
    3: "an entry was dispatched before its scheduled time",
    4: "an entry was dispatched after Close had returned",
    5: "Add or Close panicked",
    6: "Add or Close did not terminate",
    7: "a delivery attempt was running, or was started, after Queue.Close had returned",
    8: "a spooled message was renamed to .meta_broken during shutdown",
    9: "a message is neither delivered nor in the spool after shutdown",
}
TRUSTED = [
    "Coq 8.16.1 kernel (coqc); vm_compute",
    "harness/c12 (Go: real TimeWheel and Queue; wall-clock timing with millisecond spacing in the sequential stream; producers and one Close racing in the concurrent stream; a slow, temporarily failing scripted target in the queue stream)",
    "Conc/Wheel.v is a hand-written transition system of timewheel.go and of the dispatch / Close handshake of queue.go with a logical clock; the Go scheduler and timers are sampled by the harness, the theorems quantify over all interleavings of the modelled steps; no AST-level yield injection is used",
]

def run(ctx):
    ctx.trusted = TRUSTED
    ok, detail = core.coq_build(ctx, ["theories/Props/C12.vo", "theories/Conc/WheelCorr.vo"])
    ctx.oblige("coq build of Props/C12.vo and its dependencies", ok, detail)
    core.audit(ctx)
    if not ok:
        return
    core.check_theorems(ctx, "theories/Props/C12.v", "Props.C12")
    ov = core.write_overlay(ctx, {"internal/target/queue/zz_verif_c12_test.go": "harness/c12/c12_test.go"},
                            {"internal/target/queue": "queue"})
    q = ctx.tier == "quick"
    core.generic_corr(ctx, overlay=ov, pkg="internal/target/queue", run="TestVerif_C12", n=25 if q else 300,
                      corr_module="Conc.WheelCorr", clause_names=CLAUSES, name="order", shard=300)
    core.generic_corr(ctx, overlay=ov, pkg="internal/target/queue", run="TestVerif_C12Conc", n=60 if q else 1500,
                      corr_module="Conc.WheelCorr", clause_names=CLAUSES, name="concurrent", shard=20)
    core.generic_corr(ctx, overlay=ov, pkg="internal/target/queue", run="TestVerif_C12Queue", n=40 if q else 800,
                      corr_module="Conc.WheelCorr", clause_names=CLAUSES, name="queue", shard=400)
    ctx.coverage["rule"] = ("order: 1-6 entries with times on a 4 ms grid (ties allowed) added before any is due; concurrent: 1-4 "
                            "producers x up to 200 Add calls with targets -0.5..+3.5 ms around now and one Close after 0.2-3.2 ms; "
                            "queue: 3-12 messages, 1-3 parallel attempts, a target failing temporarily 30-80% of the time, retries "
                            "every 0.2 ms, Close after 0-3 ms")
