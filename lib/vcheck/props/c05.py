# C05 - outbound mail only over connections that satisfy the security policy
from .. import core

CLAUSES = {
    1: "content was sent over a connection below local_policy min_tls_level (no TLS, or unauthenticated where authentication is required)",
    2: "content was sent to an MX below local_policy min_mx_level",
    3: "MTA-STS enforce mode: content was sent to a non-matching MX or without verified TLS",
    4: "DANE: content was sent although the TLSA lookup failed, the records do not match, or without TLS",
    5: "a REQUIRETLS message was sent without authenticated TLS or to an unauthenticated MX",
    6: "a quarantined message was relayed",
    8: "the REQUIRETLS flag of the message was cleared by the delivery attempt (it is shared with the queue and with the other recipient domains)",
    7: "content was received by a server that is not an MX candidate of the scenario",
}
TRUSTED = [
    "Coq 8.16.1 kernel (coqc); vm_compute",
    "harness/c05 (Go: real remote target and policies; scripted plaintext / STARTTLS servers on 127.0.0.1-2 from internal/testutils, go-mockdns DNS server with AD bit and TLSA records, stub MTA-STS fetcher; what each server received and over which TLS state)",
    "Remote/Policy.v is a hand-written model of connect / attemptMX / connectionForDomain / the pool (one slot per domain) with the facts about an MX as inputs; certificate validation, TLSA matching (C13) and the MTA-STS fetch are inputs, not modelled; STARTTLS command failures and non-verification TLS errors are in the model but not exercised",
]

def run(ctx):
    ctx.trusted = TRUSTED
    ok, detail = core.coq_build(ctx, ["theories/Props/C05.vo", "theories/Remote/PolicyCorr.vo"])
    ctx.oblige("coq build of Props/C05.vo and its dependencies", ok, detail)
    core.audit(ctx)
    if not ok:
        return
    core.check_theorems(ctx, "theories/Props/C05.v", "Props.C05")
    ov = core.write_overlay(ctx, {"internal/target/remote/zz_verif_c05_test.go": "harness/c05/c05_test.go"},
                            {"internal/target/remote": "remote"})
    n = 150 if ctx.tier == "quick" else 3000
    core.generic_corr(ctx, overlay=ov, pkg="internal/target/remote", run="TestVerif_C05", n=n,
                      corr_module="Remote.PolicyCorr", clause_names=CLAUSES, name="policy", shard=150)
    ctx.coverage["rule"] = ("policy sets over {dnssec, mtasts (none/testing/enforce x MX match), dane (no record / lookup failure / "
                            "match / mismatch / unusable), local_policy (min MX 0-2, min TLS 0-2)}, override allowed or not, relaxed "
                            "or strict REQUIRETLS, AD bit on/off, 1-2 MX candidates (absent / plaintext / STARTTLS with matching "
                            "or mismatching certificate name, REQUIRETLS offered or not), histories of 1-3 messages with "
                            "REQUIRETLS / TLS-Required: No / quarantine flags and failing DATA; non-trivial = tag != 0")
