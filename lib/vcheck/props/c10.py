# C10 - spool preserves bytes and envelope, never stores credentials
from .. import core

H_CLAUSES = {1: "printing a parsed header and parsing it again does not give the same raw fields"}
CLAUSES = {
    1: "header or body handed to the target differs from what the queue accepted",
    2: "sender, SMTPUTF8, REQUIRETLS, TLS-Required override or original-recipient mapping differ at hand-off",
    3: "recipients handed to the target are not the pending ones",
    4: "the session's user name or password was found in a spool file",
}
TRUSTED = [
    "Coq 8.16.1 kernel (coqc); vm_compute",
    "harness/c10 (Go: recording target, optional queue restart between attempts, spool scan for the session credentials)",
    "Wire/Header.v is a hand-written byte-level model of go-message ReadHeader/WriteHeader, tied by the header stream; JSON (de)serialisation of the metadata is a Section variable (its round trip is assumed in the theorem and exercised by the hand-off stream)",
]

def run(ctx):
    ctx.trusted = TRUSTED
    ok, detail = core.coq_build(ctx, ["theories/Props/C10.vo", "theories/Wire/HeaderCorr.vo", "theories/Queue/HandoffCorr.vo"])
    ctx.oblige("coq build of Props/C10.vo and its dependencies", ok, detail)
    core.audit(ctx)
    if not ok:
        return
    core.check_theorems(ctx, "theories/Props/C10.v", "Props.C10")
    ov = core.write_overlay(ctx, {"internal/target/queue/zz_verif_c10_test.go": "harness/c10/c10_test.go"},
                            {"internal/target/queue": "queue"})
    core.generic_corr(ctx, overlay=ov, pkg="internal/target/queue", run="TestVerif_C10Header",
                      n=(400 if ctx.tier == "quick" else 20000), corr_module="Wire.HeaderCorr", clause_names=H_CLAUSES,
                      name="header", shard=500)
    core.generic_corr(ctx, overlay=ov, pkg="internal/target/queue", run="TestVerif_C10",
                      n=(40 if ctx.tier == "quick" else 1200), corr_module="Queue.HandoffCorr", clause_names=CLAUSES,
                      name="handoff", shard=8)
    ctx.coverage["rule"] = ("header stream: generated header byte strings (folding, duplicates, 8-bit, bare LF, CR inside lines, long values, "
                            "malformed: leading space, no colon, empty or invalid key, unterminated) with single-byte mutations; hand-off stream: "
                            "messages with such headers plus fields added by maddy, bodies (empty, binary, dot lines, > 1 MiB file buffer, no final "
                            "newline), envelopes (null sender, IDN, quoted local parts), options, original-recipient mapping, first attempt "
                            "failing temporarily for a random subset, optional restart before the retry; non-trivial = every case")
