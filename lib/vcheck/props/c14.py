# C14 - password authentication
from .. import core

CLAUSES = {
    1: "password authentication decided differently from 'the supplied password is the one most recently set for the account the name normalizes to'",
    2: "PLAIN and LOGIN disagree on the same credentials (decision or identity)",
    3: "an authorization identity different from the authenticated name was accepted",
    4: "a successful exchange reported an identity other than the name the client supplied",
    5: "a reply of the wrong kind",
    6: "a submission endpoint accepted MAIL before a successful authentication",
    104: "bcrypt compares only its 72-byte key-schedule input (password, NUL, repeated): a supplied password that differs from the stored one only beyond that (72 stored bytes plus a suffix, or a NUL-separated repetition) is accepted",
}
TRUSTED = [
    "Coq 8.16.1 kernel (coqc); vm_compute",
    "harness/c14 (Go generator; tables recorded per case from precis.UsernameCaseMapped.CompareKey, the configured auth_map_normalize function and the auth_map table on exactly the strings of the case; bcrypt cost lowered by wrapping the exported HashCompute entry)",
    "Auth/Model.v is a hand-written model of auth.pass_table, internal/auth SASLAuth and the MAIL gate of the SMTP session; a stored hash is modelled by the scheme and the password it was computed from (bcrypt: equality of the 72-byte key input; argon2: equality; hash collisions, salts and timing are outside the model)",
    "go-sasl's PLAIN parser and go-smtp's AUTH command handling are exercised but not modelled",
]

def run(ctx):
    ctx.trusted = TRUSTED
    ok, detail = core.coq_build(ctx, ["theories/Props/C14.vo", "theories/Auth/Corr.vo"])
    ctx.oblige("coq build of Props/C14.vo and its dependencies", ok, detail)
    core.audit(ctx)
    if not ok:
        return
    core.check_theorems(ctx, "theories/Props/C14.v", "Props.C14")
    ov = core.write_overlay(ctx, {"internal/auth/pass_table/zz_verif_c14_test.go": "harness/c14/c14_test.go",
                                  "internal/endpoint/smtp/zz_verif_c14s_test.go": "harness/c14/c14_sess_test.go"},
                            {"internal/auth/pass_table": "pass_table", "internal/endpoint/smtp": "smtp"})
    n = 300 if ctx.tier == "quick" else 5000
    core.generic_corr(ctx, overlay=ov, pkg="internal/auth/pass_table", run="TestVerif_C14", n=n,
                      corr_module="Auth.Corr", clause_names=CLAUSES, name="history", shard=150)
    n2 = 120 if ctx.tier == "quick" else 2000
    core.generic_corr(ctx, overlay=ov, pkg="internal/endpoint/smtp", run="TestVerif_C14Sess", n=n2,
                      corr_module="Auth.Corr", clause_names=CLAUSES, name="session", shard=300)
    ctx.coverage["rule"] = ("history stream: histories of 1-12 operations (an authentication is issued as pass_table.AuthPlain, a PLAIN "
                            "exchange and a LOGIN exchange on the same credentials) over working sets of 2-9 user names drawn from "
                            "case / NFC / NFD / width / sharp-s variants and invalid names, passwords incl. empty, 71/72/73 bytes, "
                            "72+suffix, non-ASCII, 300 bytes, NUL; schemes bcrypt/argon2/sha256; six normalization functions; "
                            "no / identity / static / regexp maps.  session stream: command sequences (MAIL, AUTH PLAIN/LOGIN "
                            "good/bad, RSET) against real submission and smtp endpoints over TCP; non-trivial = tag != 0")
