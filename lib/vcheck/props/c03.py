# C03 - every SMTP/LMTP transaction is finalised exactly once and matches its reply
from .. import core

CLAUSES = {
    1: "a target saw a call on a delivery that was not open (never started, already committed or aborted), or a delivery was closed twice",
    2: "a delivery opened on a target was still open when the session ended",
    3: "DATA was answered with success although the delivery of some accepted recipient's target was not committed",
    4: "a transaction that failed before the commit step was committed to some target",
    5: "LMTP: a recipient's reply does not reflect the result of its own target",
    6: "a rate/concurrency permit taken for a transaction was not returned by the end of the session",
    11: "a target was asked to commit a delivery whose body it never accepted (Body failed or was never given)",
    12: "MAIL or RCPT was accepted although the scripted check rejects that sender / recipient",
    13: "a target was committed by something else than a DATA command that ran to its end (e.g. the connection was lost in the middle of the content)",
    107: "a second EHLO/LHLO inside a transaction makes go-smtp create a fresh session but keep its own MAIL/RCPT state: recipients accepted before it are reported as delivered by the next DATA although they belong to the aborted transaction",
    109: "LMTP: the Commit of one target failed after another target had already been committed (map iteration order); the recipients of the committed target are told failure and will be delivered again on retry",
}
TRUSTED = [
    "Coq 8.16.1 kernel (coqc); vm_compute",
    "harness/c03 (Go: raw line client over TCP against a real smtp/lmtp endpoint; scripted targets and check registered as module instances; limits probed by taking the 3 permits of every sender domain after the session)",
    "Session/Model.v is a hand-written model of go-smtp's command dispatch (library, modelled minimally: which Session callback a command causes), of Session and of msgpipelineDelivery; pipelining, BDAT, AUTH and STARTTLS are not exercised",
    "the order of the Body / Commit fan-out is a Go map iteration: logs are compared per delivery after forgetting which targets were reached before the failing one (Session/Corr.v:canon)",
]

def run(ctx):
    ctx.trusted = TRUSTED
    ok, detail = core.coq_build(ctx, ["theories/Props/C03.vo", "theories/Session/Corr.vo"])
    ctx.oblige("coq build of Props/C03.vo and its dependencies", ok, detail)
    core.audit(ctx)
    if not ok:
        return
    core.check_theorems(ctx, "theories/Props/C03.v", "Props.C03")
    ov = core.write_overlay(ctx, {"internal/endpoint/smtp/zz_verif_c03_test.go": "harness/c03/c03_test.go"},
                            {"internal/endpoint/smtp": "smtp"})
    n = 250 if ctx.tier == "quick" else 5000
    core.generic_corr(ctx, overlay=ov, pkg="internal/endpoint/smtp", run="TestVerif_C03", n=n,
                      corr_module="Session.Corr", clause_names=CLAUSES, name="sessions", shard=125)
    ctx.coverage["rule"] = ("sessions of 3-14 commands over {MAIL (6 sender spellings incl. null, upper-case domain, A-label, "
                            "not normalizable), RCPT (2-4 routed recipients, unknown domain), DATA (readable / malformed header), "
                            "RSET, NOOP, repeated EHLO/LHLO, QUIT, dropped connection}, SMTP and LMTP, deferred and immediate "
                            "sender rejection, 3 targets with failure plans over Start / AddRcpt / Body / BodyNonAtomic / Commit / "
                            "Abort, a scripted check failing sender, recipient or body; non-trivial = tag != 0")
