# C16 - error replies are coherent
import os, re
from .. import core

CLAUSES = {
    1: "endpoint reply: basic and enhanced code classes differ (well-annotated error)",
    2: "queue-stored error: basic and enhanced code classes differ (well-annotated error)",
    3: "endpoint reply class 4 <-> IsTemporary disagrees",
    4: "queue-stored class 4 <-> IsTemporaryOrUnspec (retry) disagrees",
    5: "non-ASCII text in a reply to a client without SMTPUTF8",
    6: "unannotated error not reported with the generic text",
    7: "SMTPCode/SMTPEnchCode pair incoherent",
    8: "SMTPCode class 4 <-> IsTemporary disagrees",
    12: "queue: the class of the status recorded for a failed recipient disagrees with the decision taken (retried <-> 4yz; given up before the last permitted try <-> 5yz)",
    13: "queue: no status recorded for a failed recipient",
    11: "reject directive: default enhanced code class differs from the basic code class",
    101: "msgpipeline `reject 4yz` (code only) yields 4yz with enhanced code 5.7.0 (internal/msgpipeline/config.go:parseRejectDirective; the existing test TestMsgPipelineCfg pins this)",
}
TRUSTED = [
    "Coq 8.16.1 kernel (coqc); vm_compute; no native_compute",
    "tools/litgen (go/ast translator of SMTP error literals), regenerated every run",
    "harness/c16 (Go generator of error trees; go-smtp server used to observe the wire form)",
    "Err/Model.v is a hand-written model of exterrors.*, wrapErr, toSMTPErr: tied by the correspondence run only",
    "errors built by maddy are assumed well-annotated (wa): literal sites checked by litgen obligation; dynamic sites (8, listed in evidence) are not",
]

def literals(ctx):
    rc, out = core.sh(["go", "run", "./litgen", core.REPO], cwd=os.path.join(core.VERIF, "tools"), env=core.GOENV)
    # go run mixes stdout/stderr in sh(); run again separating
    import subprocess
    env = dict(os.environ); env.update(core.GOENV)
    p = subprocess.run(["go", "run", "./litgen", core.REPO], cwd=os.path.join(core.VERIF, "tools"), env=env,
                       stdout=subprocess.PIPE, stderr=subprocess.PIPE, text=True)
    if p.returncode != 0:
        ctx.oblige("translator litgen runs", False, p.stderr[-400:])
        return
    vf = os.path.join(ctx.work, "SmtpLiterals.v")
    open(vf, "w").write(p.stdout)
    lits = [l.split("\t") for l in p.stderr.strip().splitlines() if "\t" in l]
    kinds = {}
    for pos, term in lits:
        k = term.strip("(").split(" ")[0]
        kinds[k] = kinds.get(k, 0) + 1
    ctx.coverage["literals"] = {"count": len(lits), "kinds": kinds,
                                "dynamic_sites": [pos for pos, t in lits if t == "LDynamic"]}
    rc, out = core.coqc_file(ctx, vf)
    bad = core._section(out, "BAD")
    bad_idx = [int(x) for x in re.findall(r"(\d+)%N", bad or "")]
    ok = rc == 0 and "Closed under the global context" in out and not bad_idx
    ctx.oblige("generated theorem C16_literals_coherent over %d literals of the current tree" % len(lits), ok,
               "" if ok else out[-300:])
    if bad_idx:
        what = ["%s %s" % tuple(lits[i]) for i in bad_idx if i < len(lits)]
        rp = core.write_replay(ctx, "impl-violates", {"source": "SMTP error literals", "detail": what,
                                                      "case": what[0] if what else None})
        ctx.violations.append({"kind": "impl-violates", "replay": rp, "suffix": "",
                               "what": "incoherent SMTP error literal(s): " + "; ".join(what[:3])})
    ctx.samples.append("literal: %s %s" % tuple(lits[0]) if lits else "no literals")

def run(ctx):
    ctx.trusted = TRUSTED
    ok, detail = core.coq_build(ctx, ["theories/Err/RemoteCorr.vo", "theories/Props/C16.vo", "theories/Err/Corr.vo", "theories/Err/CorrReject.vo",
                                     "theories/Err/QueueCorr.vo"])
    ctx.oblige("coq build of Props/C16.vo and its dependencies", ok, detail)
    core.audit(ctx)
    if ok:
        core.check_theorems(ctx, "theories/Props/C16.v", "Props.C16")
    literals(ctx)
    if not ok:
        return
    gens = {}
    for pkg in ("smtp", "queue"):
        gens[pkg] = os.path.join(ctx.work, "errgen_%s_test.go" % pkg)
        open(gens[pkg], "w").write(open(os.path.join(core.VERIF, "harness/c16/errgen.go.tmpl")).read().replace("@PKG@", pkg))
    ov = core.write_overlay(ctx, {
        "internal/target/queue/zz_verif_export.go": "harness/queue/export.go",
        "internal/endpoint/smtp/zz_verif_c16_test.go": "harness/c16/c16_test.go",
        "internal/endpoint/smtp/zz_verif_c16gen_test.go": gens["smtp"],
        "internal/target/queue/zz_verif_c16gen_test.go": gens["queue"],
        "internal/target/queue/zz_verif_c16q_test.go": "harness/c16/c16_queue_test.go",
        "internal/endpoint/smtp/zz_verif_c16r_test.go": "harness/c16/c16_reject_test.go",
        "internal/msgpipeline/zz_verif_export.go": "harness/msgpipeline/export.go",
        "internal/target/remote/zz_verif_c16m_test.go": "harness/c16/c16_remote_test.go",
    }, {"internal/endpoint/smtp": "smtp", "internal/target/queue": "queue", "internal/target/remote": "remote"})
    n = 400 if ctx.tier == "quick" else 12000
    core.generic_corr(ctx, overlay=ov, pkg="internal/endpoint/smtp", run="TestVerif_C16", n=n,
                      corr_module="Err.Corr", clause_names=CLAUSES, name="errtrees")
    core.generic_corr(ctx, overlay=ov, pkg="internal/target/queue", run="TestVerif_C16Queue",
                      n=300 if ctx.tier == "quick" else 4000,
                      corr_module="Err.QueueCorr", clause_names=CLAUSES, name="queue")
    core.generic_corr(ctx, overlay=ov, pkg="internal/endpoint/smtp", run="TestVerif_C16Reject", n=0,
                      corr_module="Err.CorrReject", clause_names=CLAUSES, name="reject")
    core.generic_corr(ctx, overlay=ov, pkg="internal/target/remote", run="TestVerif_C16Remote", n=0,
                      corr_module="Err.RemoteCorr", clause_names=CLAUSES, name="remote_no_usable_mx")
    ctx.coverage["rule"] = ("remote_no_usable_mx: MX lookups failing in six ways (no such name, SERVFAIL, time-out, unflagged, unparsable, plain error) and every set of 1-3 MX candidates each of which is down (temporary) or has no "
                            "address (permanent), exhaustively, through the real remote target; error trees of depth 1-4 over 8 constructors generated from VERIF_SEED: 70% well-annotated "
                            "stream, 30% malformed stream (annotation keys in field wrappers, class mismatches, odd codes); "
                            "non-trivial = model tag != 0 (well-annotated, annotated, temporary, deadline or unclassified bits), distinct by case text")
