# C01 - one terminal outcome per recipient
from .. import core

CLAUSES = {
    1: "a recipient of a message that left the queue has neither exactly one commit at the target nor exactly one failure report (or has both)",
    2: "a recipient was attempted more than max_tries times",
    3: "a recipient was re-attempted after success or a permanent failure",
    4: "the message is still queued after max_tries attempts",
}
TRUSTED = [
    "Coq 8.16.1 kernel (coqc); vm_compute",
    "harness/c01 (Go: scripted target executing one fault plan per attempt and recording what it committed, recording bounce target; quiescence detected by polling the spool)",
    "Queue/Model.v is a hand-written model of deliver/tryDelivery; failure classes are abstract (temporary / permanent / unclassified)",
    "the theorems assume targets that honour the per-recipient status contract (C09); contract-breaking targets are exercised for model/implementation agreement only",
]

def run(ctx):
    ctx.trusted = TRUSTED
    ok, detail = core.coq_build(ctx, ["theories/Props/C01.vo", "theories/Queue/Corr.vo", "theories/Queue/IntegCorr.vo"])
    ctx.oblige("coq build of Props/C01.vo and its dependencies", ok, detail)
    core.audit(ctx)
    if not ok:
        return
    core.check_theorems(ctx, "theories/Props/C01.v", "Props.C01")
    ov = core.write_overlay(ctx, {"internal/target/queue/zz_verif_c01_test.go": "harness/c01/c01_test.go",
                                  "internal/target/queue/zz_verif_export.go": "harness/queue/export.go",
                                  "internal/target/remote/zz_verif_c01i_test.go": "harness/c01/c01_integ_test.go",
                                  "internal/target/smtp/zz_verif_c01d_test.go": "harness/c01/c01_smtp_test.go"},
                            {"internal/target/queue": "queue", "internal/target/remote": "remote",
                             "internal/target/smtp": "smtp_downstream"})
    n = 400 if ctx.tier == "quick" else 12000
    core.generic_corr(ctx, overlay=ov, pkg="internal/target/queue", run="TestVerif_C01", n=n,
                      corr_module="Queue.Corr", clause_names=CLAUSES, name="queue", shard=600)
    I_CLAUSES = {1: "integration: a recipient does not end in exactly one terminal outcome (next hop accepted it exactly once, or exactly one report names it)",
                 2: "integration: a recipient was offered to the next hop more often than max_tries",
                 3: "integration: a recipient was offered again after the next hop accepted it or refused it permanently",
                 4: "integration: the message is still queued after max_tries attempts"}
    core.generic_corr(ctx, overlay=ov, pkg="internal/target/remote", run="TestVerif_C01Integ",
                      n=(60 if ctx.tier == "quick" else 1500),
                      corr_module="Queue.IntegCorr", clause_names=I_CLAUSES, name="integration")
    core.generic_corr(ctx, overlay=ov, pkg="internal/target/smtp", run="TestVerif_C01Smtp",
                      n=(12 if ctx.tier == "quick" else 120),
                      corr_module="Queue.IntegCorr", clause_names=I_CLAUSES, name="integration_downstream")
    ctx.coverage["rule"] = ("exhaustive single-recipient sweep (stage x failure class x atomic/per-recipient x max_tries 1-3) plus generated "
                            "messages with 1-5 recipients (ASCII, IDN, non-ASCII local part, case variant, duplicates), max_tries 1-3, "
                            "with/without bounce pipeline, null sender, one fault plan per attempt (start/rcpt/body/status/commit x temp/perm/"
                            "unclassified), 10% contract-breaking targets; non-trivial = every case, distinct by case text")
