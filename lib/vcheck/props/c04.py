# C04 - routing follows the documented precedence
from .. import core

CLAUSES = {
    1: "MAIL FROM decided differently from the documented rules (source block selection on the rewritten sender)",
    2: "a recipient was handed to targets other than those of the block the documented precedence selects, or refused with another reply",
    3: "a configuration was loaded although some recipient block neither delivers, reroutes nor rejects",
    4: "a respelling (letter case, NFC/NFD, A-label/U-label) of the envelope addresses changed the targets reached or the replies",
}
TRUSTED = [
    "Coq 8.16.1 kernel (coqc); vm_compute",
    "harness/c04 (Go generator of directive trees, a share of them passed through the real configuration parser as text; address.ForLookup, dns.ForLookup, validMatchRule, address.Split, the static tables recorded as tables per case on the closure of the strings the case can reach; the rewriting oracles rw_s / rw_r are NOT recorded from the implementation: they are the documented semantics of replace_sender / replace_rcpt (entry for the whole lookup form, else for the local part, replacements without a domain keep the address's domain; invalid replacements refuse) evaluated by the harness function vRefRewrite on a copy of the tables as configured - a 30-line Go reference that is part of the trusted base)",
    "Pipeline/Route.v is a hand-written model of parseMsgPipeline*Cfg and of Start / AddRcpt routing; checks, DMARC, body handling and target failures are outside it (C06, C03)",
    "Pipeline/Spec.v (the documented rules on the directive tree) is the reference of the monitor; its equality with Route.v on every accepted configuration and envelope is a theorem (C04_route_eq_spec: whole messages, through rewrites and nested reroute; C04_selection_is_documented_precedence_*: the block selected per scope) under the hypothesis that a directive without a block has no children - evaluated on every generated case (tag bit 128, an obligation)",
]

def run(ctx):
    ctx.trusted = TRUSTED
    ok, detail = core.coq_build(ctx, ["theories/Props/C04.vo", "theories/Pipeline/Corr.vo"])
    ctx.oblige("coq build of Props/C04.vo and its dependencies", ok, detail)
    core.audit(ctx)
    if not ok:
        return
    core.check_theorems(ctx, "theories/Props/C04.v", "Props.C04")
    ov = core.write_overlay(ctx, {"internal/msgpipeline/zz_verif_c04_test.go": "harness/c04/c04_test.go"},
                            {"internal/msgpipeline": "msgpipeline"})
    n = 300 if ctx.tier == "quick" else 8000
    core.generic_corr(ctx, overlay=ov, pkg="internal/msgpipeline", run="TestVerif_C04", n=n,
                      corr_module="Pipeline.Corr", clause_names=CLAUSES, name="routing", shard=40)
    hist = ctx.coverage.get("streams", {}).get("routing", {}).get("tag_histogram")
    if hist is not None:
        bad = [k for k in hist if not (int(k) & 128)]
        ctx.oblige("hypothesis wf_deepb of C04_route_eq_spec holds at every depth of every generated configuration", not bad,
                   "" if not bad else "tags without bit 128: %s" % bad[:5])
    ctx.coverage["rule"] = ("configurations generated from the directive grammar (modify with replace_rcpt / replace_sender over "
                            "1-to-N tables, source / source_in / default_source, destination / destination_in / "
                            "default_destination with 1-3 rules each incl. duplicates in other spellings and invalid rules, "
                            "reject with 0-2 arguments, deliver_to with 1-2 targets, reroute nested to depth 2, shuffled "
                            "declaration order, ill-formed combinations), 15% through the text parser; three envelopes per "
                            "loaded configuration, each also in a respelled form; non-trivial = tag != 0")
