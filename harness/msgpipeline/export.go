//go:build verif

package msgpipeline

import (
	"github.com/foxcpp/maddy/framework/config"
	"github.com/foxcpp/maddy/framework/exterrors"
)

// VerifParseReject exposes parseRejectDirective to harnesses living in other packages.
func VerifParseReject(node config.Node) (*exterrors.SMTPError, error) {
	return parseRejectDirective(node)
}
