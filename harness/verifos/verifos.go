//go:build verif

// Package verifos is a drop-in replacement for the subset of package os used by
// internal/target/queue/queue.go.  It performs every operation for real and records the
// mutating ones (create, write, sync, rename, remove) in order, so that the harness can replay
// any prefix of them - including a torn last write, or with unsynced data dropped - to
// materialise the directory an abrupt stop would have left behind.
package verifos

import (
	"io/fs"
	"os"
	"sync"
)

const ModePerm = os.ModePerm

type Op struct {
	Kind  string // create, write, sync, rename, remove, mark
	Path  string
	Path2 string
	Data  []byte
}

var (
	mu  sync.Mutex
	log []Op
	on  bool
)

func Reset(enable bool) {
	mu.Lock()
	log, on = nil, enable
	mu.Unlock()
}
func Log() []Op {
	mu.Lock()
	defer mu.Unlock()
	return append([]Op(nil), log...)
}
func rec(o Op) {
	mu.Lock()
	if on {
		log = append(log, o)
	}
	mu.Unlock()
}

// Mark inserts a harness marker (acceptance completed, attempt started, ...) at the current position.
func Mark(what string) { rec(Op{Kind: "mark", Path: what}) }

type File struct {
	f      *os.File
	name   string
	record bool
}

func Create(name string) (*File, error) {
	f, err := os.Create(name)
	if err != nil {
		return nil, err
	}
	rec(Op{Kind: "create", Path: name})
	return &File{f, name, true}, nil
}
func Open(name string) (*File, error) {
	f, err := os.Open(name)
	if err != nil {
		return nil, err
	}
	return &File{f, name, false}, nil
}
func (f *File) Write(b []byte) (int, error) {
	n, err := f.f.Write(b)
	if f.record && n > 0 {
		rec(Op{Kind: "write", Path: f.name, Data: append([]byte(nil), b[:n]...)})
	}
	return n, err
}
func (f *File) Read(b []byte) (int, error) { return f.f.Read(b) }
func (f *File) Sync() error {
	err := f.f.Sync()
	if err == nil && f.record {
		rec(Op{Kind: "sync", Path: f.name})
	}
	return err
}
func (f *File) Close() error  { return f.f.Close() }
func (f *File) Name() string  { return f.name }

func Rename(a, b string) error {
	err := os.Rename(a, b)
	if err == nil {
		rec(Op{Kind: "rename", Path: a, Path2: b})
	}
	return err
}
func Remove(name string) error {
	err := os.Remove(name)
	if err == nil {
		rec(Op{Kind: "remove", Path: name})
	}
	return err
}
func Stat(name string) (fs.FileInfo, error)          { return os.Stat(name) }
func ReadDir(name string) ([]fs.DirEntry, error)     { return os.ReadDir(name) }
func MkdirAll(name string, perm fs.FileMode) error   { return os.MkdirAll(name, perm) }
func IsNotExist(err error) bool                      { return os.IsNotExist(err) }
