//go:build verif

package remote

// C13 harness, discovery part: discoverTLSA against a mock DNS server; the model's view is what
// the ExtResolver functions themselves returned for the same zone.

import (
	"context"
	"fmt"
	"net"
	"strconv"
	"strings"
	"testing"

	"github.com/foxcpp/go-mockdns"
	"github.com/foxcpp/maddy/framework/dns"
	"github.com/foxcpp/maddy/framework/log"
	miekgdns "github.com/miekg/dns"
)

func vTlsaRR(name string, n int) []miekgdns.RR {
	var rrs []miekgdns.RR
	for i := 0; i < n; i++ {
		rrs = append(rrs, &miekgdns.TLSA{
			Hdr:   miekgdns.RR_Header{Name: name, Class: miekgdns.ClassINET, Rrtype: miekgdns.TypeTLSA, Ttl: 9999},
			Usage: 3, MatchingType: 1, Selector: uint8(i % 2), Certificate: fmt.Sprintf("%064x", 16+i+len(name)),
		})
	}
	if n >= 2 {
		// the same association data under another usage, the record this
		// implementation cannot use first (a PKIX-EE and a DANE-EE pin of
		// one key, as rollover tooling publishes them)
		same := fmt.Sprintf("%064x", 16+len(name))
		rrs = append([]miekgdns.RR{&miekgdns.TLSA{
			Hdr:   miekgdns.RR_Header{Name: name, Class: miekgdns.ClassINET, Rrtype: miekgdns.TypeTLSA, Ttl: 9999},
			Usage: 1, MatchingType: 1, Selector: 0, Certificate: same,
		}}, rrs...)
	}
	return rrs
}

// vZoneTLSA is the zone's own RRset as the view presents it: every record of
// the answer, in the order the zone holds them.
func vZoneTLSA(ad bool, rrs []miekgdns.RR) string {
	var recs []dns.TLSA
	for _, rr := range rrs {
		recs = append(recs, *rr.(*miekgdns.TLSA))
	}
	return cQTlsa(ad, recs, nil)
}

func cTlsaList(recs []dns.TLSA) string {
	var items []string
	for _, r := range recs {
		d, _ := strconv.ParseInt(r.Certificate, 16, 64)
		items = append(items, fmt.Sprintf("{| usage := %s; sel := %s; mtype := %s; data := %s |}",
			cN(int(r.Usage)), cN(int(r.Selector)), cN(int(r.MatchingType)), cN(int(d))))
	}
	return cList(items)
}

func cQTlsa(ad bool, recs []dns.TLSA, err error) string {
	if err != nil {
		if dns.IsNotFound(err) {
			return "QNotFound"
		}
		return "QFail"
	}
	return fmt.Sprintf("(QOk %s %s)", cBool(ad), cTlsaList(recs))
}

// vFront stands before the mock DNS server and answers the TLSA queries for chosen names with a
// response code of its own (REFUSED, NOTIMP: a name server that does not know the type, a load
// balancer in the way); everything else is passed on.
type vFront struct {
	upstream string
	rcodes   map[string]int
}

func (f *vFront) ServeDNS(w miekgdns.ResponseWriter, m *miekgdns.Msg) {
	if len(m.Question) == 1 && m.Question[0].Qtype == miekgdns.TypeTLSA {
		if rc, ok := f.rcodes[strings.ToLower(m.Question[0].Name)]; ok {
			reply := new(miekgdns.Msg)
			reply.SetRcode(m, rc)
			w.WriteMsg(reply)
			return
		}
	}
	c := new(miekgdns.Client)
	r, _, err := c.Exchange(m, f.upstream)
	if err != nil {
		reply := new(miekgdns.Msg)
		reply.SetRcode(m, miekgdns.RcodeServerFailure)
		w.WriteMsg(reply)
		return
	}
	w.WriteMsg(r)
}

func vStartFront(upstream string, rcodes map[string]int) (*miekgdns.Server, *net.UDPAddr, error) {
	pc, err := net.ListenPacket("udp", "127.0.0.1:0")
	if err != nil {
		return nil, nil, err
	}
	srv := &miekgdns.Server{PacketConn: pc, Handler: &vFront{upstream: upstream, rcodes: rcodes}}
	go srv.ActivateAndServe()
	return srv, pc.LocalAddr().(*net.UDPAddr), nil
}

func TestVerif_C13Disc(t *testing.T) {
	out := vOpenOut()
	defer out.Close()
	const mx = "mx.example.invalid."
	const canon = "mx.cname.invalid."
	stats := map[string]int{}
	// zone parameters: address kind x AD bits x TLSA at orig x TLSA at canon
	// addr: 0 = A at mx, 1 = CNAME -> canon with A, 2 = nothing (NXDOMAIN), 3 = SERVFAIL at mx, 4 = CNAME to a name without address
	// tlsa: 0 = none, 1 = records AD, 2 = records no AD, 3 = SERVFAIL, 4 = empty answer AD,
	//       5 = REFUSED, 6 = NOTIMP (answered by the front)
	n := 0
	for addr := 0; addr < 5; addr++ {
		for adMx := 0; adMx < 2; adMx++ {
			for adCanon := 0; adCanon < 2; adCanon++ {
				for to := 0; to < 7; to++ {
					for tc := 0; tc < 7; tc++ {
						if addr != 1 && (tc != 0 || adCanon != 0) {
							continue
						}
						zones := map[string]mockdns.Zone{}
						switch addr {
						case 0:
							zones[mx] = mockdns.Zone{AD: adMx == 1, A: []string{"127.0.0.1"}}
						case 1:
							zones[mx] = mockdns.Zone{AD: adMx == 1, CNAME: canon}
							zones[canon] = mockdns.Zone{AD: adCanon == 1, A: []string{"127.0.0.1"}}
						case 2:
						case 3:
							zones[mx] = mockdns.Zone{Err: fmt.Errorf("broken")}
						case 4:
							zones[mx] = mockdns.Zone{AD: adMx == 1, CNAME: canon}
							zones[canon] = mockdns.Zone{AD: adCanon == 1, TXT: []string{"no address here"}}
						}
						zoneView := map[string]string{}
						rcodes := map[string]int{}
						mk := func(kind int, name string) {
							full := "_25._tcp." + name
							switch kind {
							case 1:
								zones[full] = mockdns.Zone{AD: true, Misc: map[miekgdns.Type][]miekgdns.RR{miekgdns.Type(miekgdns.TypeTLSA): vTlsaRR(full, 2)}}
								zoneView[name] = vZoneTLSA(true, vTlsaRR(full, 2))
							case 2:
								zones[full] = mockdns.Zone{AD: false, Misc: map[miekgdns.Type][]miekgdns.RR{miekgdns.Type(miekgdns.TypeTLSA): vTlsaRR(full, 1)}}
								zoneView[name] = vZoneTLSA(false, vTlsaRR(full, 1))
							case 3:
								zones[full] = mockdns.Zone{Err: fmt.Errorf("broken")}
								zoneView[name] = "QFail"
							case 4:
								zones[full] = mockdns.Zone{AD: true, TXT: []string{"not a tlsa"}}
							case 5:
								rcodes[strings.ToLower(full)] = miekgdns.RcodeRefused
								zoneView[name] = "QFail"
							case 6:
								rcodes[strings.ToLower(full)] = miekgdns.RcodeNotImplemented
								zoneView[name] = "QFail"
							}
						}
						mk(to, mx)
						mk(tc, canon)

						srv, err := mockdns.NewServerWithLogger(zones, log.Logger{Out: log.NopOutput{}}, false)
						if err != nil {
							t.Fatal(err)
						}
						addrUDP := srv.LocalAddr().(*net.UDPAddr)
						var front *miekgdns.Server
						if len(rcodes) > 0 {
							f, fa, err := vStartFront(addrUDP.String(), rcodes)
							if err != nil {
								t.Fatal(err)
							}
							front, addrUDP = f, fa
						}
						ext, err := dns.NewExtResolver()
						if err != nil {
							t.Fatal(err)
						}
						ext.Cfg.Servers = []string{addrUDP.IP.String()}
						ext.Cfg.Port = strconv.Itoa(addrUDP.Port)
						ctx := context.Background()

						// the view: what the resolver functions return
						adA, rname, aerr := ext.CheckCNAMEAD(ctx, mx)
						vaddr := ""
						switch {
						case aerr != nil && dns.IsNotFound(aerr):
							vaddr = "QNotFound"
						case aerr != nil:
							vaddr = "QFail"
						case rname == "":
							vaddr = fmt.Sprintf("(QOk %s None)", cBool(adA))
						default:
							vaddr = fmt.Sprintf("(QOk %s (Some %s))", cBool(adA), cBool(rname != mx))
						}
						cad, _, cerr := ext.AuthLookupCNAME(ctx, mx)
						vcname := ""
						switch {
						case cerr != nil && dns.IsNotFound(cerr):
							vcname = "QNotFound"
						case cerr != nil:
							vcname = "QFail"
						default:
							vcname = fmt.Sprintf("(QOk %s tt)", cBool(cad))
						}
						canonName := rname
						if canonName == "" {
							canonName = canon
						}
						a1, r1, e1 := ext.AuthLookupTLSA(ctx, "25", "tcp", canonName)
						a2, r2, e2 := ext.AuthLookupTLSA(ctx, "25", "tcp", mx)

						pol := &danePolicy{extResolver: ext, log: log.Logger{Out: log.NopOutput{}}}
						dd := &daneDelivery{c: pol}
						recs, derr := dd.discoverTLSA(ctx, mx)
						res := ""
						switch {
						case derr != nil && dns.IsNotFound(derr):
							res = "LNotFound"
						case derr != nil:
							res = "LErr"
						default:
							res = "(LRecs " + cTlsaList(recs) + ")"
						}
						srv.Close()
						if front != nil {
							front.Shutdown()
						}
						// where the zone holds TLSA records (or its name server fails the query) the view is the zone's
						// RRset itself, so that the resolver function's answer is
						// part of what is compared
						vc, vo := cQTlsa(a1, r1, e1), cQTlsa(a2, r2, e2)
						if zv, ok := zoneView[canonName]; ok {
							if zv != vc {
								stats["resolver_differs_from_zone"]++
							}
							vc = zv
						}
						if zv, ok := zoneView[mx]; ok {
							if zv != vo {
								stats["resolver_differs_from_zone"]++
							}
							vo = zv
						}
						out.Case(fmt.Sprintf("{| c_view := {| v_addr := %s; v_cname := %s; v_tlsa_canon := %s; v_tlsa_orig := %s |}; c_res := %s |}",
							vaddr, vcname, vc, vo, res))
						stats[fmt.Sprintf("addr_%d", addr)]++
						n++
					}
				}
			}
		}
	}
	out.Stat("zones", n)
	for k, v := range stats {
		out.Stat(k, v)
	}
}
