//go:build verif

package remote

// C13 harness: verifyDANE and daneDelivery.CheckConn on generated real certificate chains and
// TLSA record sets; oracle tables (TLSA.Verify, x509 Verify per root subset) recorded per case.

import (
	"context"
	"crypto/ecdsa"
	"crypto/elliptic"
	"crypto/rand"
	"crypto/tls"
	"crypto/x509"
	"crypto/x509/pkix"
	"errors"
	"fmt"
	"math/big"
	"strings"
	"testing"
	"time"

	"github.com/foxcpp/maddy/framework/dns"
	"github.com/foxcpp/maddy/framework/exterrors"
	"github.com/foxcpp/maddy/framework/future"
	"github.com/foxcpp/maddy/framework/log"
	"github.com/foxcpp/maddy/framework/module"
	miekgdns "github.com/miekg/dns"
)

type vCert struct {
	id   int
	cert *x509.Certificate
	key  *ecdsa.PrivateKey
}

func vMkCert(id int, cn string, isCA bool, dnsName string, parent *vCert, notAfter time.Time) *vCert {
	key, err := ecdsa.GenerateKey(elliptic.P256(), rand.Reader)
	if err != nil {
		panic(err)
	}
	tmpl := &x509.Certificate{
		SerialNumber:          big.NewInt(int64(1000 + id)),
		Subject:               pkix.Name{CommonName: cn},
		NotBefore:             time.Now().Add(-48 * time.Hour),
		NotAfter:              notAfter,
		BasicConstraintsValid: true,
		IsCA:                  isCA,
		KeyUsage:              x509.KeyUsageDigitalSignature,
	}
	if isCA {
		tmpl.KeyUsage |= x509.KeyUsageCertSign
	}
	if dnsName != "" {
		tmpl.DNSNames = []string{dnsName}
		tmpl.ExtKeyUsage = []x509.ExtKeyUsage{x509.ExtKeyUsageServerAuth}
	}
	signer, signerKey := tmpl, key
	if parent != nil {
		signer, signerKey = parent.cert, parent.key
	}
	der, err := x509.CreateCertificate(rand.Reader, tmpl, signer, &key.PublicKey, signerKey)
	if err != nil {
		panic(err)
	}
	c, err := x509.ParseCertificate(der)
	if err != nil {
		panic(err)
	}
	return &vCert{id, c, key}
}

func cCert(c *vCert) string {
	return fmt.Sprintf("{| cid := %s; is_ca := %s |}", cN(c.id), cBool(c.cert.IsCA))
}

type vRec struct {
	rec  dns.TLSA
	data int // id of the association value (0 = garbage)
}

func TestVerif_C13(t *testing.T) {
	out := vOpenOut()
	defer out.Close()
	n := vEnvInt("VERIF_N", 600)
	r := vNewRand(13)
	stats := map[string]int{}
	const mx = "mx.example.org"
	far := time.Now().Add(24 * 365 * time.Hour)

	root := vMkCert(3, "verif root", true, "", nil, far)
	inter := vMkCert(2, "verif inter", true, "", root, far)
	leaf := vMkCert(1, "leaf", false, mx, inter, far)
	expired := vMkCert(4, "expired leaf", false, mx, inter, time.Now().Add(-time.Hour))
	wrong := vMkCert(5, "wrong leaf", false, "other.example.org", inter, far)
	otherCA := vMkCert(6, "unrelated root", true, "", nil, far)
	caLeaf := vMkCert(7, "self-signed ca leaf", true, mx, nil, far) // a leaf that is itself a CA
	chains := [][]*vCert{
		{leaf}, {leaf, inter}, {leaf, inter, root}, {expired, inter, root}, {wrong, inter, root},
		{leaf, inter, root, otherCA}, {caLeaf}, {wrong}, {expired, inter},
	}
	dataSrc := []*vCert{leaf, inter, root, otherCA, expired, wrong, caLeaf}

	pol := &danePolicy{extResolver: &dns.ExtResolver{}, log: log.Logger{Out: log.NopOutput{}}}

	for i := 0; i < n; i++ {
		chain := chains[r.intn(len(chains))]
		if i < 2*len(chains) {
			chain = chains[i%len(chains)]
		}
		hs := !r.chance(15)
		nrec := r.intn(5)
		if i%11 == 0 {
			nrec = 0
		}
		var recs []vRec
		for j := 0; j < nrec; j++ {
			var usage, sel, mt uint8
			switch {
			case r.chance(12):
				usage = uint8([]int{0, 1, 4, 255}[r.intn(4)])
			case r.chance(50):
				usage = 2
			default:
				usage = 3
			}
			sel = uint8(r.intn(2))
			if r.chance(10) {
				sel = uint8([]int{2, 3, 255}[r.intn(3)])
			}
			mt = uint8(r.intn(3))
			if r.chance(10) {
				mt = uint8([]int{3, 4, 255}[r.intn(3)])
			}
			// association data: mostly something of the presented chain
			var src *vCert
			if r.chance(70) {
				src = chain[r.intn(len(chain))]
			} else if r.chance(70) {
				src = dataSrc[r.intn(len(dataSrc))]
			}
			rec := dns.TLSA{Hdr: miekgdns.RR_Header{Name: "_25._tcp." + mx + ".", Rrtype: miekgdns.TypeTLSA, Class: miekgdns.ClassINET, Ttl: 60},
				Usage: usage, Selector: sel, MatchingType: mt}
			did := 0
			if src != nil && sel <= 1 && mt <= 2 {
				d, err := miekgdns.CertificateToDANE(sel, mt, src.cert)
				if err == nil {
					rec.Certificate = d
					did = src.id
				}
			}
			if did == 0 {
				rec.Certificate = strings.Repeat("ab", 32)
			}
			recs = append(recs, vRec{rec, did*16 + int(sel)*4 + int(mt)%4})
		}

		var goRecs []dns.TLSA
		var crecs []string
		for _, x := range recs {
			goRecs = append(goRecs, x.rec)
			crecs = append(crecs, fmt.Sprintf("{| usage := %s; sel := %s; mtype := %s; data := %s |}",
				cN(int(x.rec.Usage)), cN(int(x.rec.Selector)), cN(int(x.rec.MatchingType)), cN(x.data)))
		}
		var certs []*x509.Certificate
		var cchain []string
		for _, c := range chain {
			certs = append(certs, c.cert)
			cchain = append(cchain, cCert(c))
		}
		state := tls.ConnectionState{HandshakeComplete: hs, ServerName: mx}
		if hs {
			state.PeerCertificates = certs
		} else {
			// without a completed handshake there are no peer certificates; the model still gets
			// the chain (it must not look at it)
			state.PeerCertificates = nil
		}

		// implementation: verifyDANE
		res := "Panic"
		func() {
			defer func() { recover() }()
			ov, err := verifyDANE(goRecs, state)
			switch {
			case err != nil:
				res = "Refuse"
			case ov:
				res = "Authenticated"
			default:
				res = "NoOpinion"
			}
		}()

		// implementation: CheckConn with the discovery future preset
		lk := "KRecs"
		fut := future.New()
		switch {
		case i%17 == 3:
			lk = "KErr"
			fut.Set(nil, dns.RCodeError{Name: mx, Code: miekgdns.RcodeServerFailure})
		case i%17 == 5:
			lk = "KErr"
			fut.Set(nil, errors.New("i/o timeout"))
		case i%17 == 7:
			lk = "KNotFound"
			fut.Set(nil, dns.RCodeError{Name: mx, Code: miekgdns.RcodeNameError})
		default:
			fut.Set(goRecs, nil)
		}
		conn := "CPanic"
		func() {
			defer func() { recover() }()
			dd := &daneDelivery{c: pol, tlsaFut: fut}
			lvl, err := dd.CheckConn(context.Background(), module.MXNone, module.TLSNone, "example.org", mx, state)
			switch {
			case err != nil && exterrors.IsTemporary(err):
				conn = "CTempFail"
			case err != nil:
				conn = "CPermFail"
			case lvl == module.TLSAuthenticated:
				conn = "(COk true)"
			default:
				conn = "(COk false)"
			}
		}()

		// oracle tables
		var tm []string
		for _, x := range recs {
			for _, c := range chain {
				if x.rec.Verify(c.cert) == nil {
					tm = append(tm, fmt.Sprintf("(%s, %s, %s, %s, %s)", cN(int(x.rec.Usage)), cN(int(x.rec.Selector)),
						cN(int(x.rec.MatchingType)), cN(x.data), cN(c.id)))
				}
			}
		}
		var tc []string
		for mask := 0; mask < 1<<len(chain); mask++ {
			opts := x509.VerifyOptions{DNSName: mx, Intermediates: x509.NewCertPool(), Roots: x509.NewCertPool()}
			var ids []string
			for k, c := range chain {
				if mask&(1<<k) != 0 {
					opts.Roots.AddCert(c.cert)
					ids = append(ids, cN(c.id))
				} else {
					opts.Intermediates.AddCert(c.cert)
				}
			}
			if _, err := chain[0].cert.Verify(opts); err == nil {
				tc = append(tc, cList(ids))
			}
		}
		stats[fmt.Sprintf("chain_%d", len(chain))]++
		stats[fmt.Sprintf("nrec_%d", nrec)]++
		stats["out_"+res]++
		out.Case(fmt.Sprintf("{| c_recs := %s; c_hs := %s; c_chain := %s; c_tabs := {| t_match := %s; t_chains := %s |}; c_lk := %s; c_out := %s; c_conn := %s |}",
			cList(crecs), cBool(hs), cList(cchain), cList(tm), cList(tc), lk, res, conn))
	}
	for k, v := range stats {
		out.Stat(k, v)
	}
}
