//go:build verif

package msgpipeline

// C04 harness: pipeline configurations generated from the directive grammar, built through New
// from config.Node trees (a share of them rendered as text and read by the real configuration
// parser first), with recording delivery targets, static tables and the real replace_rcpt /
// replace_sender modifiers registered as module instances; envelopes over the same alphabet.

import (
	"context"
	"errors"
	"fmt"
	"sort"
	"strings"
	"testing"

	"github.com/emersion/go-message/textproto"
	"github.com/emersion/go-smtp"
	"github.com/foxcpp/maddy/framework/address"
	"github.com/foxcpp/maddy/framework/buffer"
	parser "github.com/foxcpp/maddy/framework/cfgparser"
	"github.com/foxcpp/maddy/framework/config"
	"github.com/foxcpp/maddy/framework/dns"
	"github.com/foxcpp/maddy/framework/exterrors"
	"github.com/foxcpp/maddy/framework/module"
	"github.com/foxcpp/maddy/internal/modify"
)

// ---- registered instances ----
type vEvent struct {
	tid      int
	from, to string
}

var vLog []vEvent

type vTarget struct {
	id   int
	name string
}

func (t *vTarget) Name() string             { return "verif_target" }
func (t *vTarget) InstanceName() string     { return t.name }
func (t *vTarget) Init(*config.Map) error   { return nil }
func (t *vTarget) Start(_ context.Context, _ *module.MsgMetadata, from string) (module.Delivery, error) {
	return &vDelivery{t: t, from: from}, nil
}

type vDelivery struct {
	t    *vTarget
	from string
}

func (d *vDelivery) AddRcpt(_ context.Context, to string, _ smtp.RcptOptions) error {
	vLog = append(vLog, vEvent{d.t.id, d.from, to})
	return nil
}
func (d *vDelivery) Body(context.Context, textproto.Header, buffer.Buffer) error { return nil }
func (d *vDelivery) Abort(context.Context) error                                   { return nil }
func (d *vDelivery) Commit(context.Context) error                                  { return nil }

type vTable struct {
	name string
	m    map[string][]string
}

func (t *vTable) Name() string           { return "verif_table" }
func (t *vTable) InstanceName() string   { return t.name }
func (t *vTable) Init(*config.Map) error { return nil }
func (t *vTable) Lookup(_ context.Context, k string) (string, bool, error) {
	v, ok := t.m[k]
	if !ok || len(v) == 0 {
		return "", false, nil
	}
	return v[0], true, nil
}
func (t *vTable) LookupMulti(_ context.Context, k string) ([]string, error) { return t.m[k], nil }

// vRefRewrite: replace_rcpt / replace_sender as documented - the entry for the whole address in its
// lookup form, else the entry for its local part, whose replacements without a domain keep the domain
// of the address - on a table given as a plain map; it never modifies the table.
func vRefRewrite(tab map[string][]string, val string) ([]string, error) {
	norm, err := address.ForLookup(val)
	if err != nil {
		return nil, err
	}
	if reps := tab[norm]; len(reps) > 0 {
		for _, x := range reps {
			if !address.Valid(x) {
				return nil, fmt.Errorf("invalid replacement")
			}
		}
		return append([]string(nil), reps...), nil
	}
	mbox, domain, err := address.Split(norm)
	if err != nil {
		return []string{val}, nil
	}
	if reps := tab[mbox]; len(reps) > 0 {
		out := make([]string, 0, len(reps))
		for _, x := range reps {
			if strings.Contains(x, "@") && !strings.HasPrefix(x, "\"") && !strings.HasSuffix(x, "\"") {
				if !address.Valid(x) {
					return nil, fmt.Errorf("invalid replacement")
				}
				out = append(out, x)
			} else {
				out = append(out, x+"@"+domain)
			}
		}
		return out, nil
	}
	return []string{val}, nil
}

func vRegister(m module.Module) {
	module.RegisterInstance(m, nil)
	module.Initialized[m.InstanceName()] = true
}

// ---- alphabet ----
var vDoms = []string{"example.org", "EXAMPLE.org", "Example.Org", "corp.example", "\u00e9a.example", "e\u0301a.example",
	"\u0442\u0435\u0441\u0442.example", "xn--e1aybc.example", "XN--E1AYBC.example", "sub.example.org", "example.org.",
	// a second IDN domain that the cases themselves only spell as U-label or lower-case A-label; the run
	// starts with one message that spelled it XN--... (see TestVerif_C04): nothing of that may linger
	"\u0438\u0441\u043f\u044b\u0442\u0430\u043d\u0438\u0435.example", "xn--80akhbyknj4f.example"}
var vLocs = []string{"alice", "Alice", "bob", "postmaster", "alic\u00e9", "alice\u0301", "list"}

func vDom(r *vRand) string {
	d := vDoms[r.intn(len(vDoms))]
	if d == "XN--E1AYBC.example" && !r.chance(15) {
		d = "xn--e1aybc.example"
	}
	return d
}
func vAddr(r *vRand) string {
	if r.chance(3) {
		return []string{"postmaster", "no-at-sign", "a@b@c", "@", "x@", "\"quoted local\"@example.org"}[r.intn(6)]
	}
	return vLocs[r.intn(len(vLocs))] + "@" + vDom(r)
}
// a different spelling of the same address: letter case, NFC/NFD, A-label/U-label
func vRespell(r *vRand, a string) string {
	switch r.intn(5) {
	case 0:
		return strings.ToUpper(a)
	case 1:
		if strings.Contains(a, "\u00e9") {
			return strings.Replace(a, "\u00e9", "e\u0301", -1)
		}
		return strings.Replace(a, "e\u0301", "\u00e9", -1)
	case 2:
		if strings.Contains(a, "xn--e1aybc") {
			return strings.Replace(a, "xn--e1aybc", "\u0442\u0435\u0441\u0442", 1)
		}
		if strings.Contains(a, "xn--80akhbyknj4f") {
			return strings.Replace(a, "xn--80akhbyknj4f", "\u0438\u0441\u043f\u044b\u0442\u0430\u043d\u0438\u0435", 1)
		}
		if strings.Contains(a, "\u0438\u0441\u043f\u044b\u0442\u0430\u043d\u0438\u0435") {
			return strings.Replace(a, "\u0438\u0441\u043f\u044b\u0442\u0430\u043d\u0438\u0435", "xn--80akhbyknj4f", 1)
		}
		return strings.Replace(a, "\u0442\u0435\u0441\u0442", "xn--e1aybc", 1)
	case 3:
		if i := strings.LastIndexByte(a, '@'); i >= 0 {
			return a[:i] + "@" + strings.ToUpper(a[i+1:])
		}
	}
	var sb strings.Builder
	for _, c := range a {
		if r.chance(50) {
			sb.WriteString(strings.ToUpper(string(c)))
		} else {
			sb.WriteString(strings.ToLower(string(c)))
		}
	}
	return sb.String()
}

func vRule(r *vRand) string {
	switch k := r.intn(60); {
	case k < 33:
		return vDom(r)
	case k < 59:
		return vAddr(r)
	}
	return []string{"", "exa mple", "@", "a@b@c", "*", "example..org"}[r.intn(6)]
}

// ---- configuration generation: config nodes and the model term side by side ----
type vGen struct {
	r        *vRand
	nT, nTab int
	text     bool
	chain    []int // two tables, the second of which expands an address the first one produced
	split    bool  // the two tables of the chain sit in different scopes: the first in the global
	// modify block, the second in the modify block of every source scope
}

func vB(s string) string { return cBytes([]byte(s)) }
func vNodeTerm(d string, args []string, ids []int, blk bool, ch []string) string {
	as := make([]string, len(args))
	for i, a := range args {
		as[i] = vB(a)
	}
	is := make([]string, len(ids))
	for i, n := range ids {
		is[i] = cN(n)
	}
	return fmt.Sprintf("Node %s %s %s %s %s", d, cList(as), cList(is), cBool(blk), cList(ch))
}

func vNN(l []config.Node) []config.Node {
	if l == nil {
		return []config.Node{}
	}
	return l
}

func (g *vGen) modify() (config.Node, string) { return g.modifyAt(2) }

// modifyAt: level 0 = pipeline root, 1 = source scope, 2 = anything below
func (g *vGen) modifyAt(level int) (config.Node, string) {
	var ch []config.Node
	var ids []int
	if g.chain != nil && g.split && level < 2 {
		tab := g.chain[level]
		ch = append(ch, config.Node{Name: "replace_rcpt", Args: []string{fmt.Sprintf("&mt%d", tab)}})
		ids = append(ids, 10+tab)
		return config.Node{Name: "modify", Children: ch}, vNodeTerm("DModify", nil, ids, true, nil)
	}
	if g.chain != nil && g.r.chance(60) {
		for _, tab := range g.chain {
			ch = append(ch, config.Node{Name: "replace_rcpt", Args: []string{fmt.Sprintf("&mt%d", tab)}})
			ids = append(ids, 10+tab)
		}
		return config.Node{Name: "modify", Children: ch}, vNodeTerm("DModify", nil, ids, true, nil)
	}
	for i := 0; i < 1+g.r.intn(2); i++ {
		tab := g.r.intn(g.nTab)
		if g.r.chance(75) {
			ch = append(ch, config.Node{Name: "replace_rcpt", Args: []string{fmt.Sprintf("&mt%d", tab)}})
			ids = append(ids, 10+tab)
		} else {
			ch = append(ch, config.Node{Name: "replace_sender", Args: []string{fmt.Sprintf("&mt%d", tab)}})
			ids = append(ids, 20+tab)
		}
	}
	return config.Node{Name: "modify", Children: ch}, vNodeTerm("DModify", nil, ids, true, nil)
}

func (g *vGen) reject() (config.Node, string) {
	r := g.r
	code := []int{550, 551, 552, 553, 450, 451, 452, 554}[r.intn(8)]
	if r.chance(1) {
		code = []int{250, 650, 99}[r.intn(3)]
	}
	switch r.intn(4) {
	case 0:
		return config.Node{Name: "reject"}, vNodeTerm("DReject", nil, nil, false, nil)
	case 1:
		e0 := code / 100
		if r.chance(1) {
			e0 = 2
		}
		e1, e2 := r.intn(8), r.intn(10)
		return config.Node{Name: "reject", Args: []string{fmt.Sprint(code), fmt.Sprintf("%d.%d.%d", e0, e1, e2)}},
			vNodeTerm("DReject", nil, []int{code, e0, e1, e2}, false, nil)
	}
	return config.Node{Name: "reject", Args: []string{fmt.Sprint(code)}}, vNodeTerm("DReject", nil, []int{code}, false, nil)
}

func (g *vGen) deliver() (config.Node, string) {
	if g.r.chance(1) && g.r.chance(50) {
		return config.Node{Name: "deliver_to"}, vNodeTerm("DDeliver", nil, nil, false, nil)
	}
	t := g.r.intn(g.nT)
	return config.Node{Name: "deliver_to", Args: []string{fmt.Sprintf("&t%d", t)}}, vNodeTerm("DDeliver", nil, []int{t}, false, nil)
}

// handling directives of a recipient block
func (g *vGen) rcptBody(depth int) ([]config.Node, []string) {
	r := g.r
	var ns []config.Node
	var ts []string
	add := func(n config.Node, t string) { ns = append(ns, n); ts = append(ts, t) }
	if r.chance(25) {
		add(g.modify())
	}
	k := r.intn(100)
	if depth == 0 && k >= 75 && k < 90 {
		k = r.intn(75)
	}
	switch {
	case k < 30:
		add(g.reject())
	case k < 75:
		add(g.deliver())
		if r.chance(30) {
			add(g.deliver())
		}
	case k < 90 && depth > 0:
		if r.chance(30) {
			add(g.deliver())
		}
		cn, ct := g.root(depth - 1)
		add(config.Node{Name: "reroute", Children: vNN(cn)}, vNodeTerm("DReroute", nil, nil, true, ct))
	case k < 91:
		// nothing that decides
	case k < 92:
		add(g.reject())
		add(g.deliver())
	case k < 93:
		add(g.deliver())
		add(g.reject())
	case k < 94:
		add(config.Node{Name: "reroute", Children: []config.Node{}}, vNodeTerm("DReroute", nil, nil, true, nil))
	default:
		add(g.deliver())
	}
	if r.chance(8) {
		add(g.modify())
	}
	return ns, ts
}

func (g *vGen) rules() []string {
	var l []string
	for i := 0; i < 1+g.r.intn(3); i++ {
		l = append(l, vRule(g.r))
	}
	return l
}

func (g *vGen) srcBody(depth int) ([]config.Node, []string) {
	r := g.r
	var ns []config.Node
	var ts []string
	add := func(n config.Node, t string) { ns = append(ns, n); ts = append(ts, t) }
	if drawn := r.chance(25); drawn || g.split {
		add(g.modifyAt(1))
	}
	if r.chance(35) { // no destination rules: handling directives directly
		n2, t2 := g.rcptBody(depth)
		ns, ts = append(ns, n2...), append(ts, t2...)
		if r.chance(5) {
			cn, ct := g.rcptBody(depth)
			add(config.Node{Name: "default_destination", Children: vNN(cn)}, vNodeTerm("DDefaultDest", nil, nil, true, ct))
		}
		return ns, ts
	}
	for i := 0; i < r.intn(4); i++ {
		cn, ct := g.rcptBody(depth)
		if r.chance(25) {
			tb := r.intn(g.nTab)
			add(config.Node{Name: "destination_in", Args: []string{fmt.Sprintf("&tb%d", tb)}, Children: vNN(cn)},
				vNodeTerm("DDestIn", nil, []int{tb}, true, ct))
		} else {
			rl := g.rules()
			if r.chance(2) {
				rl = nil
			}
			add(config.Node{Name: "destination", Args: rl, Children: vNN(cn)}, vNodeTerm("DDest", rl, nil, true, ct))
		}
	}
	if !r.chance(2) {
		cn, ct := g.rcptBody(depth)
		if r.chance(2) {
			cn, ct = []config.Node{}, nil
		}
		add(config.Node{Name: "default_destination", Children: vNN(cn)}, vNodeTerm("DDefaultDest", nil, nil, true, ct))
		if r.chance(1) {
			add(config.Node{Name: "default_destination", Children: vNN(cn)}, vNodeTerm("DDefaultDest", nil, nil, true, ct))
		}
	}
	if r.chance(1) {
		add(g.deliver())
	}
	// declaration order is part of the property
	for i := len(ns) - 1; i > 0; i-- {
		j := r.intn(i + 1)
		ns[i], ns[j] = ns[j], ns[i]
		ts[i], ts[j] = ts[j], ts[i]
	}
	return ns, ts
}

func (g *vGen) root(depth int) ([]config.Node, []string) {
	r := g.r
	var ns []config.Node
	var ts []string
	add := func(n config.Node, t string) { ns = append(ns, n); ts = append(ts, t) }
	if drawn := r.chance(20); drawn || g.split {
		add(g.modifyAt(0))
	}
	if r.chance(10) {
		add(config.Node{Name: "dmarc", Args: []string{"no"}}, vNodeTerm("DDmarc", nil, nil, false, nil))
	}
	if r.chance(40) {
		n2, t2 := g.srcBody(depth)
		return append(ns, n2...), append(ts, t2...)
	}
	for i := 0; i < r.intn(4); i++ {
		cn, ct := g.srcBody(depth)
		if r.chance(25) {
			tb := r.intn(g.nTab)
			add(config.Node{Name: "source_in", Args: []string{fmt.Sprintf("&tb%d", tb)}, Children: vNN(cn)},
				vNodeTerm("DSourceIn", nil, []int{tb}, true, ct))
		} else {
			rl := g.rules()
			add(config.Node{Name: "source", Args: rl, Children: vNN(cn)}, vNodeTerm("DSource", rl, nil, true, ct))
		}
	}
	if !r.chance(2) {
		cn, ct := g.srcBody(depth)
		add(config.Node{Name: "default_source", Children: vNN(cn)}, vNodeTerm("DDefaultSource", nil, nil, true, ct))
	}
	if r.chance(1) {
		add(g.reject())
	}
	if r.chance(1) {
		add(config.Node{Name: "frobnicate"}, vNodeTerm("DOther", nil, nil, false, nil))
	}
	for i := len(ns) - 1; i > 0; i-- {
		j := r.intn(i + 1)
		ns[i], ns[j] = ns[j], ns[i]
		ts[i], ts[j] = ts[j], ts[i]
	}
	return ns, ts
}

// render nodes as configuration text (only used when every argument survives quoting)
func vRender(ns []config.Node, ind string, sb *strings.Builder) bool {
	for _, n := range ns {
		sb.WriteString(ind + n.Name)
		for _, a := range n.Args {
			if strings.ContainsAny(a, "\"\\\n{}$") {
				return false
			}
			sb.WriteString(" \"" + a + "\"")
		}
		if n.Children != nil {
			sb.WriteString(" {\n")
			if !vRender(n.Children, ind+"  ", sb) {
				return false
			}
			sb.WriteString(ind + "}")
		}
		sb.WriteString("\n")
	}
	return true
}

func vCode(err error) int {
	if err == nil {
		return -1
	}
	var se *exterrors.SMTPError
	if errors.As(err, &se) {
		return se.Code*1000 + se.EnhancedCode[0]*100 + se.EnhancedCode[1]*10 + se.EnhancedCode[2]
	}
	return 999
}
func vOptN(c int) string {
	if c < 0 {
		return "None"
	}
	return "(Some " + cN(c) + ")"
}

func vOptTab(m map[string]*string) string {
	keys := make([]string, 0, len(m))
	for k := range m {
		keys = append(keys, k)
	}
	sort.Strings(keys)
	items := make([]string, 0, len(keys))
	for _, k := range keys {
		if m[k] == nil {
			items = append(items, "("+vB(k)+", None)")
		} else {
			items = append(items, "("+vB(k)+", Some "+vB(*m[k])+")")
		}
	}
	return cList(items)
}

func TestVerif_C04(t *testing.T) {
	out := vOpenOut()
	defer out.Close()
	n := vEnvInt("VERIF_N", 100)
	ctx := context.Background()
	stats := map[string]int{}
	const nT, nTab = 5, 4
	for i := 0; i < nT; i++ {
		vRegister(&vTarget{id: i, name: fmt.Sprintf("t%d", i)})
	}
	// history: before anything else the process has normalised an oddly-cased spelling of an address
	// (as an earlier message would have made it do)
	address.ForLookup("someone@XN--80AKHBYKNJ4F.example")
	for ci := 0; ci < n; ci++ {
		r := vNewRand(uint64(400000 + ci))
		// tables: tb* for source_in / destination_in (sets of keys), mt* for the modifiers
		var tbs, mts []*vTable
		for i := 0; i < nTab; i++ {
			tb := &vTable{name: fmt.Sprintf("tb%d", i), m: map[string][]string{}}
			for j := 0; j < r.intn(4); j++ {
				k := vAddr(r)
				if kk, err := address.ForLookup(k); err == nil && r.chance(85) {
					k = kk
				}
				tb.m[k] = []string{"x"}
			}
			vRegister(tb)
			tbs = append(tbs, tb)
			mt := &vTable{name: fmt.Sprintf("mt%d", i), m: map[string][]string{}}
			for j := 0; j < 1+r.intn(4); j++ {
				k := vAddr(r)
				if kk, err := address.ForLookup(k); err == nil && r.chance(85) {
					k = kk
				}
				if r.chance(20) { // local-part key
					k = vLocs[r.intn(len(vLocs))]
				}
				var vals []string
				for x := 0; x < 1+r.intn(3); x++ {
					v := vAddr(r)
					if r.chance(15) {
						v = vLocs[r.intn(len(vLocs))]
					}
					vals = append(vals, v)
				}
				mt.m[k] = vals
			}
			vRegister(mt)
			mts = append(mts, mt)
		}
		lpKey := ""
		if ci%5 == 2 {
			// an entry whose key and value are both local parts (chosen without drawing): the replacement keeps
			// the domain of the address it is applied to - of each address, however often the entry is used
			lpKey = []string{"list", "bob", "postmaster"}[(ci/5)%3]
			mts[0].m[lpKey] = []string{[]string{"alice", "info"}[(ci/15)%2]}
			stats["local-part-entry-reused"]++
		}
		g := &vGen{r: r, nT: nT, nTab: nTab}
		chainKey := ""
		if nTab >= 2 && r.chance(25) {
			// chained expansions in one scope: the first table turns one address into several, the second
			// one expands the first (not the last) of those
			i := r.intn(nTab)
			j := (i + 1 + r.intn(nTab-1)) % nTab
			chainKey = "list@example.org"
			mts[i].m[chainKey] = []string{"alice@corp.example", "bob@example.org", "postmaster@sub.example.org"}
			mts[j].m["alice@corp.example"] = []string{"alice@sub.example.org", "list@corp.example"}
			g.chain = []int{i, j}
			stats["chained-expansion"]++
		}
		if ci%7 == 3 && chainKey == "" {
			// expansions chained across scopes (chosen without drawing): the global modify block turns one
			// address into several, the source scope's block expands the first (not the last) of those
			chainKey = "list@example.org"
			mts[0].m[chainKey] = []string{"alice@corp.example", "bob@example.org", "postmaster@sub.example.org"}
			mts[1].m["alice@corp.example"] = []string{"alice@sub.example.org", "list@corp.example"}
			g.chain, g.split = []int{0, 1}, true
			stats["expansion-chained-across-scopes"]++
		}
		// the tables as configured: the reference of the rewriting oracles below is evaluated on this copy
		snap := make([]map[string][]string, len(mts))
		for i, mt := range mts {
			snap[i] = map[string][]string{}
			for k, v := range mt.m {
				snap[i][k] = append([]string(nil), v...)
			}
		}
		depth := r.intn(3)
		nodes, terms := g.root(depth)
		viaText := false
		if r.chance(15) {
			var sb strings.Builder
			if vRender(nodes, "", &sb) {
				parsed, err := parser.Read(strings.NewReader(sb.String()), "verif.conf")
				if err != nil {
					t.Fatalf("rendered configuration does not parse: %v\n%s", err, sb.String())
				}
				nodes = parsed
				viaText = true
				stats["via-text"]++
			}
		}
		_ = viaText
		p, err := New(nil, nodes)
		loaded := err == nil
		if loaded {
			stats["loaded"]++
		} else {
			stats["refused"]++
			msg := err.Error()
			if i := strings.Index(msg, ": "); i >= 0 && strings.HasPrefix(msg, "verif.conf") {
				msg = msg[i+2:]
			}
			msg = strings.ReplaceAll(msg, " ", "_")
			if len(msg) > 40 {
				msg = msg[:40]
			}
			stats["refused:"+msg]++
		}

		// ---- envelopes ----
		type vMsg struct {
			from  string
			tos   []string
			start int
			outs  []string
		}
		var msgs []vMsg
		known := map[string]bool{}
		runMsg := func(m *vMsg) {
			known[m.from] = true
			meta := &module.MsgMetadata{ID: "verif", SMTPOpts: smtp.MailOptions{}}
			d, err := p.Start(ctx, meta, m.from)
			m.start = vCode(err)
			if err == nil {
				for _, to := range m.tos {
					known[to] = true
					mark := len(vLog)
					err := d.AddRcpt(ctx, to, smtp.RcptOptions{})
					var evs []string
					for _, e := range vLog[mark:] {
						evs = append(evs, fmt.Sprintf("(%s, %s, %s)", cN(e.tid), vB(e.from), vB(e.to)))
						stats["events"]++
					}
					m.outs = append(m.outs, fmt.Sprintf("(%s, %s)", cList(evs), vOptN(vCode(err))))
					if err != nil {
						stats["rcpt-refused"]++
					} else {
						stats["rcpt-accepted"]++
					}
				}
				d.Abort(ctx)
			} else {
				stats["mail-refused"]++
			}
			vLog = vLog[:0]
		}
		if loaded {
			for mi := 0; mi < 3; mi++ {
				m := vMsg{from: vAddr(r)}
				if r.chance(10) {
					m.from = ""
				}
				for j := 0; j < 1+r.intn(3); j++ {
					m.tos = append(m.tos, vAddr(r))
				}
				if chainKey != "" && r.chance(70) {
					m.tos = append(m.tos, chainKey)
				}
				if lpKey != "" {
					ds := []string{"example.org", "corp.example", "sub.example.org"}
					m.tos = append(m.tos, lpKey+"@"+ds[(mi+ci)%3], lpKey+"@"+ds[(mi+ci+1)%3])
					if mi == 1 {
						m.from = lpKey + "@" + ds[(ci+2)%3]
					}
				}
				if (ci+len(msgs))%6 == 1 {
					// a quoted local part with an at-sign in it (chosen without drawing): the domain is what
					// follows the last at-sign, as sender and as recipient
					q := "\"odd@" + vLocs[(ci+len(msgs))%len(vLocs)] + "\"@" + []string{"example.org", "corp.example", "sub.example.org"}[(ci/6)%3]
					if len(msgs)%2 == 0 {
						m.tos = append(m.tos, q)
					} else {
						m.from = q
					}
					stats["quoted-at-sign"]++
				}
				v := vMsg{from: vRespell(r, m.from)}
				for _, to := range m.tos {
					v.tos = append(v.tos, vRespell(r, to))
				}
				runMsg(&m)
				runMsg(&v)
				msgs = append(msgs, m, v)
			}
		}

		// ---- oracles ----
		mods := map[int]module.ModifierState{}
		for i := 0; i < nTab; i++ {
			for _, kind := range []int{10, 20} {
				name := "modify.replace_rcpt"
				if kind == 20 {
					name = "modify.replace_sender"
				}
				mm, _ := modify.NewReplaceAddr(name, "", nil, []string{fmt.Sprintf("&mt%d", i)})
				if err := mm.Init(config.NewMap(nil, config.Node{})); err != nil {
					t.Fatal(err)
				}
				st, _ := mm.(module.Modifier).ModStateForMsg(ctx, nil)
				mods[kind+i] = st
			}
		}
		var walk func(ns []config.Node)
		ruleArgs := map[string]bool{}
		walk = func(ns []config.Node) {
			for _, nd := range ns {
				if nd.Name == "source" || nd.Name == "destination" {
					for _, a := range nd.Args {
						ruleArgs[a] = true
					}
				}
				walk(nd.Children)
			}
		}
		walk(nodes)
		rws, rwr := []string{}, []string{}
		done := map[string]bool{}
		for round := 0; round < 6; round++ {
			var fresh []string
			for s := range known {
				if !done[s] {
					fresh = append(fresh, s)
				}
			}
			if len(fresh) == 0 {
				break
			}
			sort.Strings(fresh)
			for _, s := range fresh {
				done[s] = true
				ids := make([]int, 0, len(mods))
				for id := range mods {
					ids = append(ids, id)
				}
				sort.Ints(ids)
				for _, id := range ids {
					st := mods[id]
					// what the implementation answers now is only used to close the set of strings; the
					// oracle of the model is the documented semantics of replace_rcpt / replace_sender
					// evaluated on the tables as configured (vRefRewrite)
					if ins, ierr := st.RewriteSender(ctx, s); ierr == nil {
						known[ins] = true
					}
					if inr, ierr := st.RewriteRcpt(ctx, s); ierr == nil {
						for _, x := range inr {
							known[x] = true
						}
					}
					ref, rerr := vRefRewrite(snap[id%10], s)
					ns, err := s, error(nil)
					if id >= 20 {
						if rerr != nil {
							err = rerr
						} else {
							ns = ref[0]
						}
					}
					if err != nil {
						rws = append(rws, fmt.Sprintf("((%s, %s), None)", cN(id), vB(s)))
					} else {
						rws = append(rws, fmt.Sprintf("((%s, %s), Some %s)", cN(id), vB(s), vB(ns)))
						known[ns] = true
					}
					nr, err := []string{s}, error(nil)
					if id < 20 {
						nr, err = ref, rerr
					}
					if err != nil {
						rwr = append(rwr, fmt.Sprintf("((%s, %s), None)", cN(id), vB(s)))
					} else {
						items := make([]string, len(nr))
						for i, x := range nr {
							items[i] = vB(x)
							known[x] = true
						}
						rwr = append(rwr, fmt.Sprintf("((%s, %s), Some %s)", cN(id), vB(s), cList(items)))
					}
				}
			}
		}
		flk, dflk, split := map[string]*string{}, map[string]*string{}, map[string]*string{}
		var valid []string
		cleans := map[string]bool{"": true}
		strs := map[string]bool{}
		for s := range known {
			strs[s] = true
		}
		for s := range ruleArgs {
			strs[s] = true
		}
		for s := range strs {
			if v, err := address.ForLookup(s); err == nil {
				vv := v
				flk[s] = &vv
				cleans[v] = true
			} else {
				flk[s] = nil
			}
			if v, err := dns.ForLookup(s); err == nil {
				vv := v
				dflk[s] = &vv
				cleans[v] = true
			} else {
				dflk[s] = nil
			}
		}
		var tblHits []string
		for c := range cleans {
			if validMatchRule(c) {
				valid = append(valid, vB(c))
			}
			if _, d, err := address.Split(c); err == nil {
				dd := d
				split[c] = &dd
			} else {
				split[c] = nil
			}
			for i, tb := range tbs {
				if _, ok, _ := tb.Lookup(ctx, c); ok {
					tblHits = append(tblHits, fmt.Sprintf("(%s, %s)", cN(i), vB(c)))
				}
			}
		}
		sort.Strings(valid)
		sort.Strings(tblHits)
		var mterms []string
		mterm := func(m vMsg) string {
			tos := make([]string, len(m.tos))
			for i, x := range m.tos {
				tos[i] = vB(x)
			}
			return fmt.Sprintf("(%s, %s, %s, %s)", vB(m.from), cList(tos), vOptN(m.start), cList(m.outs))
		}
		for i := 0; i+1 < len(msgs); i += 2 {
			mterms = append(mterms, "("+mterm(msgs[i])+", "+mterm(msgs[i+1])+")")
		}
		out.Case(fmt.Sprintf("{| c_flk := %s; c_dflk := %s; c_valid := %s; c_split := %s; c_tbl := %s; c_rws := %s; c_rwr := %s; c_nodes := %s; c_loaded := %s; c_msgs := %s |}",
			vOptTab(flk), vOptTab(dflk), cList(valid), vOptTab(split), cList(tblHits), cList(rws), cList(rwr),
			cList(terms), cBool(loaded), cList(mterms)))
		stats[fmt.Sprintf("depth=%d", depth)]++
	}
	keys := make([]string, 0, len(stats))
	for k := range stats {
		keys = append(keys, k)
	}
	sort.Strings(keys)
	for _, k := range keys {
		out.Stat(k, stats[k])
	}
}
