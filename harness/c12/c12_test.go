//go:build verif

package queue

// C12 harness.  Sequential stream: entries added to a real TimeWheel before any is due, the
// dispatch order is compared with the model's schedule.  Concurrent stream: 1-4 producers calling
// Add in a loop with targets around now, one Close racing with them; the dispatch callback logs
// id, lateness and whether Close had already returned.  Queue stream: a real queue with a
// scripted target (slow, temporarily failing) shut down while attempts are in flight and retries
// are being scheduled.

import (
	"context"
	"fmt"
	"os"
	"path/filepath"
	"sort"
	"strings"
	"sync"
	"sync/atomic"
	"testing"
	"time"

	"github.com/emersion/go-message/textproto"
	"github.com/emersion/go-smtp"
	"github.com/foxcpp/maddy/framework/buffer"
	"github.com/foxcpp/maddy/framework/exterrors"
	"github.com/foxcpp/maddy/framework/log"
	"github.com/foxcpp/maddy/framework/module"
)

func TestVerif_C12(t *testing.T) {
	out := vOpenOut()
	defer out.Close()
	n := vEnvInt("VERIF_N", 20)
	retries := 0
	for ci := 0; ci < n; ci++ {
		r := vNewRand(uint64(1200000 + ci))
		var mu sync.Mutex
		var order []string
		tw := NewTimeWheel(func(s TimeSlot) {
			mu.Lock()
			order = append(order, cN(s.Value.(int)))
			mu.Unlock()
		})
		base := time.Now().Add(30 * time.Millisecond)
		k := 1 + r.intn(6)
		var ents []string
		for i := 0; i < k; i++ {
			off := r.intn(5) * 4 // multiples of 4 ms, ties allowed
			tw.Add(base.Add(time.Duration(off)*time.Millisecond), i)
			ents = append(ents, fmt.Sprintf("(%s, %s)", cN(i), cN(off)))
		}
		if !time.Now().Before(base.Add(-5*time.Millisecond)) && retries < 20 {
			// the machine was too slow: the entries were not all added ahead of their time, the case
			// says nothing about the order of scheduled entries; again
			tw.Close()
			retries++
			ci--
			continue
		}
		// until everything was dispatched (bounded), not for a fixed time
		dl := time.Now().Add(5 * time.Second)
		for time.Now().Before(dl) {
			mu.Lock()
			done := len(order) >= k
			mu.Unlock()
			if done && time.Now().After(base.Add(20*time.Millisecond)) {
				break
			}
			time.Sleep(time.Millisecond)
		}
		tw.Close()
		mu.Lock()
		out.Case(fmt.Sprintf("CSeq %s %s", cList(ents), cList(order)))
		mu.Unlock()
	}
}

func TestVerif_C12Conc(t *testing.T) {
	out := vOpenOut()
	defer out.Close()
	n := vEnvInt("VERIF_N", 20)
	total := 0
	for ci := 0; ci < n; ci++ {
		r := vNewRand(uint64(1250000 + ci))
		var mu sync.Mutex
		var disp []string
		var closeReturned atomic.Bool
		var panics atomic.Int32
		tw := NewTimeWheel(func(s TimeSlot) {
			late := !time.Now().Before(s.Time)
			after := closeReturned.Load()
			mu.Lock()
			disp = append(disp, fmt.Sprintf("(%s, %s, %s)", cN(s.Value.(int)), cN(map[bool]int{true: 1, false: 0}[late]), cBool(after)))
			mu.Unlock()
		})
		nProd := 1 + r.intn(4)
		var nextID atomic.Int32
		var addedMu sync.Mutex
		var added []string
		var wg sync.WaitGroup
		stop := make(chan struct{})
		for p := 0; p < nProd; p++ {
			wg.Add(1)
			seed := r.next()
			go func() {
				defer wg.Done()
				defer func() {
					if e := recover(); e != nil {
						panics.Add(1)
					}
				}()
				rr := &vRand{s: seed}
				for it := 0; it < 200; it++ {
					select {
					case <-stop:
						// keep adding for a while after the shutdown started
						if rr.chance(20) {
							return
						}
					default:
					}
					id := int(nextID.Add(1)) - 1
					off := rr.intn(4000) - 500 // microseconds around now
					addedMu.Lock()
					added = append(added, fmt.Sprintf("(%s, %s)", cN(id), cN(off+500)))
					addedMu.Unlock()
					tw.Add(time.Now().Add(time.Duration(off)*time.Microsecond), id)
					if rr.chance(30) {
						time.Sleep(time.Duration(rr.intn(100)) * time.Microsecond)
					}
				}
			}()
		}
		time.Sleep(time.Duration(200+r.intn(3000)) * time.Microsecond)
		closed := make(chan struct{})
		go func() {
			defer func() {
				if e := recover(); e != nil {
					panics.Add(1)
				}
				close(closed)
			}()
			tw.Close()
			closeReturned.Store(true)
		}()
		close(stop)
		done := make(chan struct{})
		go func() { wg.Wait(); <-closed; close(done) }()
		stuck := false
		select {
		case <-done:
		case <-time.After(5 * time.Second):
			stuck = true
		}
		time.Sleep(2 * time.Millisecond)
		mu.Lock()
		addedMu.Lock()
		total += len(disp)
		out.Case(fmt.Sprintf("CConc %s %s %s %s", cList(added), cList(disp), cN(int(panics.Load())), cBool(stuck)))
		addedMu.Unlock()
		mu.Unlock()
	}
	out.Stat("dispatched", total)
}

// ---- queue stream ----
type v12Target struct {
	running, startedAfter atomic.Int32
	closeReturned         atomic.Bool
	delivered             sync.Map
	failPct               int
	seed                  uint64
	mu                    sync.Mutex
}

func (t *v12Target) Start(_ context.Context, meta *module.MsgMetadata, _ string) (module.Delivery, error) {
	if t.closeReturned.Load() {
		t.startedAfter.Add(1)
	}
	t.running.Add(1)
	return &v12Delivery{t: t, id: meta.ID}, nil
}

type v12Delivery struct {
	t  *v12Target
	id string
}

func (d *v12Delivery) AddRcpt(context.Context, string, smtp.RcptOptions) error { return nil }
func (d *v12Delivery) Body(context.Context, textproto.Header, buffer.Buffer) error {
	time.Sleep(300 * time.Microsecond)
	d.t.mu.Lock()
	d.t.seed = d.t.seed*6364136223846793005 + 1442695040888963407
	fail := int(d.t.seed>>33)%100 < d.t.failPct
	d.t.mu.Unlock()
	if fail {
		return &exterrors.SMTPError{Code: 451, EnhancedCode: exterrors.EnhancedCode{4, 0, 0}, Message: "later"}
	}
	d.t.delivered.Store(d.id, true)
	return nil
}
func (d *v12Delivery) Abort(context.Context) error  { d.t.running.Add(-1); return nil }
func (d *v12Delivery) Commit(context.Context) error { d.t.running.Add(-1); return nil }

func TestVerif_C12Queue(t *testing.T) {
	out := vOpenOut()
	defer out.Close()
	n := vEnvInt("VERIF_N", 10)
	ctx := context.Background()
	base, err := os.MkdirTemp("", "verif-c12-")
	if err != nil {
		t.Fatal(err)
	}
	defer os.RemoveAll(base)
	for ci := 0; ci < n; ci++ {
		r := vNewRand(uint64(1270000 + ci))
		dir := filepath.Join(base, fmt.Sprint(ci))
		os.MkdirAll(dir, 0o700)
		tgt := &v12Target{failPct: 30 + r.intn(50), seed: r.next()}
		mq, _ := NewQueue("", "queue", nil, nil)
		q := mq.(*Queue)
		q.initialRetryTime, q.retryTimeScale, q.postInitDelay, q.maxTries = 200*time.Microsecond, 1, 0, 50
		q.location, q.Target, q.hostname = dir, tgt, "mx.verif.test"
		q.Log = log.Logger{Out: log.NopOutput{}}
		if err := q.start(1 + r.intn(3)); err != nil {
			t.Fatal(err)
		}
		nMsg := 3 + r.intn(10)
		var ids []string
		stuck := false
		for m := 0; m < nMsg && !stuck; m++ {
			meta := &module.MsgMetadata{ID: fmt.Sprintf("m%d-%d", ci, m)}
			enq := make(chan error, 1)
			go func() {
				d, err := q.Start(ctx, meta, "sender@example.org")
				if err != nil {
					enq <- err
					return
				}
				d.AddRcpt(ctx, "rcpt@example.net", smtp.RcptOptions{})
				hdr := textproto.Header{}
				hdr.Add("Subject", "x")
				d.Body(ctx, hdr, buffer.MemoryBuffer{Slice: []byte("hi\r\n")})
				enq <- d.Commit(ctx)
			}()
			select {
			case err := <-enq:
				if err != nil {
					t.Fatal(err)
				}
			case <-time.After(3 * time.Second):
				stuck = true // the enqueue hangs
			}
			ids = append(ids, meta.ID)
		}
		if stuck {
			out.Case(fmt.Sprintf("CQueue %s %s %s %s %s", cN(0), cN(0), cN(0), cN(0), cBool(true)))
			continue // the queue is wedged; its goroutines are abandoned
		}
		time.Sleep(time.Duration(r.intn(3000)) * time.Microsecond)
		closed := make(chan struct{})
		go func() { q.Close(); tgt.closeReturned.Store(true); close(closed) }()
		select {
		case <-closed:
		case <-time.After(5 * time.Second):
			stuck = true
		}
		if stuck {
			out.Case(fmt.Sprintf("CQueue %s %s %s %s %s", cN(0), cN(0), cN(0), cN(0), cBool(true)))
			continue
		}
		runningAfter := int(tgt.running.Load())
		time.Sleep(3 * time.Millisecond)
		startedAfter := int(tgt.startedAfter.Load())
		broken, lost := 0, 0
		files, _ := os.ReadDir(dir)
		present := map[string]bool{}
		for _, f := range files {
			if strings.HasSuffix(f.Name(), ".meta_broken") {
				broken++
			}
			if strings.HasSuffix(f.Name(), ".meta") {
				present[strings.TrimSuffix(f.Name(), ".meta")] = true
			}
		}
		for _, id := range ids {
			ok := present[id]
			tgt.delivered.Range(func(k, _ interface{}) bool {
				// the queue hands the message on under its own ID with an attempt suffix
				if strings.HasPrefix(k.(string), id) {
					ok = true
				}
				return true
			})
			if !ok {
				lost++
			}
		}
		out.Case(fmt.Sprintf("CQueue %s %s %s %s %s", cN(runningAfter), cN(startedAfter), cN(broken), cN(lost), cBool(stuck)))
	}
	_ = sort.Strings
}
