//go:build verif

package queue

// C08 harness: generated messages are signed by the real modify.dkim (rsa2048 / ed25519, all
// four canonicalization pairs, EAI and non-EAI with an IDN signing domain), stored in a real
// queue, the first attempt fails, the queue is restarted so that the message is reloaded from the
// spool, and target.smtp (smtpconn) sends it through a recording TCP proxy to a go-smtp server.
// The received bytes are verified with go-msgauth against the generated public key, also after
// tampering with signed header fields.

import (
	"bufio"
	"bytes"
	"context"
	"fmt"
	"io"
	"net"
	"os"
	"path/filepath"
	"sort"
	"strings"
	"sync"
	"testing"
	"time"

	"github.com/emersion/go-message/textproto"
	"github.com/emersion/go-msgauth/dkim"
	"github.com/emersion/go-smtp"
	"github.com/foxcpp/maddy/framework/buffer"
	"github.com/foxcpp/maddy/framework/config"
	"github.com/foxcpp/maddy/framework/log"
	"github.com/foxcpp/maddy/framework/module"
	mdkim "github.com/foxcpp/maddy/internal/modify/dkim"
	smtp_downstream "github.com/foxcpp/maddy/internal/target/smtp"
	"github.com/foxcpp/maddy/internal/testutils"
	"golang.org/x/net/idna"
)

type v8Proxy struct {
	l    net.Listener
	mu   sync.Mutex
	c2s  [][]byte // client -> server bytes, per connection
	back string
}

func v8NewProxy(back string) *v8Proxy {
	l, err := net.Listen("tcp", "127.0.0.1:0")
	if err != nil {
		panic(err)
	}
	p := &v8Proxy{l: l, back: back}
	go func() {
		for {
			c, err := l.Accept()
			if err != nil {
				return
			}
			s, err := net.Dial("tcp", back)
			if err != nil {
				c.Close()
				continue
			}
			p.mu.Lock()
			idx := len(p.c2s)
			p.c2s = append(p.c2s, nil)
			p.mu.Unlock()
			go func() { io.Copy(c, s); c.Close() }()
			go func() {
				buf := make([]byte, 32*1024)
				for {
					n, err := c.Read(buf)
					if n > 0 {
						p.mu.Lock()
						p.c2s[idx] = append(p.c2s[idx], buf[:n]...)
						p.mu.Unlock()
						s.Write(buf[:n])
					}
					if err != nil {
						s.Close()
						return
					}
				}
			}()
		}
	}()
	return p
}
func (p *v8Proxy) port() string { return fmt.Sprint(p.l.Addr().(*net.TCPAddr).Port) }

// the DATA payload (including the terminating .CRLF) of the last connection that carried one
func (p *v8Proxy) lastData() []byte {
	p.mu.Lock()
	defer p.mu.Unlock()
	for i := len(p.c2s) - 1; i >= 0; i-- {
		b := p.c2s[i]
		k := bytes.Index(b, []byte("DATA\r\n"))
		if k < 0 {
			continue
		}
		b = b[k+6:]
		if e := bytes.Index(b, []byte("\r\n.\r\n")); e >= 0 {
			return b[:e+5]
		}
		if bytes.HasPrefix(b, []byte(".\r\n")) {
			return b[:3]
		}
	}
	return nil
}

type v8Mod struct {
	m      module.Modifier
	txt    string
	algo   string
	hc, bc string
}

func v8Lines(b []byte) []string {
	var out []string
	for _, l := range bytes.Split(bytes.TrimSuffix(b, []byte("\r\n")), []byte("\r\n")) {
		out = append(out, cBytes(l))
	}
	if len(b) == 0 {
		return nil
	}
	return out
}

func TestVerif_C08(t *testing.T) {
	out := vOpenOut()
	defer out.Close()
	n := vEnvInt("VERIF_N", 20)
	ctx := context.Background()
	stats := map[string]int{}
	base, err := os.MkdirTemp("", "verif-c08-")
	if err != nil {
		t.Fatal(err)
	}
	defer os.RemoveAll(base)
	domains := []string{"example.org", "тест.example"}
	var mods []*v8Mod
	for _, algo := range []string{"rsa2048", "ed25519"} {
		for _, hc := range []string{"relaxed", "simple"} {
			for _, bc := range []string{"relaxed", "simple"} {
				mm, _ := mdkim.New("", "verif", nil, nil)
				err := mm.Init(config.NewMap(nil, config.Node{Children: []config.Node{
					{Name: "domains", Args: domains}, {Name: "selector", Args: []string{"sel"}},
					{Name: "key_path", Args: []string{filepath.Join(base, algo, "{domain}.key")}},
					{Name: "newkey_algo", Args: []string{algo}},
					{Name: "header_canon", Args: []string{hc}}, {Name: "body_canon", Args: []string{bc}},
				}}))
				if err != nil {
					t.Fatal(err)
				}
				mods = append(mods, &v8Mod{m: mm.(module.Modifier), algo: algo, hc: hc, bc: bc})
			}
		}
	}
	txtFor := func(algo, domain string) string {
		b, err := os.ReadFile(filepath.Join(base, algo, domain+".dns"))
		if err != nil {
			t.Fatal(err)
		}
		return strings.TrimSpace(string(b))
	}
	over := []string{"subject", "sender", "to", "cc", "from", "date", "mime-version", "content-type", "content-transfer-encoding",
		"reply-to", "in-reply-to", "message-id", "references", "autocrypt", "openpgp"}
	sign := []string{"list-id", "list-help", "list-unsubscribe", "list-post", "list-owner", "list-archive",
		"resent-to", "resent-sender", "resent-message-id", "resent-date", "resent-from", "resent-cc"}
	strL := func(l []string) string {
		items := make([]string, len(l))
		for i, s := range l {
			items[i] = cBytes([]byte(s))
		}
		return cList(items)
	}

	for ci := 0; ci < n; ci++ {
		r := vNewRand(uint64(800000 + ci))
		mod := mods[r.intn(len(mods))]
		eai := r.chance(40)
		domain := domains[r.intn(2)]
		from := "sender@" + domain
		// ---- message ----
		fieldPool := []string{"Subject", "To", "Cc", "Date", "MIME-Version", "Content-Type", "Message-Id", "References", "List-Id",
			"X-Custom", "Received", "Reply-To", "List-Unsubscribe", "X-Spam"}
		var raw bytes.Buffer
		raw.WriteString("From: <" + from + ">\r\n")
		nF := 2 + r.intn(7)
		for i := 0; i < nF; i++ {
			k := fieldPool[r.intn(len(fieldPool))]
			switch r.intn(3) {
			case 0:
				k = strings.ToUpper(k)
			case 1:
				k = strings.ToLower(k)
			}
			var v string
			switch r.intn(8) {
			case 0:
				v = ""
			case 1:
				v = " value with  double  spaces\t and tab "
			case 2:
				v = " first line\r\n\tcontinued  here\r\n   and here"
			case 3:
				v = " " + strings.Repeat("long ", 60)
			case 4:
				v = " café тест 8bit"
			case 5:
				v = "no-leading-space"
			case 6:
				// a field line at the limit: name, colon and value make 996..998 octets
				v = " " + strings.Repeat("z", []int{996, 997, 998}[r.intn(3)]-len(k)-2)
			default:
				v = fmt.Sprintf(" value %d", r.intn(1000))
			}
			sep := ":"
			if r.chance(10) {
				sep = " :"
			}
			raw.WriteString(k + sep + v + "\r\n")
		}
		if ci%53 == 7 {
			// a header just below 1 MiB (the endpoints' default limit): with the signature on top the
			// stored header is larger than that; it still has to come back whole from the spool
			var big strings.Builder
			big.WriteString("References:")
			for big.Len() < (1<<20)-raw.Len()-400 {
				big.WriteString("\r\n <" + strings.Repeat("r", 60) + "@example.org>")
			}
			raw.WriteString(big.String() + "\r\n")
			raw.WriteString("Subject: the last field of a very large header\r\n")
			stats["huge-header"]++
		}
		raw.WriteString("\r\n")
		hdr, err := textproto.ReadHeader(bufioReader(&raw))
		if err != nil {
			stats["unparsable"]++
			continue
		}
		var body bytes.Buffer
		for i := 0; i < r.intn(7); i++ {
			switch r.intn(8) {
			case 0:
				body.WriteString(".\r\n")
			case 1:
				body.WriteString("..leading dots\r\n")
			case 2:
				body.WriteString("trailing spaces   \t\r\n")
			case 3:
				body.WriteString("\r\n")
			case 4:
				if r.chance(40) { // at the RFC 5321 text-line limit: 998 octets before CRLF
					n := []int{996, 997, 998}[r.intn(3)]
					ln := strings.Repeat("y", n)
					if r.chance(30) {
						ln = "." + ln[1:]
					}
					body.WriteString(ln + "\r\n")
				} else {
					body.WriteString(strings.Repeat("x", 200+r.intn(700)) + "\r\n")
				}
			case 5:
				body.WriteString("café 8bit line\r\n")
			default:
				body.WriteString(fmt.Sprintf("line %d  with   spaces\r\n", i))
			}
		}
		for i := 0; i < r.intn(3); i++ {
			body.WriteString("\r\n") // empty lines at the end
		}
		bodyB := body.Bytes()
		// names before signing, top to bottom
		var hkeys []string
		for f := hdr.Fields(); f.Next(); {
			hkeys = append(hkeys, strings.ToLower(f.Key()))
		}
		// ---- sign ----
		meta := &module.MsgMetadata{ID: fmt.Sprintf("v8-%d", ci), SMTPOpts: smtp.MailOptions{UTF8: eai}}
		st, err := mod.m.ModStateForMsg(ctx, meta)
		if err != nil {
			t.Fatal(err)
		}
		st.RewriteSender(ctx, from)
		if err := st.RewriteBody(ctx, &hdr, buffer.MemoryBuffer{Slice: bodyB}); err != nil {
			t.Fatalf("case %d: sign: %v", ci, err)
		}
		sigv := hdr.Get("DKIM-Signature")
		if sigv == "" {
			t.Fatalf("case %d: not signed", ci)
		}
		// the h= tag
		var hnames []string
		for _, part := range strings.Split(sigv, ";") {
			part = strings.TrimSpace(part)
			if strings.HasPrefix(part, "h=") {
				for _, x := range strings.Split(part[2:], ":") {
					hnames = append(hnames, strings.ToLower(strings.Join(strings.Fields(x), "")))
				}
			}
		}
		out.Case(fmt.Sprintf("CSign %s %s %s %s", strL(over), strL(sign), strL(hkeys), strL(hnames)))

		// ---- queue, restart, SMTP ----
		if l, err := net.Listen("tcp", "127.0.0.1:0"); err == nil {
			v8Port = fmt.Sprint(l.Addr().(*net.TCPAddr).Port)
			l.Close()
		}
		be, srv := testutils.SMTPServer(t, "127.0.0.1:"+v8Port, func(s *smtp.Server) { s.EnableSMTPUTF8 = true })
		proxy := v8NewProxy("127.0.0.1:" + v8Port)
		dm, _ := smtp_downstream.NewDownstream("target.smtp", "verif", nil, []string{"tcp://127.0.0.1:" + proxy.port()})
		if err := dm.Init(config.NewMap(nil, config.Node{Children: []config.Node{
			{Name: "hostname", Args: []string{"mx.verif.test"}}, {Name: "starttls", Args: []string{"no"}}}})); err != nil {
			t.Fatal(err)
		}
		tgt := dm.(module.DeliveryTarget)
		dir := filepath.Join(base, fmt.Sprintf("q%d", ci))
		os.MkdirAll(dir, 0o700)
		newQ := func() *Queue {
			mq, _ := NewQueue("", "queue", nil, nil)
			q := mq.(*Queue)
			q.initialRetryTime, q.retryTimeScale, q.postInitDelay, q.maxTries = 0, 1, 0, 5
			q.location, q.Target, q.hostname = dir, tgt, "mx.verif.test"
			q.Log = log.Logger{Out: log.NopOutput{}}
			if err := q.start(1); err != nil {
				t.Fatal(err)
			}
			return q
		}
		q := newQ()
		be.DataErr = &smtp.SMTPError{Code: 451, EnhancedCode: smtp.EnhancedCode{4, 0, 0}, Message: "later"}
		q.initialRetryTime = time.Hour // the retry is left to the restarted queue
		d, err := q.Start(ctx, meta, from)
		if err != nil {
			t.Fatal(err)
		}
		d.AddRcpt(ctx, "rcpt@example.net", smtp.RcptOptions{})
		if err := d.Body(ctx, hdr, buffer.MemoryBuffer{Slice: bodyB}); err != nil {
			t.Fatal(err)
		}
		if err := d.Commit(ctx); err != nil {
			t.Fatal(err)
		}
		waitFor := func(cond func() bool) {
			dl := time.Now().Add(5 * time.Second)
			for !cond() && time.Now().Before(dl) {
				time.Sleep(300 * time.Microsecond)
			}
		}
		waitFor(func() bool { return be.MailFromCounter >= 1 && proxy.lastData() != nil })
		time.Sleep(10 * time.Millisecond)
		q.Close()
		be.DataErr = nil
		q = newQ()
		waitFor(func() bool { return len(be.Messages) >= 1 })
		time.Sleep(5 * time.Millisecond)
		q.Close()
		if len(be.Messages) == 0 {
			t.Fatalf("case %d: message did not arrive after the restart", ci)
		}
		received := be.Messages[len(be.Messages)-1].Data
		wire := proxy.lastData()
		srv.Close()
		proxy.l.Close()

		// what was handed to the SMTP client: the header as stored + body
		var sent bytes.Buffer
		textproto.WriteHeader(&sent, hdr)
		sent.Write(bodyB)
		if len(received) < 12000 { // keep the terms small
			out.Case(fmt.Sprintf("CWire %s %s %s", cList(v8Lines(sent.Bytes())), cBytes(wire), cBytes(received)))
		}

		// ---- verification at the next hop ----
		verify := func(msg []byte) bool {
			vs, err := dkim.VerifyWithOptions(bytes.NewReader(msg), &dkim.VerifyOptions{
				LookupTXT: func(name string) ([]string, error) {
					for _, dmn := range domains {
						a, _ := idnaToASCII(dmn)
						if name == "sel._domainkey."+dmn || name == "sel._domainkey."+a {
							return []string{txtFor(mod.algo, dmn)}, nil
						}
					}
					return nil, fmt.Errorf("no key for %s", name)
				}})
			if err != nil || len(vs) == 0 {
				return false
			}
			return vs[0].Err == nil
		}
		verified := verify(received)
		if verified {
			stats["verified"]++
		}
		// tampering
		sep := bytes.Index(received, []byte("\r\n\r\n"))
		hpart, rest := received[:sep+2], received[sep+2:]
		var tampers []string
		tamper := func(id int, msg []byte) {
			tampers = append(tampers, fmt.Sprintf("(%s, %s)", cN(id), cBool(verify(msg))))
		}
		// 1: another instance of an over-signed field on top
		tamper(1, append([]byte("Subject: you won\r\n"), received...))
		tamper(2, append([]byte("MIME-Version: 1.0\r\n"), received...))
		// 3: alter the From field
		if k := bytes.Index(hpart, []byte("From: <sender@")); k >= 0 {
			alt := append([]byte{}, received...)
			copy(alt[k+7:], []byte("spoofr"))
			tamper(3, alt)
		}
		// 4: remove the From field
		if k := bytes.Index(hpart, []byte("From: <sender@")); k >= 0 {
			e := bytes.Index(hpart[k:], []byte("\r\n"))
			alt := append(append([]byte{}, hpart[:k]...), hpart[k+e+2:]...)
			tamper(4, append(alt, rest...))
		}
		// 5: alter the body
		if len(rest) > 4 {
			alt := append([]byte{}, received...)
			alt[len(alt)-3] ^= 0x01
			if !bytes.Equal(bytes.TrimRight(alt[sep+4:], "\r\n \t"), bytes.TrimRight(received[sep+4:], "\r\n \t")) {
				tamper(5, alt)
			}
		}
		benign := verify(append([]byte("X-Scanned-By: next hop\r\n"), received...))
		out.Case(fmt.Sprintf("CE2E %s %s %s", cBool(verified), cBool(benign), cList(tampers)))
		stats["algo="+mod.algo]++
		stats["canon="+mod.hc+"/"+mod.bc]++
		if eai {
			stats["eai"]++
		}
		if domain != "example.org" {
			stats["idn-domain"]++
		}
	}
	keys := make([]string, 0, len(stats))
	for k := range stats {
		keys = append(keys, k)
	}
	sort.Strings(keys)
	for _, k := range keys {
		out.Stat(k, stats[k])
	}
}

var v8Port string

func bufioReader(b *bytes.Buffer) *bufio.Reader { return bufio.NewReader(b) }
func idnaToASCII(s string) (string, error)      { return idna.ToASCII(s) }
