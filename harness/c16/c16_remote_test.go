//go:build verif

package remote

// C16 harness (remote stream): the remote target's "no usable MX" error.  The destination has 1-3
// MX candidates; each is either down (an address, nothing listening: a temporary failure) or gone
// (no address record: a permanent one).  The error AddRcpt returns is converted the way the queue
// stores it, and its temporariness is asked the way the queue decides on a retry.

import (
	"context"
	"errors"
	"fmt"
	"net"
	"testing"

	"github.com/emersion/go-smtp"
	"github.com/foxcpp/go-mockdns"
	"github.com/foxcpp/maddy/framework/exterrors"
	"github.com/foxcpp/maddy/framework/module"
	"github.com/foxcpp/maddy/internal/target/queue"
)

func TestVerif_C16Remote(t *testing.T) {
	out := vOpenOut()
	defer out.Close()
	ctx := context.Background()
	// a port nothing listens on
	if l, err := net.Listen("tcp", "127.0.0.1:0"); err == nil {
		smtpPort = fmt.Sprint(l.Addr().(*net.TCPAddr).Port)
		l.Close()
	}
	n := 0
	for k := 1; k <= 3; k++ {
		for mask := 0; mask < 1<<k; mask++ {
			zones := map[string]mockdns.Zone{}
			var mxs []net.MX
			var fails []string
			for i := 0; i < k; i++ {
				host := fmt.Sprintf("mx%d.example.invalid.", i)
				mxs = append(mxs, net.MX{Host: host, Pref: uint16(10 * (i + 1))})
				down := mask&(1<<i) != 0
				if down {
					zones[host] = mockdns.Zone{A: []string{"127.0.0.1"}}
				}
				fails = append(fails, cBool(down))
			}
			zones["example.invalid."] = mockdns.Zone{MX: mxs}
			tgt := testTarget(t, zones, nil, nil)
			d, err := tgt.Start(ctx, &module.MsgMetadata{ID: fmt.Sprintf("v16r%d", n)}, "sender@example.com")
			if err != nil {
				t.Fatal(err)
			}
			rerr := d.AddRcpt(ctx, "rcpt@example.invalid", smtp.RcptOptions{})
			d.Abort(ctx)
			tgt.Close()
			if rerr == nil {
				t.Fatalf("case %d: a destination without a usable MX accepted the recipient", n)
			}
			stored := "None"
			if se := queue.VerifToSMTPErr(rerr); se != nil {
				stored = fmt.Sprintf("(Some (%s, {| e0 := %s; e1 := %s; e2 := %s |}))", cZ(se.Code),
					cZ(se.EnhancedCode[0]), cZ(se.EnhancedCode[1]), cZ(se.EnhancedCode[2]))
			}
			out.Case(fmt.Sprintf("{| m_lookup := None; m_fails := %s; m_stored := %s; m_temp := %s |}", cList(fails), stored,
				cBool(exterrors.IsTemporaryOrUnspec(rerr))))
			n++
		}
	}
	out.Stat("mx-sets", n)

	// the MX lookup itself fails: the usual ways (no such name, SERVFAIL or a time-out) and unusual
	// ones (an answer the resolver reports without any flag, or cannot parse)
	lookups := []struct {
		err  error
		temp bool
	}{
		{&net.DNSError{Err: "no such host", Name: "example.invalid", IsNotFound: true}, false},
		{&net.DNSError{Err: "server misbehaving", Name: "example.invalid", IsTemporary: true}, true},
		{&net.DNSError{Err: "i/o timeout", Name: "example.invalid", IsTimeout: true}, true},
		{&net.DNSError{Err: "server misbehaving", Name: "example.invalid"}, false},
		{&net.DNSError{Err: "cannot unmarshal DNS message", Name: "example.invalid"}, false},
		{errors.New("dns: bad rdata"), false},
	}
	for i, lk := range lookups {
		zones := map[string]mockdns.Zone{"example.invalid.": {Err: lk.err}}
		tgt := testTarget(t, zones, nil, nil)
		d, err := tgt.Start(ctx, &module.MsgMetadata{ID: fmt.Sprintf("v16l%d", i)}, "sender@example.com")
		if err != nil {
			t.Fatal(err)
		}
		rerr := d.AddRcpt(ctx, "rcpt@example.invalid", smtp.RcptOptions{})
		d.Abort(ctx)
		tgt.Close()
		if rerr == nil {
			t.Fatalf("lookup case %d: a destination whose MX lookup fails accepted the recipient", i)
		}
		stored := "None"
		if se := queue.VerifToSMTPErr(rerr); se != nil {
			stored = fmt.Sprintf("(Some (%s, {| e0 := %s; e1 := %s; e2 := %s |}))", cZ(se.Code),
				cZ(se.EnhancedCode[0]), cZ(se.EnhancedCode[1]), cZ(se.EnhancedCode[2]))
		}
		out.Case(fmt.Sprintf("{| m_lookup := Some %s; m_fails := []; m_stored := %s; m_temp := %s |}", cBool(lk.temp), stored,
			cBool(exterrors.IsTemporaryOrUnspec(rerr))))
	}
	out.Stat("mx-lookup-failures", len(lookups))
}
