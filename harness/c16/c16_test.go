//go:build verif

package smtp

// C16 harness: generated error trees through the endpoint's wrapErr (observed on the wire
// of a real go-smtp server), the queue's toSMTPErr and the exterrors helpers.

import (
	"context"
	"errors"
	"fmt"
	"io"
	"net"
	"net/textproto"
	"regexp"
	"strconv"
	"strings"
	"testing"

	"github.com/emersion/go-smtp"
	"github.com/foxcpp/maddy/framework/exterrors"
	"github.com/foxcpp/maddy/framework/log"
	"github.com/foxcpp/maddy/internal/target/queue"
)

type vTempOnly struct{ t bool }

func (e vTempOnly) Error() string   { return "net error" }
func (e vTempOnly) Temporary() bool { return e.t }

type vErrGen struct {
	r       *vRand
	valid   bool // mostly-valid stream: well-annotated errors
	classOf int  // class of the outermost annotation below the current position (0 = none)
}

var vCodes4 = []int{421, 450, 451, 452}
var vCodes5 = []int{500, 550, 552, 554}
var vCodesBad = []int{250, 354, 299, 601}
var vMsgAlphabet = []string{"a", "B", " ", "x", "\u0080", "é", "中", "\U0001F600", "\u007f", "-", "z"}

func (g *vErrGen) msg() string {
	n := g.r.intn(6)
	var b strings.Builder
	b.WriteString("m")
	for i := 0; i < n; i++ {
		b.WriteString(vMsgAlphabet[g.r.intn(len(vMsgAlphabet))])
	}
	return b.String()
}

func (g *vErrGen) codeEnch() (int, [3]int) {
	var code int
	switch {
	case !g.valid && g.r.chance(20):
		code = vCodesBad[g.r.intn(len(vCodesBad))]
	case g.r.chance(50):
		code = vCodes4[g.r.intn(len(vCodes4))]
	default:
		code = vCodes5[g.r.intn(len(vCodes5))]
	}
	e := [3]int{code / 100, g.r.intn(8), g.r.intn(30)}
	if g.r.chance(10) {
		e = [3]int{0, 0, 0}
	}
	if !g.valid && g.r.chance(30) {
		e[0] = []int{4, 5, 2, 0}[g.r.intn(4)]
	}
	return code, e
}

var vKeys = []string{"smtp_code", "smtp_enchcode", "smtp_msg", "other1", "other2", "reason"}
var vKeysCoq = []string{"KCode", "KEnch", "KMsg", "(KOther 1)", "(KOther 2)", "(KOther 3)"}

func cEnch(e [3]int) string {
	return fmt.Sprintf("{| e0 := %s; e1 := %s; e2 := %s |}", cZ(e[0]), cZ(e[1]), cZ(e[2]))
}

// kv generates a field map with unique keys; annotation keys only in the malformed stream
func (g *vErrGen) kv() (map[string]interface{}, string) {
	m := map[string]interface{}{}
	var items []string
	n := g.r.intn(3)
	for i := 0; i < n; i++ {
		ki := 3 + g.r.intn(3)
		if !g.valid && g.r.chance(50) {
			ki = g.r.intn(3)
		}
		if _, dup := m[vKeys[ki]]; dup {
			continue
		}
		var v interface{}
		var cv string
		switch g.r.intn(6) {
		case 0:
			c, _ := g.codeEnch()
			v, cv = c, "(FInt "+cZ(c)+")"
		case 1:
			_, e := g.codeEnch()
			v, cv = exterrors.EnhancedCode{e[0], e[1], e[2]}, "(FEnchExt "+cEnch(e)+")"
		case 2:
			_, e := g.codeEnch()
			v, cv = smtp.EnhancedCode{e[0], e[1], e[2]}, "(FEnchGo "+cEnch(e)+")"
		case 3:
			s := g.msg()
			v, cv = s, "(FStr "+cStr(s)+")"
		case 4:
			v, cv = nil, "FNil"
		default:
			v, cv = 1.5, "FOther"
		}
		m[vKeys[ki]] = v
		items = append(items, "("+vKeysCoq[ki]+", "+cv+")")
	}
	return m, cList(items)
}

// gen returns a Go error, its Coq term and the class of its outermost annotation (0 = none)
func (g *vErrGen) gen(depth int) (error, string, int) {
	leaf := depth <= 0 || g.r.chance(20)
	if leaf {
		switch g.r.intn(6) {
		case 0:
			return errors.New("plain"), "EPlain", 0
		case 1:
			t := g.r.chance(50)
			return vTempOnly{t}, "(ENet " + cBool(t) + ")", 0
		case 2:
			if g.r.chance(30) {
				return context.DeadlineExceeded, "EDeadline", 0
			}
			return errors.New("plain2"), "EPlain", 0
		case 3:
			if depth <= 0 || g.r.chance(50) {
				c, e := g.codeEnch()
				m := g.msg()
				return &smtp.SMTPError{Code: c, EnhancedCode: smtp.EnhancedCode{e[0], e[1], e[2]}, Message: m},
					fmt.Sprintf("(EGoSmtp %s %s %s)", cZ(c), cEnch(e), cStr(m)), 0
			}
			fallthrough
		default:
			c, e := g.codeEnch()
			m := g.msg()
			misc, cmisc := g.kv()
			if g.r.chance(50) {
				misc = nil
				cmisc = "[]"
			}
			return &exterrors.SMTPError{Code: c, EnhancedCode: exterrors.EnhancedCode{e[0], e[1], e[2]}, Message: m, Misc: misc},
				fmt.Sprintf("(ESmtp %s %s %s %s None)", cZ(c), cEnch(e), cStr(m), cmisc), c / 100
		}
	}
	switch g.r.intn(5) {
	case 0:
		in, cin, cl := g.gen(depth - 1)
		return fmt.Errorf("ctx: %w", in), "(EWrapW " + cin + ")", cl
	case 1:
		in, cin, _ := g.gen(depth - 1)
		c, e := g.codeEnch()
		m := g.msg()
		misc, cmisc := g.kv()
		se := &exterrors.SMTPError{Code: c, EnhancedCode: exterrors.EnhancedCode{e[0], e[1], e[2]}, Message: m, Misc: misc, Err: in}
		if g.r.chance(30) {
			se.Reason = "some reason"
			se.CheckName = "chk"
		}
		return se, fmt.Sprintf("(ESmtp %s %s %s %s (Some %s))", cZ(c), cEnch(e), cStr(m), cmisc, cin), c / 100
	case 2:
		in, cin, cl := g.gen(depth - 1)
		b := g.r.chance(50)
		if g.valid && cl != 0 {
			b = cl == 4
		}
		return exterrors.WithTemporary(in, b), "(ETemp " + cBool(b) + " " + cin + ")", cl
	case 3:
		in, cin, cl := g.gen(depth - 1)
		kv, ckv := g.kv()
		return exterrors.WithFields(in, kv), "(EFields " + ckv + " " + cin + ")", cl
	default:
		in, cin, cl := g.gen(depth - 1)
		return fmt.Errorf("again: %w", in), "(EWrapW " + cin + ")", cl
	}
}

// --- a real go-smtp server whose RCPT returns what wrapErr built ---

type vBackend struct{ cur *error }
type vSession struct{ be *vBackend }

func (b *vBackend) NewSession(*smtp.Conn) (smtp.Session, error) { return &vSession{b}, nil }
func (s *vSession) AuthPlain(string, string) error               { return nil }
func (s *vSession) Mail(string, *smtp.MailOptions) error         { return nil }
func (s *vSession) Rcpt(string, *smtp.RcptOptions) error         { return *s.be.cur }
func (s *vSession) Data(io.Reader) error                         { return nil }
func (s *vSession) Reset()                                       {}
func (s *vSession) Logout() error                                { return nil }

var vEnchRe = regexp.MustCompile(`^(\d+)\.(\d+)\.(\d+) `)

func cReply(code int, e [3]int, msg string) string {
	return fmt.Sprintf("{| r_code := %s; r_ench := %s; r_msg := %s |}", cZ(code), cEnch(e), cStr(msg))
}

func TestVerif_C16(t *testing.T) {
	out := vOpenOut()
	defer out.Close()
	n := vEnvInt("VERIF_N", 300)

	var cur error
	srv := smtp.NewServer(&vBackend{cur: &cur})
	srv.Domain = "verif.test"
	srv.AllowInsecureAuth = true
	l, err := net.Listen("tcp", "127.0.0.1:0")
	if err != nil {
		t.Fatal(err)
	}
	go srv.Serve(l)
	defer srv.Close()

	var tp *textproto.Conn
	dial := func() {
		c, err := net.Dial("tcp", l.Addr().String())
		if err != nil {
			t.Fatal(err)
		}
		tp = textproto.NewConn(c)
		if _, _, err := tp.ReadResponse(220); err != nil {
			t.Fatal(err)
		}
		tp.PrintfLine("EHLO verif")
		if _, _, err := tp.ReadResponse(250); err != nil {
			t.Fatal(err)
		}
	}
	dial()

	endp := &Endpoint{name: "verif", Log: log.Logger{Out: log.NopOutput{}}}

	rv := vNewRand(16)
	stats := map[string]int{}
	for i := 0; i < n; i++ {
		g := &vErrGen{r: rv, valid: i%10 < 7}
		depth := 1 + i%4
		e, ce, _ := g.gen(depth)
		msgid := ""
		if rv.chance(50) {
			msgid = fmt.Sprintf("%08x", rv.intn(1<<30))
		}
		mangle := rv.chance(50)
		if g.valid {
			stats["stream_valid"]++
		} else {
			stats["stream_malformed"]++
		}
		stats["depth_"+strconv.Itoa(depth)]++

		// endpoint: over the wire
		cur = endp.wrapErr(msgid, mangle, "RCPT", e)
		tp.PrintfLine("MAIL FROM:<a@verif.test>")
		if _, _, err := tp.ReadResponse(250); err != nil {
			t.Fatalf("case %d: MAIL: %v", i, err)
		}
		tp.PrintfLine("RCPT TO:<b@verif.test>")
		line, err := tp.ReadLine()
		if err != nil || len(line) < 4 {
			t.Fatalf("case %d: RCPT: %q %v", i, line, err)
		}
		wcode, _ := strconv.Atoi(line[:3])
		rest := line[4:]
		wench := [3]int{-1, -1, -1}
		if m := vEnchRe.FindStringSubmatch(rest); m != nil {
			wench[0], _ = strconv.Atoi(m[1])
			wench[1], _ = strconv.Atoi(m[2])
			wench[2], _ = strconv.Atoi(m[3])
			rest = rest[len(m[0]):]
		}
		tp.PrintfLine("RSET")
		if _, _, err := tp.ReadResponse(250); err != nil {
			dial()
		}

		// queue
		q := queue.VerifToSMTPErr(e)

		hc := exterrors.SMTPCode(e, 450, 550)
		he := exterrors.SMTPEnchCode(e, exterrors.EnhancedCode{0, 4, 4})

		out.Case(fmt.Sprintf("{| c_msgid := %s; c_mangle := %s; c_err := %s; c_obs := {| o_is_temp := %s; o_is_temp_unspec := %s; o_wrap := %s; o_queue := %s; o_code := %s; o_ench := %s |} |}",
			cStr(msgid), cBool(mangle), ce,
			cBool(exterrors.IsTemporary(e)), cBool(exterrors.IsTemporaryOrUnspec(e)),
			cReply(wcode, wench, rest),
			cReply(q.Code, [3]int{q.EnhancedCode[0], q.EnhancedCode[1], q.EnhancedCode[2]}, q.Message),
			cZ(hc), cEnch([3]int{he[0], he[1], he[2]})))
	}
	for k, v := range stats {
		out.Stat(k, v)
	}
}
