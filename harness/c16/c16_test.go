//go:build verif

package smtp

// C16 harness: generated error trees through the endpoint's wrapErr (observed on the wire
// of a real go-smtp server), the queue's toSMTPErr and the exterrors helpers.

import (
	"fmt"
	"io"
	"net"
	"net/textproto"
	"regexp"
	"strconv"
	"testing"

	"github.com/emersion/go-smtp"
	"github.com/foxcpp/maddy/framework/exterrors"
	"github.com/foxcpp/maddy/framework/log"
	"github.com/foxcpp/maddy/internal/target/queue"
)

// --- a real go-smtp server whose RCPT returns what wrapErr built ---

type vBackend struct{ cur *error }
type vSession struct{ be *vBackend }

func (b *vBackend) NewSession(*smtp.Conn) (smtp.Session, error) { return &vSession{b}, nil }
func (s *vSession) AuthPlain(string, string) error               { return nil }
func (s *vSession) Mail(string, *smtp.MailOptions) error         { return nil }
func (s *vSession) Rcpt(string, *smtp.RcptOptions) error         { return *s.be.cur }
func (s *vSession) Data(io.Reader) error                         { return nil }
func (s *vSession) Reset()                                       {}
func (s *vSession) Logout() error                                { return nil }

var vEnchRe = regexp.MustCompile(`^(\d+)\.(\d+)\.(\d+) `)


func TestVerif_C16(t *testing.T) {
	out := vOpenOut()
	defer out.Close()
	n := vEnvInt("VERIF_N", 300)

	var cur error
	srv := smtp.NewServer(&vBackend{cur: &cur})
	srv.Domain = "verif.test"
	srv.AllowInsecureAuth = true
	l, err := net.Listen("tcp", "127.0.0.1:0")
	if err != nil {
		t.Fatal(err)
	}
	go srv.Serve(l)
	defer srv.Close()

	var tp *textproto.Conn
	dial := func() {
		c, err := net.Dial("tcp", l.Addr().String())
		if err != nil {
			t.Fatal(err)
		}
		tp = textproto.NewConn(c)
		if _, _, err := tp.ReadResponse(220); err != nil {
			t.Fatal(err)
		}
		tp.PrintfLine("EHLO verif")
		if _, _, err := tp.ReadResponse(250); err != nil {
			t.Fatal(err)
		}
	}
	dial()

	endp := &Endpoint{name: "verif", Log: log.Logger{Out: log.NopOutput{}}}

	rv := vNewRand(16)
	stats := map[string]int{}
	for i := 0; i < n; i++ {
		g := &vErrGen{r: rv, valid: i%10 < 7}
		depth := 1 + i%4
		e, ce, _ := g.gen(depth)
		if e2, ce2, applied := vApplyOverride(i, e, ce); applied {
			e, ce = e2, ce2
			stats["fail_action_override"]++
		}
		msgid := ""
		if rv.chance(50) {
			msgid = fmt.Sprintf("%08x", rv.intn(1<<30))
		}
		mangle := rv.chance(50)
		if g.valid {
			stats["stream_valid"]++
		} else {
			stats["stream_malformed"]++
		}
		stats["depth_"+strconv.Itoa(depth)]++

		// endpoint: over the wire
		cur = endp.wrapErr(msgid, mangle, "RCPT", e)
		tp.PrintfLine("MAIL FROM:<a@verif.test>")
		if _, _, err := tp.ReadResponse(250); err != nil {
			t.Fatalf("case %d: MAIL: %v", i, err)
		}
		tp.PrintfLine("RCPT TO:<b@verif.test>")
		line, err := tp.ReadLine()
		if err != nil || len(line) < 4 {
			t.Fatalf("case %d: RCPT: %q %v", i, line, err)
		}
		wcode, _ := strconv.Atoi(line[:3])
		rest := line[4:]
		wench := [3]int{-1, -1, -1}
		if m := vEnchRe.FindStringSubmatch(rest); m != nil {
			wench[0], _ = strconv.Atoi(m[1])
			wench[1], _ = strconv.Atoi(m[2])
			wench[2], _ = strconv.Atoi(m[3])
			rest = rest[len(m[0]):]
		}
		tp.PrintfLine("RSET")
		if _, _, err := tp.ReadResponse(250); err != nil {
			dial()
		}

		// queue
		q := queue.VerifToSMTPErr(e)

		hc := exterrors.SMTPCode(e, 450, 550)
		he := exterrors.SMTPEnchCode(e, exterrors.EnhancedCode{0, 4, 4})

		out.Case(fmt.Sprintf("{| c_msgid := %s; c_mangle := %s; c_err := %s; c_obs := {| o_is_temp := %s; o_is_temp_unspec := %s; o_wrap := %s; o_queue := %s; o_code := %s; o_ench := %s |} |}",
			cStr(msgid), cBool(mangle), ce,
			cBool(exterrors.IsTemporary(e)), cBool(exterrors.IsTemporaryOrUnspec(e)),
			cReply(wcode, wench, rest),
			cReply(q.Code, [3]int{q.EnhancedCode[0], q.EnhancedCode[1], q.EnhancedCode[2]}, q.Message),
			cZ(hc), cEnch([3]int{he[0], he[1], he[2]})))
	}
	for k, v := range stats {
		out.Stat(k, v)
	}
}
