//go:build verif

package queue

// C16 queue stream: generated error trees as the per-recipient failures of successive delivery
// attempts of one queued message.  Observed: the status the queue recorded after each attempt
// (the spool metadata as the next attempt finds it; the failure report for the last one) and the
// decision it took (another attempt followed or not).

import (
	"context"
	"fmt"
	"io"
	"os"
	"path/filepath"
	"regexp"
	"strconv"
	"sync"
	"testing"
	"time"

	"github.com/emersion/go-message/textproto"
	"github.com/emersion/go-smtp"
	"github.com/foxcpp/maddy/framework/buffer"
	"github.com/foxcpp/maddy/framework/log"
	"github.com/foxcpp/maddy/framework/module"
)

type v16Stored struct {
	code int
	ench [3]int
	msg  string
	full bool // message text known (spool metadata) or only the codes (failure report)
}

type v16Target struct {
	mu      sync.Mutex
	q       *Queue
	id      string
	errs    []error // attempt i fails the recipient with errs[i]; beyond: accepted
	attempt int
	stored  []*v16Stored // stored[i]: what the spool held when attempt i+1 started
}

type v16Delivery struct {
	t *v16Target
	n int
}

func (t *v16Target) Start(ctx context.Context, msgMeta *module.MsgMetadata, mailFrom string) (module.Delivery, error) {
	t.mu.Lock()
	defer t.mu.Unlock()
	n := t.attempt
	t.attempt++
	if n > 0 {
		var st *v16Stored
		if m, err := t.q.readMessageMeta(t.id); err == nil {
			if e := m.RcptErrs["rcpt@verif.test"]; e != nil {
				st = &v16Stored{e.Code, [3]int{e.EnhancedCode[0], e.EnhancedCode[1], e.EnhancedCode[2]}, e.Message, true}
			}
		}
		t.stored = append(t.stored, st)
	}
	return &v16Delivery{t, n}, nil
}
func (d *v16Delivery) AddRcpt(ctx context.Context, rcptTo string, _ smtp.RcptOptions) error {
	if d.n < len(d.t.errs) {
		return d.t.errs[d.n]
	}
	return nil
}
func (d *v16Delivery) Body(context.Context, textproto.Header, buffer.Buffer) error { return nil }
func (d *v16Delivery) Abort(context.Context) error                                  { return nil }
func (d *v16Delivery) Commit(context.Context) error                                 { return nil }

type v16Bounce struct {
	mu   sync.Mutex
	body []string
}
type v16BounceDelivery struct{ b *v16Bounce }

func (b *v16Bounce) Start(context.Context, *module.MsgMetadata, string) (module.Delivery, error) {
	return &v16BounceDelivery{b}, nil
}
func (d *v16BounceDelivery) AddRcpt(context.Context, string, smtp.RcptOptions) error { return nil }
func (d *v16BounceDelivery) Body(ctx context.Context, h textproto.Header, body buffer.Buffer) error {
	r, err := body.Open()
	if err != nil {
		return err
	}
	defer r.Close()
	data, _ := io.ReadAll(r)
	d.b.mu.Lock()
	d.b.body = append(d.b.body, string(data))
	d.b.mu.Unlock()
	return nil
}
func (d *v16BounceDelivery) Commit(context.Context) error { return nil }
func (d *v16BounceDelivery) Abort(context.Context) error  { return nil }

var v16StatusRe = regexp.MustCompile(`(?m)^Status: (\d+)\.(\d+)\.(\d+)\r?$`)
var v16DiagRe = regexp.MustCompile(`(?m)^Diagnostic-Code: smtp; (\d+) (\d+)\.(\d+)\.(\d+) `)

func TestVerif_C16Queue(t *testing.T) {
	out := vOpenOut()
	defer out.Close()
	n := vEnvInt("VERIF_N", 100)
	rv := vNewRand(1616)
	stats := map[string]int{}
	dir := t.TempDir()
	ctx := context.Background()

	for ci := 0; ci < n; ci++ {
		nErr := 1 + rv.intn(3)
		var errs []error
		var cerrs []string
		g := &vErrGen{r: rv, valid: true} // maddy's own (well-annotated) failures
		for i := 0; i < nErr; i++ {
			e, ce, _ := g.gen(1 + rv.intn(3))
			if e2, ce2, applied := vApplyOverride(ci*3+i, e, ce); applied {
				e, ce = e2, ce2
				stats["fail_action_override"]++
			}
			errs = append(errs, e)
			cerrs = append(cerrs, ce)
		}
		maxTries := 2 + rv.intn(4)
		tgt := &v16Target{errs: errs}
		bnc := &v16Bounce{}
		mod, _ := NewQueue("", "queue", nil, nil)
		q := mod.(*Queue)
		q.initialRetryTime = 0
		q.retryTimeScale = 1
		q.postInitDelay = 0
		q.maxTries = maxTries
		q.location = dir
		q.Target = tgt
		q.hostname = "mx.verif.test"
		q.autogenMsgDomain = "verif.test"
		q.Log = log.Logger{Out: log.NopOutput{}}
		q.dsnPipeline = bnc
		tgt.q = q
		if err := q.start(1); err != nil {
			t.Fatal(err)
		}
		id, _ := module.GenerateMsgID()
		tgt.id = id
		meta := &module.MsgMetadata{ID: id, OriginalFrom: "sender@verif.test", SMTPOpts: smtp.MailOptions{UTF8: true}}
		d, err := q.Start(ctx, meta, "sender@verif.test")
		if err != nil {
			t.Fatal(err)
		}
		if err := d.AddRcpt(ctx, "rcpt@verif.test", smtp.RcptOptions{}); err != nil {
			t.Fatal(err)
		}
		hdr := textproto.Header{}
		hdr.Add("Subject", "verif")
		if err := d.Body(ctx, hdr, buffer.MemoryBuffer{Slice: []byte("hello\r\n")}); err != nil {
			t.Fatal(err)
		}
		if err := d.Commit(ctx); err != nil {
			t.Fatal(err)
		}
		deadline := time.Now().Add(5 * time.Second)
		removed := false
		for time.Now().Before(deadline) {
			if _, err := os.Stat(filepath.Join(dir, id+".meta")); os.IsNotExist(err) {
				removed = true
				break
			}
			time.Sleep(200 * time.Microsecond)
		}
		q.Close()
		entries, _ := os.ReadDir(dir)
		for _, e := range entries {
			os.Remove(filepath.Join(dir, e.Name()))
		}
		if !removed {
			stats["not_quiescent"]++
			continue
		}
		tgt.mu.Lock()
		attempts := tgt.attempt
		stored := tgt.stored
		tgt.mu.Unlock()
		bnc.mu.Lock()
		reports := bnc.body
		bnc.mu.Unlock()
		// the last failing attempt's record is in the report (when the recipient was given up)
		var last *v16Stored
		if len(reports) > 0 {
			st := v16StatusRe.FindStringSubmatch(reports[0])
			dg := v16DiagRe.FindStringSubmatch(reports[0])
			if st != nil && dg != nil {
				code, _ := strconv.Atoi(dg[1])
				e0, _ := strconv.Atoi(st[1])
				e1, _ := strconv.Atoi(st[2])
				e2, _ := strconv.Atoi(st[3])
				d0, _ := strconv.Atoi(dg[2])
				d1, _ := strconv.Atoi(dg[3])
				d2, _ := strconv.Atoi(dg[4])
				if [3]int{e0, e1, e2} != [3]int{d0, d1, d2} {
					e0 = -1 // Status and Diagnostic-Code disagree: never a coherent record
				}
				last = &v16Stored{code, [3]int{e0, e1, e2}, "", false}
			}
		}
		// attempts that failed: min(attempts, nErr); attempt i (0-based) was retried iff i+1 < attempts
		nFailed := attempts
		if nFailed > nErr {
			nFailed = nErr
		}
		var cat []string
		for i := 0; i < nFailed; i++ {
			retried := i+1 < attempts
			var st *v16Stored
			if retried {
				if i < len(stored) {
					st = stored[i]
				}
			} else {
				st = last
			}
			cst := "None"
			if st != nil {
				cst = fmt.Sprintf("(Some (%s, %s))", cReply(st.code, st.ench, st.msg), cBool(st.full))
			}
			cat = append(cat, fmt.Sprintf("(%s, %s, %s)", cerrs[i], cst, cBool(retried)))
		}
		stats[fmt.Sprintf("attempts_%d", attempts)]++
		stats[fmt.Sprintf("reports_%d", len(reports))]++
		out.Case(fmt.Sprintf("{| q_max_tries := %s; q_attempts := %s; q_reports := %s |}", cN(maxTries), cList(cat), cN(len(reports))))
	}
	for k, v := range stats {
		out.Stat(k, v)
	}
}
