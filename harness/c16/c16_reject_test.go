//go:build verif

package smtp

import (
	"fmt"
	"strconv"
	"testing"

	"github.com/foxcpp/maddy/framework/config"
	modconfig "github.com/foxcpp/maddy/framework/config/module"
	"github.com/foxcpp/maddy/framework/exterrors"
	"github.com/foxcpp/maddy/internal/msgpipeline"
)

// exhaustive over a small code / enhanced-code alphabet, both parsers
func TestVerif_C16Reject(t *testing.T) {
	out := vOpenOut()
	defer out.Close()
	codes := []int{-1, 99, 250, 354, 400, 421, 450, 451, 499, 500, 550, 554, 599, 600, 999}
	enchs := [][3]int{{-1, 0, 0}, {4, 7, 1}, {5, 7, 1}, {4, 0, 0}, {5, 1, 1}, {2, 0, 0}, {0, 7, 0}, {6, 1, 1}}
	for _, pipeline := range []bool{true, false} {
		for _, c := range codes {
			for _, e := range enchs {
				if c == -1 && e[0] != -1 {
					continue
				}
				var args []string
				if c != -1 {
					args = append(args, strconv.Itoa(c))
				}
				if e[0] != -1 {
					args = append(args, fmt.Sprintf("%d.%d.%d", e[0], e[1], e[2]))
				}
				var se *exterrors.SMTPError
				var err error
				if pipeline {
					se, err = msgpipeline.VerifParseReject(config.Node{Name: "reject", Args: args})
				} else {
					se, err = modconfig.ParseRejectDirective(args)
				}
				res := "None"
				if err == nil {
					res = fmt.Sprintf("(Some (%s, %s))", cZ(se.Code), cEnch([3]int{se.EnhancedCode[0], se.EnhancedCode[1], se.EnhancedCode[2]}))
				}
				out.Case(fmt.Sprintf("{| c_pipeline := %s; c_code := %s; c_ench := %s; c_res := %s |}",
					cBool(pipeline), cOpt(c != -1, cZ(c)), cOpt(e[0] != -1, cEnch(e)), res))
			}
		}
	}
}
