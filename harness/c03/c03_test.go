//go:build verif

package smtp

// C03 harness: whole sessions against a real endpoint (smtp or lmtp module, deferred or immediate
// sender rejection) over TCP with a raw line client; the pipeline is built by the endpoint from
// directives that reference registered scripted targets and one scripted check; limits are a real
// limits.Group (source concurrency 3) probed after the session.

import (
	"bufio"
	"context"
	"errors"
	"fmt"
	"net"
	"sort"
	"strings"
	"sync"
	"testing"
	"time"

	"github.com/emersion/go-message/textproto"
	"github.com/emersion/go-smtp"
	"github.com/foxcpp/go-mockdns"
	"github.com/foxcpp/maddy/framework/address"
	"github.com/foxcpp/maddy/framework/buffer"
	"github.com/foxcpp/maddy/framework/config"
	"github.com/foxcpp/maddy/framework/exterrors"
	"github.com/foxcpp/maddy/framework/log"
	"github.com/foxcpp/maddy/framework/module"
)

type v3Plan struct {
	start, body, commit, abort, partial bool
	rcpt                                 map[int]bool
}

type v3World struct {
	mu       sync.Mutex
	log      []string
	nInst    int
	txns     map[string]int
	plans    map[int]*v3Plan
	chkStart map[string]bool
	chkRcpt  map[int]bool
	chkBody  bool
}

var v3W *v3World

func (w *v3World) ev(txn string, tgt, inst int, what string) {
	w.mu.Lock()
	defer w.mu.Unlock()
	x, ok := w.txns[txn]
	if !ok {
		x = len(w.txns)
		w.txns[txn] = x
	}
	w.log = append(w.log, fmt.Sprintf("(%s, %s, %s, %s)", cN(x), cN(tgt), cN(inst), what))
}
func (w *v3World) plan(t int) *v3Plan {
	if p := w.plans[t]; p != nil {
		return p
	}
	return &v3Plan{}
}

func v3Rcpt(addr string) int {
	var u, d int
	if _, err := fmt.Sscanf(addr, "u%d@r%d.example", &u, &d); err != nil {
		return 99
	}
	return d
}

type v3Target struct{ id int }

func (t *v3Target) Name() string           { return "verif_target" }
func (t *v3Target) InstanceName() string   { return fmt.Sprintf("v3t%d", t.id) }
func (t *v3Target) Init(*config.Map) error { return nil }
func (t *v3Target) Start(_ context.Context, meta *module.MsgMetadata, _ string) (module.Delivery, error) {
	w := v3W
	w.mu.Lock()
	inst := w.nInst
	w.nInst++
	w.mu.Unlock()
	p := w.plan(t.id)
	w.ev(meta.ID, t.id, inst, "EStart "+cBool(!p.start))
	if p.start {
		return nil, &exterrors.SMTPError{Code: 451, EnhancedCode: exterrors.EnhancedCode{4, 0, 0}, Message: "scripted start failure"}
	}
	d := &v3Delivery{t: t, inst: inst, txn: meta.ID}
	if p.partial {
		return &v3Partial{d}, nil
	}
	return d, nil
}

type v3Delivery struct {
	t     *v3Target
	inst  int
	txn   string
	rcpts []string
}

func (d *v3Delivery) AddRcpt(_ context.Context, to string, _ smtp.RcptOptions) error {
	r := v3Rcpt(to)
	fail := v3W.plan(d.t.id).rcpt[r]
	v3W.ev(d.txn, d.t.id, d.inst, fmt.Sprintf("(EAdd %s %s)", cN(r), cBool(!fail)))
	if fail {
		return &exterrors.SMTPError{Code: 550, EnhancedCode: exterrors.EnhancedCode{5, 1, 1}, Message: "scripted rcpt failure"}
	}
	d.rcpts = append(d.rcpts, to)
	return nil
}
func (d *v3Delivery) Body(context.Context, textproto.Header, buffer.Buffer) error {
	fail := v3W.plan(d.t.id).body
	v3W.ev(d.txn, d.t.id, d.inst, "EBody "+cBool(!fail))
	if fail {
		return &exterrors.SMTPError{Code: 451, EnhancedCode: exterrors.EnhancedCode{4, 0, 0}, Message: "scripted body failure"}
	}
	return nil
}
func (d *v3Delivery) Commit(context.Context) error {
	fail := v3W.plan(d.t.id).commit
	v3W.ev(d.txn, d.t.id, d.inst, "ECommit "+cBool(!fail))
	if fail {
		return errors.New("scripted commit failure")
	}
	return nil
}
func (d *v3Delivery) Abort(context.Context) error {
	fail := v3W.plan(d.t.id).abort
	v3W.ev(d.txn, d.t.id, d.inst, "EAbort "+cBool(!fail))
	if fail {
		return errors.New("scripted abort failure")
	}
	return nil
}

type v3Partial struct{ *v3Delivery }

func (d *v3Partial) BodyNonAtomic(_ context.Context, sc module.StatusCollector, _ textproto.Header, _ buffer.Buffer) {
	fail := v3W.plan(d.t.id).body
	v3W.ev(d.txn, d.t.id, d.inst, "EBodyNA "+cBool(!fail))
	for _, r := range d.rcpts {
		if fail {
			sc.SetStatus(r, &exterrors.SMTPError{Code: 451, EnhancedCode: exterrors.EnhancedCode{4, 0, 0}, Message: "scripted body failure"})
		} else {
			sc.SetStatus(r, nil)
		}
	}
}

type v3Check struct{}

func (v3Check) Name() string           { return "verif_check" }
func (v3Check) InstanceName() string   { return "v3chk" }
func (v3Check) Init(*config.Map) error { return nil }
func (v3Check) CheckStateForMsg(context.Context, *module.MsgMetadata) (module.CheckState, error) {
	return v3CheckState{}, nil
}

type v3CheckState struct{}

func v3Reject() module.CheckResult {
	return module.CheckResult{Reject: true, Reason: &exterrors.SMTPError{Code: 550, EnhancedCode: exterrors.EnhancedCode{5, 7, 1}, Message: "scripted check failure"}}
}
func (v3CheckState) CheckConnection(context.Context) module.CheckResult { return module.CheckResult{} }
func (v3CheckState) CheckSender(_ context.Context, from string) module.CheckResult {
	if v3W.chkStart[from] {
		return v3Reject()
	}
	return module.CheckResult{}
}
func (v3CheckState) CheckRcpt(_ context.Context, to string) module.CheckResult {
	if v3W.chkRcpt[v3Rcpt(to)] {
		return v3Reject()
	}
	return module.CheckResult{}
}
func (v3CheckState) CheckBody(context.Context, textproto.Header, buffer.Buffer) module.CheckResult {
	if v3W.chkBody {
		return v3Reject()
	}
	return module.CheckResult{}
}
func (v3CheckState) Close() error { return nil }

var v3Senders = []string{"", "a@example.org", "a@EXAMPLE.org", "b@xn--e1aybc.example", "c@xn--.example", "d@sub.example.org"}

type v3Client struct {
	c net.Conn
	r *bufio.Reader
}

func (cl *v3Client) reply() (int, error) {
	code := 0
	for {
		cl.c.SetReadDeadline(time.Now().Add(12 * time.Second)) // longer than the endpoint waits for a limit permit (5 s): a stall is answered, not a harness failure
		line, err := cl.r.ReadString('\n')
		if err != nil {
			return 0, err
		}
		if len(line) < 4 {
			return 0, fmt.Errorf("short reply %q", line)
		}
		fmt.Sscanf(line[:3], "%d", &code)
		if line[3] == ' ' {
			return code, nil
		}
	}
}
func (cl *v3Client) cmd(line string) (int, error) {
	if _, err := cl.c.Write([]byte(line + "\r\n")); err != nil {
		return 0, err
	}
	return cl.reply()
}

func TestVerif_C03(t *testing.T) {
	out := vOpenOut()
	defer out.Close()
	n := vEnvInt("VERIF_N", 50)
	stats := map[string]int{}
	const nTargets = 3
	for i := 0; i < nTargets; i++ {
		tg := &v3Target{id: i}
		module.RegisterInstance(tg, nil)
		module.Initialized[tg.InstanceName()] = true
	}
	module.RegisterInstance(v3Check{}, nil)
	module.Initialized["v3chk"] = true

	for ci := 0; ci < n; ci++ {
		r := vNewRand(uint64(300000 + ci))
		lmtp := r.chance(35)
		deferred := r.chance(50)
		w := &v3World{txns: map[string]int{}, plans: map[int]*v3Plan{}, chkStart: map[string]bool{}, chkRcpt: map[int]bool{}}
		v3W = w
		// routes: recipient (= destination domain) -> targets
		nRcpt := 2 + r.intn(3)
		routes := map[int][]int{}
		var cfgNodes []config.Node
		var routeTerms []string
		for d := 1; d <= nRcpt; d++ {
			ts := []int{r.intn(nTargets)}
			if r.chance(35) {
				t2 := r.intn(nTargets)
				if t2 != ts[0] {
					ts = append(ts, t2)
				}
			}
			routes[d] = ts
			var ch []config.Node
			var tt []string
			for _, x := range ts {
				ch = append(ch, config.Node{Name: "deliver_to", Args: []string{fmt.Sprintf("&v3t%d", x)}})
				tt = append(tt, cN(x))
			}
			cfgNodes = append(cfgNodes, config.Node{Name: "destination", Args: []string{fmt.Sprintf("r%d.example", d)}, Children: ch})
			routeTerms = append(routeTerms, fmt.Sprintf("(%s, %s)", cN(d), cList(tt)))
		}
		// LMTP, a recipient with two targets of which exactly one fails at the body stage: its reply must
		// not be a success, whichever target the pipeline visits first
		biasTwo := lmtp && len(routes[1]) == 2 && r.chance(60)
		cfgNodes = append(cfgNodes,
			config.Node{Name: "default_destination", Children: []config.Node{{Name: "reject", Args: []string{"550", "5.1.1"}}}},
			config.Node{Name: "check", Children: []config.Node{{Name: "&v3chk"}}})
		// failure plans
		var planTerms []string
		for x := 0; x < nTargets; x++ {
			p := &v3Plan{rcpt: map[int]bool{}}
			if r.chance(45) {
				switch r.intn(6) {
				case 0:
					p.start = true
				case 1:
					p.rcpt[1+r.intn(nRcpt)] = true
				case 2, 3:
					p.body = true
				case 4:
					p.commit = true
				case 5:
					p.abort = true
				}
				if r.chance(20) {
					p.abort = true
				}
			}
			if r.chance(10) {
				// a target that refuses every recipient: its delivery is opened and stays empty
				for d := 1; d <= nRcpt; d++ {
					p.rcpt[d] = true
				}
			}
			p.partial = r.chance(40)
			if biasTwo {
				// one of the two targets of recipient 1 refuses the body, the other one is fine
				*p = v3Plan{rcpt: map[int]bool{}, partial: r.chance(30)}
				if x == routes[1][1] {
					p.body = true
				}
			}
			w.plans[x] = p
			var rl []string
			for k := range p.rcpt {
				rl = append(rl, cN(k))
			}
			planTerms = append(planTerms, fmt.Sprintf("(%s, {| p_start := %s; p_rcpt := %s; p_body := %s; p_commit := %s; p_abort := %s; p_partial := %s |})",
				cN(x), cBool(p.start), cList(rl), cBool(p.body), cBool(p.commit), cBool(p.abort), cBool(p.partial)))
		}
		var chkStartT, chkRcptT, badT []string
		clean := func(s string) (string, bool) {
			if s == "" {
				return "", true
			}
			c, err := address.CleanDomain(s)
			return c, err == nil
		}
		for id, s := range v3Senders {
			if _, ok := clean(s); !ok {
				badT = append(badT, cN(id))
			} else if r.chance(10) {
				c, _ := clean(s)
				w.chkStart[c] = true
			}
		}
		for id, s := range v3Senders {
			if c, ok := clean(s); ok && w.chkStart[c] {
				chkStartT = append(chkStartT, cN(id))
			}
		}
		if r.chance(25) {
			x := 1 + r.intn(nRcpt)
			w.chkRcpt[x] = true
			chkRcptT = append(chkRcptT, cN(x))
		}
		w.chkBody = r.chance(12)

		// ---- endpoint ----
		modName := "smtp"
		if lmtp {
			modName = "lmtp"
		}
		// a port that is free right now (the package's TestMain picks one at random)
		if l, err := net.Listen("tcp", "127.0.0.1:0"); err == nil {
			testPort = fmt.Sprint(l.Addr().(*net.TCPAddr).Port)
			l.Close()
		}
		mod, err := New(modName, []string{"tcp://127.0.0.1:" + testPort})
		if err != nil {
			t.Fatal(err)
		}
		endp := mod.(*Endpoint)
		endp.resolver = &mockdns.Resolver{Zones: map[string]mockdns.Zone{}}
		endp.Log = log.Logger{Out: log.NopOutput{}}
		dsr := "no"
		if deferred {
			dsr = "yes"
		}
		nodes := append([]config.Node{
			{Name: "hostname", Args: []string{"mx.example.com"}},
			{Name: "tls", Args: []string{"off"}},
			{Name: "defer_sender_reject", Args: []string{dsr}},
			{Name: "max_header_size", Args: []string{"2K"}},
			{Name: "limits", Children: []config.Node{{Name: "source", Args: []string{"concurrency", "3"}}}},
		}, cfgNodes...)
		if err := endp.Init(config.NewMap(nil, config.Node{Children: nodes})); err != nil {
			t.Fatal(err)
		}
		endp.pipeline.Log = log.Logger{Out: log.NopOutput{}}

		// ---- session ----
		conn, err := net.Dial("tcp", "127.0.0.1:"+testPort)
		if err != nil {
			endp.Close()
			t.Fatal(err)
		}
		cl := &v3Client{c: conn, r: bufio.NewReader(conn)}
		if _, err := cl.reply(); err != nil {
			t.Fatal(err)
		}
		hello := "EHLO client.example"
		if lmtp {
			hello = "LHLO client.example"
		}
		if code, err := cl.cmd(hello); err != nil || code != 250 {
			t.Fatalf("greeting failed: %d %v", code, err)
		}
		var cmds, replies, marks []string
		mark := func() { w.mu.Lock(); marks = append(marks, fmt.Sprintf("%d%%nat", len(w.log))); w.mu.Unlock() }
		sessionEnd := func() {
			deadline := time.Now().Add(3 * time.Second)
			for endp.sessionCnt.Load() != 0 && time.Now().Before(deadline) {
				time.Sleep(time.Millisecond)
			}
		}
		usedSenders := map[int]bool{}
		accepted := []int{}
		fromOK := false
		ended := false
		nCmd := 3 + r.intn(12)
		phase := 0
		for k := 0; k < nCmd && !ended; k++ {
			// mostly follow MAIL -> RCPT+ -> DATA, sometimes anything
			choice := r.intn(100)
			var kind string
			switch {
			case choice < 70:
				switch phase {
				case 0:
					kind = "MAIL"
				case 1:
					kind = "RCPT"
					if len(accepted) > 0 && r.chance(50) {
						kind = "DATA"
					}
				}
			case choice < 76:
				kind = "RSET"
			case choice < 80:
				kind = "NOOP"
			case choice < 83:
				kind = "EHLO"
			case choice < 88:
				kind = "QUIT"
			case choice < 92:
				kind = "DROP"
			default:
				kind = []string{"MAIL", "RCPT", "DATA"}[r.intn(3)]
			}
			switch kind {
			case "MAIL":
				id := r.intn(len(v3Senders))
				if r.chance(60) {
					id = 1 + r.intn(3)
				}
				code, err := cl.cmd("MAIL FROM:<" + v3Senders[id] + ">")
				if err != nil {
					// the endpoint gave no answer and dropped the connection (it does so when it cannot
					// get a limit permit in time): an observation, not a harness failure
					stats["mail-unanswered"]++
					usedSenders[id] = true
					usedSenders[0] = true
					cmds = append(cmds, "CMail "+cN(id), "CDrop")
					replies = append(replies, "RFail", "RNone")
					mark()
					cl.c.Close()
					ended = true
					sessionEnd()
					mark()
					continue
				}
				cmds = append(cmds, "CMail "+cN(id))
				ok := code/100 == 2
				replies = append(replies, map[bool]string{true: "ROk", false: "RFail"}[ok])
				if ok {
					fromOK = true
					phase = 1
					usedSenders[id] = true
				}
				if deferred {
					usedSenders[id] = true
				}
				usedSenders[0] = true
			case "RCPT":
				d := 1 + r.intn(nRcpt)
				if r.chance(5) {
					d = 9 // no such block
				}
				rcptAddr := fmt.Sprintf("u1@r%d.example", d)
				if r.chance(30) {
					rcptAddr = fmt.Sprintf("u1@R%d.EXAMPLE", d) // the endpoint normalizes the domain
				}
				code, err := cl.cmd("RCPT TO:<" + rcptAddr + ">")
				if err != nil {
					t.Fatalf("case %d: RCPT: %v", ci, err)
				}
				cmds = append(cmds, "CRcpt "+cN(d))
				ok := code/100 == 2
				replies = append(replies, map[bool]string{true: "ROk", false: "RFail"}[ok])
				if ok {
					accepted = append(accepted, d)
				}
			case "DATA":
				readable := !r.chance(10)
				code, err := cl.cmd("DATA")
				if err != nil {
					t.Fatalf("case %d: DATA: %v", ci, err)
				}
				cmds = append(cmds, "CData "+cBool(readable))
				if code != 354 {
					replies = append(replies, "RFail")
				} else {
					msg := "From: <a@example.org>\r\nSubject: x\r\n\r\nbody\r\n.\r\n"
					if !readable {
						msg = "this is not a header field\r\n\r\nbody\r\n.\r\n"
					}
					cl.c.Write([]byte(msg))
					if lmtp {
						var per []string
						for _, d := range accepted {
							code, err := cl.reply()
							if err != nil {
								t.Fatalf("case %d: LMTP DATA reply: %v", ci, err)
							}
							per = append(per, fmt.Sprintf("(%s, %s)", cN(d), cBool(code/100 == 2)))
						}
						replies = append(replies, "RData "+cList(per))
					} else {
						code, err := cl.reply()
						if err != nil {
							t.Fatalf("case %d: DATA reply: %v", ci, err)
						}
						replies = append(replies, map[bool]string{true: "ROk", false: "RFail"}[code/100 == 2])
						if code/100 == 2 {
							stats["data-accepted"]++
						} else {
							stats["data-refused"]++
						}
					}
					accepted, fromOK, phase = nil, false, 0
				}
			case "RSET":
				cl.cmd("RSET")
				cmds = append(cmds, "CRset")
				replies = append(replies, "ROk")
				accepted, fromOK, phase = nil, false, 0
			case "NOOP":
				cl.cmd("NOOP")
				cmds = append(cmds, "CNoop")
				replies = append(replies, "ROk")
			case "EHLO":
				cl.cmd(hello)
				cmds = append(cmds, "CEhlo")
				replies = append(replies, "ROk")
			case "QUIT":
				cl.cmd("QUIT")
				cmds = append(cmds, "CQuit")
				replies = append(replies, "ROk")
				ended = true
				sessionEnd()
			case "DROP":
				if fromOK && len(accepted) > 0 && r.chance(60) {
					// the connection is lost in the middle of the content: the transaction never ended
					if code, err := cl.cmd("DATA"); err == nil && code == 354 {
						cl.c.Write([]byte("From: <a@example.org>\r\nSubject: cut off\r\n\r\nfirst line of a body that never en"))
						stats["drop-in-data"]++
					}
				}
				cl.c.Close()
				cmds = append(cmds, "CDrop")
				replies = append(replies, "RNone")
				ended = true
				sessionEnd()
			}
			mark()
			stats["cmd="+kind]++
		}
		_ = fromOK
		if !ended {
			cl.c.Close()
			sessionEnd()
		}
		cl.c.Close()
		// ---- permits still held ----
		leaks := 0
		ip := net.IPv4(127, 0, 0, 1)
		domains := map[string]bool{"": true}
		for id := range usedSenders {
			s := v3Senders[id]
			for _, x := range []string{s} {
				if _, d, err := address.Split(x); err == nil {
					domains[d] = true
				}
				if c, err := address.CleanDomain(x); err == nil {
					if _, d, err := address.Split(c); err == nil {
						domains[d] = true
					}
				}
			}
		}
		for d := range domains {
			got := 0
			for i := 0; i < 3; i++ {
				// (a refusal is confirmed once: under load the deadline can pass before the limiter is asked)
				for attempt := 0; attempt < 2; attempt++ {
					ctx, cancel := context.WithTimeout(context.Background(), 20*time.Millisecond)
					err := endp.limits.TakeMsg(ctx, ip, d)
					cancel()
					if err == nil {
						got++
						break
					}
				}
			}
			for i := 0; i < got; i++ {
				endp.limits.ReleaseMsg(ip, d)
			}
			leaks += 3 - got
		}
		endp.Close()
		if leaks != 0 {
			stats["leaking-sessions"]++
		}
		sort.Strings(routeTerms)
		w.mu.Lock()
		logTerm := cList(w.log)
		w.mu.Unlock()
		out.Case(fmt.Sprintf("{| c_cfg := {| lmtp := %s; deferred := %s; routes := %s; plans := %s; chk_start := %s; chk_rcpt := %s; chk_body := %s; bad_senders := %s |}; c_cmds := %s; c_replies := %s; c_log := %s; c_marks := %s; c_leaks := %s |}",
			cBool(lmtp), cBool(deferred), cList(routeTerms), cList(planTerms), cList(chkStartT), cList(chkRcptT), cBool(w.chkBody), cList(badT),
			cList(cmds), cList(replies), logTerm, cList(marks), cN(leaks)))
		if strings.Contains(logTerm, "ECommit true") {
			stats["sessions-with-commit"]++
		}
		if lmtp {
			stats["lmtp"]++
		}
	}
	keys := make([]string, 0, len(stats))
	for k := range stats {
		keys = append(keys, k)
	}
	sort.Strings(keys)
	for _, k := range keys {
		out.Stat(k, stats[k])
	}
}
