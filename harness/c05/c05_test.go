//go:build verif

package remote

// C05 harness: the real remote target (policies dnssec / mtasts / dane / local_policy, connection
// pool, REQUIRETLS, security override) against one or two scripted MX servers (absent, plaintext,
// STARTTLS with a certificate that does or does not match the MX name), a DNSSEC-aware mock DNS
// server with TLSA records and a stub MTA-STS fetcher; histories of 1-3 messages to one domain.

import (
	"context"
	"crypto/ecdsa"
	"crypto/elliptic"
	"crypto/rand"
	"crypto/sha256"
	"crypto/tls"
	"crypto/x509"
	"crypto/x509/pkix"
	"encoding/hex"
	"errors"
	"math/big"
	"time"
	"fmt"
	"net"
	"sort"
	"strconv"
	"strings"
	"testing"

	"github.com/emersion/go-message/textproto"
	"github.com/emersion/go-smtp"
	"github.com/foxcpp/go-mockdns"
	"github.com/foxcpp/maddy/framework/buffer"
	"github.com/foxcpp/maddy/framework/dns"
	"github.com/foxcpp/maddy/framework/log"
	"github.com/foxcpp/maddy/framework/module"
	"github.com/foxcpp/maddy/internal/testutils"
	"github.com/foxcpp/go-mtasts"
	miekgdns "github.com/miekg/dns"
)

const (
	v5Down = iota
	v5Plain
	v5TLS
)

// a private CA and a leaf for *.example.invalid signed by it: the chain a server
// presents when its TLSA record names the CA (DANE-TA, usage 2), where RFC 7672
// section 3.2.3 makes the name check part of the match
var v5TaChain *tls.Certificate
var v5TaPin string

func v5MkTa() {
	if v5TaChain != nil {
		return
	}
	mk := func(tmpl, parent *x509.Certificate, parentKey *ecdsa.PrivateKey) (*x509.Certificate, *ecdsa.PrivateKey) {
		key, err := ecdsa.GenerateKey(elliptic.P256(), rand.Reader)
		if err != nil {
			panic(err)
		}
		signer, signerKey := tmpl, key
		if parent != nil {
			signer, signerKey = parent, parentKey
		}
		der, err := x509.CreateCertificate(rand.Reader, tmpl, signer, &key.PublicKey, signerKey)
		if err != nil {
			panic(err)
		}
		c, err := x509.ParseCertificate(der)
		if err != nil {
			panic(err)
		}
		return c, key
	}
	nb, na := time.Date(2015, 1, 1, 0, 0, 0, 0, time.UTC), time.Date(2045, 1, 1, 0, 0, 0, 0, time.UTC)
	ca, caKey := mk(&x509.Certificate{SerialNumber: big.NewInt(7001), Subject: pkix.Name{CommonName: "verif private CA"},
		NotBefore: nb, NotAfter: na, BasicConstraintsValid: true, IsCA: true,
		KeyUsage: x509.KeyUsageDigitalSignature | x509.KeyUsageCertSign}, nil, nil)
	leaf, leafKey := mk(&x509.Certificate{SerialNumber: big.NewInt(7002), Subject: pkix.Name{CommonName: "verif leaf"},
		NotBefore: nb, NotAfter: na, BasicConstraintsValid: true, DNSNames: []string{"*.example.invalid"},
		KeyUsage: x509.KeyUsageDigitalSignature, ExtKeyUsage: []x509.ExtKeyUsage{x509.ExtKeyUsageServerAuth}}, ca, caKey)
	v5TaChain = &tls.Certificate{Certificate: [][]byte{leaf.Raw, ca.Raw}, PrivateKey: leafKey}
	sum := sha256.Sum256(ca.RawSubjectPublicKeyInfo)
	v5TaPin = hex.EncodeToString(sum[:])
}

// v5Front stands before the mock DNS server and answers the TLSA queries for chosen names with
// REFUSED (a name server or a load balancer that does not know the type); everything else is
// passed on.
type v5Front struct {
	upstream string
	refused  map[string]bool
}

func (f *v5Front) ServeDNS(w miekgdns.ResponseWriter, m *miekgdns.Msg) {
	if len(m.Question) == 1 && m.Question[0].Qtype == miekgdns.TypeTLSA && f.refused[strings.ToLower(m.Question[0].Name)] {
		reply := new(miekgdns.Msg)
		reply.SetRcode(m, miekgdns.RcodeRefused)
		w.WriteMsg(reply)
		return
	}
	c := new(miekgdns.Client)
	r, _, err := c.Exchange(m, f.upstream)
	if err != nil {
		reply := new(miekgdns.Msg)
		reply.SetRcode(m, miekgdns.RcodeServerFailure)
		w.WriteMsg(reply)
		return
	}
	w.WriteMsg(r)
}

type v5MX struct {
	ta bool // the server presents the private-CA chain and its TLSA record is a DANE-TA pin of that CA
	kind    int
	goodName bool // the name matches the certificate (*.example.invalid)
	dane    string // DNone DLookupFail DMatch DMismatch DUnusable
	reqtls  bool
	stsMatch bool
	host    string
	ip      string
}

func TestVerif_C05(t *testing.T) {
	out := vOpenOut()
	defer out.Close()
	n := vEnvInt("VERIF_N", 20)
	ctx := context.Background()
	stats := map[string]int{}
	for ci := 0; ci < n; ci++ {
		r := vNewRand(uint64(500000 + ci))
		// a port that is free right now (the package's TestMain picks one at random)
		if l, err := net.Listen("tcp", "127.0.0.1:0"); err == nil {
			smtpPort = fmt.Sprint(l.Addr().(*net.TCPAddr).Port)
			l.Close()
		}
		pDnssec, pMtasts, pDane := r.chance(35), r.chance(45), r.chance(40)
		var local *localPolicy
		if r.chance(65) {
			local = &localPolicy{minTLSLevel: module.TLSLevel(r.intn(3)), minMXLevel: module.MXLevel(r.intn(3))}
			if r.chance(40) {
				local.minMXLevel = module.MXNone
			}
		}
		allowOverride, relaxed := r.chance(60), r.chance(70)
		ad := r.chance(50)
		stsMode := []string{"none", "testing", "enforce"}[r.intn(3)]
		nMX := 1 + r.intn(2)
		bias := r.chance(35)
		biasTLS := false
		if !bias && r.chance(20) { // an unauthenticated fallback of one candidate must not carry over to the next
			biasTLS, nMX = true, 2
			local = &localPolicy{minTLSLevel: module.TLSAuthenticated, minMXLevel: module.MXNone}
			if r.chance(40) {
				local.minTLSLevel = module.TLSEncrypted
			}
		}
		if bias && r.chance(50) { // the MX level has to be earned by the candidate that is used
			pMtasts, stsMode, nMX = true, "testing", 2
			if r.chance(60) {
				local = &localPolicy{minTLSLevel: module.TLSNone, minMXLevel: module.MX_MTASTS}
			} else {
				local = nil
			}
			if pDane && r.chance(50) {
				pDane = false
			}
		}
		var mxs []*v5MX
		for i := 0; i < nMX; i++ {
			m := &v5MX{kind: r.intn(3), goodName: r.chance(65), dane: "DNone", reqtls: r.chance(60), stsMatch: r.chance(65)}
			if r.chance(55) {
				m.kind = v5TLS
			}
			if pDane {
				m.dane = []string{"DNone", "DLookupFail", "DMatch", "DMismatch", "DUnusable", "DMatch", "DNone"}[r.intn(7)]
			}
			taWanted := pDane && (ci+3*i)%5 == 0 // chosen without drawing, so earlier histories keep their shape
			// a first candidate that earns the MX level or has harmless TLSA records and then
			// fails fast, followed by one that must be judged on its own
			if nMX == 2 && bias {
				if i == 0 {
					m.kind, m.stsMatch = v5Down, true
					if pDane {
						m.dane = []string{"DNone", "DUnusable", "DMatch"}[r.intn(3)]
					}
				} else {
					m.kind, m.stsMatch = []int{v5Plain, v5TLS, v5TLS}[r.intn(3)], false
					if pDane {
						m.dane = []string{"DMismatch", "DLookupFail", "DMismatch", "DNone"}[r.intn(4)]
					}
				}
			}
			if nMX == 2 && biasTLS {
				m.kind, m.goodName = v5TLS, false
				if i == 1 && r.chance(30) {
					m.goodName = true
				}
			}
			if taWanted && m.kind == v5TLS {
				m.ta = true
				m.dane = "DMismatch"
				if m.goodName {
					m.dane = "DMatch"
				}
			}
			m.ip = fmt.Sprintf("127.0.0.%d", i+1)
			if m.goodName {
				m.host = fmt.Sprintf("mx%d.example.invalid", i+1)
			} else {
				m.host = fmt.Sprintf("mx%d.elsewhere.invalid", i+1)
			}
			mxs = append(mxs, m)
		}
		// ---- servers ----
		type srvT struct {
			be  *testutils.SMTPBackend
			srv *smtp.Server
		}
		srvs := make([]*srvT, nMX)
		clientCfg := testTarget(t, nil, nil, nil).tlsConfig
		for i, m := range mxs {
			switch m.kind {
			case v5Plain:
				be, s := testutils.SMTPServer(t, m.ip+":"+smtpPort)
				srvs[i] = &srvT{be, s}
			case v5TLS:
				cfg, be, s := testutils.SMTPServerSTARTTLS(t, m.ip+":"+smtpPort, func(s *smtp.Server) {
					s.EnableREQUIRETLS = m.reqtls
					if m.ta {
						v5MkTa()
						s.TLSConfig = &tls.Config{Certificates: []tls.Certificate{*v5TaChain}}
					}
				})
				clientCfg = cfg
				srvs[i] = &srvT{be, s}
			}
		}
		// ---- DNS ----
		refusedTLSA := map[string]bool{}
		var dnsFront *miekgdns.Server
		zones := map[string]mockdns.Zone{}
		var mxrecs []net.MX
		var stsPatterns []string
		for i, m := range mxs {
			mxrecs = append(mxrecs, net.MX{Host: m.host + ".", Pref: uint16(10 * (i + 1))})
			zones[m.host+"."] = mockdns.Zone{AD: true, A: []string{m.ip}}
			tl := "_25._tcp." + m.host + "."
			switch {
			case m.ta:
				v5MkTa()
				zones[tl] = mockdns.Zone{AD: true, Misc: tlsaRecord(tl, 2, 1, 1, v5TaPin)}
				stats["dane_ta_"+m.dane]++
			}
			switch m.dane {
			case "DMatch":
				if m.ta {
					break
				}
				zones[tl] = mockdns.Zone{AD: true, Misc: tlsaRecord(tl, 3, 1, 1, "a9b5cb4d02f996f6385debe9a8952f1af1f4aec7eae0f37c2cd6d0d8ee8391cf")}
			case "DMismatch":
				if m.ta {
					break
				}
				zones[tl] = mockdns.Zone{AD: true, Misc: tlsaRecord(tl, 3, 1, 1, "ffb5cb4d02f996f6385debe9a8952f1af1f4aec7eae0f37c2cd6d0d8ee8391cf")}
			case "DUnusable":
				zones[tl] = mockdns.Zone{AD: true, Misc: tlsaRecord(tl, 9, 1, 1, "a9b5cb4d02f996f6385debe9a8952f1af1f4aec7eae0f37c2cd6d0d8ee8391cf")}
			case "DLookupFail":
				if ci%2 == 1 { // the unusual way to fail: REFUSED instead of SERVFAIL
					refusedTLSA[strings.ToLower(tl)] = true
					stats["tlsa_lookup_refused"]++
				} else {
					zones[tl] = mockdns.Zone{Err: &net.DNSError{}}
				}
			}
			if m.stsMatch {
				stsPatterns = append(stsPatterns, m.host)
			}
		}
		zones["example.invalid."] = mockdns.Zone{AD: ad, MX: mxrecs}
		if len(stsPatterns) == 0 {
			stsPatterns = []string{"unrelated.example.invalid"}
		}
		var extResolver *dns.ExtResolver
		var dnsSrv *mockdns.Server
		if pDnssec || pDane {
			var err error
			for try := 0; try < 5; try++ { // it picks a random port for UDP and TCP, which may be taken
				dnsSrv, err = mockdns.NewServerWithLogger(zones, log.Logger{Out: log.NopOutput{}}, false)
				if err == nil {
					break
				}
			}
			if err != nil {
				t.Fatal(err)
			}
			addr := dnsSrv.LocalAddr().(*net.UDPAddr)
			if len(refusedTLSA) > 0 {
				pc, err := net.ListenPacket("udp", "127.0.0.1:0")
				if err != nil {
					t.Fatal(err)
				}
				dnsFront = &miekgdns.Server{PacketConn: pc, Handler: &v5Front{upstream: addr.String(), refused: refusedTLSA}}
				go dnsFront.ActivateAndServe()
				addr = pc.LocalAddr().(*net.UDPAddr)
			}
			extResolver, err = dns.NewExtResolver()
			if err != nil {
				t.Fatal(err)
			}
			extResolver.Cfg.Servers = []string{addr.IP.String()}
			extResolver.Cfg.Port = strconv.Itoa(addr.Port)
		}
		var pols []module.MXAuthPolicy
		if pDnssec {
			pols = append(pols, &dnssecPolicy{})
		}
		if pMtasts {
			pols = append(pols, testSTSPolicy(t, zones, func(_ context.Context, domain string) (*mtasts.Policy, error) {
				switch stsMode {
				case "testing":
					return &mtasts.Policy{Mode: mtasts.ModeTesting, MX: stsPatterns}, nil
				case "enforce":
					return &mtasts.Policy{Mode: mtasts.ModeEnforce, MX: stsPatterns}, nil
				}
				return nil, errors.New("no policy published")
			}))
		}
		if pDane {
			pols = append(pols, testDANEPolicy(t, extResolver))
		}
		if local != nil {
			pols = append(pols, local)
		}
		tgt := testTarget(t, zones, extResolver, pols)
		tgt.Log = log.Logger{Out: log.NopOutput{}}
		tgt.tlsConfig = clientCfg
		tgt.connReuseLimit = 10 // the configuration default
		tgt.allowSecOverride = allowOverride
		tgt.relaxedREQUIRETLS = relaxed

		// ---- the model's view of the candidates ----
		factTerm := func(m *v5MX) string {
			sts := "StsNone"
			switch stsMode {
			case "testing":
				sts = "StsTesting " + cBool(m.stsMatch)
			case "enforce":
				sts = "StsEnforce " + cBool(m.stsMatch)
			}
			if !pMtasts {
				sts = "StsNone"
			}
			return fmt.Sprintf("{| f_dial := %s; f_starttls := %s; f_tls_breaks := false; f_cert_ok := %s; f_sts := %s; f_dane := %s; f_reqtls_ext := %s |}",
				cBool(m.kind != v5Down), cBool(m.kind == v5TLS), cBool(m.kind == v5TLS && m.goodName && !m.ta), sts, m.dane, cBool(m.kind == v5TLS && m.reqtls))
		}
		var cands []string
		for _, m := range mxs {
			cands = append(cands, factTerm(m))
		}
		// ---- messages ----
		var msgTerms, obsTerms []string
		lastConn := map[int]string{}
		// an override message first and an ordinary one after it: what the first one opened without
		// any policy must not serve the second
		overrideFirst := allowOverride && nMX == 2 && r.chance(45)
		nMsg := 1 + r.intn(3)
		if overrideFirst && nMsg < 2 {
			nMsg = 2
		}
		for mi := 0; mi < nMsg; mi++ {
			reqtls, override, quarantine := r.chance(25), r.chance(30), r.chance(6)
			dataOK := !r.chance(12)
			if overrideFirst {
				if mi == 0 {
					reqtls, override, quarantine, dataOK = false, true, false, true
				} else if mi == 1 {
					reqtls, override, quarantine = false, false, false
				}
			}
			meta := &module.MsgMetadata{ID: fmt.Sprintf("v%d", mi), SMTPOpts: smtp.MailOptions{RequireTLS: reqtls},
				TLSRequireOverride: override, Quarantine: quarantine}
			before := make([]int, nMX)
			for i, s := range srvs {
				if s != nil {
					before[i] = len(s.be.Messages)
					s.be.DataErr = nil
					if !dataOK {
						s.be.DataErr = &smtp.SMTPError{Code: 451, EnhancedCode: smtp.EnhancedCode{4, 0, 0}, Message: "later"}
					}
				}
			}
			d, err := tgt.Start(ctx, meta, "sender@example.com")
			if err != nil {
				t.Fatal(err)
			}
			err = d.AddRcpt(ctx, "rcpt@example.invalid", smtp.RcptOptions{})
			if err == nil {
				hdr := textproto.Header{}
				hdr.Add("Subject", "x")
				err = d.Body(ctx, hdr, buffer.MemoryBuffer{Slice: []byte("hi\r\n")})
			}
			if err == nil {
				d.Commit(ctx)
			} else {
				d.Abort(ctx)
			}
			kept := cBool(meta.SMTPOpts.RequireTLS == reqtls)
			o := "{| o_sent := false; o_mx := 0%N; o_tls := false; o_reused := false; o_flag_kept := " + kept + " |}"
			for i, s := range srvs {
				if s != nil && len(s.be.Messages) > before[i] {
					msg := s.be.Messages[len(s.be.Messages)-1]
					_, isTLS := msg.Conn.TLSConnectionState()
					ra := msg.Conn.Conn().RemoteAddr().String()
					reused := lastConn[i] == ra
					lastConn[i] = ra
					o = fmt.Sprintf("{| o_sent := true; o_mx := %s; o_tls := %s; o_reused := %s; o_flag_kept := %s |}", cN(i), cBool(isTLS), cBool(reused), kept)
					stats["delivered"]++
					if reused {
						stats["reused"]++
					}
				}
			}
			msgTerms = append(msgTerms, fmt.Sprintf("{| m_reqtls := %s; m_override := %s; m_quarantine := %s; m_ad := %s; m_cands := %s; m_data_ok := %s |}",
				cBool(reqtls), cBool(override), cBool(quarantine), cBool(ad && extResolver != nil), cList(cands), cBool(dataOK)))
			obsTerms = append(obsTerms, o)
			stats["messages"]++
		}
		tgt.Close()
		for _, s := range srvs {
			if s != nil {
				s.srv.Close()
			}
		}
		if dnsSrv != nil {
			dnsSrv.Close()
			if dnsFront != nil {
				dnsFront.Shutdown()
			}
		}
		localT := "None"
		if local != nil {
			localT = fmt.Sprintf("(Some (%s, %s))", cN(int(local.minMXLevel)), cN(int(local.minTLSLevel)))
		}
		out.Case(fmt.Sprintf("{| c_target := {| t_pol := {| p_dnssec := %s; p_mtasts := %s; p_dane := %s; p_local := %s |}; t_allow_override := %s; t_relaxed := %s |}; c_msgs := %s; c_obs := %s |}",
			cBool(pDnssec), cBool(pMtasts), cBool(pDane), localT, cBool(allowOverride), cBool(relaxed), cList(msgTerms), cList(obsTerms)))
	}
	keys := make([]string, 0, len(stats))
	for k := range stats {
		keys = append(keys, k)
	}
	sort.Strings(keys)
	for _, k := range keys {
		out.Stat(k, stats[k])
	}
}
