//go:build verif

package queue

import (
	"reflect"

	"github.com/emersion/go-smtp"
	"github.com/foxcpp/maddy/framework/log"
	"github.com/foxcpp/maddy/framework/module"
)

// VerifToSMTPErr exposes toSMTPErr to harnesses living in other packages.  The call goes through
// reflection so that a change of the function's signature (further parameters get their zero
// value) does not keep the harnesses from building: the queue stream observes the conversion
// through the queue itself in any case.
func VerifToSMTPErr(err error) *smtp.SMTPError {
	f := reflect.ValueOf(toSMTPErr)
	args := make([]reflect.Value, f.Type().NumIn())
	for i := range args {
		args[i] = reflect.Zero(f.Type().In(i))
	}
	if err != nil {
		args[0] = reflect.ValueOf(err)
	}
	res := f.Call(args)
	r, _ := res[0].Interface().(*smtp.SMTPError)
	return r
}

// VerifNewFastQueue builds a started queue that retries without delay, for harnesses in other
// packages that put a real target below it.
func VerifNewFastQueue(location string, tgt, bounce module.DeliveryTarget, maxTries int) (*Queue, error) {
	mod, _ := NewQueue("", "queue", nil, nil)
	q := mod.(*Queue)
	q.initialRetryTime = 0
	q.retryTimeScale = 1
	q.postInitDelay = 0
	q.maxTries = maxTries
	q.location = location
	q.Target = tgt
	q.hostname = "mx.verif.test"
	q.autogenMsgDomain = "verif.test"
	q.Log = log.Logger{Out: log.NopOutput{}}
	if bounce != nil {
		q.dsnPipeline = bounce
	}
	return q, q.start(1)
}
