//go:build verif

package queue

import (
	"github.com/emersion/go-smtp"
)

// VerifToSMTPErr exposes toSMTPErr to harnesses living in other packages.
func VerifToSMTPErr(err error) *smtp.SMTPError { return toSMTPErr(err) }
