//go:build verif

package authorize_sender

// C15 harness: check.authorize_sender on generated configurations, entitlement tables and
// messages.  The oracles of the model (normalizers, tables, address.Split, net/mail parsers)
// are recorded per case on exactly the strings the case can reach.

import (
	"bufio"
	"context"
	"fmt"
	"net/mail"
	"sort"
	"strings"
	"testing"
	"unicode"

	"github.com/emersion/go-message/textproto"
	modconfig "github.com/foxcpp/maddy/framework/config/module"
	"github.com/foxcpp/maddy/framework/address"
	"github.com/foxcpp/maddy/framework/exterrors"
	"github.com/foxcpp/maddy/framework/log"
	"github.com/foxcpp/maddy/framework/module"
	"github.com/foxcpp/maddy/internal/authz"
	"github.com/foxcpp/maddy/internal/table"
)

type vMulti map[string][]string

func (m vMulti) Lookup(_ context.Context, k string) (string, bool, error) {
	v, ok := m[k]
	if !ok || len(v) == 0 {
		return "", false, nil
	}
	return v[0], true, nil
}
func (m vMulti) LookupMulti(_ context.Context, k string) ([]string, error) { return m[k], nil }

type vSingle map[string]string

func (m vSingle) Lookup(_ context.Context, k string) (string, bool, error) {
	v, ok := m[k]
	return v, ok, nil
}

func vB(s string) string { return cBytes([]byte(s)) }
func vOptB(s *string) string {
	if s == nil {
		return "None"
	}
	return "Some " + vB(*s)
}
func vListB(l []string) string {
	items := make([]string, len(l))
	for i, s := range l {
		items[i] = vB(s)
	}
	return cList(items)
}
func vSorted(m map[string]string) string {
	keys := make([]string, 0, len(m))
	for k := range m {
		keys = append(keys, k)
	}
	sort.Strings(keys)
	items := make([]string, 0, len(keys))
	for _, k := range keys {
		items = append(items, "("+vB(k)+", "+m[k]+")")
	}
	return cList(items)
}

func vResult(r module.CheckResult) string {
	code := 0
	if r.Reason != nil {
		code = 999999
		if se, ok := r.Reason.(*exterrors.SMTPError); ok {
			code = se.Code*1000 + se.EnhancedCode[0]*100 + se.EnhancedCode[1]*10 + se.EnhancedCode[2]
		}
	}
	return fmt.Sprintf("{| r_reason := %s; r_reject := %s; r_quar := %s |}", cN(code), cBool(r.Reject), cBool(r.Quarantine))
}
func vAction(a modconfig.FailAction) string {
	return fmt.Sprintf("{| a_reject := %s; a_quar := %s |}", cBool(a.Reject), cBool(a.Quarantine))
}

var vLocal = []string{"alice", "Alice", "ALICE", "bob", "ceo", "alic\u00e9", "alice\u0301", "\uff41lice", "a.b", "postmaster"}
var vDomains = []string{"example.org", "Example.ORG", "corp.example", "\u0442\u0435\u0441\u0442.example", "xn--e1aybc.example", "XN--E1AYBC.example", "example.org."}

func vAddr(r *vRand) string {
	switch r.intn(12) {
	case 0:
		return vLocal[r.intn(len(vLocal))] // no domain
	case 1:
		return "\"" + vLocal[r.intn(len(vLocal))] + "\"@" + vDomains[r.intn(len(vDomains))]
	}
	return vLocal[r.intn(len(vLocal))] + "@" + vDomains[r.intn(len(vDomains))]
}

func TestVerif_C15(t *testing.T) {
	out := vOpenOut()
	defer out.Close()
	n := vEnvInt("VERIF_N", 100)
	normNames := []string{"auto", "precis_casefold_email", "precis_casefold", "precis_email", "precis", "casefold", "noop"}
	stats := map[string]int{}
	ctx := context.Background()
	for ci := 0; ci < n; ci++ {
		r := vNewRand(uint64(1500000 + ci))
		// the user and what they may use
		auth := vAddr(r)
		if r.chance(30) {
			auth = vLocal[r.intn(len(vLocal))]
		}
		if r.chance(8) {
			auth = ""
		}
		own := []string{vAddr(r), vAddr(r)}
		foreign := []string{"ceo@corp.example", "bob@example.org", vAddr(r)}
		pickAct := func() modconfig.FailAction {
			switch r.intn(12) {
			case 0:
				return modconfig.FailAction{Quarantine: true}
			case 1:
				return modconfig.FailAction{}
			}
			return modconfig.FailAction{Reject: true}
		}
		fnName, anName := normNames[r.intn(len(normNames))], normNames[r.intn(len(normNames))]
		if r.chance(50) {
			fnName, anName = "auto", "auto"
		}
		// a case-preserving sender normalization, an entitled envelope sender and the same address in another
		// letter case in From: equal as addresses go, but not what the user is entitled to
		spelling := r.chance(15)
		if spelling {
			fnName = []string{"noop", "precis", "precis_email"}[r.intn(3)]
			own = []string{"alice@example.org", "alice@example.org"}
			if auth == "" {
				auth = "alice"
			}
		}
		c := &Check{instName: "verif", log: log.Logger{Out: log.NopOutput{}}, checkHeader: !r.chance(8),
			unauthAction: pickAct(), noMatchAction: pickAct(), errAction: pickAct(),
			fromNorm: authz.NormalizeFuncs[fnName], authNorm: authz.NormalizeFuncs[anName]}
		authN, _ := c.authNorm(auth)
		normOr := func(s string) string {
			if v, err := c.fromNorm(s); err == nil && r.chance(80) {
				return v
			}
			return s
		}
		u2eKind := ""
		switch r.intn(5) {
		case 0:
			c.userToEmail = &table.Identity{}
			u2eKind = "identity"
			if r.chance(60) {
				own = append(own, auth)
			}
		case 1:
			c.userToEmail = vSingle{authN: normOr(own[0]), "bob": "bob@example.org"}
			u2eKind = "single"
		case 2: // address list
			c.userToEmail = vMulti{authN: {normOr(own[0]), normOr(own[1])}, "bob": {"bob@example.org"}}
			u2eKind = "list"
		case 3: // domain entry
			_, d, _ := address.Split(normOr(own[0]))
			c.userToEmail = vMulti{authN: {d, normOr(own[1])}}
			u2eKind = "domain"
		default:
			if r.chance(50) {
				c.userToEmail = vMulti{authN: {"*"}}
			} else {
				c.userToEmail = vSingle{authN: "*"}
			}
			u2eKind = "star"
		}
		switch r.intn(4) {
		case 0: // aliases resolved before the entitlement lookup
			c.emailPrepare = vSingle{normOr("alias@example.org"): normOr(own[0]), normOr(foreign[0]): normOr(foreign[1])}
			own = append(own, "alias@example.org", "Alias@Example.org")
		case 1:
			c.emailPrepare = vMulti{normOr("alias@example.org"): {normOr(foreign[0]), normOr(own[0])}}
			own = append(own, "alias@example.org")
		default:
			c.emailPrepare = &table.Identity{}
		}
		stats["u2e="+u2eKind]++
		// spelling variants of an address
		variant := func(a string) string {
			switch r.intn(6) {
			case 0:
				return strings.ToUpper(a)
			case 1:
				if i := strings.LastIndexByte(a, '@'); i >= 0 {
					return a[:i] + "@" + strings.ToUpper(a[i+1:])
				}
			case 2:
				return strings.Replace(a, "\u00e9", "e\u0301", 1)
			}
			return a
		}
		pick := func() (string, bool) {
			if r.chance(55) {
				return variant(own[r.intn(len(own))]), true
			}
			return variant(foreign[r.intn(len(foreign))]), false
		}
		mf, _ := pick()
		if r.chance(4) {
			mf = ""
		}
		if spelling {
			mf = "alice@example.org"
		}
		// header
		fmtAddr := func(a string) string {
			switch r.intn(7) {
			case 0:
				return a
			case 1:
				return "<" + a + ">"
			case 2:
				return "Alice <" + a + ">"
			case 3:
				return "\"ceo@corp.example\" <" + a + ">"
			case 4:
				return "=?utf-8?q?C=C3=A9o?= <" + a + ">"
			case 5:
				return "Big Boss\r\n <" + a + ">"
			}
			return "\"Boss, Big\" <" + a + "> (comment)"
		}
		var lines []string
		fromField := func() string {
			a, _ := pick()
			if mf != "" && r.chance(30) { // the envelope sender in another spelling
				switch r.intn(3) {
				case 0:
					a = strings.ToUpper(mf[:1]) + mf[1:]
				case 1:
					a = strings.ToUpper(mf)
				default:
					a = mf
				}
			}
			switch r.intn(10) {
			case 0, 4:
				b, _ := pick()
				return fmtAddr(a) + ", " + fmtAddr(b)
			case 1:
				b, _ := pick()
				return "Team: " + fmtAddr(a) + ", " + fmtAddr(b) + ";"
			case 2:
				return "Team: " + fmtAddr(a) + ";"
			case 3:
				return []string{"", "undisclosed:;", "not an address", "<>", "@"}[r.intn(5)]
			}
			return fmtAddr(a)
		}
		key := func(k string) string {
			switch r.intn(4) {
			case 0:
				return strings.ToUpper(k)
			case 1:
				return strings.ToLower(k)
			}
			return k
		}
		nFrom := 1
		switch r.intn(10) {
		case 0:
			nFrom = 0
		case 1, 2:
			nFrom = 2
		}
		// several authors of which only some are the user's, with a Sender field (any)
		mixedAuthors := r.chance(12)
		if mixedAuthors {
			nFrom = 1
			stats["mixed-authors"]++
		}
		lines = append(lines, "Subject: hello")
		for i := 0; i < nFrom; i++ {
			if mixedAuthors {
				a := variant(own[r.intn(len(own))])
				b := variant(foreign[r.intn(len(foreign))])
				if r.chance(50) {
					a, b = b, a
				}
				f := fmtAddr(a) + ", " + fmtAddr(b)
				if r.chance(30) {
					f = "Team: " + f + ";"
				}
				lines = append(lines, key("From")+": "+f)
				continue
			}
			lines = append(lines, key("From")+": "+fromField())
			if r.chance(30) {
				lines = append(lines, "To: someone@example.net")
			}
		}
		nSender := 0
		switch r.intn(10) {
		case 0, 1, 2:
			nSender = 1
		case 3:
			nSender = 2
		}
		if mixedAuthors {
			nSender = 1
		}
		for i := 0; i < nSender; i++ {
			a, _ := pick()
			v := fmtAddr(a)
			if r.chance(8) {
				v = []string{"", "garbage", "a@b, c@d"}[r.intn(3)]
			}
			lines = append(lines, key("Sender")+": "+v)
		}
		r2 := lines[1:]
		for i := len(r2) - 1; i > 0; i-- { // shuffle field order
			j := r.intn(i + 1)
			r2[i], r2[j] = r2[j], r2[i]
		}
		raw := strings.Join(lines, "\r\n") + "\r\n\r\n"
		hdr, err := textproto.ReadHeader(bufio.NewReader(strings.NewReader(raw)))
		if err != nil {
			stats["unparsable-header"]++
			continue
		}
		hasConn := !r.chance(3)
		meta := &module.MsgMetadata{ID: "verif"}
		if hasConn {
			meta.Conn = &module.ConnState{}
			meta.Conn.AuthUser = auth
		}
		st, _ := c.CheckStateForMsg(ctx, meta)
		resS := st.CheckSender(ctx, mf)
		resB := st.CheckBody(ctx, hdr, nil)
		st.Close()

		// ---- record the oracles ----
		var hdrItems []string
		plist, paddr := map[string]string{}, map[string]string{}
		addrs := map[string]bool{mf: true}
		for f := hdr.Fields(); f.Next(); {
			k := strings.ToLower(f.Key())
			v := f.Value()
			hdrItems = append(hdrItems, "("+vB(k)+", "+vB(v)+")")
			if k == "from" || k == "sender" {
				if l, err := mail.ParseAddressList(v); err != nil {
					plist[v] = "None"
				} else {
					var as []string
					for _, a := range l {
						as = append(as, a.Address)
						addrs[a.Address] = true
					}
					plist[v] = "Some " + vListB(as)
				}
				if a, err := mail.ParseAddress(v); err != nil {
					paddr[v] = "None"
				} else {
					paddr[v] = "Some " + vB(a.Address)
					addrs[a.Address] = true
				}
			}
		}
		fnorm, anorm, prep, u2e, split := map[string]string{}, map[string]string{}, map[string]string{}, map[string]string{}, map[string]string{}
		prepared := map[string]bool{}
		for a := range addrs {
			v, err := c.fromNorm(a)
			if err != nil {
				fnorm[a] = "None"
				continue
			}
			fnorm[a] = "Some " + vB(v)
			if m, ok := c.emailPrepare.(module.MultiTable); ok {
				l, err := m.LookupMulti(ctx, v)
				if err != nil {
					prep[v] = "PErr"
				} else if len(l) == 0 {
					prep[v] = "PMiss"
					prepared[v] = true
				} else {
					prep[v] = "PHit " + vListB(l)
					for _, x := range l {
						prepared[x] = true
					}
				}
			} else {
				x, ok, err := c.emailPrepare.Lookup(ctx, v)
				if err != nil {
					prep[v] = "PErr"
				} else if !ok {
					prep[v] = "PMiss"
					prepared[v] = true
				} else {
					prep[v] = "PHit " + vListB([]string{x})
					prepared[x] = true
				}
			}
		}
		for a := range prepared {
			_, d, err := address.Split(a)
			if err != nil {
				split[a] = "None"
			} else {
				split[a] = "Some " + vB(d)
			}
		}
		if v, err := c.authNorm(auth); err != nil {
			anorm[auth] = "None"
		} else {
			anorm[auth] = "Some " + vB(v)
			if m, ok := c.userToEmail.(module.MultiTable); ok {
				l, err := m.LookupMulti(ctx, v)
				if err != nil {
					u2e[v] = "None"
				} else {
					u2e[v] = "Some " + vListB(l)
				}
			} else {
				x, ok, err := c.userToEmail.Lookup(ctx, v)
				if err != nil {
					u2e[v] = "None"
				} else if !ok {
					u2e[v] = "Some []"
				} else {
					u2e[v] = "Some " + vListB([]string{x})
				}
			}
		}
		cfg := fmt.Sprintf("{| check_header := %s; unauth_action := %s; no_match_action := %s; err_action := %s |}",
			cBool(c.checkHeader), vAction(c.unauthAction), vAction(c.noMatchAction), vAction(c.errAction))
		out.Case(fmt.Sprintf("{| c_cfg := %s; c_fnorm := %s; c_anorm := %s; c_prep := %s; c_u2e := %s; c_split := %s; c_plist := %s; c_paddr := %s; c_conn := %s; c_auth := %s; c_mf := %s; c_hdr := %s; c_sender := %s; c_body := %s |}",
			cfg, vSorted(fnorm), vSorted(anorm), vSorted(prep), vSorted(u2e), vSorted(split), vSorted(plist), vSorted(paddr),
			cBool(hasConn), vB(auth), vB(mf), cList(hdrItems), vResult(resS), vResult(resB)))
		if resS.Reason == nil {
			stats["sender-pass"]++
		}
		if resB.Reason == nil {
			stats["body-pass"]++
		}
		if resS.Reason == nil && resB.Reason == nil {
			stats["accepted"]++
		}
		stats[fmt.Sprintf("from-fields=%d", nFrom)]++
		stats[fmt.Sprintf("sender-fields=%d", nSender)]++
	}
	keys := make([]string, 0, len(stats))
	for k := range stats {
		keys = append(keys, k)
	}
	sort.Strings(keys)
	for _, k := range keys {
		out.Stat(k, stats[k])
	}
}

// ---- the normalisation settings against their contract (Auth/NormCorr.v) ----

func vRunes(s string) string {
	var items []string
	for _, r := range s {
		items = append(items, cN(int(r)))
	}
	return cList(items)
}

func vLowRunes(s string) string {
	var items []string
	for _, r := range s {
		items = append(items, cN(int(unicode.ToLower(r))))
	}
	return cList(items)
}

func TestVerif_C15Norm(t *testing.T) {
	out := vOpenOut()
	defer out.Close()
	n := vEnvInt("VERIF_N", 100)
	// pairs of spellings: the same under lower-casing, or different mailboxes that a coarser
	// relation (full case folding, compatibility mappings, confusables) would identify
	pairs := [][2]string{
		{"strasse", "straße"}, {"STRASSE", "straße"}, {"masse", "maſe"}, {"s", "ſ"},
		{"odysseusς", "odysseusσ"}, {"Σ", "ς"}, {"fish", "ﬁsh"}, {"off", "oﬀ"},
		{"kelvin", "Kelvin"}, {"Alice", "alice"}, {"ALICE", "alice"}, {"alice", "alicé"},
		{"École", "école"}, {"İstanbul", "istanbul"}, {"i̇stanbul", "İstanbul"}, {"Ａlice", "alice"},
		{"ａlice", "Ａlice"}, {"ТЕСТ", "тест"}, {"bob", "b0b"}, {"ẞ", "ß"},
		{"ẞ", "ss"}, {"ǅ", "ǆ"}, {"Ǆ", "ǆ"}, {"ω", "Ω"},
	}
	domains := []string{"", "@example.org", "@Example.ORG", "@тест.example", "@straße.example", "@strasse.example"}
	names := []string{"casefold", "noop", "casefold", "auto", "precis_casefold_email", "precis_casefold", "precis_email", "precis", "casefold"}
	stats := map[string]int{}
	for ci := 0; ci < n; ci++ {
		r := vNewRand(uint64(1590000 + ci))
		name := names[r.intn(len(names))]
		p := pairs[r.intn(len(pairs))]
		a, b := p[0], p[1]
		switch r.intn(4) {
		case 0: // the difference sits in the domain
			l := vLocal[r.intn(len(vLocal))]
			a, b = l+"@"+a+".example", l+"@"+b+".example"
		case 1:
			d := domains[r.intn(len(domains))]
			a, b = a+d, b+d
		case 2:
			a, b = a+domains[r.intn(len(domains))], b+domains[r.intn(len(domains))]
		}
		if r.chance(10) {
			b = a
		}
		f := authz.NormalizeFuncs[name]
		if f == nil {
			t.Fatalf("no normalization function %q", name)
		}
		side := func(s string) string {
			o := "None"
			if v, err := f(s); err == nil {
				o = "Some " + vRunes(v)
			}
			return fmt.Sprintf("{| s_in := %s; s_low := %s; s_out := %s |}", vRunes(s), vLowRunes(s), o)
		}
		st := "SOther"
		switch name {
		case "noop":
			st = "SNoop"
		case "casefold":
			st = "SCasefold"
		}
		out.Case(fmt.Sprintf("{| n_set := %s; n_a := %s; n_b := %s |}", st, side(a), side(b)))
		stats["setting_"+name]++
	}
	for k, v := range stats {
		out.Stat(k, v)
	}
}
