//go:build verif

package parser

// C20 harness: parser.Read on grammar-generated configurations, mutations of them, random bytes,
// file imports and the shipped configuration files; canonical print + re-read of accepted trees.

import (
	"fmt"
	"os"
	"path/filepath"
	"sort"
	"strings"
	"testing"
	"time"
	"unicode"
)

func cRunes(rs []rune) string {
	if len(rs) == 0 {
		return "(@nil N)"
	}
	var b strings.Builder
	b.WriteString("[")
	for i, r := range rs {
		if i > 0 {
			b.WriteString(";")
		}
		fmt.Fprintf(&b, "%d", r)
	}
	b.WriteString("]%N")
	return b.String()
}
func cS(s string) string { return cRunes([]rune(s)) }

func cNode(n Node) string {
	var args []string
	for _, a := range n.Args {
		args = append(args, cS(a))
	}
	ch := "None"
	if n.Children != nil {
		ch = "(Some " + cNodes(n.Children) + ")"
	}
	return fmt.Sprintf("(Node %s %s %s %s %s %s)", cS(n.Name), cList(args), ch, cBool(n.Snippet), cBool(n.Macro), cZ(n.Line))
}
func cNodes(ns []Node) string {
	var items []string
	for _, n := range ns {
		items = append(items, cNode(n))
	}
	return cList(items)
}

// canonical printer (mirrors Cfg/Model.v print_nodes)
func vPrint(b *strings.Builder, ns []Node, indent int) {
	for _, n := range ns {
		b.WriteString(strings.Repeat(" ", indent))
		b.WriteString(n.Name)
		for _, a := range n.Args {
			b.WriteString(" \"")
			b.WriteString(strings.ReplaceAll(a, "\"", "\\\""))
			b.WriteString("\"")
		}
		if n.Children == nil {
			b.WriteString("\n")
		} else {
			b.WriteString(" {\n")
			vPrint(b, n.Children, indent+1)
			b.WriteString(strings.Repeat(" ", indent))
			b.WriteString("}\n")
		}
	}
}

type vReadRes struct {
	nodes []Node
	err   error
	panic bool
	slow  bool
}

func vRead(input string, location string) vReadRes {
	ch := make(chan vReadRes, 1)
	go func() {
		var res vReadRes
		defer func() {
			if e := recover(); e != nil {
				res.panic = true
			}
			ch <- res
		}()
		res.nodes, res.err = Read(strings.NewReader(input), location)
	}()
	select {
	case r := <-ch:
		return r
	case <-time.After(5 * time.Second):
		return vReadRes{slow: true}
	}
}

func cRes(r vReadRes) string {
	switch {
	case r.panic:
		return "PPanic"
	case r.err != nil:
		return "PErr"
	}
	return "(POk " + cNodes(r.nodes) + ")"
}

var vEnv = [][2]string{{"VERIF_A", "valueA"}, {"VERIF_EMPTY", ""}, {"VERIF_B", "x y"}, {"VERIF_NEST", "{env:VERIF_A}"}}

func vEmit(out *vOut, input string, files map[string]string, dir string, stats map[string]int, stream string, src ...[]Node) {
	loc := filepath.Join(dir, "main.conf")
	r := vRead(input, loc)
	if r.slow {
		stats["skipped_slow"]++
		return
	}
	printed, rt := "None", "None"
	if !r.panic && r.err == nil {
		var b strings.Builder
		vPrint(&b, r.nodes, 0)
		printed = "(Some " + cS(b.String()) + ")"
		r2 := vRead(b.String(), loc)
		if !r2.slow {
			rt = "(Some " + cRes(r2) + ")"
		}
	}
	// unicode tables
	sp, le, di := map[rune]bool{}, map[rune]bool{}, map[rune]bool{}
	scan := func(s string) {
		for _, c := range s {
			if c >= 128 {
				if unicode.IsSpace(c) {
					sp[c] = true
				}
				if unicode.IsLetter(c) {
					le[c] = true
				}
				if unicode.IsDigit(c) {
					di[c] = true
				}
			}
		}
	}
	scan(input)
	var fitems []string
	// `import ""` resolves to the directory of the configuration itself: os.Open succeeds, reading
	// fails and the lexer yields no tokens, i.e. it behaves as an empty file
	fitems = append(fitems, "((@nil N), (@nil N))")
	var fnames []string
	for k := range files {
		fnames = append(fnames, k)
	}
	sort.Strings(fnames)
	for _, k := range fnames {
		scan(files[k])
		fitems = append(fitems, "("+cS(k)+", "+cS(files[k])+")")
	}
	tab := func(m map[rune]bool) string {
		var ks []int
		for k := range m {
			ks = append(ks, int(k))
		}
		sort.Ints(ks)
		var items []string
		for _, k := range ks {
			items = append(items, cN(k))
		}
		return cList(items)
	}
	var eitems []string
	for _, kv := range vEnv {
		eitems = append(eitems, "("+cS(kv[0])+", "+cS(kv[1])+")")
	}
	stats["stream_"+stream]++
	switch {
	case r.panic:
		stats["res_panic"]++
	case r.err != nil:
		stats["res_err"]++
	default:
		stats["res_ok"]++
	}
	csrc := "None"
	if len(src) == 1 {
		csrc = "(Some " + cNodes(src[0]) + ")"
	}
	out.Case(fmt.Sprintf("{| c_inp := %s; c_files := %s; c_env := %s; c_spaces := %s; c_letters := %s; c_digits := %s; c_res := %s; c_printed := %s; c_rt := %s; c_src := %s |}",
		cS(input), cList(fitems), cList(eitems), tab(sp), tab(le), tab(di), cRes(r), printed, rt, csrc))
}

// ---- trees built directly (not obtained by parsing): their canonical print must read back ----
var vTreeNames = []string{"hostname", "tls", "a", "b.c", "x-y", "_u", "имя", "storage.imapsql", "Zürich", "deliver_to"}
var vTreeArgs = []string{"local", "a b", "", "q\"uote", "multi\nline", "cr\r\nlf", "\rx", "x\r", "\r\n", "two\r\r\nlines", "tab\there",
	"a\\b", "\\\\", "#hash", "{x", "}y", "$x", "(p)", "é", "日本", "tcp://0.0.0.0:25", "  lead", "trail  ", "\"\"", "a\"", "=", "\u00a0nbsp"}

func vTree(r *vRand, depth int) []Node {
	var ns []Node
	for i := 0; i < 1+r.intn(3); i++ {
		n := Node{Name: vTreeNames[r.intn(len(vTreeNames))]}
		for j := 0; j < r.intn(4); j++ {
			n.Args = append(n.Args, vTreeArgs[r.intn(len(vTreeArgs))])
		}
		if depth > 0 && r.chance(35) {
			n.Children = []Node{}
			if r.chance(80) {
				n.Children = vTree(r, depth-1)
			}
		}
		ns = append(ns, n)
	}
	return ns
}

// ---- grammar-based generator ----
type vGen struct {
	odd      bool
	r        *vRand
	macros   []string
	snippets int
}

var vNames = []string{"hostname", "tls", "smtp", "deliver_to", "check", "a", "b.c", "x-y", "_u", "имя", "auth", "import", "9bad", "ba$d", "storage.imapsql"}
var vArgAlphabet = []string{"local", "tcp://0.0.0.0:25", "off", "42", "a b", "", "{", "}", "\\", "x\\", "q\"uote", "multi\nline", "tab\there",
	"{env:VERIF_A}", "{env:VERIF_B}", "{env:VERIF_EMPTY}", "{env:UNSET}", "{env:VERIF_NEST}", "pre{env:VERIF_A}post", "$(m0)", "$(m1)", "x$(m0)y", "$(undef)", "$(", "é", "日本", "a#b", "#c", "=", "(s0)", "cr\rlf", "\\\"", "$(m0)$(m1)"}

func (g *vGen) name() string {
	if g.r.chance(97) {
		return vNames[g.r.intn(10)]
	}
	return vNames[g.r.intn(len(vNames))]
}

func (g *vGen) arg() string {
	if g.odd && g.r.chance(30) {
		return []string{"mail.$(\u0434\u043e\u043c\u0435\u043d)/x", "$(\u0434\u043e\u043c\u0435\u043d)", "p$(a+b)q", "$(a+b)", "\"$(a+b) $(m0)\""}[g.r.intn(5)]
	}
	a := vArgAlphabet[g.r.intn(len(vArgAlphabet))]
	if g.r.chance(88) {
		a = vArgAlphabet[g.r.intn(6)]
		if g.r.chance(25) {
			a = []string{"{env:VERIF_A}", "$(m0)", "x$(m0)y", "q\"uote", "multi\nline", "é", "pre{env:VERIF_B}post", "a#b"}[g.r.intn(8)]
		}
	}
	needQuote := a == "" || strings.ContainsAny(a, " \t\n\r\"#") || g.r.chance(25)
	if needQuote {
		return "\"" + strings.ReplaceAll(a, "\"", "\\\"") + "\""
	}
	return a
}

func (g *vGen) block(b *strings.Builder, depth, indent int) {
	n := 1 + g.r.intn(3)
	for i := 0; i < n; i++ {
		g.directive(b, depth, indent)
	}
}

func (g *vGen) directive(b *strings.Builder, depth, indent int) {
	ws := strings.Repeat([]string{" ", "\t", "  "}[g.r.intn(3)], indent)
	b.WriteString(ws)
	if g.r.chance(8) && g.snippets > 0 {
		fmt.Fprintf(b, "import s%d\n", g.r.intn(g.snippets))
		return
	}
	if g.r.chance(5) {
		b.WriteString("# a comment { } \" \n")
		return
	}
	b.WriteString(g.name())
	na := g.r.intn(4)
	for i := 0; i < na; i++ {
		b.WriteString(" ")
		b.WriteString(g.arg())
		if g.r.chance(6) {
			b.WriteString(" \\\n" + ws + "   ") // line continuation
		}
	}
	if depth > 0 && g.r.chance(35) {
		b.WriteString(" {")
		if g.r.chance(90) {
			b.WriteString("\n")
		} else {
			b.WriteString(" ")
		}
		if !g.r.chance(10) {
			g.block(b, depth-1, indent+1)
		}
		b.WriteString(ws + "}")
		if g.r.chance(6) {
			b.WriteString(" trailing")
		}
	}
	if g.r.chance(10) {
		b.WriteString(" # trailing comment")
	}
	if g.r.chance(15) {
		b.WriteString("\r\n")
	} else {
		b.WriteString("\n")
	}
}

func (g *vGen) config() string {
	var b strings.Builder
	if g.r.chance(5) {
		b.WriteString("\ufeff")
	}
	nm := g.r.intn(3)
	for i := 0; i < nm; i++ {
		fmt.Fprintf(&b, "$(m%d) = %s", i, g.arg())
		if g.r.chance(40) {
			b.WriteString(" " + g.arg())
		}
		b.WriteString("\n")
	}
	// macro names are not restricted to ASCII letters
	g.odd = g.r.chance(25)
	if g.odd {
		b.WriteString("$(\u0434\u043e\u043c\u0435\u043d) = example.org\n$(a+b) = sum\n")
	}
	g.snippets = g.r.intn(4)
	for i := 0; i < g.snippets; i++ {
		fmt.Fprintf(&b, "(s%d) {\n", i)
		save := g.snippets
		g.snippets = i // only backward references inside snippet bodies
		g.block(&b, 2, 1)
		g.snippets = save
		b.WriteString("}\n")
	}
	n := 1 + g.r.intn(5)
	for i := 0; i < n; i++ {
		g.directive(&b, 3, 0)
	}
	return b.String()
}

var vMutChars = []string{"{", "}", "\"", "\\", "#", "$", "(", ")", "=", " ", "\n", "\r", "\t", "\x00", "\xff", "\u00a0", "\u2028"}

func vMutate(r *vRand, s string) string {
	b := []byte(s)
	k := 1 + r.intn(3)
	for i := 0; i < k && len(b) > 0; i++ {
		p := r.intn(len(b))
		switch r.intn(4) {
		case 0:
			b = append(b[:p], b[p+1:]...)
		case 1:
			ins := vMutChars[r.intn(len(vMutChars))]
			b = append(b[:p], append([]byte(ins), b[p:]...)...)
		case 2:
			ins := vMutChars[r.intn(len(vMutChars))]
			b = append(b[:p], append([]byte(ins), b[p+1:]...)...)
		default:
			// duplicate the rest of the line
			e := p
			for e < len(b) && b[e] != '\n' {
				e++
			}
			seg := append([]byte(nil), b[p:e]...)
			b = append(b[:e], append(seg, b[e:]...)...)
		}
	}
	return string(b)
}

func TestVerif_C20(t *testing.T) {
	out := vOpenOut()
	defer out.Close()
	n := vEnvInt("VERIF_N", 400)
	stats := map[string]int{}
	r := vNewRand(20)
	os.Clearenv()
	for _, kv := range vEnv {
		os.Setenv(kv[0], kv[1])
	}
	dir := t.TempDir()

	// corpus: hand-picked corner cases
	corpus := []string{
		"", "a", "a b\n", "a {\n}\n", "a { }\n", "a {\n b\n}\n", "{", "}", "a }", "a {", "a {\n b }\n", "a \"\"\n", "a \"x\ny\" z\nb\n",
		"a \\\n b\n", "a \\", "\"q\" x\n", "a \"unterminated", "a \"esc\\\"q\" \"bs\\\\\" \"bsn\\n\"\n", "a#b c\nd\n", "a #b\n",
		"$(m) = 1 2\nfoo $(m) x$(m)y\n", "$(a) = $(undef)\nfoo \"x$(a)y\"\n", "$(m) = 1\nfoo \"x$(m)y$(m)\" $(m)\n", "$(m = 1\n", "$(m) 1 2\n", "$(m) =\n",
		"foo $(m)\n$(m) = late\nbar $(m)\n", "a {\n $(m) = 1\n}\n", "(s) {\n b\n}\nimport s\n", "(s) {\n import s\n}\nimport s\n",
		"(s) x {\n}\n", "a {\n (s) {\n }\n}\n", "import nothere\n", "import\n", "import a b\n", "a {env:VERIF_A} \"{env:UNSET}\" {env:VERIF_NEST}\n",
		"{env:VERIF_A} x\n", "a {env:X$Y}\n", "a { b { c { d } } }\n", "a {\n b {\n c\n }\n}\nd\n", "a\r\nb\r\n", "\ufeffa b\n", "a\u00a0b c\n", "9a\n", "a$b\n", "a.b-c_d e\n",
		"a {\n} b\n", "a {\n}\n}\n", "a \"x\\\ny\"\nb\n", "a \"{\" \"}\"\n", "a { \"}\" }\n", "a {\nb }\nc\n", "a \\ {\n b\n}\n", "a x \\\n {\n b\n}\n",
		// imports below the top level of a snippet body: found only when the spliced body is walked again
		"(inner) {\n a 1\n}\n(outer) {\n blk {\n  import inner\n }\n}\nimport outer\n",
		"(inner) {\n a 1\n}\n(outer) {\n x\n blk {\n  sub {\n   import inner\n  }\n }\n}\ntop {\n import outer\n}\n",
		"(outer) {\n blk {\n  import nosuch\n }\n}\nimport outer\n",
		"(s) {\n blk {\n  import s\n }\n}\nimport s\n",
		"(i1) {\n a\n}\n(i2) {\n import i1\n}\n(o) {\n b {\n  import i2\n }\n c\n}\nimport o\nimport o\n",
		strings.Repeat("a {\n", 300) + strings.Repeat("}\n", 300),
		strings.Repeat("a {\n", 250) + strings.Repeat("}\n", 250),
	}
	for _, c := range corpus {
		vEmit(out, c, nil, dir, stats, "corpus")
	}

	// shipped configuration files
	for _, f := range []string{"../../maddy.conf", "../../maddy.conf.docker"} {
		data, err := os.ReadFile(f)
		if err != nil {
			t.Fatalf("shipped config %s: %v", f, err)
		}
		nodes, err := Read(strings.NewReader(string(data)), f)
		if err != nil || len(nodes) == 0 {
			t.Errorf("shipped config %s does not parse: %v", f, err)
			stats["shipped_fail"]++
		}
		vEmit(out, string(data), nil, dir, stats, "shipped")
	}

	// file imports
	files := map[string]string{"inc1": "x 1\n(fs) {\n y 2\n}\n", "inc2.conf": "import fs\nz {\n w\n}\n$(fm) = 5\n", "bad": "a {\n", "rec": "import rec\n"}
	for k, v := range files {
		if err := os.WriteFile(filepath.Join(dir, k), []byte(v), 0o644); err != nil {
			t.Fatal(err)
		}
	}
	for _, c := range []string{"import inc1\n", "import inc1\nimport fs\n", "import inc2\n", "import inc1\nimport inc2\na $(fm)\n", "import bad\n", "import rec\n", "a {\n import inc1\n}\n", "import inc1.conf\n"} {
		vEmit(out, c, files, dir, stats, "file_imports")
	}

	for i := 0; i < n; i++ {
		g := &vGen{r: r}
		cfg := g.config()
		vEmit(out, cfg, nil, dir, stats, "grammar")
		if i%2 == 0 {
			vEmit(out, vMutate(r, cfg), nil, dir, stats, "mutated")
		}
		if i%5 == 0 {
			t0 := vTree(r, 3)
			var b strings.Builder
			vPrint(&b, t0, 0)
			vEmit(out, b.String(), nil, dir, stats, "built_trees", t0)
		}
		if i%8 == 0 {
			l := r.intn(40)
			bs := make([]byte, l)
			for j := range bs {
				if r.chance(50) {
					bs[j] = "{}\"\\#$()= \n\r\tab"[r.intn(15)]
				} else {
					bs[j] = byte(r.intn(256))
				}
			}
			vEmit(out, string(bs), nil, dir, stats, "random_bytes")
		}
	}
	// amplification probe (known finding): k snippets, each importing the previous one twice
	{
		var b strings.Builder
		b.WriteString("(s0) {\n x\n}\n")
		const k = 14
		for i := 1; i <= k; i++ {
			fmt.Fprintf(&b, "(s%d) {\n import s%d\n import s%d\n}\n", i, i-1, i-1)
		}
		fmt.Fprintf(&b, "import s%d\n", k)
		res := vRead(b.String(), filepath.Join(dir, "main.conf"))
		out.Stat("amplify_input_bytes", b.Len())
		if res.err == nil && !res.panic && !res.slow {
			out.Stat("amplify_nodes", len(res.nodes))
		} else {
			out.Stat("amplify_nodes", 0)
		}
	}
	for k, v := range stats {
		out.Stat(k, v)
	}
}

// The two facts about Go's Unicode tables that the round-trip theorem (C20_print_read_roundtrip)
// takes as hypotheses on its oracles, checked over every code point.
func TestVerif_C20Unicode(t *testing.T) {
	for r := rune(128); r <= unicode.MaxRune; r++ {
		if (unicode.IsLetter(r) || unicode.IsDigit(r)) && unicode.IsSpace(r) {
			t.Fatalf("U+%04X is a letter or digit and a space", r)
		}
	}
	if unicode.IsLetter(0xFEFF) || unicode.IsDigit(0xFEFF) {
		t.Fatalf("U+FEFF is a letter or digit")
	}
}
