//go:build verif

package queue

// C18 harness: Queue.emitDSN driven with generated metadata / stored errors / failed sets; the
// bounce target parses what it receives with the standard library (mime/multipart), independent
// of go-message, and fails at a scripted stage.

import (
	"bufio"
	"bytes"
	"context"
	"errors"
	"fmt"
	"io"
	"mime"
	"mime/multipart"
	"sort"
	"strings"
	"testing"
	"time"

	"github.com/emersion/go-message/textproto"
	"github.com/emersion/go-smtp"
	"github.com/foxcpp/maddy/framework/address"
	"github.com/foxcpp/maddy/framework/buffer"
	"github.com/foxcpp/maddy/framework/dns"
	"github.com/foxcpp/maddy/framework/exterrors"
	"github.com/foxcpp/maddy/framework/log"
	"github.com/foxcpp/maddy/framework/module"
)

type vBT struct {
	failStage int // 0 none 1 start 2 rcpt 3 body 4 commit
	calls     []string
	mailFrom  string
	rcptTo    string
	metaOrig  string
	utf8      bool
	reqtls    bool
	header    *textproto.Header
	body      []byte
	started   bool
}
type vBTD struct{ t *vBT }

func (t *vBT) Start(ctx context.Context, msgMeta *module.MsgMetadata, mailFrom string) (module.Delivery, error) {
	t.calls = append(t.calls, "CStart")
	t.started = true
	t.mailFrom = mailFrom
	t.metaOrig = msgMeta.OriginalFrom
	t.utf8 = msgMeta.SMTPOpts.UTF8
	t.reqtls = msgMeta.SMTPOpts.RequireTLS
	if t.failStage == 1 {
		return nil, errors.New("start failed")
	}
	return &vBTD{t}, nil
}
func (d *vBTD) AddRcpt(ctx context.Context, rcptTo string, _ smtp.RcptOptions) error {
	d.t.calls = append(d.t.calls, "(CAddRcpt (@nil N))")
	d.t.rcptTo = rcptTo
	if d.t.failStage == 2 {
		return errors.New("rcpt failed")
	}
	return nil
}
func (d *vBTD) Body(ctx context.Context, header textproto.Header, body buffer.Buffer) error {
	d.t.calls = append(d.t.calls, "CBody")
	h := header.Copy()
	d.t.header = &h
	r, err := body.Open()
	if err != nil {
		return err
	}
	defer r.Close()
	d.t.body, _ = io.ReadAll(r)
	if d.t.failStage == 3 {
		return errors.New("body failed")
	}
	return nil
}
func (d *vBTD) Commit(ctx context.Context) error {
	d.t.calls = append(d.t.calls, "CCommit")
	if d.t.failStage == 4 {
		return errors.New("commit failed")
	}
	return nil
}
func (d *vBTD) Abort(ctx context.Context) error {
	d.t.calls = append(d.t.calls, "CAbort")
	return nil
}

func cS18(s string) string {
	if s == "" {
		return "(@nil N)"
	}
	return cStr(s)
}

// parse a block of "Name: value" lines (with unfolding) into an ordered field list
func vParseFields(block string) []string {
	var out []string
	var name, val string
	flush := func() {
		if name != "" {
			out = append(out, "("+cS18(name)+", "+cS18(val)+")")
		}
	}
	for _, line := range strings.Split(block, "\n") {
		line = strings.TrimSuffix(line, "\r")
		if line == "" {
			continue
		}
		if line[0] == ' ' || line[0] == '\t' {
			val += line
			continue
		}
		flush()
		i := strings.IndexByte(line, ':')
		if i < 0 {
			name, val = line, "<no colon>"
			continue
		}
		name = line[:i]
		val = strings.TrimPrefix(line[i+1:], " ")
	}
	flush()
	return out
}

type vErr struct {
	code int
	e    [3]int
	msg  string
}

var vRcpts18 = []string{"a@example.org", "b@sub.example.org", "bob@mail_gw.example.org", "c@xn--e1aybc.example", "d@тест.example", "юзер@example.org", "e@EXAMPLE.org"}
var vOrig18 = []string{"alias@example.org", "list@тест.example", "Alias2@xn--e1aybc.example", "юзер2@example.org"}
var vMsgs18 = []string{"mailbox unavailable", "multi\nline\r\ntext", "юникод text", "x", strings.Repeat("long words ", 12), "", "tab\there", "trailing space ",
	// dotted numbers that are not status codes: an address, a version
	"Rejected: 4.31.198.44 is listed at rbl.example.net", "Administrative prohibition (Exim 4.96.2)", "your network 5.9.12.0/24 is blocked"}

func TestVerif_C18(t *testing.T) {
	out := vOpenOut()
	defer out.Close()
	n := vEnvInt("VERIF_N", 300)
	r := vNewRand(18)
	stats := map[string]int{}
	dir := t.TempDir()

	for i := 0; i < n; i++ {
		bt := &vBT{}
		if r.chance(20) {
			bt.failStage = 1 + r.intn(4)
		}
		bounce := !r.chance(8)
		hostname := []string{"mx.example.org", "mx.тест.example", "mx.xn--e1aybc.example"}[r.intn(3)]
		mod, _ := NewQueue("", "queue", nil, nil)
		q := mod.(*Queue)
		q.location = dir
		q.hostname = hostname
		q.autogenMsgDomain = "auto.example.org"
		q.Log = log.Logger{Out: log.NopOutput{}}
		if bounce {
			q.dsnPipeline = bt
		}

		utf8 := r.chance(60)
		from := []string{"sender@example.org", "s@тест.example", "sender@example.org", ""}[r.intn(4)]
		origFrom := from
		if r.chance(20) {
			origFrom = []string{"orig@example.org", "", "Orig@EXAMPLE.org"}[r.intn(3)]
		}
		if !utf8 && !address.IsASCII(from) {
			from = "sender@example.org"
		}
		// the message metadata is the caller's object: the queue is given it at Start and the pipeline
		// goes on filling it (original recipients, one entry per RCPT) afterwards
		mm := &module.MsgMetadata{ID: fmt.Sprintf("%08x", r.intn(1<<30)), OriginalFrom: origFrom,
			SMTPOpts: smtp.MailOptions{UTF8: utf8, RequireTLS: r.chance(20)}, OriginalRcpts: map[string]string{}}
		dq, err := q.Start(context.Background(), mm, from)
		if err != nil {
			t.Fatal(err)
		}
		meta := dq.(*queueDelivery).meta
		meta.TriesCount = map[string]int{}
		meta.FirstAttempt, meta.LastAttempt = time.Now().Add(-time.Hour), time.Now()
		connHost := ""
		hasConn := r.chance(50)
		if hasConn {
			connHost = []string{"client.example.org", "", "client.тест.example"}[r.intn(3)]
			mm.Conn = &module.ConnState{Hostname: connHost}
			mm.DontTraceSender = r.chance(30)
		}
		nf := 1 + r.intn(3)
		perm := r.intn(len(vRcpts18))
		var failed []string
		errsOf := map[string]vErr{}
		for j := 0; j < nf; j++ {
			rc := vRcpts18[(perm+j)%len(vRcpts18)]
			if !utf8 && !address.IsASCII(rc) {
				rc = vRcpts18[j%3] // without SMTPUTF8 the endpoint accepts ASCII addresses only
			}
			dup := false
			for _, x := range failed {
				if x == rc {
					dup = true
				}
			}
			if dup {
				continue
			}
			failed = append(failed, rc)
			code := []int{550, 451, 554, 421}[r.intn(4)]
			e := [3]int{code / 100, r.intn(8), r.intn(30)}
			if r.chance(10) {
				e = [3]int{0, 0, 0}
				stats["status_not_set"]++
			} else if r.chance(4) {
				e = [3]int{-1, -1, -1}
			}
			ve := vErr{code, e, vMsgs18[r.intn(len(vMsgs18))]}
			// stored the way tryDelivery stores it: through toSMTPErr
			var src error
			if r.chance(50) {
				src = &exterrors.SMTPError{Code: ve.code, EnhancedCode: exterrors.EnhancedCode{e[0], e[1], e[2]}, Message: ve.msg}
			} else {
				src = &smtp.SMTPError{Code: ve.code, EnhancedCode: smtp.EnhancedCode{e[0], e[1], e[2]}, Message: ve.msg}
			}
			stored := VerifToSMTPErr(src)
			meta.RcptErrs[rc] = stored
			// the status to be reported is the one the next hop gave, or the generic one of the reply's
			// class when it gave none - whatever else its text may contain
			expE := e
			if e[0] == 0 { // not set: the generic status of the class; "no enhanced code" (-1) is kept as it is
				expE = [3]int{stored.Code / 100, 0, 0}
			}
			if got := [3]int{stored.EnhancedCode[0], stored.EnhancedCode[1], stored.EnhancedCode[2]}; got != expE {
				stats["stored-status-differs-from-reply"]++
			}
			ve = vErr{stored.Code, expE, stored.Message}
			errsOf[rc] = ve
			if r.chance(35) {
				o := vOrig18[r.intn(len(vOrig18))]
				// (an address the report cannot represent makes the generation fail half way: kept for
				// a third of the cases so that the next report follows a failed one)
				if !utf8 && !address.IsASCII(o) && !r.chance(33) {
					o = vOrig18[0]
				}
				mm.OriginalRcpts[rc] = o
				stats["rewritten"]++
				// the map is shared by all recipients of the message: the address the sender used for this
				// one can itself be the rewriting target of another (delivered) recipient
				if r.chance(30) && address.IsASCII(o) {
					if _, isRcpt := mm.OriginalRcpts[o]; !isRcpt && o != rc {
						mm.OriginalRcpts[o] = "someone.else@example.org"
						stats["overlapping-aliases"]++
					}
				}
			}
		}
		meta.To = nil
		// the header as the endpoint parsed it from the wire (folded and repeated fields keep their raw form)
		raw := "Received: from a by b;\r\n\tWed, 1 Jan 2020 00:00:00 +0000\r\nX-Dup: 1\r\nX-Dup:   2  \r\nFrom: <" + origFrom + ">\r\nSubject: " +
			[]string{"hello", "héllo wörld", strings.Repeat("very long subject ", 10)}[r.intn(3)] + "\r\n\r\n"
		hdr, herr := textproto.ReadHeader(bufio.NewReader(strings.NewReader(raw)))
		if herr != nil {
			t.Fatal(herr)
		}
		hdr.Add("Authentication-Results", "mx.example.org; spf=pass")

		panicked := false
		func() {
			defer func() {
				if e := recover(); e != nil {
					panicked = true
				}
			}()
			q.emitDSN(meta, hdr, failed)
		}()

		// ---- observation ----
		outc := "ONone"
		if panicked {
			outc = "OPanic"
		} else if bt.started {
			hdrTo, hdrFrom := "", ""
			var mta []string
			var groups []string
			wellformed, hdrok := false, false
			if bt.header != nil {
				hdrTo = bt.header.Get("To")
				hdrFrom = bt.header.Get("From")
				mt, params, err := mime.ParseMediaType(bt.header.Get("Content-Type"))
				if err == nil && mt == "multipart/report" && params["report-type"] == "delivery-status" {
					mr := multipart.NewReader(bytes.NewReader(bt.body), params["boundary"])
					var parts [][]byte
					var ctypes []string
					for {
						p, err := mr.NextRawPart()
						if err != nil {
							break
						}
						b, _ := io.ReadAll(p)
						parts = append(parts, b)
						ctypes = append(ctypes, p.Header.Get("Content-Type"))
					}
					wantStatus, wantHdr := "message/delivery-status", "message/rfc822-headers"
					if utf8 {
						wantStatus, wantHdr = "message/global-delivery-status", "message/global-headers"
					}
					if len(parts) == 3 && strings.HasPrefix(ctypes[0], "text/plain") && ctypes[1] == wantStatus && ctypes[2] == wantHdr &&
						bt.header.Get("Auto-Submitted") != "" && bt.header.Get("Mime-Version") == "1.0" {
						wellformed = true
					}
					if len(parts) == 3 {
						blocks := strings.Split(strings.ReplaceAll(string(parts[1]), "\r\n", "\n"), "\n\n")
						var nonEmpty []string
						for _, b := range blocks {
							if strings.TrimSpace(b) != "" {
								nonEmpty = append(nonEmpty, b)
							}
						}
						if len(nonEmpty) > 0 {
							for _, f := range vParseFields(nonEmpty[0]) {
								if !strings.Contains(f, cS18("Arrival-Date")) && !strings.Contains(f, cS18("Last-Attempt-Date")) {
									mta = append(mta, f)
								}
							}
							for _, b := range nonEmpty[1:] {
								groups = append(groups, cList(vParseFields(b)))
							}
						}
						var want bytes.Buffer
						textproto.WriteHeader(&want, hdr)
						got, err := textproto.ReadHeader(bufio.NewReader(bytes.NewReader(parts[2])))
						var gotb bytes.Buffer
						if err == nil {
							textproto.WriteHeader(&gotb, got)
						}
						hdrok = err == nil && bytes.Equal(want.Bytes(), gotb.Bytes()) && bytes.HasPrefix(parts[2], bytes.TrimSuffix(want.Bytes(), []byte("\r\n")))
					}
				}
			}
			outc = fmt.Sprintf("(OReport {| rp_mail_from := %s; rp_rcpt_to := %s; rp_hdr_to := %s; rp_hdr_from := %s; rp_utf8 := %s; rp_requiretls := %s; rp_mta := %s; rp_rcpts := %s |} %s %s %s)",
				cS18(bt.mailFrom), cS18(bt.rcptTo), cS18(hdrTo), cS18(hdrFrom), cBool(bt.utf8), cBool(bt.reqtls), cList(mta), cList(groups),
				cS18(bt.metaOrig), cBool(wellformed), cBool(hdrok))
		}

		// ---- model input ----
		var cor, cerr, cfailed []string
		var ks []string
		for k := range mm.OriginalRcpts {
			ks = append(ks, k)
		}
		sort.Strings(ks)
		for _, k := range ks {
			cor = append(cor, "("+cS18(k)+", "+cS18(mm.OriginalRcpts[k])+")")
		}
		for _, f := range failed {
			e := errsOf[f]
			cerr = append(cerr, fmt.Sprintf("(%s, {| r_code := %s; r_e0 := %s; r_e1 := %s; r_e2 := %s; r_msg := %s |})", cS18(f), cZ(e.code), cZ(e.e[0]), cZ(e.e[1]), cZ(e.e[2]), cS18(e.msg)))
			cfailed = append(cfailed, cS18(f))
		}
		ch := "None"
		if hasConn {
			ch = "(Some " + cS18(connHost) + ")"
		}
		// oracle tables
		names := map[string]bool{from: true, hostname: true, connHost: true}
		for _, f := range failed {
			names[f] = true
			if o := mm.OriginalRcpts[f]; o != "" {
				names[o] = true
			}
		}
		var ns []string
		for k := range names {
			ns = append(ns, k)
		}
		sort.Strings(ns)
		var ta, td []string
		for _, k := range ns {
			for _, u := range []bool{true, false} {
				if v, err := address.SelectIDNA(u, k); err != nil {
					ta = append(ta, fmt.Sprintf("(%s, %s, None)", cBool(u), cS18(k)))
				} else if v != k {
					ta = append(ta, fmt.Sprintf("(%s, %s, (Some %s))", cBool(u), cS18(k), cS18(v)))
				}
				if v, err := dns.SelectIDNA(u, k); err != nil {
					td = append(td, fmt.Sprintf("(%s, %s, None)", cBool(u), cS18(k)))
				} else if v != k {
					td = append(td, fmt.Sprintf("(%s, %s, (Some %s))", cBool(u), cS18(k), cS18(v)))
				}
			}
		}
		stage := []string{"BNone", "BStart", "BRcpt", "BBody", "BCommit"}[bt.failStage]
		stats["stage_"+stage]++
		stats[fmt.Sprintf("failed_%d", len(failed))]++
		out.Case(fmt.Sprintf("{| c_cfg := {| dc_bounce := %s; dc_hostname := %s; dc_autogen := %s |}; c_meta := {| d_id := %s; d_from := %s; d_orig_from := %s; d_utf8 := %s; d_requiretls := %s; d_orig_rcpts := %s; d_rcpt_errs := %s; d_conn_host := %s; d_dont_trace := %s |}; c_failed := %s; c_bfail := %s; c_tabs := {| t_addr := %s; t_dom := %s |}; c_out := %s; c_calls := %s |}",
			cBool(bounce), cS18(hostname), cS18("auto.example.org"),
			cS18(mm.ID), cS18(from), cS18(origFrom), cBool(utf8), cBool(mm.SMTPOpts.RequireTLS), cList(cor), cList(cerr), ch, cBool(mm.DontTraceSender),
			cList(cfailed), stage, cList(ta), cList(td), outc, cList(bt.calls)))
	}
	for k, v := range stats {
		out.Stat(k, v)
	}
}
