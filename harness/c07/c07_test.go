//go:build verif

package msgpipeline

// C07 harness: DMARC verifier + the action mapping of checkRunner.applyResults, driven with a
// scripted resolver; exhaustive over a structured sub-domain plus generated cases.

import (
	"context"
	"fmt"
	"net"
	"sort"
	"strings"
	"testing"

	"github.com/emersion/go-message/textproto"
	"github.com/emersion/go-msgauth/authres"
	msgauthdmarc "github.com/emersion/go-msgauth/dmarc"
	"github.com/foxcpp/maddy/framework/exterrors"
	"github.com/foxcpp/maddy/framework/log"
	"github.com/foxcpp/maddy/framework/module"
	maddydmarc "github.com/foxcpp/maddy/internal/dmarc"
	"golang.org/x/net/publicsuffix"
)

type vZoneEntry struct {
	txt  []string
	kind string // "txt", "notfound", "temp", "perm", "other"
}
type vResolver struct{ zones map[string]vZoneEntry }

func (r *vResolver) LookupTXT(_ context.Context, name string) ([]string, error) {
	n := strings.ToLower(strings.TrimSuffix(name, "."))
	n = strings.TrimPrefix(n, "_dmarc.")
	z, ok := r.zones[n]
	if !ok {
		return nil, &net.DNSError{Err: "no such host", Name: name, IsNotFound: true}
	}
	switch z.kind {
	case "notfound":
		return nil, &net.DNSError{Err: "no such host", Name: name, IsNotFound: true}
	case "temp":
		return nil, &net.DNSError{Err: "server misbehaving", Name: name, IsTemporary: true}
	case "perm":
		return nil, &net.DNSError{Err: "refused", Name: name}
	case "other":
		return nil, fmt.Errorf("resolver exploded")
	}
	return append([]string(nil), z.txt...), nil // FetchRecord filters the slice in place
}

var vResNames = []string{"pass", "fail", "none", "neutral", "softfail", "temperror", "permerror"}
var vResCoq = []string{"Pass", "Fail", "RNone", "Neutral", "SoftFail", "TempError", "PermError"}
var vResVals = []authres.ResultValue{authres.ResultPass, authres.ResultFail, authres.ResultNone, authres.ResultNeutral,
	authres.ResultSoftFail, authres.ResultTempError, authres.ResultPermError}

func vResCoqOf(v authres.ResultValue) string {
	for i, x := range vResVals {
		if x == v {
			return vResCoq[i]
		}
	}
	return "RNone"
}

var vDomains = []string{"example.com", "sub.example.com", "other.example.com", "EXAMPLE.COM", "Sub.Example.Com",
	"example.co.uk", "a.example.co.uk", "victim.co.uk", "VICTIM.CO.UK", "attacker.co.uk", "ATTACKER.CO.UK",
	"co.uk", "com", "unrelated.org", "example.org"}

type vPol struct {
	p, sp, adkim, aspf string
	pct                int // -1 absent
}

func (p vPol) txt() string {
	s := "v=DMARC1; p=" + p.p
	if p.sp != "" {
		s += "; sp=" + p.sp
	}
	if p.adkim != "" {
		s += "; adkim=" + p.adkim
	}
	if p.aspf != "" {
		s += "; aspf=" + p.aspf
	}
	if p.pct >= 0 {
		s += fmt.Sprintf("; pct=%d", p.pct)
	}
	return s
}
func cPolicy(s string) string {
	switch s {
	case "quarantine":
		return "PQuarantine"
	case "reject":
		return "PReject"
	}
	return "PNone"
}
func cMode(s string) string {
	if s == "s" {
		return "Strict"
	}
	return "Relaxed"
}
func (p vPol) coq() string {
	sp := "None"
	if p.sp != "" {
		sp = "(Some " + cPolicy(p.sp) + ")"
	}
	pct := "None"
	if p.pct >= 0 {
		pct = fmt.Sprintf("(Some %d%%N)", p.pct)
	}
	return fmt.Sprintf("{| r_p := %s; r_sp := %s; r_adkim := %s; r_aspf := %s; r_pct := %s |}",
		cPolicy(p.p), sp, cMode(p.adkim), cMode(p.aspf), pct)
}

type vAR struct {
	kind      int // 0 dkim 1 spf 2 other
	val       int
	dom, helo string
}

func cStrE(s string) string {
	if s == "" {
		return "(@nil N)"
	}
	return cStr(s)
}

type vCase struct {
	hdrKind int // 0 one address, 1 no field, 2 two fields, 3 two addresses, 4 malformed, 5 empty value, 6/7 several addresses in a field that does not parse
	from    string
	place   int // 0 at domain, 1 at org domain, 2 none, 3 multiple at domain, 4 temp failure at domain, 5 temp failure at org, 6 malformed record, 7 non-DMARC TXT only at domain + record at org, 8 perm DNS error, 9 non-DNS error
	pol     vPol
	rs      []vAR
}

func vRun(out *vOut, c vCase, stats map[string]int) {
	hdr := textproto.Header{}
	fromAddr := "user@" + c.from
	switch c.hdrKind {
	case 0:
		hdr.Add("From", "Some One <"+fromAddr+">")
	case 1:
	case 2:
		hdr.Add("From", "<"+fromAddr+">")
		hdr.Add("From", "<other@"+c.from+">")
	case 3:
		hdr.Add("From", "<"+fromAddr+">, <other@unrelated.org>")
	case 4:
		hdr.Add("From", "not an address at all <")
	case 5:
		hdr.Add("From", "")
	case 6:
		// several authors, one of them with a display name the parser cannot decode (an encoded word in
		// an unknown charset): the field as a whole does not parse, and it still has more than one author
		hdr.Add("From", "ceo@unrelated.org, =?x-unknown?Q?Some_One?= <"+fromAddr+">")
	case 7:
		hdr.Add("From", "\"unbalanced <"+fromAddr+">, other@unrelated.org")
	}
	hdr.Add("Subject", "x")

	org, orgErr := publicsuffix.EffectiveTLDPlusOne(strings.ToLower(c.from))
	zones := map[string]vZoneEntry{}
	lfrom := strings.ToLower(c.from)
	var recAt string
	tempdns := false
	havePolicy := false
	switch c.place {
	case 0:
		zones[lfrom] = vZoneEntry{txt: []string{"unrelated txt", c.pol.txt()}, kind: "txt"}
		recAt, havePolicy = c.from, true
	case 1:
		if orgErr == nil && org != lfrom {
			zones[org] = vZoneEntry{txt: []string{c.pol.txt()}, kind: "txt"}
			recAt, havePolicy = org, true
		} else if orgErr == nil {
			zones[org] = vZoneEntry{txt: []string{c.pol.txt()}, kind: "txt"}
			recAt, havePolicy = c.from, true
		}
	case 2:
	case 3:
		zones[lfrom] = vZoneEntry{txt: []string{c.pol.txt(), "v=DMARC1; p=none"}, kind: "txt"}
	case 4:
		zones[lfrom] = vZoneEntry{kind: "temp"}
		tempdns = true
	case 5:
		if orgErr == nil && org != lfrom {
			zones[org] = vZoneEntry{kind: "temp"}
			tempdns = true
		}
	case 6:
		zones[lfrom] = vZoneEntry{txt: []string{"v=DMARC1; p=bogus; pct=abc"}, kind: "txt"}
	case 7:
		zones[lfrom] = vZoneEntry{txt: []string{"v=spf1 -all"}, kind: "txt"}
	case 8:
		zones[lfrom] = vZoneEntry{kind: "perm"}
	case 9:
		zones[lfrom] = vZoneEntry{kind: "other"}
	}
	if c.hdrKind != 0 {
		tempdns = false
	}

	var results []authres.Result
	var crs []string
	for _, a := range c.rs {
		switch a.kind {
		case 0:
			results = append(results, &authres.DKIMResult{Value: vResVals[a.val], Domain: a.dom, Identifier: "@" + a.dom})
			crs = append(crs, fmt.Sprintf("(ADkim %s %s)", vResCoq[a.val], cStrE(a.dom)))
		case 1:
			results = append(results, &authres.SPFResult{Value: vResVals[a.val], From: a.dom, Helo: a.helo})
			crs = append(crs, fmt.Sprintf("(ASpf %s %s %s)", vResCoq[a.val], cStrE(a.dom), cStrE(a.helo)))
		default:
			results = append(results, &authres.IPRevResult{Value: authres.ResultPass, IP: "127.0.0.1"})
			crs = append(crs, "AOther")
		}
	}

	meta := &module.MsgMetadata{ID: "verif"}
	cr := &checkRunner{
		msgMeta:              meta,
		checkedRcptsPerCheck: map[module.CheckState]map[string]struct{}{},
		log:                  log.Logger{Out: log.NopOutput{}},
		dmarcVerify:          maddydmarc.NewVerifier(&vResolver{zones}),
		states:               make(map[module.Check]module.CheckState),
		doDMARC:              true,
	}
	cr.mergedRes.AuthResult = results
	cr.dmarcVerify.FetchRecord(context.Background(), hdr)
	err := cr.applyResults("mx.verif.test", &hdr)
	cr.close()

	verdict := "RNone"
	for _, r := range cr.mergedRes.AuthResult {
		if d, ok := r.(*authres.DMARCResult); ok {
			verdict = vResCoqOf(d.Value)
		}
	}
	action := "Accept"
	if err != nil {
		se, ok := err.(*exterrors.SMTPError)
		if !ok {
			panic(err)
		}
		action = fmt.Sprintf("(Reject %s %s %s %s)", cZ(se.Code), cZ(se.EnhancedCode[0]), cZ(se.EnhancedCode[1]), cZ(se.EnhancedCode[2]))
	} else if meta.Quarantine {
		action = "Quarantine"
	}

	// direct call of EvaluateAlignment with the record the generator published
	ceval := "None"
	crec := "None"
	if c.hdrKind == 0 && havePolicy {
		rec, perr := msgauthdmarc.Parse(c.pol.txt())
		if perr != nil {
			panic(perr)
		}
		ev := maddydmarc.EvaluateAlignment(c.from, rec, results)
		ceval = "(Some " + vResCoqOf(ev.Authres.Value) + ")"
		crec = "(Some (" + cStrE(recAt) + ", " + c.pol.coq() + "))"
	}

	// oracle tables: public suffix list on every name of the case (lower-cased, as the code does)
	names := map[string]bool{lfrom: true, c.from: true}
	for _, a := range c.rs {
		names[a.dom], names[strings.ToLower(a.dom)] = true, true
		names[a.helo], names[strings.ToLower(a.helo)] = true, true
	}
	var ks []string
	for k := range names {
		ks = append(ks, k)
	}
	sort.Strings(ks)
	var torg, tsuf []string
	for _, k := range ks {
		o, e := publicsuffix.EffectiveTLDPlusOne(k)
		if e != nil {
			torg = append(torg, "("+cStrE(k)+", None)")
		} else {
			torg = append(torg, "("+cStrE(k)+", (Some "+cStrE(o)+"))")
		}
		s, _ := publicsuffix.PublicSuffix(k)
		tsuf = append(tsuf, "("+cStrE(k)+", "+cStrE(s)+")")
	}

	var czone []string
	var zk []string
	for k := range zones {
		zk = append(zk, k)
	}
	sort.Strings(zk)
	for _, k := range zk {
		z := zones[k]
		var l string
		switch z.kind {
		case "txt":
			var items []string
			for _, t := range z.txt {
				if strings.HasPrefix(t, "v=DMARC1") {
					if _, perr := msgauthdmarc.Parse(t); perr != nil {
						items = append(items, "(TDmarc None)")
					} else if t == c.pol.txt() {
						items = append(items, "(TDmarc (Some "+c.pol.coq()+"))")
					} else {
						items = append(items, "(TDmarc (Some {| r_p := PNone; r_sp := None; r_adkim := Relaxed; r_aspf := Relaxed; r_pct := None |}))")
					}
				} else {
					items = append(items, "TOther")
				}
			}
			l = "(LTxt " + cList(items) + ")"
		case "notfound":
			l = "LNotFound"
		case "temp":
			l = "LErrTemp"
		case "perm":
			l = "LErrPerm"
		default:
			l = "LErrOther"
		}
		czone = append(czone, "("+cStrE(k)+", "+l+")")
	}

	chdr := "HBad"
	if c.hdrKind == 0 {
		chdr = "(HOne " + cStrE(c.from) + ")"
	}
	stats[fmt.Sprintf("hdr_%d", c.hdrKind)]++
	stats[fmt.Sprintf("place_%d", c.place)]++
	out.Case(fmt.Sprintf("{| c_hdr := %s; c_zone := %s; c_rs := %s; c_tabs := {| t_org := %s; t_suf := %s |}; c_rec := %s; c_tempdns := %s; c_verdict := %s; c_action := %s; c_eval := %s |}",
		chdr, cList(czone), cList(crs), cList(torg), cList(tsuf), crec, cBool(tempdns), verdict, action, ceval))
}

func TestVerif_C07(t *testing.T) {
	out := vOpenOut()
	defer out.Close()
	n := vEnvInt("VERIF_N", 1500)
	stats := map[string]int{}
	r := vNewRand(7)
	pols := []string{"none", "quarantine", "reject"}
	sps := []string{"", "none", "quarantine", "reject"}
	modes := []string{"", "r", "s"}

	// structured sweep: every SPF value x every DKIM value x relation of the identifier domains,
	// for a fixed reject policy at the domain
	rel := []string{"example.com", "sub.example.com", "other.example.com", "example.org", "com", "EXAMPLE.COM"}
	for sv := 0; sv < 7; sv++ {
		for dv := 0; dv < 7; dv++ {
			for _, sd := range rel {
				for _, dd := range rel {
					if (sv*7+dv+len(sd)+len(dd))%3 != int(r.s%3) && vEnvInt("VERIF_THOROUGH", 0) == 0 {
						continue
					}
					for _, m := range []string{"r", "s"} {
						vRun(out, vCase{hdrKind: 0, from: "sub.example.com", place: 1,
							pol: vPol{p: "reject", sp: "quarantine", adkim: m, aspf: m, pct: -1},
							rs:  []vAR{{0, dv, dd, ""}, {1, sv, sd, "helo." + sd}}}, stats)
					}
				}
			}
		}
	}

	// generated cases
	for i := 0; i < n; i++ {
		c := vCase{from: vDomains[r.intn(len(vDomains))]}
		if r.chance(12) {
			c.hdrKind = 1 + r.intn(5)
		}
		if i%20 == 7 {
			c.hdrKind = 6 + (i/20)%2 // chosen without drawing
		}
		if r.chance(55) {
			c.place = r.intn(2)
		} else {
			c.place = r.intn(10)
		}
		c.pol = vPol{p: pols[r.intn(3)], sp: sps[r.intn(4)], adkim: modes[r.intn(3)], aspf: modes[r.intn(3)], pct: -1}
		if r.chance(20) {
			c.pol.pct = 100
		}
		nd := 1 + r.intn(3)
		if r.chance(8) {
			nd = 0
		}
		pick := func() string {
			if r.chance(45) {
				// related to the From domain
				switch r.intn(4) {
				case 0:
					return c.from
				case 1:
					return "mail." + c.from
				case 2:
					return strings.ToUpper(c.from)
				default:
					if i := strings.IndexByte(c.from, '.'); i >= 0 {
						return c.from[i+1:]
					}
				}
			}
			return vDomains[r.intn(len(vDomains))]
		}
		pickVal := func() int {
			if r.chance(45) {
				return 0
			}
			return r.intn(7)
		}
		for j := 0; j < nd; j++ {
			c.rs = append(c.rs, vAR{0, pickVal(), pick(), ""})
		}
		if !r.chance(8) {
			sp := vAR{1, pickVal(), pick(), "helo." + pick()}
			if r.chance(15) {
				sp.dom = "" // null sender: HELO identity is used
				sp.helo = pick()
			}
			c.rs = append(c.rs, sp)
		}
		if r.chance(20) {
			c.rs = append(c.rs, vAR{kind: 2})
		}
		// shuffle
		for j := len(c.rs) - 1; j > 0; j-- {
			k := r.intn(j + 1)
			c.rs[j], c.rs[k] = c.rs[k], c.rs[j]
		}
		vRun(out, c, stats)
	}
	for k, v := range stats {
		out.Stat(k, v)
	}
}
