//go:build verif

package remote

// C11 harness (remote stream): permit lifetime inside target.remote.  A real limits.Group
// (all / source / destination concurrency 2) is given to a real remote target; deliveries that
// succeed, are refused at every stage (no MX reachable, REQUIRETLS refused for lack of TLS or MX
// authentication, RCPT refused, DATA failing) and are committed or aborted; afterwards every
// permit must be available again.

import (
	"context"
	"fmt"
	"net"
	"testing"
	"time"

	"github.com/emersion/go-message/textproto"
	"github.com/emersion/go-smtp"
	"github.com/foxcpp/go-mockdns"
	"github.com/foxcpp/maddy/framework/buffer"
	"github.com/foxcpp/maddy/framework/config"
	"github.com/foxcpp/maddy/framework/module"
	"github.com/foxcpp/maddy/internal/limits"
	"github.com/foxcpp/maddy/internal/testutils"
)

func TestVerif_C11Remote(t *testing.T) {
	out := vOpenOut()
	defer out.Close()
	n := vEnvInt("VERIF_N", 20)
	ctx := context.Background()
	refusedReqTLS := 0
	for ci := 0; ci < n; ci++ {
		r := vNewRand(uint64(1150000 + ci))
		if l, err := net.Listen("tcp", "127.0.0.1:0"); err == nil {
			smtpPort = fmt.Sprint(l.Addr().(*net.TCPAddr).Port)
			l.Close()
		}
		serverUp := !r.chance(15)
		var be *testutils.SMTPBackend
		var srv *smtp.Server
		if serverUp {
			be, srv = testutils.SMTPServer(t, "127.0.0.1:"+smtpPort)
		}
		zones := map[string]mockdns.Zone{
			"example.invalid.": {MX: []net.MX{{Host: "mx.example.invalid.", Pref: 10}}},
			"other.invalid.":   {MX: []net.MX{{Host: "mx.example.invalid.", Pref: 10}}},
			// an internationalized recipient domain, in both spellings (the resolver mock is a plain map)
			"почта.example.invalid.":        {MX: []net.MX{{Host: "mx.example.invalid.", Pref: 10}}},
			"xn--80a1acny.example.invalid.": {MX: []net.MX{{Host: "mx.example.invalid.", Pref: 10}}},
			"mx.example.invalid.":           {A: []string{"127.0.0.1"}},
		}
		tgt := testTarget(t, zones, nil, nil)
		tgt.connReuseLimit = 10
		gm, _ := limits.New("limits", "verif", nil, nil)
		g := gm.(*limits.Group)
		if err := g.Init(config.NewMap(nil, config.Node{Children: []config.Node{
			{Name: "all", Args: []string{"concurrency", "2"}},
			{Name: "source", Args: []string{"concurrency", "2"}},
			{Name: "destination", Args: []string{"concurrency", "2"}},
		}})); err != nil {
			t.Fatal(err)
		}
		tgt.limits = g
		panics := 0
		// every fifth history: after the first message the next hop goes away gracefully - it answers on the
		// connections it has (RSET: 250, MAIL: 421) and accepts no new ones
		goneAway := serverUp && ci%5 == 4
		nMsgs := 1 + r.intn(4)
		if goneAway && nMsgs < 2 {
			nMsgs = 2
		}
		livePort := smtpPort
		for mi := 0; mi < nMsgs; mi++ {
			reqtls := r.chance(35)
			if be != nil {
				be.RcptErr, be.DataErr, be.MailErr = map[string]error{}, nil, nil
				if r.chance(15) { // the next hop refuses the sender
					be.MailErr = &smtp.SMTPError{Code: 451, EnhancedCode: smtp.EnhancedCode{4, 7, 1}, Message: "sender refused for now"}
				}
				if r.chance(20) {
					be.RcptErr["rcpt@example.invalid"] = &smtp.SMTPError{Code: 550, EnhancedCode: smtp.EnhancedCode{5, 1, 1}, Message: "no"}
				}
				if r.chance(20) {
					be.DataErr = &smtp.SMTPError{Code: 451, EnhancedCode: smtp.EnhancedCode{4, 0, 0}, Message: "later"}
				}
				if goneAway && mi == 0 {
					be.RcptErr, be.DataErr, be.MailErr = map[string]error{}, nil, nil // the first message goes through and leaves its connection in the pool
				}
				if goneAway && mi >= 1 {
					be.MailErr = &smtp.SMTPError{Code: 421, EnhancedCode: smtp.EnhancedCode{4, 3, 2}, Message: "shutting down"}
					if l, err := net.Listen("tcp", "127.0.0.1:0"); err == nil { // a port nothing listens on
						smtpPort = fmt.Sprint(l.Addr().(*net.TCPAddr).Port)
						l.Close()
					}
				}
			}
			// a release of a permit that is not held panics in the limiter: an observation, not a crash
			func() {
				defer func() {
					if p := recover(); p != nil {
						panics++
					}
				}()
				meta := &module.MsgMetadata{ID: fmt.Sprintf("v%d", mi), SMTPOpts: smtp.MailOptions{RequireTLS: reqtls}}
				d, err := tgt.Start(ctx, meta, "sender@example.com")
				if err != nil {
					// no message permit to be had: an earlier delivery kept its own (for example by panicking on the way out)
					panics++
					return
				}
				anyOK := false
				rcs := []string{"rcpt@example.invalid", "second@other.invalid"}[:1+r.intn(2)]
				if (ci+mi)%3 == 0 { // chosen without drawing: earlier histories keep their shape
					rcs = append([]string{}, rcs...)
					rcs = append(rcs, "third@почта.example.invalid")
				}
				for _, rc := range rcs {
					if err := d.AddRcpt(ctx, rc, smtp.RcptOptions{}); err == nil {
						anyOK = true
					} else if reqtls {
						refusedReqTLS++
					}
				}
				bodyOK := false
				if anyOK {
					hdr := textproto.Header{}
					hdr.Add("Subject", "x")
					bodyOK = d.Body(ctx, hdr, buffer.MemoryBuffer{Slice: []byte("hi\r\n")}) == nil
				}
				if bodyOK && !r.chance(15) {
					d.Commit(ctx)
				} else {
					d.Abort(ctx)
				}
			}()
		}
		smtpPort = livePort
		// every permit must be back: the two of each scope can be taken at once
		leaks := 0
		ip := net.IPv4(127, 0, 0, 1)
		take := func(f func(context.Context) error) int {
			got := 0
			for i := 0; i < 2; i++ {
				for attempt := 0; attempt < 2; attempt++ { // a refusal is confirmed once (deadline vs. scheduling)
					c2, cancel := context.WithTimeout(ctx, 20*time.Millisecond)
					err := f(c2)
					cancel()
					if err == nil {
						got++
						break
					}
				}
			}
			return got
		}
		gotMsg := take(func(c context.Context) error { return g.TakeMsg(c, ip, "example.com") })
		for i := 0; i < gotMsg; i++ {
			g.ReleaseMsg(ip, "example.com")
		}
		leaks += 2 - gotMsg
		for _, dom := range []string{"example.invalid", "other.invalid", "почта.example.invalid", "xn--80a1acny.example.invalid"} {
			gotDest := take(func(c context.Context) error { return g.TakeDest(c, dom) })
			for i := 0; i < gotDest; i++ {
				g.ReleaseDest(dom)
			}
			leaks += 2 - gotDest
		}
		func() {
			defer func() {
				if p := recover(); p != nil {
					panics++
				}
			}()
			tgt.Close()
		}()
		if srv != nil {
			srv.Close()
		}
		out.Case(fmt.Sprintf("CLeak %s", cN(leaks+100*panics)))
	}
	out.Stat("requiretls-refusals", refusedReqTLS)
}
