//go:build verif

package limits

// C11, the reaper of limiters.BucketSet: histories of takes, releases by holders and idle periods
// longer than ReapInterval over a small bucket table, compared with Limits/Reap.v.

import (
	"context"
	"errors"
	"fmt"
	"sync"
	"testing"
	"time"

	"github.com/foxcpp/maddy/internal/limits/limiters"
)

const (
	v11ReapInterval = 150 * time.Millisecond
	v11IdleSleep    = 200 * time.Millisecond
)

type v11rOp struct {
	kind int // 0 take 1 release 2 idle
	k    string
}

func (o v11rOp) coq() string {
	switch o.kind {
	case 0:
		return fmt.Sprintf("(RTake %s)", cKey(o.k))
	case 1:
		return fmt.Sprintf("(RRelease %s)", cKey(o.k))
	}
	return "RIdle"
}

// v11rRun executes one history on a fresh BucketSet; ok is false when the machine was too slow for
// the timing assumptions (a segment between two idle periods took more than half of ReapInterval,
// or a time-out could have fired before the take was attempted).
func v11rRun(capN, maxB int, ops []v11rOp) (exec []v11rOp, res []string, ok bool) {
	bs := limiters.NewBucketSet(func() limiters.L { return limiters.NewSemaphore(capN) }, v11ReapInterval, maxB)
	held := map[string]int{}
	seg := time.Now()
	ok = true
	for _, o := range ops {
		switch o.kind {
		case 2:
			time.Sleep(v11IdleSleep)
			seg = time.Now()
			exec = append(exec, o)
			res = append(res, "ROk")
		case 1:
			if held[o.k] == 0 {
				continue
			}
			held[o.k]--
			r := func() (r string) {
				defer func() {
					if recover() != nil {
						r = "RPanic"
					}
				}()
				bs.Release(o.k)
				return "ROk"
			}()
			exec = append(exec, o)
			res = append(res, r)
			if r == "RPanic" {
				return exec, res, ok
			}
		case 0:
			var r string
			for attempt := 0; attempt < 5; attempt++ {
				created := time.Now()
				ctx, cancel := context.WithTimeout(context.Background(), 3*time.Millisecond)
				err := func() (err error) {
					defer func() {
						if recover() != nil {
							err = errors.New("panic")
						}
					}()
					return bs.TakeContext(ctx, o.k)
				}()
				returned := time.Now()
				cancel()
				switch {
				case err == nil:
					r = "ROk"
				case errors.Is(err, limiters.ErrTooManyBuckets):
					r = "RFull"
				case errors.Is(err, context.DeadlineExceeded):
					r = "RTimeout"
					// a time-out is taken at face value only when the call returned right after the deadline
					if d := returned.Sub(created); d < 3*time.Millisecond || d > 20*time.Millisecond {
						if attempt < 4 {
							continue // a timed-out take changes nothing but the freshness of the bucket: repeat it
						}
						ok = false
					}
				default:
					r = "RPanic"
				}
				break
			}
			if time.Since(seg) > v11ReapInterval/2 {
				ok = false
			}
			if r == "ROk" {
				held[o.k]++
			}
			exec = append(exec, o)
			res = append(res, r)
			if r == "RPanic" {
				return exec, res, ok
			}
		}
	}
	return exec, res, ok
}

func TestVerif_C11Reap(t *testing.T) {
	out := vOpenOut()
	defer out.Close()
	n := vEnvInt("VERIF_N", 60)
	r := vNewRand(1111)
	keys := []string{"a.example", "b.example", "c.example", "d.example", "e.example"}
	type hist struct {
		capN, maxB int
		ops        []v11rOp
		exec       []v11rOp
		res        []string
		ok         bool
	}
	hs := make([]*hist, n)
	for i := range hs {
		h := &hist{capN: 1 + r.intn(2), maxB: 1 + r.intn(3)}
		nk := 2 + r.intn(4)
		if nk <= h.maxB {
			nk = h.maxB + 1 + r.intn(2) // more keys than the table holds
			if nk > len(keys) {
				nk = len(keys)
			}
		}
		nop := 8 + r.intn(14)
		idles := 0
		for j := 0; j < nop; j++ {
			switch x := r.intn(10); {
			case x < 5:
				h.ops = append(h.ops, v11rOp{0, keys[r.intn(nk)]})
			case x < 8:
				h.ops = append(h.ops, v11rOp{1, keys[r.intn(nk)]})
			default:
				if idles < 3 {
					idles++
					h.ops = append(h.ops, v11rOp{2, ""})
				}
			}
		}
		if i%3 == 0 {
			// a key comes back after an idle period while the table is over-full: its own bucket is among
			// the reaped ones; it is then taken up to the limit and beyond, and everything is returned
			a := keys[0]
			h.ops = []v11rOp{{0, a}, {1, a}}
			for k := 1; k <= h.maxB; k++ {
				h.ops = append(h.ops, v11rOp{0, keys[k]})
				if r.chance(60) {
					h.ops = append(h.ops, v11rOp{1, keys[k]})
				}
			}
			h.ops = append(h.ops, v11rOp{2, ""})
			for k := 0; k <= h.capN; k++ {
				h.ops = append(h.ops, v11rOp{0, a})
			}
			for k := 0; k <= h.capN; k++ {
				h.ops = append(h.ops, v11rOp{1, a})
			}
			h.ops = append(h.ops, v11rOp{0, a})
		}
		hs[i] = h
	}
	var wg sync.WaitGroup
	sem := make(chan struct{}, 12)
	for _, h := range hs {
		wg.Add(1)
		go func(h *hist) {
			defer wg.Done()
			sem <- struct{}{}
			defer func() { <-sem }()
			for try := 0; try < 3; try++ {
				h.exec, h.res, h.ok = v11rRun(h.capN, h.maxB, h.ops)
				if h.ok {
					return
				}
			}
		}(h)
	}
	wg.Wait()
	dropped := 0
	for _, h := range hs {
		if !h.ok {
			dropped++ // the machine was too slow three times over: nothing can be said about this history
			continue
		}
		var co []string
		for _, o := range h.exec {
			co = append(co, o.coq())
		}
		out.Case(fmt.Sprintf("{| c_cap := %s; c_max := %s; c_ops := %s; c_obs := %s |}", cN(h.capN), cN(h.maxB), cList(co), cList(h.res)))
	}
	out.Stat("reap_histories_dropped_for_timing", dropped)
}
