//go:build verif

package limits

// C11 harness: a limits.Group built through Init from configuration nodes (so that the wiring of
// the four scopes is exercised), driven by generated operation histories (well-bracketed stream,
// probe of the free capacity after quiescence, unmatched releases) and by a concurrent stress
// run that counts how many deliveries hold a permit at the same time.

import (
	"context"
	"fmt"
	"net"
	"strconv"
	"sync"
	"sync/atomic"
	"testing"
	"time"

	"github.com/foxcpp/maddy/framework/config"
)

type v11Line struct {
	scope string
	kind  string // concurrency | rate
	n     int
}

func v11Group(t *testing.T, lines []v11Line, maxBuckets int) *Group {
	mod, _ := New("limits", "verif", nil, nil)
	g := mod.(*Group)
	var children []config.Node
	for _, l := range lines {
		args := []string{l.kind, strconv.Itoa(l.n)}
		if l.kind == "rate" {
			args = append(args, "1h") // no refill during the run
		}
		if l.kind == "rate300" {
			args = []string{"rate", strconv.Itoa(l.n), "300ms"}
		}
		children = append(children, config.Node{Name: l.scope, Args: args})
	}
	if err := g.Init(config.NewMap(nil, config.Node{Children: children})); err != nil {
		t.Fatal(err)
	}
	if g.ip != nil {
		g.ip.MaxBuckets = maxBuckets
	}
	if g.source != nil {
		g.source.MaxBuckets = maxBuckets
	}
	if g.dest != nil {
		g.dest.MaxBuckets = maxBuckets
	}
	return g
}

func cLine(l v11Line) string {
	sc := map[string]string{"all": "SAll", "ip": "SIp", "source": "SSource", "destination": "SDest"}[l.scope]
	if l.kind == "rate" || l.kind == "rate300" {
		return fmt.Sprintf("{| cl_scope := %s; cl_lim := LRate %s %s |}", sc, cN(l.n), cN(l.n))
	}
	return fmt.Sprintf("{| cl_scope := %s; cl_lim := LSem %s 0%%N |}", sc, cN(l.n))
}

func cKey(s string) string {
	if s == "" {
		return "(@nil N)"
	}
	return cStr(s)
}

type v11Op struct {
	kind   int // 0 takemsg 1 releasemsg 2 takedest 3 releasedest
	ip, a  string
}

func (o v11Op) coq() string {
	switch o.kind {
	case 0:
		return fmt.Sprintf("(TakeMsg %s %s)", cKey(o.ip), cKey(o.a))
	case 1:
		return fmt.Sprintf("(ReleaseMsg %s %s)", cKey(o.ip), cKey(o.a))
	case 2:
		return fmt.Sprintf("(TakeDest %s)", cKey(o.a))
	case 4:
		return "Refill"
	}
	return fmt.Sprintf("(ReleaseDest %s)", cKey(o.a))
}

func v11Exec(g *Group, o v11Op) (res string) {
	defer func() {
		if e := recover(); e != nil {
			res = "RPanic"
		}
	}()
	// An operation that cannot get its permit is ended by a 2 ms deadline.  When the goroutine is held
	// up (a loaded machine) the deadline can pass before the operation has looked at the permit, and a
	// select with both cases ready picks one at random: a refusal is only taken at face value when
	// the call was entered right after the deadline was set and returned right after it passed;
	// otherwise it is repeated (a refused take leaves no trace in the limiters).
	var err error
	for attempt := 0; attempt < 5; attempt++ {
		created := time.Now()
		ctx, cancel := context.WithTimeout(context.Background(), 2*time.Millisecond)
		entered := time.Now()
		err = nil
		switch o.kind {
		case 0:
			err = g.TakeMsg(ctx, net.ParseIP(o.ip), o.a)
		case 1:
			g.ReleaseMsg(net.ParseIP(o.ip), o.a)
		case 2:
			err = g.TakeDest(ctx, o.a)
		case 3:
			g.ReleaseDest(o.a)
		}
		returned := time.Now()
		cancel()
		if err == nil || (entered.Sub(created) < 500*time.Microsecond && returned.Sub(entered) < 3500*time.Microsecond) {
			break
		}
	}
	if err != nil {
		return "RErr"
	}
	return "ROk"
}

func TestVerif_C11(t *testing.T) {
	out := vOpenOut()
	defer out.Close()
	n := vEnvInt("VERIF_N", 300)
	r := vNewRand(11)
	stats := map[string]int{}
	ips := []string{"192.0.2.1", "192.0.2.2", "2001:db8::1", "192.0.2.3", "192.0.2.4", "192.0.2.5"}
	doms := []string{"a.example", "b.example", "c.example", "d.example", "e.example", ""}
	scopes := []string{"all", "ip", "source", "destination"}

	for i := 0; i < n; i++ {
		var lines []v11Line
		nl := 1 + r.intn(4)
		for j := 0; j < nl; j++ {
			l := v11Line{scope: scopes[r.intn(4)], kind: "concurrency", n: r.intn(4)}
			if r.chance(25) {
				l.kind = "rate"
				l.n = r.intn(5)
			}
			lines = append(lines, l)
		}
		if i%6 == 5 {
			// two limits in one scope, the second one tighter: takes that time out on the second must give
			// the first one back
			sc := scopes[r.intn(4)]
			lines = []v11Line{{sc, "concurrency", 2 + r.intn(2)}, {sc, "concurrency", 1}}
			if r.chance(40) {
				lines = append(lines, v11Line{scopes[r.intn(4)], "concurrency", 2 + r.intn(3)})
			}
		}
		maxB := 2 + r.intn(3)
		if r.chance(70) {
			maxB = 50
		}
		g := v11Group(t, lines, maxB)

		var ops []v11Op
		var heldMsg [][2]string
		var heldDst []string
		malformed := i%10 == 9
		nop := 4 + r.intn(16)
		nk := 2 + r.intn(4)
		if i%6 == 5 {
			nk = 1 + r.intn(2) // few keys: the tighter limit is hit repeatedly
		}
		for j := 0; j < nop; j++ {
			switch k := r.intn(10); {
			case k < 4:
				ops = append(ops, v11Op{kind: 0, ip: ips[r.intn(nk)], a: doms[r.intn(nk)]})
			case k < 6:
				ops = append(ops, v11Op{kind: 2, a: doms[r.intn(nk)]})
			case k < 8:
				ops = append(ops, v11Op{kind: 1, ip: ips[r.intn(nk)], a: doms[r.intn(nk)]})
			default:
				ops = append(ops, v11Op{kind: 3, a: doms[r.intn(nk)]})
			}
		}
		if i%6 == 5 {
			// hold one permit, let further takes time out on the tighter limit, give the permit back and
			// take again - repeatedly: every timed-out take must have returned what it had acquired
			ops = nil
			ip, dom := ips[r.intn(2)], doms[r.intn(2)]
			for rep := 0; rep < 3; rep++ {
				ops = append(ops, v11Op{kind: 0, ip: ip, a: dom}, v11Op{kind: 2, a: dom})
				for k := 0; k < 2+r.intn(2); k++ {
					ops = append(ops, v11Op{kind: 0, ip: ip, a: dom}, v11Op{kind: 2, a: dom})
				}
				ops = append(ops, v11Op{kind: 1, ip: ip, a: dom}, v11Op{kind: 3, a: dom})
			}
		}
		// execute, tracking what is held so that releases are well-bracketed
		var res []string
		var exec []v11Op
		heldMsg, heldDst = nil, nil
		for _, o := range ops {
			switch o.kind {
			case 1:
				idx := -1
				for x, h := range heldMsg {
					if h[0] == o.ip && h[1] == o.a {
						idx = x
					}
				}
				if idx < 0 && !malformed {
					if len(heldMsg) == 0 {
						continue
					}
					o.ip, o.a = heldMsg[0][0], heldMsg[0][1]
					idx = 0
				}
				if idx >= 0 {
					heldMsg = append(heldMsg[:idx], heldMsg[idx+1:]...)
				}
			case 3:
				idx := -1
				for x, h := range heldDst {
					if h == o.a {
						idx = x
					}
				}
				if idx < 0 && !malformed {
					if len(heldDst) == 0 {
						continue
					}
					o.a = heldDst[0]
					idx = 0
				}
				if idx >= 0 {
					heldDst = append(heldDst[:idx], heldDst[idx+1:]...)
				}
			}
			rs := v11Exec(g, o)
			if rs == "ROk" && o.kind == 0 {
				heldMsg = append(heldMsg, [2]string{o.ip, o.a})
			}
			if rs == "ROk" && o.kind == 2 {
				heldDst = append(heldDst, o.a)
			}
			exec = append(exec, o)
			res = append(res, rs)
			if rs == "RPanic" {
				stats["panics"]++
				break
			}
		}
		// quiescence, then probe: everything released, the full concurrency must be available again
		if len(res) == 0 || res[len(res)-1] != "RPanic" {
			for _, h := range heldMsg {
				o := v11Op{kind: 1, ip: h[0], a: h[1]}
				exec = append(exec, o)
				res = append(res, v11Exec(g, o))
			}
			for _, h := range heldDst {
				o := v11Op{kind: 3, a: h}
				exec = append(exec, o)
				res = append(res, v11Exec(g, o))
			}
			for j := 0; j < 4; j++ {
				o := v11Op{kind: 0, ip: ips[0], a: doms[0]}
				exec = append(exec, o)
				res = append(res, v11Exec(g, o))
				o = v11Op{kind: 2, a: doms[1]}
				exec = append(exec, o)
				res = append(res, v11Exec(g, o))
			}
		}
		var cl, co []string
		for _, l := range lines {
			cl = append(cl, cLine(l))
		}
		for _, o := range exec {
			co = append(co, o.coq())
		}
		if malformed {
			stats["malformed_stream"]++
		} else {
			stats["bracketed_stream"]++
		}
		out.Case(fmt.Sprintf("{| c_cfg := %s; c_max := %s; c_ops := %s; c_res := %s |}", cList(cl), cN(maxB), cList(co), cList(res)))
	}

	// rate limit behind a concurrency limit in one scope, across a refill: a take that gets the concurrency
	// permit and then times out on the empty rate bucket must give the permit back.  The rate period is
	// 300 ms; phase 1 runs right after construction, phase 2 after the first refill.
	refillRetries := 0
	for k := 0; k < 4; k++ {
		sc := scopes[k%4]
		capA := 1 + k%2
		lines := []v11Line{{sc, "concurrency", capA}, {sc, "rate300", 1}}
		t0 := time.Now()
		g := v11Group(t, lines, 50)
		ip, dom := ips[0], doms[0]
		var exec []v11Op
		var res []string
		do := func(o v11Op) {
			exec = append(exec, o)
			res = append(res, v11Exec(g, o))
		}
		takeK, relK := 0, 1
		if sc == "destination" {
			takeK, relK = 2, 3
		}
		do(v11Op{kind: takeK, ip: ip, a: dom}) // consumes the only token
		do(v11Op{kind: relK, ip: ip, a: dom})
		for j := 0; j < capA+1; j++ {
			do(v11Op{kind: takeK, ip: ip, a: dom}) // concurrency permit acquired, rate bucket empty: time-out
		}
		if time.Since(t0) > 200*time.Millisecond && refillRetries < 8 {
			// phase 1 must be over well before the first refill (300 ms); the machine was too slow: again
			refillRetries++
			k--
			continue
		}
		time.Sleep(time.Until(t0.Add(335 * time.Millisecond)))
		exec = append(exec, v11Op{kind: 4})
		res = append(res, "ROk")
		do(v11Op{kind: takeK, ip: ip, a: dom}) // bucket refilled, nothing held: must succeed
		do(v11Op{kind: relK, ip: ip, a: dom})
		var cl, co []string
		for _, l := range lines {
			cl = append(cl, cLine(l))
		}
		for _, o := range exec {
			co = append(co, o.coq())
		}
		stats["refill_stream"]++
		out.Case(fmt.Sprintf("{| c_cfg := %s; c_max := %s; c_ops := %s; c_res := %s |}", cList(cl), cN(50), cList(co), cList(res)))
	}

	// many distinct keys: beyond the bucket-table capacity nothing may crash
	{
		g := v11Group(t, []v11Line{{"ip", "concurrency", 1}, {"source", "concurrency", 1}, {"destination", "concurrency", 1}}, 20010)
		crashed := 0
		for k := 0; k < 20020; k++ {
			func() {
				defer func() {
					if e := recover(); e != nil {
						crashed++
					}
				}()
				ctx, cancel := context.WithTimeout(context.Background(), time.Millisecond)
				defer cancel()
				ip := net.IPv4(10, byte(k>>16), byte(k>>8), byte(k))
				dom := "d" + strconv.Itoa(k) + ".example"
				if err := g.TakeMsg(ctx, ip, dom); err == nil {
					g.ReleaseMsg(ip, dom)
				}
				if err := g.TakeDest(ctx, dom); err == nil {
					g.ReleaseDest(dom)
				}
			}()
		}
		out.Stat("many_keys_crashes", crashed)
	}

	// concurrent stress: at most N deliveries inside, per scope key
	{
		const capAll, capIP, capSrc, capDst = 3, 2, 2, 1
		g := v11Group(t, []v11Line{{"all", "concurrency", capAll}, {"ip", "concurrency", capIP}, {"source", "concurrency", capSrc}, {"destination", "concurrency", capDst}}, 20010)
		var inAll int32
		var mu sync.Mutex
		inIP, inSrc, inDst := map[string]int{}, map[string]int{}, map[string]int{}
		over := int32(0)
		var wg sync.WaitGroup
		workers := 64
		for w := 0; w < workers; w++ {
			wg.Add(1)
			go func(w int) {
				defer wg.Done()
				rr := vNewRand(uint64(1100 + w))
				for k := 0; k < 40; k++ {
					ip, dom, dst := ips[rr.intn(3)], doms[rr.intn(3)], doms[rr.intn(2)]
					ctx, cancel := context.WithTimeout(context.Background(), 20*time.Millisecond)
					if err := g.TakeMsg(ctx, net.ParseIP(ip), dom); err == nil {
						if atomic.AddInt32(&inAll, 1) > capAll {
							atomic.AddInt32(&over, 1)
						}
						mu.Lock()
						inIP[ip]++
						inSrc[dom]++
						if inIP[ip] > capIP || inSrc[dom] > capSrc {
							atomic.AddInt32(&over, 1)
						}
						mu.Unlock()
						if err := g.TakeDest(ctx, dst); err == nil {
							mu.Lock()
							inDst[dst]++
							if inDst[dst] > capDst {
								atomic.AddInt32(&over, 1)
							}
							mu.Unlock()
							time.Sleep(50 * time.Microsecond)
							mu.Lock()
							inDst[dst]--
							mu.Unlock()
							g.ReleaseDest(dst)
						}
						mu.Lock()
						inIP[ip]--
						inSrc[dom]--
						mu.Unlock()
						atomic.AddInt32(&inAll, -1)
						g.ReleaseMsg(net.ParseIP(ip), dom)
					}
					cancel()
				}
			}(w)
		}
		wg.Wait()
		out.Stat("stress_over_cap", int(over))
		// after quiescence the full capacity is available
		free := 0
		for k := 0; k < capAll+1; k++ {
			ctx, cancel := context.WithTimeout(context.Background(), 2*time.Millisecond)
			if err := g.TakeMsg(ctx, net.ParseIP(ips[k%3+3]), doms[k%3+3-1]); err == nil {
				free++
			}
			cancel()
		}
		out.Stat("stress_free_after", free)
		out.Stat("stress_cap_all", capAll)
	}
	for k, v := range stats {
		out.Stat(k, v)
	}
}
