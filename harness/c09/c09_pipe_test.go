//go:build verif

package msgpipeline

// C09 harness (pipeline stream): the reverse translation of rewritten recipients done by the
// pipeline's statusCollector, on generated rewrite tables and status sequences.

import (
	"errors"
	"fmt"
	"testing"
)

type v9Rec struct{ sts []string }

func (c *v9Rec) SetStatus(rcpt string, err error) {
	c.sts = append(c.sts, fmt.Sprintf("(%s, %s)", cBytes([]byte(rcpt)), cBool(err == nil)))
}

func TestVerif_C09Pipe(t *testing.T) {
	out := vOpenOut()
	defer out.Close()
	n := vEnvInt("VERIF_N", 50)
	addrs := []string{"a@x.example", "b@x.example", "c@y.example", "list@x.example", "ü@x.example"}
	for ci := 0; ci < n; ci++ {
		r := vNewRand(uint64(970000 + ci))
		m := map[string]string{}
		var mt []string
		for i := 0; i < r.intn(4); i++ {
			eff, orig := addrs[r.intn(len(addrs))], addrs[r.intn(len(addrs))]
			if eff == orig {
				continue
			}
			if r.chance(85) {
				if _, dup := m[eff]; dup {
					continue
				}
			}
			m[eff] = orig // what AddRcpt does: a later original replaces the earlier one
			mt = append(mt, fmt.Sprintf("(%s, %s)", cBytes([]byte(eff)), cBytes([]byte(orig))))
		}
		rec := &v9Rec{}
		sc := statusCollector{originalRcpts: m, wrapped: rec}
		var st []string
		for i := 0; i < 1+r.intn(4); i++ {
			a := addrs[r.intn(len(addrs))]
			var err error
			if r.chance(40) {
				err = errors.New("failed")
			}
			sc.SetStatus(a, err)
			st = append(st, fmt.Sprintf("(%s, %s)", cBytes([]byte(a)), cBool(err == nil)))
		}
		out.Case(fmt.Sprintf("CPipe %s %s %s", cList(mt), cList(st), cList(rec.sts)))
	}
}
