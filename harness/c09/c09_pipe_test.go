//go:build verif

package msgpipeline

// C09 harness (pipeline stream): the reverse translation of rewritten recipients done by the
// pipeline's statusCollector, on generated rewrite tables and status sequences.

import (
	"context"
	"errors"
	"fmt"
	"testing"

	"github.com/emersion/go-message/textproto"
	"github.com/emersion/go-smtp"
	"github.com/foxcpp/maddy/framework/buffer"
	"github.com/foxcpp/maddy/framework/config"
	"github.com/foxcpp/maddy/framework/log"
	"github.com/foxcpp/maddy/framework/module"
	"github.com/foxcpp/maddy/internal/modify"
	"github.com/foxcpp/maddy/internal/testutils"
)

// a next hop that answers per recipient: one status for every address it was given, in the
// order it was given them
type v9Tgt struct{ fails map[string]bool }
type v9Dlv struct {
	t     *v9Tgt
	rcpts []string
}

func (t *v9Tgt) Init(*config.Map) error { return nil }
func (t *v9Tgt) Name() string           { return "verif_target" }
func (t *v9Tgt) InstanceName() string   { return "verif_target" }
func (t *v9Tgt) Start(ctx context.Context, _ *module.MsgMetadata, _ string) (module.Delivery, error) {
	return &v9Dlv{t: t}, nil
}
func (d *v9Dlv) AddRcpt(ctx context.Context, to string, _ smtp.RcptOptions) error {
	d.rcpts = append(d.rcpts, to)
	return nil
}
func (d *v9Dlv) Body(context.Context, textproto.Header, buffer.Buffer) error { return nil }
func (d *v9Dlv) BodyNonAtomic(ctx context.Context, c module.StatusCollector, _ textproto.Header, _ buffer.Buffer) {
	for _, r := range d.rcpts {
		if d.t.fails[r] {
			c.SetStatus(r, errors.New("failed"))
		} else {
			c.SetStatus(r, nil)
		}
	}
}
func (d *v9Dlv) Abort(context.Context) error  { return nil }
func (d *v9Dlv) Commit(context.Context) error { return nil }

func v9Pipeline(rw map[string][]string, tgt module.DeliveryTarget) *MsgPipeline {
	return &MsgPipeline{
		msgpipelineCfg: msgpipelineCfg{
			globalModifiers: modify.Group{Modifiers: []module.Modifier{testutils.Modifier{InstName: "verif_modifier", RcptTo: rw}}},
			perSource:       map[string]sourceBlock{},
			defaultSource: sourceBlock{
				perRcpt:     map[string]*rcptBlock{},
				defaultRcpt: &rcptBlock{targets: []module.DeliveryTarget{tgt}},
			},
		},
		Log: log.Logger{Out: log.NopOutput{}},
	}
}

// End-to-end stream: the real AddRcpt fills OriginalRcpts from 1-to-N rewrites (one pipeline,
// or a pipeline nested in another, each with its own table) and the real BodyNonAtomic
// translates the next hop's per-recipient results back.
func TestVerif_C09PipeE2E(t *testing.T) {
	out := vOpenOut()
	defer out.Close()
	n := vEnvInt("VERIF_N", 50)
	addrs := []string{"alice@x.example", "bob@x.example", "carol@y.example", "list@x.example", "ü@x.example", "dave@y.example"}
	stats := map[string]int{}
	for ci := 0; ci < n; ci++ {
		r := vNewRand(uint64(975000 + ci))
		levels := 1
		if r.chance(30) {
			levels = 2
		}
		var tabs []map[string][]string
		var tabTerms []string
		for l := 0; l < levels; l++ {
			tab := map[string][]string{}
			var ents []string
			for i := 0; i < r.intn(4); i++ {
				k := addrs[r.intn(len(addrs))]
				if _, dup := tab[k]; dup {
					continue
				}
				var vs, vt []string
				for j := 0; j < 1+r.intn(2); j++ {
					v := addrs[r.intn(len(addrs))]
					vs = append(vs, v)
					vt = append(vt, cBytes([]byte(v)))
				}
				tab[k] = vs
				ents = append(ents, fmt.Sprintf("(%s, %s)", cBytes([]byte(k)), cList(vt)))
			}
			tabs = append(tabs, tab)
			tabTerms = append(tabTerms, cList(ents))
		}
		var rcpts []string
		for i := 0; i < 1+r.intn(3); i++ {
			rcpts = append(rcpts, addrs[r.intn(len(addrs))])
		}
		switch ci % 10 {
		case 3: // a forwarding chain whose middle address the client also names
			levels = 1
			tabs = []map[string][]string{{"alice@x.example": {"bob@x.example"}, "bob@x.example": {"carol@y.example"}}}
			tabTerms = []string{fmt.Sprintf("[(%s, [%s]); (%s, [%s])]", cBytes([]byte("alice@x.example")), cBytes([]byte("bob@x.example")),
				cBytes([]byte("bob@x.example")), cBytes([]byte("carol@y.example")))}
			rcpts = []string{"alice@x.example", "bob@x.example"}
			if r.chance(50) {
				rcpts = []string{"bob@x.example", "alice@x.example"}
			}
		}
		fails := map[string]bool{}
		var failTerms []string
		for _, a := range addrs {
			if r.chance(35) {
				fails[a] = true
				failTerms = append(failTerms, cBytes([]byte(a)))
			}
		}
		var tgt module.DeliveryTarget = &v9Tgt{fails: fails}
		for l := levels - 1; l >= 0; l-- {
			tgt = v9Pipeline(tabs[l], tgt)
		}
		rec := &v9Rec{}
		ctx := context.Background()
		meta := &module.MsgMetadata{ID: fmt.Sprintf("v9e%d", ci), DontTraceSender: true, OriginalFrom: "sender@x.example"}
		d, err := tgt.Start(ctx, meta, "sender@x.example")
		if err != nil {
			t.Fatal(err)
		}
		var rt []string
		for _, a := range rcpts {
			if err := d.AddRcpt(ctx, a, smtp.RcptOptions{}); err != nil {
				t.Fatal(err)
			}
			rt = append(rt, cBytes([]byte(a)))
		}
		hdr := textproto.Header{}
		hdr.Add("Subject", "x")
		d.(module.PartialDelivery).BodyNonAtomic(ctx, rec, hdr, buffer.MemoryBuffer{Slice: []byte("body\r\n")})
		if err := d.Commit(ctx); err != nil {
			t.Fatal(err)
		}
		out.Case(fmt.Sprintf("CPipeE %s %s %s %s", cList(tabTerms), cList(rt), cList(failTerms), cList(rec.sts)))
		stats[fmt.Sprintf("levels_%d", levels)]++
	}
	for k, v := range stats {
		out.Stat(k, v)
	}
}

type v9Rec struct{ sts []string }

func (c *v9Rec) SetStatus(rcpt string, err error) {
	c.sts = append(c.sts, fmt.Sprintf("(%s, %s)", cBytes([]byte(rcpt)), cBool(err == nil)))
}

func TestVerif_C09Pipe(t *testing.T) {
	out := vOpenOut()
	defer out.Close()
	n := vEnvInt("VERIF_N", 50)
	addrs := []string{"a@x.example", "b@x.example", "c@y.example", "list@x.example", "ü@x.example"}
	for ci := 0; ci < n; ci++ {
		r := vNewRand(uint64(970000 + ci))
		m := map[string]string{}
		var mt []string
		for i := 0; i < r.intn(4); i++ {
			eff, orig := addrs[r.intn(len(addrs))], addrs[r.intn(len(addrs))]
			if eff == orig {
				continue
			}
			if r.chance(85) {
				if _, dup := m[eff]; dup {
					continue
				}
			}
			m[eff] = orig // what AddRcpt does: a later original replaces the earlier one
			mt = append(mt, fmt.Sprintf("(%s, %s)", cBytes([]byte(eff)), cBytes([]byte(orig))))
		}
		rec := &v9Rec{}
		sc := statusCollector{originalRcpts: m, wrapped: rec}
		var st []string
		for i := 0; i < 1+r.intn(4); i++ {
			a := addrs[r.intn(len(addrs))]
			var err error
			if r.chance(40) {
				err = errors.New("failed")
			}
			sc.SetStatus(a, err)
			st = append(st, fmt.Sprintf("(%s, %s)", cBytes([]byte(a)), cBool(err == nil)))
		}
		out.Case(fmt.Sprintf("CPipe %s %s %s", cList(mt), cList(st), cList(rec.sts)))
	}
}
