//go:build verif

package remote

// C09 harness (remote stream): histories of 1-4 transactions of the real remote target (mock
// DNS, connection pool) against a scripted SMTP server with or without SMTPUTF8, recipients in
// one domain so that the pooled connection is reused.

import (
	"context"
	"errors"
	"fmt"
	"net"
	"sort"
	"strings"
	"sync"
	"testing"

	"github.com/emersion/go-message/textproto"
	"github.com/emersion/go-smtp"
	"github.com/foxcpp/go-mockdns"
	"github.com/foxcpp/maddy/framework/address"
	"github.com/foxcpp/maddy/framework/buffer"
	"github.com/foxcpp/maddy/framework/module"
	"github.com/foxcpp/maddy/internal/testutils"
)

type v9Coll struct {
	mu  sync.Mutex
	sts []string
}

func (c *v9Coll) SetStatus(rcpt string, err error) {
	c.mu.Lock()
	c.sts = append(c.sts, fmt.Sprintf("(%s, %s)", cBytes([]byte(rcpt)), cBool(err == nil)))
	c.mu.Unlock()
}

func TestVerif_C09Remote(t *testing.T) {
	out := vOpenOut()
	defer out.Close()
	n := vEnvInt("VERIF_N", 30)
	stats := map[string]int{}
	zones := map[string]mockdns.Zone{
		"example.invalid.":    {MX: []net.MX{{Host: "mx.example.invalid.", Pref: 10}}},
		"xn--e1aybc.invalid.": {MX: []net.MX{{Host: "mx.example.invalid.", Pref: 10}}},
		"тест.invalid.":       {MX: []net.MX{{Host: "mx.example.invalid.", Pref: 10}}},
		"mx.example.invalid.": {A: []string{"127.0.0.1"}},
	}
	locals := []string{"a", "A", "b", "ü", "bob", "a"}
	ctx := context.Background()
	for ci := 0; ci < n; ci++ {
		r := vNewRand(uint64(900000 + ci))
		// a port that is free right now (the package's TestMain picks one at random)
		if l, err := net.Listen("tcp", "127.0.0.1:0"); err == nil {
			smtpPort = fmt.Sprint(l.Addr().(*net.TCPAddr).Port)
			l.Close()
		}
		utf8 := r.chance(50)
		be, srv := testutils.SMTPServer(t, "127.0.0.1:"+smtpPort, func(s *smtp.Server) { s.EnableSMTPUTF8 = utf8 })
		tgt := testTarget(t, zones, nil, nil)
		tgt.connReuseLimit = 10 // the configuration default; testTarget leaves it at 0 (no reuse)
		domain := "example.invalid"
		if r.chance(50) {
			domain = "тест.invalid"
		}
		toascii := map[string]string{}
		var txnTerms, obsTerms []string
		for ti := 0; ti < 1+r.intn(4); ti++ {
			var rcpts []string
			for i := 0; i < 1+r.intn(4); i++ {
				rcpts = append(rcpts, locals[r.intn(len(locals))]+"@"+domain)
			}
			be.RcptErr = map[string]error{}
			var refused []string
			for _, a := range rcpts {
				w := a
				if !address.IsASCII(a) && !utf8 {
					c, err := address.ToASCII(a)
					if err != nil {
						toascii[a] = "None"
						continue
					}
					toascii[a] = "Some " + cBytes([]byte(c))
					w = c
				}
				if r.chance(20) {
					if _, dup := be.RcptErr[w]; !dup {
						be.RcptErr[w] = &smtp.SMTPError{Code: 550, EnhancedCode: smtp.EnhancedCode{5, 1, 1}, Message: "no such user"}
						if r.chance(35) { // a connection-level refusal of this recipient
							be.RcptErr[w] = &smtp.SMTPError{Code: 421, EnhancedCode: smtp.EnhancedCode{4, 4, 2}, Message: "closing the channel, try later"}
						} else if !address.IsASCII(w) && (ci+ti)%2 == 0 {
							// a server that advertises SMTPUTF8 and still refuses this spelling (it would take the A-label one)
							be.RcptErr[w] = &smtp.SMTPError{Code: 553, EnhancedCode: smtp.EnhancedCode{5, 6, 7}, Message: "non-ASCII addresses not permitted for that recipient"}
							stats["utf8-spelling-refused"]++
						}
						refused = append(refused, cBytes([]byte(w)))
					}
				}
			}
			if utf8 && domain != "example.invalid" && (ci+ti)%3 == 0 {
				// a server that advertises SMTPUTF8 and still refuses the U-label spelling of one recipient
				// whose local part is ASCII (it would take the A-label spelling)
				for _, a := range rcpts {
					if at := strings.LastIndexByte(a, '@'); at > 0 && address.IsASCII(a[:at]) {
						if _, dup := be.RcptErr[a]; !dup {
							be.RcptErr[a] = &smtp.SMTPError{Code: 553, EnhancedCode: smtp.EnhancedCode{5, 6, 7}, Message: "non-ASCII addresses not permitted for that recipient"}
							refused = append(refused, cBytes([]byte(a)))
							stats["utf8-spelling-refused-ascii-local"]++
						}
						break
					}
				}
			}
			dataOK := !r.chance(25)
			be.DataErr = nil
			bodyBreaks := false
			if !dataOK {
				if r.chance(40) {
					bodyBreaks = true // the body cannot be read to its end: the transfer fails in the middle
				} else {
					be.DataErr = &smtp.SMTPError{Code: 451, EnhancedCode: smtp.EnhancedCode{4, 0, 0}, Message: "try later"}
				}
			}
			meta := &module.MsgMetadata{ID: fmt.Sprintf("verif%d", ti), SMTPOpts: smtp.MailOptions{UTF8: true}}
			d, err := tgt.Start(ctx, meta, "sender@example.com")
			if err != nil {
				t.Fatal(err)
			}
			var oks []string
			anyOK := false
			for _, a := range rcpts {
				err := d.AddRcpt(ctx, a, smtp.RcptOptions{})
				oks = append(oks, cBool(err == nil))
				anyOK = anyOK || err == nil
			}
			coll := &v9Coll{}
			if anyOK {
				hdr := textproto.Header{}
				hdr.Add("Subject", "x")
				var body buffer.Buffer = buffer.MemoryBuffer{Slice: []byte("hi\r\n")}
				if bodyBreaks {
					body = testutils.FailingBuffer{Blob: []byte("hi\r\n"), IOError: errors.New("spool read error")}
					stats["body-breaks"]++
				}
				d.(module.PartialDelivery).BodyNonAtomic(ctx, coll, hdr, body)
			}
			d.Commit(ctx)
			rt := make([]string, len(rcpts))
			for i, a := range rcpts {
				rt[i] = cBytes([]byte(a))
			}
			txnTerms = append(txnTerms, fmt.Sprintf("{| t_rcpts := %s; t_refused := %s; t_data_ok := %s |}", cList(rt), cList(refused), cBool(dataOK)))
			obsTerms = append(obsTerms, fmt.Sprintf("(%s, %s)", cList(oks), cList(coll.sts)))
			stats["transactions"]++
			stats["statuses"] += len(coll.sts)
		}
		tgt.Close()
		srv.Close()
		var ta []string
		keys := make([]string, 0, len(toascii))
		for k := range toascii {
			keys = append(keys, k)
		}
		sort.Strings(keys)
		for _, k := range keys {
			ta = append(ta, "("+cBytes([]byte(k))+", "+toascii[k]+")")
		}
		out.Case(fmt.Sprintf("CRemote %s %s %s %s", cBool(utf8), cList(ta), cList(txnTerms), cList(obsTerms)))
	}
	_ = errors.New
	for k, v := range stats {
		out.Stat(k, v)
	}
}

// Spellings stream: one transaction whose recipients write one destination domain in several ways
// (as given, another letter case, the A-label form of an internationalized domain).  The target
// may open one connection per spelling; whatever it does, every accepted recipient gets exactly
// one status under the address it was given.
func TestVerif_C09RemoteSpell(t *testing.T) {
	out := vOpenOut()
	defer out.Close()
	n := vEnvInt("VERIF_N", 30)
	stats := map[string]int{}
	zones := map[string]mockdns.Zone{
		"example.invalid.":    {MX: []net.MX{{Host: "mx.example.invalid.", Pref: 10}}},
		"xn--e1aybc.invalid.": {MX: []net.MX{{Host: "mx.example.invalid.", Pref: 10}}},
		"тест.invalid.":       {MX: []net.MX{{Host: "mx.example.invalid.", Pref: 10}}},
		"mx.example.invalid.": {A: []string{"127.0.0.1"}},
	}
	spellings := [][]string{
		{"example.invalid", "EXAMPLE.invalid", "Example.Invalid", "example.invalid"},
		{"тест.invalid", "xn--e1aybc.invalid", "xn--e1aybc.invalid", "ТЕСТ.invalid"},
	}
	locals := []string{"a", "b", "c", "bob", "d"}
	ctx := context.Background()
	for ci := 0; ci < n; ci++ {
		r := vNewRand(uint64(905000 + ci))
		if l, err := net.Listen("tcp", "127.0.0.1:0"); err == nil {
			smtpPort = fmt.Sprint(l.Addr().(*net.TCPAddr).Port)
			l.Close()
		}
		be, srv := testutils.SMTPServer(t, "127.0.0.1:"+smtpPort, func(s *smtp.Server) { s.EnableSMTPUTF8 = true })
		tgt := testTarget(t, zones, nil, nil)
		tgt.connReuseLimit = 10
		fam := spellings[r.intn(len(spellings))]
		var rcpts []string
		k := 2 + r.intn(3)
		perm := r.intn(len(locals))
		for i := 0; i < k; i++ {
			rcpts = append(rcpts, locals[(perm+i)%len(locals)]+"@"+fam[r.intn(len(fam))])
		}
		dataOK := !r.chance(25)
		be.DataErr = nil
		if !dataOK {
			be.DataErr = &smtp.SMTPError{Code: 451, EnhancedCode: smtp.EnhancedCode{4, 0, 0}, Message: "try later"}
		}
		meta := &module.MsgMetadata{ID: fmt.Sprintf("verifsp%d", ci), SMTPOpts: smtp.MailOptions{UTF8: true}}
		d, err := tgt.Start(ctx, meta, "sender@example.com")
		if err != nil {
			t.Fatal(err)
		}
		var oks, rt []string
		anyOK := false
		for _, a := range rcpts {
			err := d.AddRcpt(ctx, a, smtp.RcptOptions{})
			oks = append(oks, cBool(err == nil))
			rt = append(rt, cBytes([]byte(a)))
			anyOK = anyOK || err == nil
		}
		coll := &v9Coll{}
		if anyOK {
			hdr := textproto.Header{}
			hdr.Add("Subject", "x")
			d.(module.PartialDelivery).BodyNonAtomic(ctx, coll, hdr, buffer.MemoryBuffer{Slice: []byte("hi\r\n")})
		}
		d.Commit(ctx)
		tgt.Close()
		srv.Close()
		out.Case(fmt.Sprintf("CRemoteSpell %s %s %s %s", cList(rt), cList(oks), cBool(dataOK), cList(coll.sts)))
		stats["recipients"] += len(rcpts)
	}
	for k, v := range stats {
		out.Stat(k, v)
	}
}
