//go:build verif

package smtp_downstream

// C09 harness (lmtp stream): target.lmtp against a scripted LMTP server answering per
// recipient; recipients incl. IDN domains with and without SMTPUTF8 on the next hop.

import (
	"bufio"
	"context"
	"net"
	"fmt"
	"strings"
	"sync"
	"testing"

	"github.com/emersion/go-message/textproto"
	"github.com/emersion/go-smtp"
	"github.com/foxcpp/maddy/framework/buffer"
	"github.com/foxcpp/maddy/framework/config"
	"github.com/foxcpp/maddy/framework/log"
	"github.com/foxcpp/maddy/framework/module"
	"github.com/foxcpp/maddy/internal/testutils"
)

type v9Coll struct {
	mu  sync.Mutex
	sts []string
}

func (c *v9Coll) SetStatus(rcpt string, err error) {
	c.mu.Lock()
	c.sts = append(c.sts, fmt.Sprintf("(%s, %s)", cBytes([]byte(rcpt)), cBool(err == nil)))
	c.mu.Unlock()
}

// a minimal LMTP server: accepts everything, after the final dot sends the given per-recipient
// replies and closes the connection after [dropAfter] of them (dropAfter < 0: never)
func v9RawLMTP(t *testing.T, replies []bool, dropAfter int) (string, func()) {
	l, err := net.Listen("tcp", "127.0.0.1:0")
	if err != nil {
		t.Fatal(err)
	}
	go func() {
		c, err := l.Accept()
		if err != nil {
			return
		}
		defer c.Close()
		rd := bufio.NewReader(c)
		wr := func(s string) { c.Write([]byte(s + "\r\n")) }
		wr("220 raw.example LMTP")
		inData := false
		for {
			line, err := rd.ReadString('\n')
			if err != nil {
				return
			}
			up := strings.ToUpper(strings.TrimSpace(line))
			switch {
			case inData:
				if strings.TrimRight(line, "\r\n") == "." {
					inData = false
					for i, ok := range replies {
						if dropAfter >= 0 && i >= dropAfter {
							return
						}
						if ok {
							wr("250 2.0.0 delivered")
						} else {
							wr("550 5.2.2 mailbox full")
						}
					}
				}
			case strings.HasPrefix(up, "LHLO"):
				wr("250-raw.example")
				wr("250-SMTPUTF8")
				wr("250 ENHANCEDSTATUSCODES")
			case strings.HasPrefix(up, "DATA"):
				wr("354 go ahead")
				inData = true
			case strings.HasPrefix(up, "QUIT"):
				wr("221 bye")
				return
			default:
				wr("250 2.0.0 ok")
			}
		}
	}()
	return fmt.Sprint(l.Addr().(*net.TCPAddr).Port), func() { l.Close() }
}

func TestVerif_C09Lmtp(t *testing.T) {
	out := vOpenOut()
	defer out.Close()
	n := vEnvInt("VERIF_N", 30)
	ctx := context.Background()
	pool := []string{"a@example.invalid", "A@example.invalid", "b@тест.invalid", "c@xn--e1aybc.invalid", "a@example.invalid", "d@EXAMPLE.invalid"}
	for ci := 0; ci < n; ci++ {
		r := vNewRand(uint64(950000 + ci))
		// a port that is free right now (the package's TestMain picks one at random)
		if l, err := net.Listen("tcp", "127.0.0.1:0"); err == nil {
			testPort = fmt.Sprint(l.Addr().(*net.TCPAddr).Port)
			l.Close()
		}
		utf8 := r.chance(50)
		be, srv := testutils.SMTPServer(t, "127.0.0.1:"+testPort, func(s *smtp.Server) { s.LMTP = true; s.EnableSMTPUTF8 = utf8 })
		var rcpts []string
		for i := 0; i < 1+r.intn(4); i++ {
			rcpts = append(rcpts, pool[r.intn(len(pool))])
		}
		var replies []string
		be.LMTPDataErr = nil
		for range rcpts {
			ok := !r.chance(30)
			replies = append(replies, cBool(ok))
			if ok {
				be.LMTPDataErr = append(be.LMTPDataErr, nil)
			} else {
				be.LMTPDataErr = append(be.LMTPDataErr, &smtp.SMTPError{Code: 550, EnhancedCode: smtp.EnhancedCode{5, 2, 2}, Message: "mailbox full"})
			}
		}
		transferOK := !r.chance(15)
		port := testPort
		if !transferOK {
			be.DataErr = &smtp.SMTPError{Code: 451, EnhancedCode: smtp.EnhancedCode{4, 0, 0}, Message: "try later"}
			replies = nil
		} else if r.chance(35) && len(rcpts) >= 2 {
			// the next hop answers for some recipients and then the connection breaks
			k := r.intn(len(rcpts))
			bs := make([]bool, len(rcpts))
			for i := range bs {
				bs[i] = be.LMTPDataErr[i] == nil
			}
			var stop func()
			port, stop = v9RawLMTP(t, bs, k)
			defer stop()
			replies = replies[:k]
			transferOK = false
		}
		mod := &Downstream{hostname: "mx.example.invalid",
			endpoints: []config.Endpoint{{Scheme: "tcp", Host: "127.0.0.1", Port: port}},
			modName:   "target.lmtp", lmtp: true, log: log.Logger{Out: log.NopOutput{}}}
		d, err := mod.Start(ctx, &module.MsgMetadata{ID: "verif", SMTPOpts: smtp.MailOptions{UTF8: true}}, "sender@example.invalid")
		if err != nil {
			t.Fatal(err)
		}
		var rt []string
		for _, a := range rcpts {
			if err := d.AddRcpt(ctx, a, smtp.RcptOptions{}); err != nil {
				t.Fatalf("case %d: AddRcpt %q: %v", ci, a, err)
			}
			rt = append(rt, cBytes([]byte(a)))
		}
		coll := &v9Coll{}
		hdr := textproto.Header{}
		hdr.Add("Subject", "x")
		d.(module.PartialDelivery).BodyNonAtomic(ctx, coll, hdr, buffer.MemoryBuffer{Slice: []byte("hi\r\n")})
		d.Commit(ctx)
		srv.Close()
		out.Case(fmt.Sprintf("CLmtp %s %s %s %s", cList(rt), cList(replies), cBool(transferOK), cList(coll.sts)))
	}
}
