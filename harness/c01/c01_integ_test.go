//go:build verif

package remote

// C01 harness (integration stream): the real queue above the real remote-MX target (mock DNS,
// connection pool) against scripted SMTP servers that refuse recipients, answer 421, drop the
// connection in the middle of a transaction or refuse the content, over up to max_tries attempts.
// Observed at the servers (RCPT commands, transactions) and at the bounce target (reports).

import (
	"context"
	"fmt"
	"io"
	"net"
	"os"
	"regexp"
	"strings"
	"sync"
	"testing"
	"time"

	"github.com/emersion/go-message/textproto"
	"github.com/emersion/go-smtp"
	"github.com/foxcpp/go-mockdns"
	"github.com/foxcpp/maddy/framework/buffer"
	"github.com/foxcpp/maddy/framework/module"
	"github.com/foxcpp/maddy/internal/target/queue"
)

type v1Events struct {
	mu sync.Mutex
	ev []string
}

func (e *v1Events) add(s string) {
	e.mu.Lock()
	e.ev = append(e.ev, s)
	e.mu.Unlock()
}

var v1RR = []string{"RAccept", "RTemp", "RPerm", "R421", "RDrop"}
var v1DR = []string{"DOk", "DTemp", "DPerm"}

type v1Srv struct {
	ev      *v1Events
	mu      sync.Mutex
	ids     map[string]int // local part -> recipient id
	doms    map[string]int // domain (as the server sees it) -> domain id
	rscript map[int][]int
	dscript map[int][]int
	nrep    int
}

type v1Sess struct {
	s     *v1Srv
	c     *smtp.Conn
	rcpts []int
	dom   int
}

func (s *v1Srv) NewSession(c *smtp.Conn) (smtp.Session, error) { return &v1Sess{s: s, c: c}, nil }
func (s *v1Sess) AuthPlain(string, string) error               { return nil }
func (s *v1Sess) Mail(string, *smtp.MailOptions) error         { s.rcpts = nil; return nil }
func (s *v1Sess) Reset()                                       { s.rcpts = nil }
func (s *v1Sess) Logout() error                                { return nil }
func (s *v1Sess) Rcpt(to string, _ *smtp.RcptOptions) error {
	s.s.mu.Lock()
	defer s.s.mu.Unlock()
	at := strings.LastIndexByte(to, '@')
	id, ok := s.s.ids[to[:at]]
	if !ok {
		return &smtp.SMTPError{Code: 550, EnhancedCode: smtp.EnhancedCode{5, 1, 1}, Message: "unknown to the harness: " + to}
	}
	s.dom = s.s.doms[strings.ToLower(to[at+1:])]
	reply := 0
	if l := s.s.rscript[id]; len(l) > 0 {
		reply, s.s.rscript[id] = l[0], l[1:]
	}
	s.s.ev.add(fmt.Sprintf("(ERcpt %s %s)", cN(id), v1RR[reply]))
	// a misbehaving next hop: every other refusal carries an enhanced code of the other class; the
	// basic code decides (RFC 5321), so the model does not distinguish them
	s.s.nrep++
	odd := (id+s.s.nrep)%2 == 1
	switch reply {
	case 1:
		if odd {
			return &smtp.SMTPError{Code: 450, EnhancedCode: smtp.EnhancedCode{5, 2, 1}, Message: "mailbox busy"}
		}
		return &smtp.SMTPError{Code: 450, EnhancedCode: smtp.EnhancedCode{4, 2, 1}, Message: "mailbox busy"}
	case 2:
		if odd {
			return &smtp.SMTPError{Code: 550, EnhancedCode: smtp.EnhancedCode{4, 2, 2}, Message: "mailbox unavailable"}
		}
		return &smtp.SMTPError{Code: 550, EnhancedCode: smtp.EnhancedCode{5, 1, 1}, Message: "no such user"}
	case 3:
		return &smtp.SMTPError{Code: 421, EnhancedCode: smtp.EnhancedCode{4, 4, 2}, Message: "closing the channel, try later"}
	case 4:
		s.c.Conn().Close()
		return &smtp.SMTPError{Code: 421, EnhancedCode: smtp.EnhancedCode{4, 4, 2}, Message: "gone"}
	}
	s.rcpts = append(s.rcpts, id)
	return nil
}
func (s *v1Sess) Data(r io.Reader) error {
	io.Copy(io.Discard, r)
	s.s.mu.Lock()
	defer s.s.mu.Unlock()
	reply := 0
	if l := s.s.dscript[s.dom]; len(l) > 0 {
		reply, s.s.dscript[s.dom] = l[0], l[1:]
	}
	var rs []string
	for _, id := range s.rcpts {
		rs = append(rs, cN(id))
	}
	switch reply {
	case 1:
		s.s.ev.add(fmt.Sprintf("(EData %s DTemp)", cList(rs)))
		if len(s.rcpts)%2 == 0 {
			return &smtp.SMTPError{Code: 451, EnhancedCode: smtp.EnhancedCode{5, 3, 0}, Message: "try later"}
		}
		return &smtp.SMTPError{Code: 451, EnhancedCode: smtp.EnhancedCode{4, 3, 0}, Message: "try later"}
	case 2:
		s.s.ev.add(fmt.Sprintf("(EData %s DPerm)", cList(rs)))
		if len(s.rcpts)%2 == 0 {
			return &smtp.SMTPError{Code: 554, EnhancedCode: smtp.EnhancedCode{4, 6, 0}, Message: "content refused"}
		}
		return &smtp.SMTPError{Code: 554, EnhancedCode: smtp.EnhancedCode{5, 6, 0}, Message: "content refused"}
	}
	s.s.ev.add(fmt.Sprintf("(ECommit %s)", cList(rs)))
	return nil
}

type v1Bounce struct {
	ev  *v1Events
	ids map[string]int
}
type v1BounceDelivery struct{ b *v1Bounce }

var v1FinalRe = regexp.MustCompile(`(?m)^Final-Recipient: [a-z0-9]+; ?([^@\r\n]+)@`)

func (b *v1Bounce) Start(context.Context, *module.MsgMetadata, string) (module.Delivery, error) {
	return &v1BounceDelivery{b}, nil
}
func (d *v1BounceDelivery) AddRcpt(context.Context, string, smtp.RcptOptions) error { return nil }
func (d *v1BounceDelivery) Body(ctx context.Context, h textproto.Header, body buffer.Buffer) error {
	r, err := body.Open()
	if err != nil {
		return err
	}
	defer r.Close()
	data, _ := io.ReadAll(r)
	var rs []string
	for _, m := range v1FinalRe.FindAllStringSubmatch(string(data), -1) {
		if id, ok := d.b.ids[m[1]]; ok {
			rs = append(rs, cN(id))
		} else {
			rs = append(rs, cN(999))
		}
	}
	d.b.ev.add(fmt.Sprintf("(EDsn %s)", cList(rs)))
	return nil
}
func (d *v1BounceDelivery) Commit(context.Context) error { return nil }
func (d *v1BounceDelivery) Abort(context.Context) error  { return nil }

func TestVerif_C01Integ(t *testing.T) {
	out := vOpenOut()
	defer out.Close()
	n := vEnvInt("VERIF_N", 40)
	stats := map[string]int{}
	zones := map[string]mockdns.Zone{
		"example.invalid.":    {MX: []net.MX{{Host: "mx.example.invalid.", Pref: 10}}},
		"xn--e1aybc.invalid.": {MX: []net.MX{{Host: "mx.example.invalid.", Pref: 10}}},
		"тест.invalid.":       {MX: []net.MX{{Host: "mx.example.invalid.", Pref: 10}}},
		"mx.example.invalid.": {A: []string{"127.0.0.1"}},
	}
	domains := []string{"example.invalid", "тест.invalid"}
	srvDoms := map[string]int{"example.invalid": 0, "тест.invalid": 1, "xn--e1aybc.invalid": 1}
	locals := []string{"alice", "bob", "carol", "dürer", "eve"}
	ctx := context.Background()
	dir := t.TempDir()
	for ci := 0; ci < n; ci++ {
		r := vNewRand(uint64(100000 + ci))
		if l, err := net.Listen("tcp", "127.0.0.1:0"); err == nil {
			smtpPort = fmt.Sprint(l.Addr().(*net.TCPAddr).Port)
			l.Close()
		}
		ev := &v1Events{}
		ids := map[string]int{}
		for i, l := range locals {
			ids[l] = i
		}
		be := &v1Srv{ev: ev, ids: ids, doms: srvDoms, rscript: map[int][]int{}, dscript: map[int][]int{}}
		srv := smtp.NewServer(be)
		srv.Domain = "mx.example.invalid"
		srv.AllowInsecureAuth = true
		srv.EnableSMTPUTF8 = true
		l, err := net.Listen("tcp", "127.0.0.1:"+smtpPort)
		if err != nil {
			t.Fatal(err)
		}
		go srv.Serve(l)

		maxTries := 1 + r.intn(4)
		nr := 1 + r.intn(4)
		perm := r.intn(len(locals))
		twoDomains := r.chance(35)
		var rcpts, crcpts []string
		for j := 0; j < nr; j++ {
			id := (perm + j) % len(locals)
			dom := 0
			if twoDomains && r.chance(50) {
				dom = 1
			}
			rcpts = append(rcpts, locals[id]+"@"+domains[dom])
			crcpts = append(crcpts, fmt.Sprintf("(%s, %s)", cN(id), cN(dom)))
			// script: mostly accepting, each fault class present
			var sc []string
			for k := 0; k < maxTries; k++ {
				reply := 0
				if r.chance(45) {
					reply = 1 + r.intn(4)
				}
				be.rscript[id] = append(be.rscript[id], reply)
				sc = append(sc, v1RR[reply])
			}
		}
		var crs, cds []string
		for j := 0; j < nr; j++ {
			id := (perm + j) % len(locals)
			var sc []string
			for _, x := range be.rscript[id] {
				sc = append(sc, v1RR[x])
			}
			crs = append(crs, fmt.Sprintf("(%s, %s)", cN(id), cList(sc)))
		}
		for dom := 0; dom < 2; dom++ {
			var sc []string
			for k := 0; k < maxTries; k++ {
				reply := 0
				if r.chance(30) {
					reply = 1 + r.intn(2)
				}
				be.dscript[dom] = append(be.dscript[dom], reply)
				sc = append(sc, v1DR[reply])
			}
			cds = append(cds, fmt.Sprintf("(%s, %s)", cN(dom), cList(sc)))
		}

		tgt := testTarget(t, zones, nil, nil)
		tgt.connReuseLimit = 10
		q, err := queue.VerifNewFastQueue(dir, tgt, &v1Bounce{ev: ev, ids: ids}, maxTries)
		if err != nil {
			t.Fatal(err)
		}
		id, _ := module.GenerateMsgID()
		meta := &module.MsgMetadata{ID: id, OriginalFrom: "sender@verif.test", SMTPOpts: smtp.MailOptions{UTF8: true}}
		d, err := q.Start(ctx, meta, "sender@verif.test")
		if err != nil {
			t.Fatal(err)
		}
		for _, a := range rcpts {
			if err := d.AddRcpt(ctx, a, smtp.RcptOptions{}); err != nil {
				t.Fatal(err)
			}
		}
		hdr := textproto.Header{}
		hdr.Add("Subject", "verif")
		hdr.Add("From", "<sender@verif.test>")
		if err := d.Body(ctx, hdr, buffer.MemoryBuffer{Slice: []byte("hello\r\n")}); err != nil {
			t.Fatal(err)
		}
		if err := d.Commit(ctx); err != nil {
			t.Fatal(err)
		}
		removed := false
		deadline := time.Now().Add(8 * time.Second)
		for time.Now().Before(deadline) {
			if _, err := os.Stat(dir + "/" + id + ".meta"); os.IsNotExist(err) {
				removed = true
				break
			}
			time.Sleep(500 * time.Microsecond)
		}
		time.Sleep(2 * time.Millisecond)
		q.Close()
		tgt.Close()
		srv.Close()
		entries, _ := os.ReadDir(dir)
		for _, e := range entries {
			os.Remove(dir + "/" + e.Name())
		}
		ev.mu.Lock()
		evs := append([]string(nil), ev.ev...)
		ev.mu.Unlock()
		stats[fmt.Sprintf("rcpts_%d", nr)]++
		stats[fmt.Sprintf("max_tries_%d", maxTries)]++
		if twoDomains {
			stats["two_domains"]++
		}
		out.Case(fmt.Sprintf("{| c_max := %s; c_rcpts := %s; c_rscript := %s; c_dscript := %s; c_events := %s; c_removed := %s |}",
			cN(maxTries), cList(crcpts), cList(crs), cList(cds), cList(evs), cBool(removed)))
	}
	for k, v := range stats {
		out.Stat(k, v)
	}
}
