//go:build verif

package smtp_downstream

// C01 harness (downstream stream): the queue above the real target.smtp, whose Commit is the end of
// the SMTP session with the next hop.  The next hop accepts the transaction and then ends the session
// in one of several ways: an ordinary 221, the connection dropped when QUIT arrives, or a 421.  The
// message was accepted in every case: each recipient must have exactly one accepted transaction, and
// no failure report.  The events are in the vocabulary of the integration model (Queue/Integ.v), in
// which this is the all-accepting script.

import (
	"bytes"
	"context"
	"fmt"
	"io"
	"net"
	"os"
	"strconv"
	"strings"
	"sync"
	"testing"
	"time"

	"github.com/emersion/go-message/textproto"
	"github.com/emersion/go-smtp"
	"github.com/foxcpp/maddy/framework/buffer"
	"github.com/foxcpp/maddy/framework/config"
	"github.com/foxcpp/maddy/framework/log"
	"github.com/foxcpp/maddy/framework/module"
	"github.com/foxcpp/maddy/internal/target/queue"
)

type v1dEvents struct {
	mu sync.Mutex
	ev []string
}

func (e *v1dEvents) add(s string) { e.mu.Lock(); e.ev = append(e.ev, s); e.mu.Unlock() }

type v1dSrv struct{ ev *v1dEvents }
type v1dSess struct {
	s     *v1dSrv
	rcpts []int
}

func (s *v1dSrv) NewSession(*smtp.Conn) (smtp.Session, error) { return &v1dSess{s: s}, nil }
func (s *v1dSess) AuthPlain(string, string) error              { return nil }
func (s *v1dSess) Mail(string, *smtp.MailOptions) error        { s.rcpts = nil; return nil }
func (s *v1dSess) Reset()                                      { s.rcpts = nil }
func (s *v1dSess) Logout() error                               { return nil }
func (s *v1dSess) Rcpt(to string, _ *smtp.RcptOptions) error {
	id, _ := strconv.Atoi(strings.TrimPrefix(to[:strings.IndexByte(to, '@')], "r"))
	s.s.ev.add(fmt.Sprintf("(ERcpt %s RAccept)", cN(id)))
	s.rcpts = append(s.rcpts, id)
	return nil
}
func (s *v1dSess) Data(r io.Reader) error {
	io.Copy(io.Discard, r)
	var rs []string
	for _, id := range s.rcpts {
		rs = append(rs, cN(id))
	}
	s.s.ev.add(fmt.Sprintf("(ECommit %s)", cList(rs)))
	return nil
}

// a connection that ends the session its own way when QUIT arrives
type v1dConn struct {
	net.Conn
	mode int // 1: drop the connection, 2: answer 421
}

func (c *v1dConn) Read(p []byte) (int, error) {
	n, err := c.Conn.Read(p)
	if n > 0 && bytes.HasPrefix(bytes.ToUpper(p[:n]), []byte("QUIT")) {
		if c.mode == 2 {
			c.Conn.Write([]byte("421 4.3.2 shutting down\r\n"))
		}
		c.Conn.Close()
		return 0, io.EOF
	}
	return n, err
}

type v1dListener struct {
	net.Listener
	mode int
}

func (l *v1dListener) Accept() (net.Conn, error) {
	c, err := l.Listener.Accept()
	if err != nil || l.mode == 0 {
		return c, err
	}
	return &v1dConn{Conn: c, mode: l.mode}, nil
}

type v1dBounce struct{ ev *v1dEvents }
type v1dBounceDelivery struct{ b *v1dBounce }

func (b *v1dBounce) Init(*config.Map) error { return nil }
func (b *v1dBounce) Name() string           { return "verif_bounce" }
func (b *v1dBounce) InstanceName() string   { return "verif_bounce" }
func (b *v1dBounce) Start(context.Context, *module.MsgMetadata, string) (module.Delivery, error) {
	return &v1dBounceDelivery{b}, nil
}
func (d *v1dBounceDelivery) AddRcpt(context.Context, string, smtp.RcptOptions) error { return nil }
func (d *v1dBounceDelivery) Body(_ context.Context, _ textproto.Header, body buffer.Buffer) error {
	r, err := body.Open()
	if err != nil {
		return err
	}
	defer r.Close()
	blob, _ := io.ReadAll(r)
	var rs []string
	for _, line := range strings.Split(string(blob), "\n") {
		if strings.HasPrefix(line, "Final-Recipient:") {
			a := strings.TrimSpace(line[strings.IndexByte(line, ';')+1:])
			id, _ := strconv.Atoi(strings.TrimPrefix(a[:strings.IndexByte(a, '@')], "r"))
			rs = append(rs, cN(id))
		}
	}
	d.b.ev.add(fmt.Sprintf("(EDsn %s)", cList(rs)))
	return nil
}
func (d *v1dBounceDelivery) Commit(context.Context) error { return nil }
func (d *v1dBounceDelivery) Abort(context.Context) error  { return nil }

func TestVerif_C01Smtp(t *testing.T) {
	out := vOpenOut()
	defer out.Close()
	ctx := context.Background()
	stats := map[string]int{}
	n := vEnvInt("VERIF_N", 12)
	for ci := 0; ci < n; ci++ {
		mode := ci % 3
		nr := 1 + ci%3
		maxTries := 2 + ci%4
		ev := &v1dEvents{}
		inner, err := net.Listen("tcp", "127.0.0.1:0")
		if err != nil {
			t.Fatal(err)
		}
		srv := smtp.NewServer(&v1dSrv{ev: ev})
		srv.Domain = "nexthop.example.invalid"
		srv.AllowInsecureAuth = true
		go srv.Serve(&v1dListener{Listener: inner, mode: mode})
		port := strconv.Itoa(inner.Addr().(*net.TCPAddr).Port)

		tgt := &Downstream{
			hostname:  "mx.example.invalid",
			endpoints: []config.Endpoint{{Scheme: "tcp", Host: "127.0.0.1", Port: port}},
			log:       log.Logger{Out: log.NopOutput{}},
		}
		dir := t.TempDir()
		q, err := queue.VerifNewFastQueue(dir, tgt, &v1dBounce{ev: ev}, maxTries)
		if err != nil {
			t.Fatal(err)
		}
		d, err := q.Start(ctx, &module.MsgMetadata{ID: fmt.Sprintf("v1d%d", ci), OriginalFrom: "sender@example.org"}, "sender@example.org")
		if err != nil {
			t.Fatal(err)
		}
		var rcpts []string
		for i := 0; i < nr; i++ {
			d.AddRcpt(ctx, fmt.Sprintf("r%d@example.invalid", i+1), smtp.RcptOptions{})
			rcpts = append(rcpts, fmt.Sprintf("(%s, 0%%N)", cN(i+1)))
		}
		hdr := textproto.Header{}
		hdr.Add("Subject", "x")
		if err := d.Body(ctx, hdr, buffer.MemoryBuffer{Slice: []byte("hi\r\n")}); err != nil {
			t.Fatal(err)
		}
		if err := d.Commit(ctx); err != nil {
			t.Fatal(err)
		}
		// quiescence: nothing left in the spool, or nothing has happened for a while
		removed := false
		last, lastChange := -1, time.Now()
		for deadline := time.Now().Add(8 * time.Second); time.Now().Before(deadline); time.Sleep(2 * time.Millisecond) {
			entries, _ := os.ReadDir(dir)
			if len(entries) == 0 {
				removed = true
				break
			}
			ev.mu.Lock()
			cur := len(ev.ev)
			ev.mu.Unlock()
			if cur != last {
				last, lastChange = cur, time.Now()
			} else if time.Since(lastChange) > 1500*time.Millisecond {
				break
			}
		}
		time.Sleep(5 * time.Millisecond)
		q.Close()
		srv.Close()
		ev.mu.Lock()
		evs := append([]string(nil), ev.ev...)
		ev.mu.Unlock()
		out.Case(fmt.Sprintf("{| c_max := %s; c_rcpts := %s; c_rscript := []; c_dscript := []; c_events := %s; c_removed := %s |}",
			cN(maxTries), cList(rcpts), cList(evs), cBool(removed)))
		stats[fmt.Sprintf("quit_mode_%d", mode)]++
	}
	for k, v := range stats {
		out.Stat(k, v)
	}
}
