//go:build verif

package queue

// C01 harness: the real queue in front of a scripted target executing one fault plan per
// attempt; a recording bounce target; projection = target calls per attempt, reports, spool.

import (
	"bufio"
	"context"
	"errors"
	"fmt"
	"os"
	"path/filepath"
	"strings"
	"sync"
	"testing"
	"time"

	"github.com/emersion/go-message/textproto"
	"github.com/emersion/go-smtp"
	"github.com/foxcpp/maddy/framework/address"
	"github.com/foxcpp/maddy/framework/buffer"
	"github.com/foxcpp/maddy/framework/exterrors"
	"github.com/foxcpp/maddy/framework/log"
	"github.com/foxcpp/maddy/framework/module"
)

type vFail int // 0 none, 1 temp, 2 perm, 3 unspec

func (f vFail) err(where string) error {
	switch f {
	case 1:
		return exterrors.WithTemporary(errors.New("temp "+where), true)
	case 2:
		return exterrors.WithTemporary(errors.New("perm "+where), false)
	case 3:
		return errors.New("unspec " + where)
	}
	return nil
}
func (f vFail) coq() string {
	return []string{"None", "(Some FTemp)", "(Some FPerm)", "(Some FUnspec)"}[f]
}
func (f vFail) coqBare() string { return []string{"", "FTemp", "FPerm", "FUnspec"}[f] }

type vStatus struct {
	key string
	f   vFail
}
type vPlan struct {
	start   vFail
	rcpt    map[string]vFail
	partial bool
	body    vFail     // atomic
	calls   []vStatus // partial
	commit  vFail
}

func cAddr(s string) string {
	if s == "" {
		return "(@nil N)"
	}
	return cStr(s)
}

func (p vPlan) coq(order []string) string {
	var rc []string
	for _, r := range order {
		if f, ok := p.rcpt[r]; ok && f != 0 {
			rc = append(rc, "("+cAddr(r)+", "+f.coqBare()+")")
		}
	}
	body := "(BAtomic " + p.body.coq() + ")"
	if p.partial {
		var cs []string
		for _, s := range p.calls {
			cs = append(cs, "("+cAddr(s.key)+", "+s.f.coq()+")")
		}
		body = "(BPartial " + cList(cs) + ")"
	}
	return fmt.Sprintf("{| p_start := %s; p_rcpt := %s; p_body := %s; p_commit := %s |}", p.start.coq(), cList(rc), body, p.commit.coq())
}

type vAttempt struct {
	calls     []string
	committed []string
}

type vTarget struct {
	mu       sync.Mutex
	plans    []vPlan
	attempts []*vAttempt
	trace    *[]string // shared ordered trace of Coq obs terms
}

type vDelivery struct {
	t        *vTarget
	p        vPlan
	a        *vAttempt
	accepted []string
	bodyOK   map[string]bool
}
type vDeliveryPartial struct{ *vDelivery }

func (t *vTarget) Start(ctx context.Context, msgMeta *module.MsgMetadata, mailFrom string) (module.Delivery, error) {
	t.mu.Lock()
	defer t.mu.Unlock()
	var p vPlan
	if len(t.attempts) < len(t.plans) {
		p = t.plans[len(t.attempts)]
	}
	a := &vAttempt{calls: []string{"CStart"}}
	t.attempts = append(t.attempts, a)
	if p.start != 0 {
		t.flush(a)
		return nil, p.start.err("start")
	}
	d := &vDelivery{t: t, p: p, a: a, bodyOK: map[string]bool{}}
	if p.partial {
		return &vDeliveryPartial{d}, nil
	}
	return d, nil
}

// flush appends the attempt to the shared trace (called when the attempt is closed)
func (t *vTarget) flush(a *vAttempt) {
	var cm []string
	for _, r := range a.committed {
		cm = append(cm, cAddr(r))
	}
	*t.trace = append(*t.trace, fmt.Sprintf("(OAttempt %s %s)", cList(a.calls), cList(cm)))
}

func (d *vDelivery) AddRcpt(ctx context.Context, rcptTo string, _ smtp.RcptOptions) error {
	d.a.calls = append(d.a.calls, "(CAddRcpt "+cAddr(rcptTo)+")")
	if f := d.p.rcpt[rcptTo]; f != 0 {
		return f.err("rcpt")
	}
	d.accepted = append(d.accepted, rcptTo)
	return nil
}
func (d *vDelivery) Body(ctx context.Context, header textproto.Header, body buffer.Buffer) error {
	d.a.calls = append(d.a.calls, "CBody")
	if d.p.body != 0 {
		return d.p.body.err("body")
	}
	for _, r := range d.accepted {
		d.bodyOK[r] = true
	}
	return nil
}
func (d *vDeliveryPartial) BodyNonAtomic(ctx context.Context, c module.StatusCollector, header textproto.Header, body buffer.Buffer) {
	d.a.calls = append(d.a.calls, "CBodyNonAtomic")
	// the target's own truth: first status it files under an accepted recipient's address
	seen := map[string]bool{}
	for _, s := range d.p.calls {
		c.SetStatus(s.key, s.f.err("status"))
		if !seen[s.key] {
			seen[s.key] = true
			if s.f == 0 {
				d.bodyOK[s.key] = true
			}
		}
	}
}
func (d *vDelivery) Abort(ctx context.Context) error {
	d.t.mu.Lock()
	defer d.t.mu.Unlock()
	d.a.calls = append(d.a.calls, "CAbort")
	d.t.flush(d.a)
	return nil
}
func (d *vDelivery) Commit(ctx context.Context) error {
	d.t.mu.Lock()
	defer d.t.mu.Unlock()
	d.a.calls = append(d.a.calls, "CCommit")
	if d.p.commit != 0 {
		d.t.flush(d.a)
		return d.p.commit.err("commit")
	}
	for _, r := range d.accepted {
		if d.bodyOK[r] {
			d.a.committed = append(d.a.committed, r)
		}
	}
	d.t.flush(d.a)
	return nil
}

// bounce target: records the recipients named by each report
type vBounce struct {
	mu    *sync.Mutex
	trace *[]string
	to    []string
}

// the report spells IDN domains as U-labels (utf-8 address type); map a reported address back to
// the recipient it denotes
func (b *vBounce) canon(v string) string {
	for _, r := range b.to {
		if r == v {
			return r
		}
	}
	for _, r := range b.to {
		if address.Equal(r, v) {
			return r
		}
	}
	return v
}
type vBounceDelivery struct {
	b *vBounce
}

func (b *vBounce) Start(ctx context.Context, msgMeta *module.MsgMetadata, mailFrom string) (module.Delivery, error) {
	return &vBounceDelivery{b}, nil
}
func (d *vBounceDelivery) AddRcpt(ctx context.Context, rcptTo string, _ smtp.RcptOptions) error {
	return nil
}
func (d *vBounceDelivery) Body(ctx context.Context, header textproto.Header, body buffer.Buffer) error {
	r, err := body.Open()
	if err != nil {
		return err
	}
	defer r.Close()
	var rs []string
	sc := bufio.NewScanner(r)
	sc.Buffer(make([]byte, 1<<20), 1<<20)
	for sc.Scan() {
		line := sc.Text()
		if strings.HasPrefix(line, "Final-Recipient:") {
			v := strings.TrimSpace(strings.TrimPrefix(line, "Final-Recipient:"))
			if i := strings.Index(v, ";"); i >= 0 {
				v = strings.TrimSpace(v[i+1:])
			}
			rs = append(rs, cAddr(d.b.canon(v)))
		}
	}
	d.b.mu.Lock()
	*d.b.trace = append(*d.b.trace, "(ODsn "+cList(rs)+")")
	d.b.mu.Unlock()
	return nil
}
func (d *vBounceDelivery) Commit(ctx context.Context) error { return nil }
func (d *vBounceDelivery) Abort(ctx context.Context) error  { return nil }

var vAddrs = []string{"a@example.org", "b@example.org", "c@xn--e1aybc.example", "d@тест.example", "ü@example.org", "B@EXAMPLE.org",
	"bob@mail_gw.example.org", "e@-odd-.example.org"} // hosts the IDNA lookup profile would refuse: still plain recipients

func vRunCase(t *testing.T, out *vOut, dir string, maxTries int, bounce, nullSender bool, to []string, plans []vPlan, stats map[string]int) {
	var trace []string
	tgt := &vTarget{plans: plans, trace: &trace}
	mod, _ := NewQueue("", "queue", nil, nil)
	q := mod.(*Queue)
	q.initialRetryTime = 0
	q.retryTimeScale = 1
	q.postInitDelay = 0
	q.maxTries = maxTries
	q.location = dir
	q.Target = tgt
	q.hostname = "mx.verif.test"
	q.autogenMsgDomain = "verif.test"
	q.Log = log.Logger{Out: log.NopOutput{}}
	if bounce {
		q.dsnPipeline = &vBounce{mu: &tgt.mu, trace: &trace, to: to}
	}
	if err := q.start(1); err != nil {
		t.Fatal(err)
	}

	id, _ := module.GenerateMsgID()
	from := "sender@verif.test"
	meta := &module.MsgMetadata{ID: id, OriginalFrom: from, SMTPOpts: smtp.MailOptions{UTF8: true}}
	if nullSender {
		from = ""
		meta.OriginalFrom = ""
	}
	ctx := context.Background()
	d, err := q.Start(ctx, meta, from)
	if err != nil {
		t.Fatal(err)
	}
	for _, r := range to {
		if err := d.AddRcpt(ctx, r, smtp.RcptOptions{}); err != nil {
			t.Fatal(err)
		}
	}
	hdr := textproto.Header{}
	hdr.Add("Subject", "verif")
	hdr.Add("From", "<sender@verif.test>")
	if err := d.Body(ctx, hdr, buffer.MemoryBuffer{Slice: []byte("hello\r\n")}); err != nil {
		t.Fatal(err)
	}
	if err := d.Commit(ctx); err != nil {
		t.Fatal(err)
	}

	// quiescence: the message left the spool, or the queue has nothing left to do (nothing on the
	// wheel, nobody holding the delivery semaphore) over several polls.  The directory alone is not a
	// criterion: on a loaded machine the bookkeeping of the last attempt can take long.
	removed := false
	idle := 0
	deadline := time.Now().Add(8 * time.Second)
	for time.Now().Before(deadline) {
		if _, err := os.Stat(filepath.Join(dir, id+".meta")); os.IsNotExist(err) {
			removed = true
			break
		}
		q.wheel.slotsLock.Lock()
		busy := q.wheel.slots.Len() != 0
		q.wheel.slotsLock.Unlock()
		if len(q.deliverySemaphore) != 0 {
			busy = true
		}
		if busy {
			idle = 0
		} else {
			idle++
			if idle > 20 {
				break
			}
		}
		time.Sleep(500 * time.Microsecond)
	}
	q.Close()
	// leftovers
	entries, _ := os.ReadDir(dir)
	for _, e := range entries {
		os.Remove(filepath.Join(dir, e.Name()))
	}

	tgt.mu.Lock()
	defer tgt.mu.Unlock()
	if len(tgt.attempts) > len(plans) {
		stats["overrun"]++
		return // more attempts than planned: the plan list was too short for this configuration
	}
	var cto, cplans []string
	for _, r := range to {
		cto = append(cto, cAddr(r))
	}
	for _, p := range plans[:len(tgt.attempts)] {
		cplans = append(cplans, p.coq(to))
	}
	stats[fmt.Sprintf("attempts_%d", len(tgt.attempts))]++
	out.Case(fmt.Sprintf("{| c_cfg := {| max_tries := %s; has_bounce := %s |}; c_to := %s; c_null := %s; c_plans := %s; c_trace := %s; c_removed := %s |}",
		cN(maxTries), cBool(bounce), cList(cto), cBool(nullSender), cList(cplans), cList(trace), cBool(removed)))
}

func vGenPlan(r *vRand, to []string, okBias int) vPlan {
	p := vPlan{rcpt: map[string]vFail{}}
	pick := func() vFail {
		if r.chance(okBias) {
			return 0
		}
		return vFail(1 + r.intn(3))
	}
	if r.chance(8) {
		p.start = vFail(1 + r.intn(3))
	}
	for _, a := range to {
		if f := pick(); f != 0 && r.chance(50) {
			p.rcpt[a] = f
		}
	}
	p.partial = r.chance(50)
	if p.partial {
		for _, a := range to {
			if p.rcpt[a] == 0 {
				p.calls = append(p.calls, vStatus{a, pick()})
			}
		}
	} else if r.chance(25) {
		p.body = vFail(1 + r.intn(3))
	}
	if r.chance(12) {
		p.commit = vFail(1 + r.intn(3))
	}
	return p
}

func TestVerif_C01(t *testing.T) {
	out := vOpenOut()
	defer out.Close()
	n := vEnvInt("VERIF_N", 300)
	r := vNewRand(1)
	stats := map[string]int{}
	dir := t.TempDir()

	// exhaustive single-recipient sweep: stage x failure class, two attempts, max_tries 1..3
	a := vAddrs[0]
	for mt := 1; mt <= 3; mt++ {
		for stage := 0; stage < 5; stage++ {
			for f := 1; f <= 3; f++ {
				for partial := 0; partial < 2; partial++ {
					mk := func() vPlan {
						p := vPlan{rcpt: map[string]vFail{}, partial: partial == 1}
						if p.partial {
							p.calls = []vStatus{{a, 0}}
						}
						switch stage {
						case 0:
							p.start = vFail(f)
						case 1:
							p.rcpt[a] = vFail(f)
							p.calls = nil
						case 2:
							if p.partial {
								p.calls = []vStatus{{a, vFail(f)}}
							} else {
								p.body = vFail(f)
							}
						case 3:
							p.commit = vFail(f)
						}
						return p
					}
					ok := vPlan{rcpt: map[string]vFail{}, partial: partial == 1}
					if ok.partial {
						ok.calls = []vStatus{{a, 0}}
					}
					plans := []vPlan{mk(), mk(), ok, ok}
					vRunCase(t, out, dir, mt, true, false, []string{a}, plans[:mt+1], stats)
					stats["sweep"]++
				}
			}
		}
	}

	for i := 0; i < n; i++ {
		nr := 1 + r.intn(4)
		var to []string
		perm := r.intn(len(vAddrs))
		for j := 0; j < nr; j++ {
			to = append(to, vAddrs[(perm+j)%len(vAddrs)])
		}
		if r.chance(6) {
			to = append(to, to[0]) // a recipient named twice
			stats["duplicate_rcpt"]++
		}
		mt := 1 + r.intn(3)
		bounce := !r.chance(15)
		null := r.chance(12)
		var plans []vPlan
		for k := 0; k < mt+1; k++ {
			plans = append(plans, vGenPlan(r, to, 55))
		}
		if r.chance(10) && len(plans) > 0 {
			// a target that breaks the status contract: status filed under another key, or omitted
			p := &plans[0]
			if p.partial && len(p.calls) > 0 {
				if r.chance(50) {
					p.calls[0].key = strings.ToUpper(p.calls[0].key)
				} else {
					p.calls = p.calls[1:]
				}
				stats["dishonest_target"]++
			}
		}
		vRunCase(t, out, dir, mt, bounce, null, to, plans, stats)
	}
	for k, v := range stats {
		out.Stat(k, v)
	}
}
