//go:build verif

package address

// C17 harness: address / DNS-name helpers on (i) all short strings over a sub-alphabet,
// (ii) generated valid addresses with their spelling variants, (iii) random strings over the
// property's alphabet; (iv) crash-freedom on arbitrary bytes (implementation only).

import (
	"fmt"
	"sort"
	"strings"
	"testing"
	"unicode"
	"unicode/utf8"

	"github.com/foxcpp/maddy/framework/dns"
	"golang.org/x/net/idna"
	"golang.org/x/text/unicode/norm"
)

type vTabs struct {
	nfc, lower map[string]string
	tou, toa   map[string]*string
}

func vRecord(seeds []string) *vTabs {
	t := &vTabs{map[string]string{}, map[string]string{}, map[string]*string{}, map[string]*string{}}
	cur := map[string]bool{}
	for _, s := range seeds {
		cur[s] = true
		if i := strings.LastIndexByte(s, '@'); i >= 0 {
			cur[s[:i]] = true
			cur[s[i+1:]] = true
		}
	}
	seen := map[string]bool{}
	for round := 0; round < 4; round++ {
		next := map[string]bool{}
		for s := range cur {
			if seen[s] {
				continue
			}
			seen[s] = true
			n := norm.NFC.String(s)
			if n != s {
				t.nfc[s] = n
			}
			l := strings.ToLower(s)
			if l != s {
				t.lower[s] = l
			}
			u, err := idna.ToUnicode(s)
			if err != nil {
				t.tou[s] = nil
			} else if u != s {
				uu := u
				t.tou[s] = &uu
			}
			a, err2 := idna.ToASCII(s)
			if err2 != nil {
				t.toa[s] = nil
			} else if a != s {
				aa := a
				t.toa[s] = &aa
			}
			// ASCII letters lower-cased: what dns.ForLookup hands to the IDNA library
			alb := []byte(s)
			for i, c := range alb {
				if 'A' <= c && c <= 'Z' {
					alb[i] = c + ('a' - 'A')
				}
			}
			al := string(alb)
			for _, r := range []string{n, l, u, a, al, strings.TrimSuffix(s, ".")} {
				if !seen[r] {
					next[r] = true
				}
			}
		}
		cur = next
	}
	return t
}

func cStrTab(m map[string]string) string {
	keys := make([]string, 0, len(m))
	for k := range m {
		keys = append(keys, k)
	}
	sort.Strings(keys)
	items := make([]string, 0, len(keys))
	for _, k := range keys {
		items = append(items, "("+cStrE(k)+", "+cStrE(m[k])+")")
	}
	return cList(items)
}
func cOptTab(m map[string]*string) string {
	keys := make([]string, 0, len(m))
	for k := range m {
		keys = append(keys, k)
	}
	sort.Strings(keys)
	items := make([]string, 0, len(keys))
	for _, k := range keys {
		v := "None"
		if m[k] != nil {
			v = "(Some " + cStrE(*m[k]) + ")"
		}
		items = append(items, "("+cStrE(k)+", "+v+")")
	}
	return cList(items)
}

// cStrE: like cStr but with an explicit type for the empty list inside pairs
func cStrE(s string) string {
	if s == "" {
		return "(@nil N)"
	}
	return cStr(s)
}

func cSB(s string, err error) string { return "(" + cStrE(s) + ", " + cBool(err == nil) + ")" }

func vCase(out *vOut, a, b string, valid bool, variants []string) {
	key, kerr := ForLookup(a)
	a1, _ := ToASCII(a)
	seeds := append([]string{a, b, key, a1}, variants...)
	T := vRecord(seeds)

	sp := "None"
	if m, d, err := Split(a); err == nil {
		sp = "(Some (" + cStrE(m) + ", " + cStrE(d) + "))"
	}
	unq := "None"
	if s, err := UnquoteMbox(a); err == nil {
		unq = "(Some " + cStrE(s) + ")"
	}
	q := QuoteMbox(a)
	unqq := "None"
	if s, err := UnquoteMbox(q); err == nil {
		unqq = "(Some " + cStrE(s) + ")"
	}
	key2, k2err := ForLookup(key)
	cl, clerr := CleanDomain(a)
	toa, toaerr := ToASCII(a)
	tou, touerr := ToUnicode(a)
	tt, tterr := ToUnicode(toa)
	dk, dkerr := dns.ForLookup(a)
	kb, kberr := ForLookup(b)
	var vks []string
	for _, v := range variants {
		k, err := ForLookup(v)
		vks = append(vks, cSB(k, err))
	}
	var cvars []string
	for _, v := range variants {
		cvars = append(cvars, cStrE(v))
	}
	out.Case(fmt.Sprintf("{| c_a := %s; c_b := %s; c_valid := %s; c_variants := %s; c_tabs := {| t_nfc := %s; t_lower := %s; t_tou := %s; t_toa := %s |}; c_obs := {| o_split := %s; o_unq := %s; o_quote := %s; o_unq_quote := %s; o_key := %s; o_key2 := %s; o_clean := %s; o_toa := %s; o_tou := %s; o_tou_toa := %s; o_ascii := %s; o_dns := %s; o_equal := %s; o_dns_equal := %s; o_keyb := %s; o_var_keys := %s |} |}",
		cStrE(a), cStrE(b), cBool(valid), cList(cvars),
		cStrTab(T.nfc), cStrTab(T.lower), cOptTab(T.tou), cOptTab(T.toa),
		sp, unq, cStrE(q), unqq, cSB(key, kerr), cSB(key2, k2err), cSB(cl, clerr), cSB(toa, toaerr), cSB(tou, touerr), cSB(tt, tterr),
		cBool(IsASCII(a)), cSB(dk, dkerr), cBool(Equal(a, b)), cBool(dns.Equal(a, b)), cSB(kb, kberr), cList(vks)))
}

var vShort = []string{"a", "B", "@", ".", "\"", "\\", " ", "é", "é", "İ", "ß", "xn--"}
var vLong = []string{"a", "b", "C", "Z", "0", "9", "@", ".", "\"", "\\", " ", ",", "(", "<", "-", "_", "+",
	"é", "é", "́", "İ", "ß", "ς", "σ", "Ａ", "ｂ", "ſ", "K", "\u0080", "中", "xn--", "XN--", "xn--e1aybc", "postmaster", "poſtmaſter"}

var vMboxParts = []string{"user", "User", "u.ser", "a+b", "ülrich", "İstanbul", "straße", "ας", "Ａｂ", "test_1", "x", "josé", "josé", "Ǆ", "İ"}
var vULabels = []string{"example", "mail", "тест", "bücher", "mañana", "例え", "straße", "ελλάς", "a-b", "x1", "münchen"}
var vTlds = []string{"org", "com", "рф", "xn--p1ai", "test", "de"}

func vAsciiUpper(s string) string {
	b := []rune(s)
	for i, r := range b {
		if r >= 'a' && r <= 'z' {
			b[i] = r - 32
		}
	}
	return string(b)
}

// simple upper-casing of letters whose case mapping is a bijection on single code points
func vSimpleUpper(s string) string {
	var b strings.Builder
	for _, r := range s {
		u := unicode.ToUpper(r)
		if u != r && unicode.ToLower(u) == r && strings.ToLower(string(u)) == string(r) && strings.ToUpper(string(r)) == string(u) {
			b.WriteRune(u)
		} else {
			b.WriteRune(r)
		}
	}
	return b.String()
}

func TestVerif_C17(t *testing.T) {
	out := vOpenOut()
	defer out.Close()
	n := vEnvInt("VERIF_N", 300)
	thorough := vEnvInt("VERIF_THOROUGH", 0) == 1
	stats := map[string]int{}

	// (i) exhaustive short strings
	maxLen := 2
	if thorough {
		maxLen = 3
	}
	var all []string
	var rec func(prefix string, l int)
	rec = func(prefix string, l int) {
		if l > 0 {
			all = append(all, prefix)
		}
		if l == maxLen {
			return
		}
		for _, s := range vShort {
			rec(prefix+s, l+1)
		}
	}
	rec("", 0)
	all = append(all, "")
	for i, a := range all {
		b := all[(i*7+3)%len(all)]
		if i%5 == 0 {
			b = strings.ToUpper(a)
		}
		vCase(out, a, b, false, nil)
		stats["exhaustive_short"]++
	}

	// (ii) valid addresses with variants
	r := vNewRand(17)
	for i := 0; i < n; i++ {
		m := vMboxParts[r.intn(len(vMboxParts))]
		if r.chance(30) {
			m += "." + vMboxParts[r.intn(len(vMboxParts))]
		}
		m = norm.NFC.String(m)
		nl := 1 + r.intn(2)
		var labels []string
		for j := 0; j < nl; j++ {
			labels = append(labels, vULabels[r.intn(len(vULabels))])
		}
		labels = append(labels, vTlds[r.intn(len(vTlds))])
		dom := strings.Join(labels, ".")
		ud, err := idna.ToUnicode(dom)
		if err != nil {
			continue
		}
		ud = strings.ToLower(norm.NFC.String(ud))
		ad, err := idna.ToASCII(ud)
		if err != nil {
			continue
		}
		a := m + "@" + ud
		variants := []string{
			vAsciiUpper(m) + "@" + ud,
			m + "@" + vAsciiUpper(ud),
			vSimpleUpper(m) + "@" + vSimpleUpper(ud),
			norm.NFD.String(m) + "@" + ud,
			m + "@" + norm.NFD.String(ud),
			m + "@" + ad,
			m + "@" + ud + ".",
			norm.NFD.String(vSimpleUpper(m)) + "@" + ad,
		}
		if ad != ud && r.chance(50) {
			variants = append(variants, m+"@"+strings.Replace(ad, "xn--", "XN--", 1))
			stats["variant_upper_ace"]++
		}
		b := variants[r.intn(len(variants))]
		if r.chance(30) {
			b = vMboxParts[r.intn(len(vMboxParts))] + "@" + ud
		}
		vCase(out, a, b, true, variants)
		stats["valid_with_variants"]++
		if ad != ud {
			stats["valid_idn"]++
		}
	}

	// (iii) random strings over the alphabet
	for i := 0; i < n; i++ {
		l := 1 + r.intn(8)
		var sb strings.Builder
		for j := 0; j < l; j++ {
			sb.WriteString(vLong[r.intn(len(vLong))])
		}
		a := sb.String()
		if r.chance(40) {
			a = a + "@" + vULabels[r.intn(len(vULabels))] + "." + vTlds[r.intn(len(vTlds))]
		}
		b := a
		switch r.intn(4) {
		case 0:
			b = strings.ToUpper(a)
		case 1:
			b = norm.NFD.String(a)
		case 2:
			b = vLong[r.intn(len(vLong))] + a
		}
		vCase(out, a, b, false, nil)
		stats["random_alphabet"]++
	}

	// (iv) crash-freedom on arbitrary bytes, implementation only
	crashes := 0
	for i := 0; i < 20*n; i++ {
		l := r.intn(12)
		bs := make([]byte, l)
		for j := range bs {
			switch r.intn(4) {
			case 0:
				bs[j] = byte(r.intn(256))
			case 1:
				bs[j] = "@.\"\\ x"[r.intn(6)]
			default:
				bs[j] = byte(0x20 + r.intn(0x60))
			}
		}
		s := string(bs)
		func() {
			defer func() {
				if e := recover(); e != nil {
					crashes++
					t.Errorf("panic on %q: %v", s, e)
				}
			}()
			ForLookup(s)
			CleanDomain(s)
			Equal(s, s+"x")
			Split(s)
			UnquoteMbox(s)
			QuoteMbox(s)
			ToASCII(s)
			ToUnicode(s)
			IsASCII(s)
			dns.ForLookup(s)
			ValidDomain(s)
			ValidMailboxName(s)
			Valid(s)
			_ = utf8.ValidString(s)
		}()
		stats["crash_freedom_inputs"]++
	}
	stats["crashes"] = crashes
	for k, v := range stats {
		out.Stat(k, v)
	}
}
