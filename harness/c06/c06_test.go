//go:build verif

package msgpipeline

// C06 harness: 1-4 scripted checks placed over the global, source and destination scopes of a
// pipeline built directly (as the package's own tests do), verdict tables per stage, 1-3
// recipients routed to different destination blocks, the atomic (SMTP) and the per-recipient (LMTP)
// body path on the same script, completion orders varied by per-call delays.

import (
	"context"
	"errors"
	"fmt"
	"sort"
	"strings"
	"sync"
	"testing"
	"time"

	"github.com/emersion/go-message/textproto"
	"github.com/emersion/go-msgauth/authres"
	"github.com/emersion/go-smtp"
	"github.com/foxcpp/go-mockdns"
	"github.com/foxcpp/maddy/framework/buffer"
	"github.com/foxcpp/maddy/framework/config"
	modconfig "github.com/foxcpp/maddy/framework/config/module"
	"github.com/foxcpp/maddy/framework/exterrors"
	"github.com/foxcpp/maddy/framework/module"
	"github.com/foxcpp/maddy/internal/modify"
	"github.com/foxcpp/maddy/internal/testutils"
)

const (
	vNone = iota
	vIgnore
	vQuar
	vReject
)

type v6Run struct {
	mu     sync.Mutex
	nextSt int
	log    []string
	script map[string]int // "check/stage" -> verdict
	delay  map[string]time.Duration
}

func (r *v6Run) call(check, st int, stage string) module.CheckResult {
	key := fmt.Sprintf("%d/%s", check, stage)
	if d := r.delay[key]; d > 0 {
		time.Sleep(d)
	}
	r.mu.Lock()
	r.log = append(r.log, fmt.Sprintf("(%s, %s, %s)", cN(check), cN(st), stage))
	v := r.script[key]
	r.mu.Unlock()
	// the verdict goes through the action mapping of the configuration layer (fail_action and
	// friends): what the check found (permanent, temporary, unclassified) and the status configured
	// for the action (none, 4yz, 5yz) vary with the call and must not change the verdict
	h := (check*31 + len(stage)*7 + int(stage[len(stage)-1])) % 12
	var reason error
	switch h % 4 {
	case 0:
		reason = &exterrors.SMTPError{Code: 550, EnhancedCode: exterrors.EnhancedCode{5, 7, 1}, Message: "scripted finding"}
	case 1:
		reason = &exterrors.SMTPError{Code: 451, EnhancedCode: exterrors.EnhancedCode{4, 7, 1}, Message: "scripted temporary finding"}
	case 2:
		reason = exterrors.WithTemporary(errors.New("lookup timed out"), true)
	default:
		reason = errors.New("scripted finding")
	}
	var override *exterrors.SMTPError
	switch h / 4 {
	case 1:
		override = &exterrors.SMTPError{Code: 554, EnhancedCode: exterrors.EnhancedCode{5, 7, 0}, Message: "configured status"}
	case 2:
		override = &exterrors.SMTPError{Code: 450, EnhancedCode: exterrors.EnhancedCode{4, 7, 0}, Message: "configured status"}
	}
	switch v {
	case vIgnore:
		return modconfig.FailAction{}.Apply(module.CheckResult{Reason: reason})
	case vQuar:
		return modconfig.FailAction{Quarantine: true, ReasonOverride: override}.Apply(module.CheckResult{Reason: reason})
	case vReject:
		return modconfig.FailAction{Reject: true, ReasonOverride: override}.Apply(module.CheckResult{Reason: reason})
	}
	return module.CheckResult{}
}

// a recipient modifier that fails for the recipients of a given set (local parts "r<id>")
type v6Mod struct{ fail map[string]bool }
type v6ModState struct{ m *v6Mod }

func (m *v6Mod) ModStateForMsg(context.Context, *module.MsgMetadata) (module.ModifierState, error) {
	return v6ModState{m}, nil
}
func (s v6ModState) RewriteSender(_ context.Context, from string) (string, error) { return from, nil }
func (s v6ModState) RewriteRcpt(_ context.Context, to string) ([]string, error) {
	if i := strings.IndexByte(to, '@'); i > 0 && s.m.fail[to[:i]] {
		return nil, errors.New("scripted modifier failure")
	}
	return []string{to}, nil
}
func (s v6ModState) RewriteBody(context.Context, *textproto.Header, buffer.Buffer) error { return nil }
func (s v6ModState) Close() error                                                         { return nil }

type v6Check struct {
	id  int
	run **v6Run
}

func (c *v6Check) Name() string           { return "verif_check" }
func (c *v6Check) InstanceName() string   { return fmt.Sprintf("c%d", c.id) }
func (c *v6Check) Init(*config.Map) error { return nil }
func (c *v6Check) CheckStateForMsg(context.Context, *module.MsgMetadata) (module.CheckState, error) {
	r := *c.run
	r.mu.Lock()
	st := r.nextSt
	r.nextSt++
	r.mu.Unlock()
	return &v6State{c: c, st: st}, nil
}

type v6State struct {
	c  *v6Check
	st int
}

func (s *v6State) CheckConnection(context.Context) module.CheckResult {
	return (*s.c.run).call(s.c.id, s.st, "SConn")
}
func (s *v6State) CheckSender(context.Context, string) module.CheckResult {
	return (*s.c.run).call(s.c.id, s.st, "SSender")
}
func (s *v6State) CheckRcpt(_ context.Context, to string) module.CheckResult {
	var r int
	fmt.Sscanf(to, "r%d@", &r)
	return (*s.c.run).call(s.c.id, s.st, fmt.Sprintf("(SRcpt %s)", cN(r)))
}
func (s *v6State) CheckBody(context.Context, textproto.Header, buffer.Buffer) module.CheckResult {
	return (*s.c.run).call(s.c.id, s.st, "SBody")
}
func (s *v6State) Close() error { return nil }

type v6Target struct {
	id      int
	partial bool
	mu      sync.Mutex
	bodies  []string
}

func (t *v6Target) Name() string           { return "verif_target" }
func (t *v6Target) InstanceName() string   { return fmt.Sprintf("t%d", t.id) }
func (t *v6Target) Init(*config.Map) error { return nil }
func (t *v6Target) Start(_ context.Context, meta *module.MsgMetadata, _ string) (module.Delivery, error) {
	d := &v6Delivery{t: t, meta: meta}
	if t.partial {
		return &v6Partial{d}, nil
	}
	return d, nil
}

type v6Delivery struct {
	t     *v6Target
	meta  *module.MsgMetadata
	rcpts []int
}

func (d *v6Delivery) AddRcpt(_ context.Context, to string, _ smtp.RcptOptions) error {
	var r int
	fmt.Sscanf(to, "r%d@", &r)
	d.rcpts = append(d.rcpts, r)
	return nil
}
func (d *v6Delivery) Body(context.Context, textproto.Header, buffer.Buffer) error {
	items := make([]string, len(d.rcpts))
	for i, r := range d.rcpts {
		items[i] = cN(r)
	}
	d.t.mu.Lock()
	d.t.bodies = append(d.t.bodies, fmt.Sprintf("(%s, %s, %s)", cN(d.t.id), cList(items), cBool(d.meta.Quarantine)))
	d.t.mu.Unlock()
	return nil
}
func (d *v6Delivery) Abort(context.Context) error  { return nil }
func (d *v6Delivery) Commit(context.Context) error { return nil }

type v6Partial struct{ *v6Delivery }

func (d *v6Partial) BodyNonAtomic(ctx context.Context, _ module.StatusCollector, h textproto.Header, b buffer.Buffer) {
	d.Body(ctx, h, b)
}

type v6Statuses struct {
	mu sync.Mutex
	m  map[string]error
}

func (s *v6Statuses) SetStatus(rcpt string, err error) {
	s.mu.Lock()
	s.m[rcpt] = err
	s.mu.Unlock()
}

func TestVerif_C06(t *testing.T) {
	out := vOpenOut()
	defer out.Close()
	n := vEnvInt("VERIF_N", 100)
	ctx := context.Background()
	stats := map[string]int{}
	var cur *v6Run
	checks := make([]*v6Check, 5)
	for i := range checks {
		checks[i] = &v6Check{id: i + 1, run: &cur}
	}
	for ci := 0; ci < n; ci++ {
		r := vNewRand(uint64(600000 + ci))
		nChecks := 1 + r.intn(4)
		pickChecks := func(max int) []int {
			var l []int
			used := map[int]bool{}
			for i := 0; i < r.intn(max+1); i++ {
				c := 1 + r.intn(nChecks)
				if !used[c] {
					used[c] = true
					l = append(l, c)
				}
			}
			return l
		}
		gC, sC := pickChecks(2), pickChecks(2)
		nBlocks := 1 + r.intn(3)
		blkC := make([][]int, nBlocks)
		blkT := make([]int, nBlocks)
		nTargets := 1 + r.intn(3)
		for b := range blkC {
			blkC[b] = pickChecks(3)
			blkT[b] = r.intn(nTargets)
		}
		dmarcPol := 0
		if r.chance(25) {
			dmarcPol = 1 + r.intn(2)
		}
		// envelope
		nR := 1 + r.intn(3)
		type rb struct{ r, b int }
		var rcpts []rb
		for i := 0; i < nR; i++ {
			rcpts = append(rcpts, rb{10 + i, r.intn(nBlocks)})
		}
		// the block's recipient modifier fails for a later recipient of a block that already has one
		modFail := map[string]bool{}
		var modFailIDs []int
		if nR >= 2 && r.chance(20) {
			k := 1 + r.intn(nR-1)
			if r.chance(70) {
				rcpts[k].b = rcpts[0].b
			}
			modFail[fmt.Sprintf("r%d", rcpts[k].r)] = true
			modFailIDs = append(modFailIDs, rcpts[k].r)
			stats["modifier-failure"]++
		}
		blkMods := make([]bool, nBlocks)
		for b := range blkMods {
			blkMods[b] = r.chance(40)
		}
		for _, x := range rcpts {
			if modFail[fmt.Sprintf("r%d", x.r)] {
				blkMods[x.b] = true
			}
		}
		// script: mostly quiet, a few verdicts
		script := map[string]int{}
		var sterms []string
		stages := []string{"SConn", "SSender", "SBody"}
		for _, x := range rcpts {
			stages = append(stages, fmt.Sprintf("(SRcpt %s)", cN(x.r)))
		}
		nVerd := r.intn(4)
		for i := 0; i < nVerd; i++ {
			c := 1 + r.intn(nChecks)
			st := stages[r.intn(len(stages))]
			v := []int{vIgnore, vQuar, vQuar, vReject}[r.intn(4)]
			key := fmt.Sprintf("%d/%s", c, st)
			if _, dup := script[key]; dup {
				continue
			}
			script[key] = v
			sterms = append(sterms, fmt.Sprintf("(%s, %s, %s)", cN(c), st, []string{"VNone", "VIgnore", "VQuar", "VReject"}[v]))
			stats[[]string{"none", "verdict=ignore", "verdict=quarantine", "verdict=reject"}[v]]++
		}

		forcedDelay := map[string]time.Duration{}
		if nChecks >= 2 && r.chance(25) {
			// both in the global scope (or both in the first block), same stage
			a, b := 1, 2
			if r.chance(50) {
				gC = []int{a, b}
			} else {
				blkC[0] = []int{a, b}
				rcpts[0].b = 0
			}
			st := stages[r.intn(len(stages))]
			if len(gC) != 2 && (st == "SConn" || st == "SSender") && r.chance(50) {
				st = fmt.Sprintf("(SRcpt %s)", cN(rcpts[0].r))
			}
			for _, x := range []struct{ c, v int }{{a, vQuar}, {b, vReject}} {
				key := fmt.Sprintf("%d/%s", x.c, st)
				if _, dup := script[key]; dup {
					continue
				}
				script[key] = x.v
				sterms = append(sterms, fmt.Sprintf("(%s, %s, %s)", cN(x.c), st, []string{"VNone", "VIgnore", "VQuar", "VReject"}[x.v]))
			}
			forcedDelay[fmt.Sprintf("%d/%s", b, st)] = 2 * time.Millisecond // the rejecting check finishes last
			stats["quarantine-then-reject"]++
		}
		runOnce := func(nonAtomic bool, seed uint64) string {
			rr := &vRand{s: seed}
			cur = &v6Run{script: script, delay: map[string]time.Duration{}}
			for k, d := range forcedDelay {
				cur.delay[k] = d
			}
			for c := 1; c <= nChecks; c++ {
				for _, st := range stages {
					if _, forced := forcedDelay[fmt.Sprintf("%d/%s", c, st)]; !forced && rr.chance(50) {
						cur.delay[fmt.Sprintf("%d/%s", c, st)] = time.Duration(rr.intn(300)) * time.Microsecond
					}
				}
			}
			toChecks := func(l []int) []module.Check {
				var cs []module.Check
				for _, c := range l {
					cs = append(cs, checks[c-1])
				}
				return cs
			}
			targets := make([]*v6Target, nTargets)
			for i := range targets {
				targets[i] = &v6Target{id: i, partial: nonAtomic && rr.chance(50)}
			}
			perRcpt := map[string]*rcptBlock{}
			for b := 0; b < nBlocks; b++ {
				blk := &rcptBlock{checks: toChecks(blkC[b]), targets: []module.DeliveryTarget{targets[blkT[b]]}}
				// some blocks have recipient modifiers, some have none; the block of a recipient whose
				// modifier is to fail always has
				if blkMods[b] {
					blk.modifiers = modify.Group{Modifiers: []module.Modifier{&v6Mod{fail: modFail}}}
				}
				perRcpt[fmt.Sprintf("b%d.example", b)] = blk
			}
			zones := map[string]mockdns.Zone{}
			switch dmarcPol {
			case 1:
				zones["_dmarc.example.org."] = mockdns.Zone{TXT: []string{"v=DMARC1; p=quarantine"}}
			case 2:
				zones["_dmarc.example.org."] = mockdns.Zone{TXT: []string{"v=DMARC1; p=reject"}}
			}
			gChecks := toChecks(gC)
			if dmarcPol != 0 {
				// authentication results that do not align with the From domain (not a scripted check)
				gChecks = append(gChecks, &testutils.Check{BodyRes: module.CheckResult{AuthResult: []authres.Result{
					&authres.DKIMResult{Value: authres.ResultPass, Domain: "other.example"},
					&authres.SPFResult{Value: authres.ResultNone, From: "other.example", Helo: "mx.other.example"},
				}}})
			}
			p := &MsgPipeline{
				msgpipelineCfg: msgpipelineCfg{
					globalChecks: gChecks,
					perSource:    map[string]sourceBlock{},
					defaultSource: sourceBlock{
						checks:      toChecks(sC),
						perRcpt:     perRcpt,
						defaultRcpt: &rcptBlock{rejectErr: errors.New("no such block")},
					},
					doDMARC: dmarcPol != 0,
				},
				Hostname: "mx.example.org",
				Resolver: &mockdns.Resolver{Zones: zones},
			}
			meta := &module.MsgMetadata{ID: "verif", OriginalFrom: "sender@example.org"}
			var marks []string
			mark := func() { cur.mu.Lock(); marks = append(marks, fmt.Sprintf("%d%%nat", len(cur.log))); cur.mu.Unlock() }
			d, err := p.Start(ctx, meta, "sender@example.org")
			mark()
			if err != nil {
				return fmt.Sprintf("{| o_start := false; o_rcpts := []; o_body := None; o_log := %s; o_marks := %s |}", cList(cur.log), cList(marks))
			}
			var oks []string
			anyOK := false
			var accepted []string
			for _, x := range rcpts {
				addr := fmt.Sprintf("r%d@b%d.example", x.r, x.b)
				err := d.AddRcpt(ctx, addr, smtp.RcptOptions{})
				mark()
				oks = append(oks, cBool(err == nil))
				if err == nil {
					anyOK = true
					accepted = append(accepted, addr)
				}
			}
			body := "None"
			if anyOK {
				hdr := textproto.Header{}
				hdr.Add("From", "<someone@example.org>")
				hdr.Add("Subject", "x")
				buf := buffer.MemoryBuffer{Slice: []byte("hello\r\n")}
				refused := false
				if nonAtomic {
					sc := &v6Statuses{m: map[string]error{}}
					d.(module.PartialDelivery).BodyNonAtomic(ctx, sc, hdr, buf)
					nErr := 0
					for _, a := range accepted {
						if sc.m[a] != nil {
							nErr++
						}
					}
					if nErr != 0 && nErr != len(accepted) {
						t.Errorf("case %d: mixed statuses on the per-recipient path: %v", ci, sc.m)
					}
					refused = nErr != 0
				} else {
					refused = d.Body(ctx, hdr, buf) != nil
				}
				mark()
				if refused {
					body = "(Some None)"
					d.Abort(ctx)
				} else {
					d.Commit(ctx)
					var bs []string
					for _, tg := range targets {
						bs = append(bs, tg.bodies...)
					}
					sort.Strings(bs)
					body = "(Some (Some " + cList(bs) + "))"
				}
			} else {
				d.Abort(ctx)
			}
			return fmt.Sprintf("{| o_start := true; o_rcpts := %s; o_body := %s; o_log := %s; o_marks := %s |}",
				cList(oks), body, cList(cur.log), cList(marks))
		}
		oa := runOnce(false, r.next())
		on := runOnce(true, r.next())
		if strings.Contains(oa, "Some (Some") {
			stats["body-accepted"]++
		} else if strings.Contains(oa, "Some None") {
			stats["body-refused"]++
		}
		if strings.Contains(oa, ", true)") {
			stats["quarantined"]++
		}
		nl := func(l []int) string {
			items := make([]string, len(l))
			for i, x := range l {
				items[i] = cN(x)
			}
			return cList(items)
		}
		var blks, rts []string
		for b := range blkC {
			blks = append(blks, fmt.Sprintf("(%s, %s)", nl(blkC[b]), cN(blkT[b])))
		}
		for _, x := range rcpts {
			rts = append(rts, fmt.Sprintf("(%s, %s)", cN(x.r), cN(x.b)))
		}
		out.Case(fmt.Sprintf("CMsg %s {| g_checks := %s; s_checks := %s; blocks := %s; dmarc := %s; mod_fail := %s |} %s %s %s",
			cList(sterms), nl(gC), nl(sC), cList(blks), cN(dmarcPol), nl(modFailIDs), cList(rts), oa, on))
		stats[fmt.Sprintf("dmarc=%d", dmarcPol)]++
	}
	keys := make([]string, 0, len(stats))
	for k := range stats {
		keys = append(keys, k)
	}
	sort.Strings(keys)
	for _, k := range keys {
		out.Stat(k, stats[k])
	}
}

// Repeated-RCPT stream: a recipient refused by a check (at any scope, for a permanent, temporary or
// unclassified reason, with or without a configured status) is named again in the same transaction,
// once or twice; every repetition must be refused as well, and a message to the other recipient must
// not reach the refused one.
func TestVerif_C06Repeat(t *testing.T) {
	out := vOpenOut()
	defer out.Close()
	ctx := context.Background()
	var cur *v6Run
	n := 0
	for check := 1; check <= 12; check++ { // the check number selects the reason / configured status (see v6Run.call)
		for scope := 0; scope < 3; scope++ {
			for reps := 1; reps <= 2; reps++ {
				chk := &v6Check{id: check, run: &cur}
				tgt := &v6Target{id: 0}
				blk := &rcptBlock{targets: []module.DeliveryTarget{tgt}}
				var g, s []module.Check
				switch scope {
				case 0:
					g = []module.Check{chk}
				case 1:
					s = []module.Check{chk}
				default:
					blk.checks = []module.Check{chk}
				}
				p := &MsgPipeline{
					msgpipelineCfg: msgpipelineCfg{
						globalChecks: g,
						perSource:    map[string]sourceBlock{},
						defaultSource: sourceBlock{
							checks:      s,
							perRcpt:     map[string]*rcptBlock{"b0.example": blk},
							defaultRcpt: &rcptBlock{rejectErr: errors.New("no such block")},
						},
					},
					Hostname: "mx.example.org",
					Resolver: &mockdns.Resolver{Zones: map[string]mockdns.Zone{}},
				}
				cur = &v6Run{script: map[string]int{fmt.Sprintf("%d/(SRcpt %s)", check, cN(10)): vReject}, delay: map[string]time.Duration{}}
				d, err := p.Start(ctx, &module.MsgMetadata{ID: "verifrep", OriginalFrom: "sender@example.org"}, "sender@example.org")
				if err != nil {
					t.Fatal(err)
				}
				var replies []string
				replies = append(replies, cBool(d.AddRcpt(ctx, "r10@b0.example", smtp.RcptOptions{}) == nil))
				okOther := d.AddRcpt(ctx, "r11@b0.example", smtp.RcptOptions{}) == nil
				for i := 0; i < reps; i++ {
					replies = append(replies, cBool(d.AddRcpt(ctx, "r10@b0.example", smtp.RcptOptions{}) == nil))
				}
				d.Abort(ctx)
				out.Case(fmt.Sprintf("CRepeat %s %s", cList(replies), cBool(okOther)))
				n++
			}
		}
	}
	out.Stat("repeated-rcpt-sessions", n)
}
