//go:build verif

package remote

// C06 harness (remote stream): the remote target refuses a message flagged as quarantined, on
// the atomic and on the per-recipient body path, before any connection is attempted.

import (
	"context"
	"fmt"
	"sync"
	"testing"

	"github.com/emersion/go-message/textproto"
	"github.com/foxcpp/maddy/framework/buffer"
	"github.com/foxcpp/maddy/framework/module"
)

type v6St struct {
	mu sync.Mutex
	m  map[string]error
}

func (s *v6St) SetStatus(r string, err error) { s.mu.Lock(); s.m[r] = err; s.mu.Unlock() }

func TestVerif_C06Remote(t *testing.T) {
	out := vOpenOut()
	defer out.Close()
	n := vEnvInt("VERIF_N", 10)
	for ci := 0; ci < n; ci++ {
		r := vNewRand(uint64(650000 + ci))
		nr := 1 + r.intn(3)
		rd := &remoteDelivery{
			rt:          &Target{},
			msgMeta:     &module.MsgMetadata{ID: "verif", Quarantine: true},
			connections: map[string]*mxConn{},
		}
		var ids []string
		for i := 0; i < nr; i++ {
			rd.recipients = append(rd.recipients, fmt.Sprintf("r%d@example.invalid", i))
			ids = append(ids, cN(i))
		}
		hdr := textproto.Header{}
		buf := buffer.MemoryBuffer{Slice: []byte("x")}
		var refused []string
		if r.chance(50) {
			st := &v6St{m: map[string]error{}}
			rd.BodyNonAtomic(context.Background(), st, hdr, buf)
			for i, a := range rd.recipients {
				refused = append(refused, fmt.Sprintf("(%s, %s)", cN(i), cBool(st.m[a] != nil)))
			}
		} else {
			err := rd.Body(context.Background(), hdr, buf)
			for i := range rd.recipients {
				refused = append(refused, fmt.Sprintf("(%s, %s)", cN(i), cBool(err != nil)))
			}
		}
		out.Case(fmt.Sprintf("CRemote true %s %s", cList(ids), cList(refused)))
	}
}
