//go:build verif

package queue

// C02 harness.  queue.go is compiled with its "os" import redirected to the recording shim
// (tools/oswrap, regenerated from the current source).  A scenario (accepts, aborts, attempts with
// scripted failures) is run once; every prefix of the recorded mutating file operations - also
// with the last write torn, and with unsynced data dropped - is materialised as a directory on
// which a fresh queue is started with a recording target.

import (
	"bufio"
	"bytes"
	"context"
	"encoding/json"
	"errors"
	"fmt"
	"io"
	"os"
	"path/filepath"
	"sort"
	"strings"
	"sync"
	"testing"
	"time"

	"github.com/emersion/go-message/textproto"
	"github.com/emersion/go-smtp"
	"github.com/foxcpp/maddy/framework/buffer"
	"github.com/foxcpp/maddy/framework/exterrors"
	"github.com/foxcpp/maddy/framework/log"
	"github.com/foxcpp/maddy/framework/module"
	"github.com/foxcpp/maddy/internal/verifos"
)

type v2Msg struct {
	id     string
	rcpts  []string
	abort  bool
	plans  []map[string]int // per attempt: recipient -> 0 ok, 1 temporary, 2 permanent (at RCPT)
	hdr    []byte
	body   []byte
	accept bool
}

// scripted target of the scenario run: marks attempts / deliveries in the operation log
type v2Target struct {
	mu    sync.Mutex
	msgs  map[string]*v2Msg
	count map[string]int
}
type v2Delivery struct {
	t        *v2Target
	id       string
	plan     map[string]int
	accepted []string
}

func baseID(id string) string {
	if i := strings.IndexByte(id, '-'); i >= 0 {
		return id[:i]
	}
	return id
}
func (t *v2Target) Start(ctx context.Context, msgMeta *module.MsgMetadata, mailFrom string) (module.Delivery, error) {
	t.mu.Lock()
	defer t.mu.Unlock()
	id := baseID(msgMeta.ID)
	n := t.count[id]
	t.count[id]++
	var plan map[string]int
	if m := t.msgs[id]; m != nil && n < len(m.plans) {
		plan = m.plans[n]
	}
	verifos.Mark("attempt " + id)
	return &v2Delivery{t: t, id: id, plan: plan}, nil
}
func (d *v2Delivery) AddRcpt(ctx context.Context, rcptTo string, _ smtp.RcptOptions) error {
	verifos.Mark("offered " + d.id + " " + rcptTo)
	switch d.plan[rcptTo] {
	case 1:
		return exterrors.WithTemporary(errors.New("later"), true)
	case 2:
		return exterrors.WithTemporary(errors.New("never"), false)
	}
	d.accepted = append(d.accepted, rcptTo)
	return nil
}
func (d *v2Delivery) Body(ctx context.Context, header textproto.Header, body buffer.Buffer) error {
	return nil
}
func (d *v2Delivery) Commit(ctx context.Context) error {
	for _, r := range d.accepted {
		verifos.Mark("delivered " + d.id + " " + r)
	}
	return nil
}
func (d *v2Delivery) Abort(ctx context.Context) error { return nil }

// bounce target of the scenario run: a failure report is a terminal outcome for the recipients it names
type v2Bounce struct{}
type v2BounceDelivery struct{}

func (v2Bounce) Start(ctx context.Context, msgMeta *module.MsgMetadata, mailFrom string) (module.Delivery, error) {
	return v2BounceDelivery{}, nil
}
func (v2BounceDelivery) AddRcpt(ctx context.Context, rcptTo string, _ smtp.RcptOptions) error { return nil }
func (v2BounceDelivery) Body(ctx context.Context, header textproto.Header, body buffer.Buffer) error {
	r, err := body.Open()
	if err != nil {
		return err
	}
	defer r.Close()
	data, _ := io.ReadAll(r)
	id := ""
	var rcpts []string
	for _, line := range strings.Split(string(data), "\n") {
		line = strings.TrimSpace(line)
		if strings.HasPrefix(strings.ToLower(line), "x-maddy-msgid:") {
			id = strings.TrimSpace(line[len("x-maddy-msgid:"):])
		}
		if strings.HasPrefix(line, "Final-Recipient:") {
			v := line[len("Final-Recipient:"):]
			if i := strings.Index(v, ";"); i >= 0 {
				v = v[i+1:]
			}
			rcpts = append(rcpts, strings.TrimSpace(v))
		}
	}
	for _, rc := range rcpts {
		verifos.Mark("failed " + id + " " + rc)
	}
	return nil
}
func (v2BounceDelivery) Commit(ctx context.Context) error { return nil }
func (v2BounceDelivery) Abort(ctx context.Context) error  { return nil }

// recording target of the recovery runs
type v2Rec struct {
	mu        sync.Mutex
	dels      []v2RecDel
	failFirst bool            // the first attempt of each message after the restart refuses its first recipient temporarily
	seen      map[string]bool
	offered   [][2]string     // (id, recipient) of every AddRcpt after the restart
}
type v2RecDel struct {
	id    string
	rcpts []string
	hdr   []byte
	body  []byte
}
type v2RecDelivery struct {
	t     *v2Rec
	d     v2RecDel
	first bool
	n     int
}

func (t *v2Rec) Start(ctx context.Context, msgMeta *module.MsgMetadata, mailFrom string) (module.Delivery, error) {
	t.mu.Lock()
	defer t.mu.Unlock()
	id := baseID(msgMeta.ID)
	first := false
	if t.failFirst && !t.seen[id] {
		if t.seen == nil {
			t.seen = map[string]bool{}
		}
		t.seen[id] = true
		first = true
	}
	return &v2RecDelivery{t: t, d: v2RecDel{id: id}, first: first}, nil
}
func (d *v2RecDelivery) AddRcpt(ctx context.Context, rcptTo string, _ smtp.RcptOptions) error {
	d.n++
	d.t.mu.Lock()
	d.t.offered = append(d.t.offered, [2]string{d.d.id, rcptTo})
	d.t.mu.Unlock()
	if d.first && d.n == 1 {
		return exterrors.WithTemporary(errors.New("later"), true)
	}
	d.d.rcpts = append(d.d.rcpts, rcptTo)
	return nil
}
func (d *v2RecDelivery) Body(ctx context.Context, header textproto.Header, body buffer.Buffer) error {
	var w bytes.Buffer
	textproto.WriteHeader(&w, header)
	d.d.hdr = w.Bytes()
	r, err := body.Open()
	if err != nil {
		return err
	}
	defer r.Close()
	d.d.body, _ = io.ReadAll(r)
	return nil
}
func (d *v2RecDelivery) Commit(ctx context.Context) error {
	d.t.mu.Lock()
	d.t.dels = append(d.t.dels, d.d)
	d.t.mu.Unlock()
	return nil
}
func (d *v2RecDelivery) Abort(ctx context.Context) error { return nil }

func v2Queue(dir string, tgt module.DeliveryTarget, retry time.Duration) *Queue {
	mod, _ := NewQueue("", "queue", nil, nil)
	q := mod.(*Queue)
	q.initialRetryTime = retry
	q.retryTimeScale = 1
	q.postInitDelay = 0
	q.maxTries = 3
	q.location = dir
	q.Target = tgt
	q.hostname = "mx.verif.test"
	q.autogenMsgDomain = "verif.test"
	q.dsnPipeline = v2Bounce{}
	q.Log = log.Logger{Out: log.NopOutput{}}
	if err := q.start(4); err != nil {
		panic(err)
	}
	return q
}

// v2WaitQuiet waits until the queue has nothing left to do: nothing scheduled on the wheel, no
// attempt holding the delivery semaphore, no stored message that the queue can still load (such a
// message is always either being attempted or scheduled), and a directory listing that stayed
// the same over several polls.  Under load an attempt can be scheduled long after the
// directory went quiet, so the listing alone is not a criterion.  On a queue that never finishes
// a message the deadline ends the wait and the comparison with the model reports it.
func v2WaitQuiet(q *Queue, dir string, maxWait time.Duration) {
	deadline := time.Now().Add(maxWait)
	last := ""
	stable := 0
	for time.Now().Before(deadline) {
		entries, _ := os.ReadDir(dir)
		var names []string
		have := map[string]bool{}
		for _, e := range entries {
			names = append(names, e.Name())
			have[e.Name()] = true
		}
		cur := strings.Join(names, ",")
		busy := false
		q.wheel.slotsLock.Lock()
		if q.wheel.slots.Len() != 0 {
			busy = true
		}
		q.wheel.slotsLock.Unlock()
		if len(q.deliverySemaphore) != 0 {
			busy = true
		}
		if !busy {
			for _, n := range names {
				if !strings.HasSuffix(n, ".meta") {
					continue
				}
				id := strings.TrimSuffix(n, ".meta")
				if !have[id+".header"] || !have[id+".body"] {
					busy = true // dangling: the start-up scan removes it
					continue
				}
				if m, err := q.readMessageMeta(id); err == nil && m != nil && len(m.To) > 0 {
					busy = true // loadable: an attempt is due
				}
			}
		}
		if !busy && cur == last {
			stable++
			if stable > 8 {
				return
			}
		} else {
			stable = 0
		}
		last = cur
		time.Sleep(time.Millisecond)
	}
}

// materialise replays ops[:k] (the k-th write torn to tornLen bytes if torn) into dir
func v2Materialise(ops []verifos.Op, k int, torn bool, tornLen int, strong bool, srcDir, dir string) {
	synced := map[string]int{}
	data := map[string][]byte{}
	exists := map[string]bool{}
	mapPath := func(p string) string { return filepath.Join(dir, strings.TrimPrefix(p, srcDir)) }
	apply := func(o verifos.Op, limit int) {
		switch o.Kind {
		case "create":
			data[o.Path], exists[o.Path], synced[o.Path] = nil, true, 0
		case "write":
			d := o.Data
			if limit >= 0 && limit < len(d) {
				d = d[:limit]
			}
			data[o.Path] = append(data[o.Path], d...)
		case "sync":
			synced[o.Path] = len(data[o.Path])
		case "rename":
			data[o.Path2], exists[o.Path2], synced[o.Path2] = data[o.Path], true, synced[o.Path]
			delete(data, o.Path)
			delete(exists, o.Path)
			delete(synced, o.Path)
		case "remove":
			delete(data, o.Path)
			delete(exists, o.Path)
			delete(synced, o.Path)
		}
	}
	for i := 0; i < k && i < len(ops); i++ {
		apply(ops[i], -1)
	}
	if torn && k < len(ops) {
		apply(ops[k], tornLen)
	}
	for p := range exists {
		d := data[p]
		if strong && synced[p] < len(d) {
			d = d[:synced[p]]
		}
		os.WriteFile(mapPath(p), d, 0o644)
	}
}

type v2Scenario struct {
	name string
	msgs []*v2Msg
	gap  bool // accept the second message while the first waits for its retry
}

func v2Scenarios(r *vRand, n int) []v2Scenario {
	a, b, c := "a@example.org", "b@example.org", "c@example.org"
	out := []v2Scenario{
		{name: "one-ok", msgs: []*v2Msg{{rcpts: []string{a}}}},
		{name: "two-rcpt-temp-then-ok", msgs: []*v2Msg{{rcpts: []string{a, b}, plans: []map[string]int{{b: 1}}}}},
		{name: "abort", msgs: []*v2Msg{{rcpts: []string{a}, abort: true}, {rcpts: []string{b}}}},
		{name: "perm-and-temp", msgs: []*v2Msg{{rcpts: []string{a, b, c}, plans: []map[string]int{{a: 2, b: 1}, {b: 1}, {b: 1}}}}},
		{name: "two-messages", msgs: []*v2Msg{{rcpts: []string{a, b}, plans: []map[string]int{{a: 1}}}, {rcpts: []string{c}}}, gap: true},
		{name: "all-temp-twice", msgs: []*v2Msg{{rcpts: []string{a, b}, plans: []map[string]int{{a: 1, b: 1}, {a: 1}}}}},
	}
	for i := 0; i < n; i++ {
		var msgs []*v2Msg
		nm := 1 + r.intn(3)
		for j := 0; j < nm; j++ {
			m := &v2Msg{}
			nr := 1 + r.intn(3)
			for k := 0; k < nr; k++ {
				m.rcpts = append(m.rcpts, []string{a, b, c}[k])
			}
			m.abort = r.chance(15)
			na := r.intn(3)
			for k := 0; k < na; k++ {
				p := map[string]int{}
				for _, rc := range m.rcpts {
					if r.chance(45) {
						p[rc] = 1 + r.intn(2)
					}
				}
				m.plans = append(m.plans, p)
			}
			msgs = append(msgs, m)
		}
		out = append(out, v2Scenario{name: fmt.Sprintf("gen%d", i), msgs: msgs, gap: r.chance(40)})
	}
	return out
}

func bufioReader(b []byte) *bufio.Reader { return bufio.NewReader(bytes.NewReader(b)) }

func cBy(b []byte) string {
	if len(b) == 0 {
		return "(@nil N)"
	}
	return cBytes(b)
}

func TestVerif_C02(t *testing.T) {
	out := vOpenOut()
	defer out.Close()
	// production behaviour: a panic in a delivery goroutine is contained (and the message quarantined)
	dontRecover = false
	defer func() { dontRecover = true }()
	nGen := vEnvInt("VERIF_N", 4)
	thorough := vEnvInt("VERIF_THOROUGH", 0) == 1
	r := vNewRand(2)
	stats := map[string]int{}
	base := t.TempDir()

	for si, sc := range v2Scenarios(r, nGen) {
		src := filepath.Join(base, fmt.Sprintf("s%d", si)) + string(filepath.Separator)
		os.MkdirAll(src, 0o755)
		tgt := &v2Target{msgs: map[string]*v2Msg{}, count: map[string]int{}}
		retry := time.Duration(0)
		if sc.gap {
			retry = 40 * time.Millisecond
		}
		q := v2Queue(src, tgt, retry)
		verifos.Reset(true)
		ctx := context.Background()
		for mi, m := range sc.msgs {
			m.id = fmt.Sprintf("%08x", 0xa0000000+si*256+mi)
			m.hdr = []byte(fmt.Sprintf("Subject: message %d of %s\r\nX-Verif: %d\r\n\r\n", mi, sc.name, mi))
			m.body = []byte(fmt.Sprintf("body of %s\r\n", m.id))
			if (si+mi)%4 == 3 {
				m.body = []byte{} // a message that is its header only: an empty body file is a complete one
			}
			tgt.mu.Lock()
			tgt.msgs[m.id] = m
			tgt.mu.Unlock()
			hdr, _ := textproto.ReadHeader(bufioReader(m.hdr))
			var hb bytes.Buffer
			textproto.WriteHeader(&hb, hdr)
			m.hdr = hb.Bytes()
			meta := &module.MsgMetadata{ID: m.id, OriginalFrom: "s@example.org", OriginalRcpts: map[string]string{}}
			d, err := q.Start(ctx, meta, "s@example.org")
			if err != nil {
				t.Fatal(err)
			}
			for _, rc := range m.rcpts {
				d.AddRcpt(ctx, rc, smtp.RcptOptions{})
			}
			if err := d.Body(ctx, hdr, buffer.MemoryBuffer{Slice: m.body}); err != nil {
				t.Fatal(err)
			}
			if m.abort {
				d.Abort(ctx)
				verifos.Mark("aborted " + m.id)
			} else {
				if err := d.Commit(ctx); err != nil {
					t.Fatal(err)
				}
				verifos.Mark("accepted " + m.id)
			}
			if !sc.gap {
				v2WaitQuiet(q, src, 3*time.Second)
			}
		}
		v2WaitQuiet(q, src, 5*time.Second)
		q.Close()
		ops := verifos.Log()
		verifos.Reset(false)

		// crash points: before every mutating operation, after the last, torn writes, strong variant
		type cp struct {
			k       int
			torn    bool
			tornLen int
			strong  bool
		}
		var cps []cp
		for k := 0; k <= len(ops); k++ {
			if k < len(ops) && ops[k].Kind == "mark" {
				continue
			}
			cps = append(cps, cp{k: k})
			cps = append(cps, cp{k: k, strong: true})
			if k < len(ops) && ops[k].Kind == "write" && len(ops[k].Data) > 1 {
				cps = append(cps, cp{k: k, torn: true, tornLen: len(ops[k].Data) / 2})
				if thorough {
					cps = append(cps, cp{k: k, torn: true, tornLen: 1}, cp{k: k, torn: true, tornLen: len(ops[k].Data) - 1})
				}
			}
		}
		if !thorough && si >= 6 && len(cps) > 40 {
			// generated scenarios: a sample of the crash points in the quick tier
			var sample []cp
			for i, c := range cps {
				if i%3 == int(r.s%3) {
					sample = append(sample, c)
				}
			}
			cps = sample
		}

		idIndex := map[string]int{}
		for mi, m := range sc.msgs {
			idIndex[m.id] = mi
		}
		rcptIndex := map[string]int{"a@example.org": 0, "b@example.org": 1, "c@example.org": 2}
		extOf := func(p string) (int, string, bool) {
			name := strings.TrimPrefix(p, src)
			for id, idx := range idIndex {
				if strings.HasPrefix(name, id+".") {
					switch strings.TrimPrefix(name, id+".") {
					case "header":
						return idx, "XHeader", true
					case "body":
						return idx, "XBody", true
					case "meta":
						return idx, "XMeta", true
					case "meta.new":
						return idx, "XMetaNew", true
					}
				}
			}
			return 0, "", false
		}

		for ci, c := range cps {
			dir := filepath.Join(base, fmt.Sprintf("s%dc%d", si, ci)) + string(filepath.Separator)
			os.MkdirAll(dir, 0o755)
			v2Materialise(ops, c.k, c.torn, c.tornLen, c.strong, src, dir)

			// decode table of the .meta files present
			var dec []string
			entries, _ := os.ReadDir(dir)
			for _, e := range entries {
				if strings.HasSuffix(e.Name(), ".meta") {
					data, _ := os.ReadFile(filepath.Join(dir, e.Name()))
					var qm QueueMetadata
					qm.MsgMeta = &module.MsgMetadata{}
					val := "None"
					if err := json.Unmarshal(data, &qm); err == nil {
						var to []string
						for _, x := range qm.To {
							to = append(to, cN(rcptIndex[x]))
						}
						exhausted := len(qm.To) > 0 && qm.TriesCount[qm.To[0]]+1 >= 3
						val = "(Some (" + cList(to) + ", " + cBool(exhausted) + "))"
					}
					dec = append(dec, "("+cBy(data)+", "+val+")")
				}
			}

			rec := &v2Rec{failFirst: ci%2 == 1}
			verifos.Reset(true)
			q2 := v2Queue(dir, rec, 0)
			v2WaitQuiet(q2, dir, 3*time.Second)
			q2.Close()
			var recFailed []string
			for _, o := range verifos.Log() {
				if o.Kind == "mark" {
					f := strings.Fields(o.Path)
					if f[0] == "failed" {
						if mi, ok := map[string]int(nil)[f[1]]; ok {
							_ = mi
						}
						recFailed = append(recFailed, f[1]+" "+f[2])
					}
				}
			}
			verifos.Reset(false)
			var listing []string
			entries, _ = os.ReadDir(dir)
			for _, e := range entries {
				if idx, ext, ok := extOf(filepath.Join(src, e.Name())); ok {
					listing = append(listing, fmt.Sprintf("(%s, %s)", cN(idx), ext))
				}
			}
			sort.Strings(listing)
			rec.mu.Lock()
			var dels []string
			for _, d := range rec.dels {
				mi, ok := idIndex[d.id]
				if !ok {
					continue
				}
				var rc []string
				for _, x := range d.rcpts {
					rc = append(rc, cN(rcptIndex[x]))
				}
				dels = append(dels, fmt.Sprintf("{| dl_id := %s; dl_rcpts := %s; dl_hdr_eq := %s; dl_body_eq := %s |}",
					cN(mi), cList(rc), cBool(bytes.Equal(d.hdr, sc.msgs[mi].hdr)), cBool(bytes.Equal(d.body, sc.msgs[mi].body))))
			}
			var offered, offeredFailed []string
			for _, o := range rec.offered {
				if mi, ok := idIndex[o[0]]; ok {
					offered = append(offered, fmt.Sprintf("(%s, %s)", cN(mi), cN(rcptIndex[o[1]])))
				}
			}
			rec.mu.Unlock()
			for _, rf := range recFailed {
				f := strings.Fields(rf)
				if mi, ok := idIndex[f[0]]; ok {
					offeredFailed = append(offeredFailed, fmt.Sprintf("(%s, %s)", cN(mi), cN(rcptIndex[f[1]])))
				}
			}
			sort.Strings(dels)
			os.RemoveAll(dir)

			// the prefix as model operations and markers
			var mops, marks []string
			for i := 0; i < c.k && i < len(ops); i++ {
				o := ops[i]
				if o.Kind == "mark" {
					f := strings.Fields(o.Path)
					mi := idIndex[f[1]]
					switch f[0] {
					case "accepted":
						marks = append(marks, fmt.Sprintf("(MAccepted %s)", cN(mi)))
					case "aborted":
						marks = append(marks, fmt.Sprintf("(MAborted %s)", cN(mi)))
					case "attempt":
						marks = append(marks, fmt.Sprintf("(MAttempt %s)", cN(mi)))
					case "offered":
						marks = append(marks, fmt.Sprintf("(MOffered %s %s)", cN(mi), cN(rcptIndex[f[2]])))
					case "delivered":
						marks = append(marks, fmt.Sprintf("(MDelivered %s %s)", cN(mi), cN(rcptIndex[f[2]])))
					case "failed":
						marks = append(marks, fmt.Sprintf("(MFailed %s %s)", cN(mi), cN(rcptIndex[f[2]])))
					}
					continue
				}
				idx, ext, ok := extOf(o.Path)
				if !ok {
					continue
				}
				switch o.Kind {
				case "create":
					mops = append(mops, fmt.Sprintf("(OCreate (%s, %s))", cN(idx), ext))
				case "write":
					mops = append(mops, fmt.Sprintf("(OWrite (%s, %s) %s)", cN(idx), ext, cBy(o.Data)))
				case "sync":
					mops = append(mops, fmt.Sprintf("(OSync (%s, %s))", cN(idx), ext))
				case "rename":
					_, ext2, _ := extOf(o.Path2)
					mops = append(mops, fmt.Sprintf("(ORename %s %s %s)", cN(idx), ext, ext2))
				case "remove":
					mops = append(mops, fmt.Sprintf("(ORemove (%s, %s))", cN(idx), ext))
				}
			}
			tornOp := "None"
			if c.torn && c.k < len(ops) {
				if idx, ext, ok := extOf(ops[c.k].Path); ok {
					tornOp = fmt.Sprintf("(Some (OWrite (%s, %s) %s))", cN(idx), ext, cBy(ops[c.k].Data[:c.tornLen]))
				}
			}
			var cmsgs []string
			for _, m := range sc.msgs {
				var rc []string
				for _, x := range m.rcpts {
					rc = append(rc, cN(rcptIndex[x]))
				}
				cmsgs = append(cmsgs, fmt.Sprintf("{| sm_rcpts := %s; sm_hdr := %s; sm_body := %s |}", cList(rc), cBy(m.hdr), cBy(m.body)))
			}
			stats["crash_points"]++
			if c.torn {
				stats["torn"]++
			}
			if c.strong {
				stats["strong"]++
			}
			out.Case(fmt.Sprintf("{| c_failfirst := "+cBool(rec.failFirst)+"; c_msgs := %s; c_ops := %s; c_torn := %s; c_strong := %s; c_marks := %s; c_decode := %s; c_dels := %s; c_offered := %s; c_rec_failed := %s; c_listing := %s |}",
				cList(cmsgs), cList(mops), tornOp, cBool(c.strong), cList(marks), cList(dec), cList(dels), cList(offered), cList(offeredFailed), cList(listing)))
		}
		stats["scenarios"]++
		stats[fmt.Sprintf("ops_%s", sc.name)] = len(ops)
		os.RemoveAll(src)
	}
	for k, v := range stats {
		out.Stat(k, v)
	}
}
