//go:build verif

package queue

// C10 harness.
//  (1) header stream: go-message ReadHeader/WriteHeader against the byte-level model.
//  (2) hand-off stream: the real queue; a recording target fails the first attempt temporarily
//      for some recipients, the queue is optionally restarted, and everything the target is
//      handed (header bytes, body bytes, envelope, options) is compared with what was accepted;
//      every spool file is searched for the session's credentials.

import (
	"bufio"
	"bytes"
	"context"
	"errors"
	"fmt"
	"io"
	"os"
	"path/filepath"
	"sort"
	"strings"
	"sync"
	"testing"
	"time"

	"github.com/emersion/go-message/textproto"
	"github.com/emersion/go-smtp"
	"github.com/foxcpp/maddy/framework/buffer"
	"github.com/foxcpp/maddy/framework/exterrors"
	"github.com/foxcpp/maddy/framework/log"
	"github.com/foxcpp/maddy/framework/module"
)

func cB(b []byte) string {
	if len(b) == 0 {
		return "(@nil N)"
	}
	return cBytes(b)
}

func vRawFields(h textproto.Header) [][]byte {
	var out [][]byte
	for f := h.Fields(); f.Next(); {
		raw, err := f.Raw()
		if err != nil {
			out = append(out, []byte("<raw error>"))
			continue
		}
		out = append(out, append([]byte(nil), raw...))
	}
	return out
}

var vHdrPieces = []string{
	"Subject: hello\r\n", "Subject:  spaced  \r\n", "From: <a@example.org>\r\n", "X-Long: " + strings.Repeat("word ", 30) + "\r\n",
	"Received: from a\r\n\tby b;\r\n  Wed, 1 Jan 2020\r\n", "X-8bit: h\xe9llo \xff\r\n", "X-UTF8: héllo 日本\r\n", "X-Empty:\r\n", "X-Dup: 1\r\n", "X-Dup: 2\r\n",
	"X-LF-only: value\n", "X-LF-Cont: a\n b\n", "X-Colon: a: b: c\r\n", "Key-With-Space : v\r\n", "X-CR: a\rb\r\n", "X-CRCR: a\r\r\n", "X-Trail: v \t\r\n",
	"lowercase-key: v\r\n", "X-Tab:\tv\r\n",
}
var vHdrBad = []string{" leading space: v\r\n", "no colon here\r\n", ": empty key\r\n", "Bad Key: v\r\n", "Bäd: v\r\n", "X: v\r\n\r\nBody: not header\r\n", "X-Unterminated: v", "\r\n", "", "X: a\r\n \r\n", "X\x00: v\r\n"}

func TestVerif_C10Header(t *testing.T) {
	out := vOpenOut()
	defer out.Close()
	n := vEnvInt("VERIF_N", 300)
	r := vNewRand(1010)
	stats := map[string]int{}
	emit := func(inp []byte) {
		br := bufio.NewReader(bytes.NewReader(inp))
		h, err := textproto.ReadHeader(br)
		rest, _ := io.ReadAll(br)
		res := "HErr"
		written := "None"
		same := false
		if err == nil {
			var fs []string
			raws := vRawFields(h)
			for _, f := range raws {
				fs = append(fs, cB(f))
			}
			res = "(HOk " + cList(fs) + " " + cB(rest) + ")"
			var w bytes.Buffer
			if werr := textproto.WriteHeader(&w, h); werr == nil {
				written = "(Some " + cB(w.Bytes()) + ")"
				h2, err2 := textproto.ReadHeader(bufio.NewReader(bytes.NewReader(w.Bytes())))
				if err2 == nil {
					raws2 := vRawFields(h2)
					same = len(raws) == len(raws2)
					for i := range raws {
						if same && !bytes.Equal(raws[i], raws2[i]) {
							same = false
						}
					}
				}
			}
			stats["ok"]++
		} else {
			stats["err"]++
		}
		out.Case(fmt.Sprintf("{| c_inp := %s; c_res := %s; c_written := %s; c_reread_same := %s |}", cB(inp), res, written, cBool(same)))
	}
	for _, p := range vHdrPieces {
		emit([]byte(p + "\r\nbody"))
	}
	for _, p := range vHdrBad {
		emit([]byte(p))
	}
	for i := 0; i < n; i++ {
		var b bytes.Buffer
		k := r.intn(6)
		for j := 0; j < k; j++ {
			if r.chance(8) {
				b.WriteString(vHdrBad[r.intn(len(vHdrBad))])
			} else {
				b.WriteString(vHdrPieces[r.intn(len(vHdrPieces))])
			}
		}
		switch r.intn(4) {
		case 0:
			b.WriteString("\r\n")
		case 1:
			b.WriteString("\r\nbody line\r\nmore\r\n")
		case 2:
			b.WriteString("\n\nbody")
		}
		inp := b.Bytes()
		if r.chance(15) && len(inp) > 0 {
			p := r.intn(len(inp))
			inp = append(append(append([]byte(nil), inp[:p]...), []byte{byte(r.intn(256))}...), inp[p:]...)
		}
		emit(inp)
	}
	for k, v := range stats {
		out.Stat(k, v)
	}
}

// ---------------- hand-off stream ----------------

type vHand struct {
	hdr    []byte
	body   []byte
	from   string
	rcpts  []string
	id     string
	meta   module.MsgMetadata
	connOK bool // Conn == nil at hand-off (connection state is not persisted) or the original pointer on the first attempt
}
type vHTarget struct {
	mu       sync.Mutex
	attempts []*vHand
	failFor  map[string]bool // temporary failure for these recipients on the first attempt
	failBody bool            // the first attempt fails at Body for everybody
}
type vHDelivery struct {
	t     *vHTarget
	h     *vHand
	first bool
}

func (t *vHTarget) Start(ctx context.Context, msgMeta *module.MsgMetadata, mailFrom string) (module.Delivery, error) {
	t.mu.Lock()
	defer t.mu.Unlock()
	h := &vHand{from: mailFrom, id: msgMeta.ID, meta: *msgMeta}
	t.attempts = append(t.attempts, h)
	return &vHDelivery{t: t, h: h, first: len(t.attempts) == 1}, nil
}
func (d *vHDelivery) AddRcpt(ctx context.Context, rcptTo string, _ smtp.RcptOptions) error {
	d.h.rcpts = append(d.h.rcpts, rcptTo)
	if d.first && d.t.failFor[rcptTo] {
		return exterrors.WithTemporary(errors.New("try later"), true)
	}
	return nil
}
func (d *vHDelivery) Body(ctx context.Context, header textproto.Header, body buffer.Buffer) error {
	var w bytes.Buffer
	textproto.WriteHeader(&w, header)
	d.h.hdr = w.Bytes()
	r, err := body.Open()
	if err != nil {
		return err
	}
	defer r.Close()
	d.h.body, _ = io.ReadAll(r)
	if d.first && d.t.failBody {
		return exterrors.WithTemporary(errors.New("try later"), true)
	}
	return nil
}
func (d *vHDelivery) Commit(ctx context.Context) error { return nil }
func (d *vHDelivery) Abort(ctx context.Context) error  { return nil }

func vNewQ(dir string, tgt module.DeliveryTarget) *Queue {
	mod, _ := NewQueue("", "queue", nil, nil)
	q := mod.(*Queue)
	q.initialRetryTime = 0
	q.retryTimeScale = 1
	q.postInitDelay = 0
	q.maxTries = 5
	q.location = dir
	q.Target = tgt
	q.hostname = "mx.verif.test"
	q.Log = log.Logger{Out: log.NopOutput{}}
	if err := q.start(1); err != nil {
		panic(err)
	}
	return q
}

func vScanSecrets(dir string, secrets []string) []string {
	var found []string
	entries, _ := os.ReadDir(dir)
	for _, e := range entries {
		data, err := os.ReadFile(filepath.Join(dir, e.Name()))
		if err != nil {
			continue
		}
		for _, s := range secrets {
			if bytes.Contains(data, []byte(s)) {
				found = append(found, e.Name()+":"+s)
			}
		}
	}
	return found
}

func cOrig(m map[string]string) string {
	var ks []string
	for k := range m {
		ks = append(ks, k)
	}
	sort.Strings(ks)
	var items []string
	for _, k := range ks {
		items = append(items, "("+cB([]byte(k))+", "+cB([]byte(m[k]))+")")
	}
	return cList(items)
}

var vRcpts10 = []string{"a@example.org", "A@example.org", "b@example.org", "b@EXAMPLE.org", "\"quoted local\"@example.org", "d@тест.example", "юзер@example.org", "e@xn--e1aybc.example"}
var vFroms10 = []string{"sender@example.org", "", "s@тест.example", "\"odd sender\"@example.org"}

func TestVerif_C10(t *testing.T) {
	out := vOpenOut()
	defer out.Close()
	n := vEnvInt("VERIF_N", 60)
	r := vNewRand(10)
	stats := map[string]int{}
	base := t.TempDir()

	for i := 0; i < n; i++ {
		dir := filepath.Join(base, fmt.Sprintf("q%d", i))
		os.MkdirAll(dir, 0o755)
		tgt := &vHTarget{failFor: map[string]bool{}}
		q := vNewQ(dir, tgt)

		// header as the endpoint parses it
		var hb bytes.Buffer
		k := 1 + r.intn(6)
		for j := 0; j < k; j++ {
			hb.WriteString(vHdrPieces[r.intn(len(vHdrPieces))])
		}
		if r.chance(10) {
			hb.WriteString("X-Huge: " + strings.Repeat("x", 5000) + "\r\n")
		}
		// every 13th case (chosen without drawing, so that changes of the generator cannot lose the shape):
		// a header beyond 1 MiB whose second attempt reads it back from the spool
		forceBulk := i%13 == 5
		if bulk := r.chance(8); bulk || forceBulk {
			// header beyond 1 MiB (endpoints can be configured with a larger max_header_size)
			for j := 0; j < 1300; j++ {
				hb.WriteString("X-Bulk: " + strings.Repeat("y", 900) + "\r\n")
			}
			stats["header_over_1MiB"]++
		}
		hb.WriteString("\r\n")
		hdr, err := textproto.ReadHeader(bufio.NewReader(bytes.NewReader(hb.Bytes())))
		if err != nil {
			continue
		}
		// fields added by maddy itself before queueing (no raw form yet)
		hdr.Add("Received", "from client.example.org (client.example.org [192.0.2.1]) by mx.verif.test (envelope-sender <s@example.org>) with ESMTPS id abcdef; Wed, 01 Jan 2020 00:00:00 +0000")
		if r.chance(50) {
			hdr.Add("Authentication-Results", "mx.verif.test; spf=pass smtp.mailfrom=example.org; dkim=none")
		}
		var accHdr bytes.Buffer
		textproto.WriteHeader(&accHdr, hdr)

		var body []byte
		switch r.intn(5) {
		case 0:
			body = nil
		case 1:
			body = []byte("hello\r\n.\r\n..dots\r\n")
		case 2:
			body = make([]byte, 3000)
			for j := range body {
				body[j] = byte(r.intn(256))
			}
		case 3:
			body = bytes.Repeat([]byte("0123456789abcdef\r\n"), 60000) // > 1 MiB: spills to a file buffer at the endpoint
		default:
			body = []byte("no final newline")
		}
		var bodyBuf buffer.Buffer = buffer.MemoryBuffer{Slice: body}
		if len(body) > 1<<20 || r.chance(20) {
			fb, err := buffer.BufferInFile(bytes.NewReader(body), base)
			if err != nil {
				t.Fatal(err)
			}
			bodyBuf = fb
			stats["file_buffer"]++
		}

		from := vFroms10[r.intn(len(vFroms10))]
		nr := 1 + r.intn(3)
		perm := r.intn(len(vRcpts10))
		var to []string
		for j := 0; j < nr; j++ {
			to = append(to, vRcpts10[(perm+j)%len(vRcpts10)])
		}
		user, pass := fmt.Sprintf("secretuser%d", i), fmt.Sprintf("S3cr3t-Pa55-%d", r.intn(1<<30))
		id, _ := module.GenerateMsgID()
		// the metadata as the endpoint and the pipeline hand it over: the quarantine flag, the TLS-Required
		// override (known only when the header has been read) and the original-recipient entries (one per
		// RCPT) are set on the shared object after the queue's Start, some of the time
		wantQuar, wantOverride := r.chance(10), r.chance(30)
		late := r.chance(50)
		meta := &module.MsgMetadata{
			ID: id, OriginalFrom: from,
			SMTPOpts:      smtp.MailOptions{UTF8: r.chance(60), RequireTLS: r.chance(30)},
			OriginalRcpts: map[string]string{},
			Conn:          &module.ConnState{Hostname: "client.example.org", Proto: "ESMTPSA", AuthUser: user, AuthPassword: pass},
		}
		origFor := map[string]string{}
		if r.chance(40) {
			origFor[to[0]] = "alias@example.org"
		}
		if len(to) > 1 && r.chance(40) {
			origFor[to[len(to)-1]] = "list@example.org"
		}
		if !late {
			meta.Quarantine, meta.TLSRequireOverride = wantQuar, wantOverride
			for k, v := range origFor {
				meta.OriginalRcpts[k] = v
			}
		}
		// first attempt: a strict subset refused temporarily at RCPT, or everybody at the body stage
		if r.chance(30) {
			tgt.failBody = true
		} else {
			for _, rc := range to[1:] {
				if r.chance(60) {
					tgt.failFor[rc] = true
				}
			}
		}
		restart := r.chance(50)
		if forceBulk {
			tgt.failBody = true
			stats["header_over_1MiB_read_back"]++
		}

		ctx := context.Background()
		d, err := q.Start(ctx, meta, from)
		if err != nil {
			t.Fatal(err)
		}
		for _, rc := range to {
			if late {
				if o, ok := origFor[rc]; ok {
					meta.OriginalRcpts[rc] = o
				}
			}
			d.AddRcpt(ctx, rc, smtp.RcptOptions{})
		}
		if late {
			meta.Quarantine, meta.TLSRequireOverride = wantQuar, wantOverride
			stats["metadata-completed-after-start"]++
		}
		if err := d.Body(ctx, hdr, bodyBuf); err != nil {
			t.Fatal(err)
		}
		leaks := vScanSecrets(dir, []string{user, pass})
		if restart {
			q.initialRetryTime = time.Hour // the retry is left to the restarted queue
		}
		if err := d.Commit(ctx); err != nil {
			t.Fatal(err)
		}

		wait := func(want int) {
			deadline := time.Now().Add(5 * time.Second)
			for time.Now().Before(deadline) {
				tgt.mu.Lock()
				n := len(tgt.attempts)
				done := n >= want && tgt.attempts[n-1].hdr != nil
				tgt.mu.Unlock()
				if done {
					time.Sleep(5 * time.Millisecond)
					return
				}
				time.Sleep(200 * time.Microsecond)
			}
		}
		wantAttempts := 1
		if tgt.failBody {
			wantAttempts = 2
		}
		for _, rc := range to {
			if tgt.failFor[rc] {
				wantAttempts = 2
			}
		}
		wait(1)
		leaks = append(leaks, vScanSecrets(dir, []string{user, pass})...)
		if wantAttempts == 2 {
			if restart {
				time.Sleep(10 * time.Millisecond) // let the first attempt persist its metadata
				q.Close()
				q = vNewQ(dir, tgt)
				stats["restarts"]++
			}
			wait(2)
		}
		time.Sleep(5 * time.Millisecond)
		q.Close()
		leaks = append(leaks, vScanSecrets(dir, []string{user, pass})...)

		tgt.mu.Lock()
		var hands []string
		for _, h := range tgt.attempts {
			var rc []string
			for _, x := range h.rcpts {
				rc = append(rc, cB([]byte(x)))
			}
			idOK := strings.HasPrefix(h.id, id+"-")
			hdrEq := bytes.Equal(h.hdr, accHdr.Bytes())
			hdrShown := h.hdr
			if len(hdrShown) > 20000 {
				hdrShown = nil // too large to hand to the model: only the byte comparison is reported
			}
			hands = append(hands, fmt.Sprintf("{| h_hdr := %s; h_hdr_eq := %s; h_body_eq := %s; h_from := %s; h_rcpts := %s; h_id_ok := %s; h_orig_from := %s; h_utf8 := %s; h_requiretls := %s; h_override := %s; h_quarantine := %s; h_orig_rcpts := %s |}",
				cB(hdrShown), cBool(hdrEq), cBool(bytes.Equal(h.body, body)), cB([]byte(h.from)), cList(rc), cBool(idOK), cB([]byte(h.meta.OriginalFrom)),
				cBool(h.meta.SMTPOpts.UTF8), cBool(h.meta.SMTPOpts.RequireTLS), cBool(h.meta.TLSRequireOverride), cBool(h.meta.Quarantine), cOrig(h.meta.OriginalRcpts)))
		}
		tgt.mu.Unlock()
		var cto, cfail []string
		for _, x := range to {
			cto = append(cto, cB([]byte(x)))
			if tgt.failFor[x] || tgt.failBody {
				cfail = append(cfail, cB([]byte(x)))
			}
		}
		stats[fmt.Sprintf("attempts_%d", len(hands))]++
		accShown := accHdr.Bytes()
		if len(accShown) > 20000 {
			accShown = nil
		}
		out.Case(fmt.Sprintf("{| c_hdr := %s; c_from := %s; c_to := %s; c_fail_first := %s; c_orig_from := %s; c_utf8 := %s; c_requiretls := %s; c_override := %s; c_quarantine := %s; c_orig_rcpts := %s; c_hands := %s; c_leaks := %s |}",
			cB(accShown), cB([]byte(from)), cList(cto), cList(cfail), cB([]byte(from)), cBool(meta.SMTPOpts.UTF8), cBool(meta.SMTPOpts.RequireTLS),
			cBool(meta.TLSRequireOverride), cBool(meta.Quarantine), cOrig(meta.OriginalRcpts), cList(hands), cN(len(leaks))))
		os.RemoveAll(dir)
	}
	for k, v := range stats {
		out.Stat(k, v)
	}
}
