//go:build verif

package pass_table

// C14 harness (history stream): histories of account management and authentication against
// auth.pass_table over a mutable in-memory table, with the SASL layer of internal/auth
// (PLAIN and LOGIN exchanges, auth_map_normalize, auth_map) in front of it.
//
// bcrypt runs at its minimal cost: the exported HashCompute table entry is wrapped so that the
// cost option is ignored (the code under test, and the cost it asks for, are unchanged).

import (
	"context"
	"fmt"
	"sort"
	"strings"
	"testing"

	"github.com/emersion/go-sasl"
	"github.com/foxcpp/maddy/framework/config"
	"github.com/foxcpp/maddy/framework/log"
	"github.com/foxcpp/maddy/framework/module"
	"github.com/foxcpp/maddy/internal/auth"
	"github.com/foxcpp/maddy/internal/authz"
	"github.com/foxcpp/maddy/internal/table"
	"golang.org/x/crypto/bcrypt"
	"golang.org/x/text/secure/precis"
)

type vMut struct{ m map[string]string }

func (t *vMut) Lookup(_ context.Context, k string) (string, bool, error) {
	v, ok := t.m[k]
	return v, ok, nil
}
func (t *vMut) Keys() ([]string, error) {
	var l []string
	for k := range t.m {
		l = append(l, k)
	}
	return l, nil
}
func (t *vMut) RemoveKey(k string) error { delete(t.m, k); return nil }
func (t *vMut) SetKey(k, v string) error { t.m[k] = v; return nil }

// recording wrappers
type vRecTable struct {
	inner module.Table
	rec   map[string]*string
}

func (r *vRecTable) Lookup(ctx context.Context, k string) (string, bool, error) {
	v, ok, err := r.inner.Lookup(ctx, k)
	if err != nil || !ok {
		r.rec[k] = nil
	} else {
		vv := v
		r.rec[k] = &vv
	}
	return v, ok, err
}

type vRecAuth struct {
	inner *Auth
	seen  map[string]bool
}

func (r *vRecAuth) AuthPlain(u, p string) error { r.seen[u] = true; return r.inner.AuthPlain(u, p) }

func vOtab(m map[string]*string) string {
	keys := make([]string, 0, len(m))
	for k := range m {
		keys = append(keys, k)
	}
	sort.Strings(keys)
	items := make([]string, 0, len(keys))
	for _, k := range keys {
		v := m[k]
		if v == nil {
			items = append(items, "("+cBytes([]byte(k))+", None)")
		} else {
			items = append(items, "("+cBytes([]byte(k))+", Some "+cBytes([]byte(*v))+")")
		}
	}
	return cList(items)
}

var vUsers = []string{
	"alice", "Alice", "ALICE", "\uff41lice", "alic\u00e9", "alice\u0301", "ALIC\u00c9",
	"bob", "Bob", "carol", "bob@example.org", "Bob@Example.ORG", "BOB@example.org", "carol@example.org",
	"stra\u00dfe", "STRASSE", "strasse", "\u01c5", "\u01c6", "", "a b", "x\u00ady", "\u00c5", "A\u030a", "\u212b", "\u00e5",
}
var vPasswords = []string{
	"", "p", "q", "P", "p\u00e4ssw\u00f6rd", "pa\u0308sswo\u0308rd", "correct horse battery staple",
	strings.Repeat("a", 71), strings.Repeat("a", 72), strings.Repeat("a", 73), strings.Repeat("a", 72) + "b",
	strings.Repeat("\u00e9", 36), strings.Repeat("\u00e9", 36) + "x", strings.Repeat("z", 300), " ", "p ",
}
var vNulPasswords = []string{"abc\x00abc", "abc", "p\x00"}

func vMap(r *vRand) (module.Table, string) {
	switch r.intn(6) {
	case 0, 1:
		return nil, "none"
	case 2:
		m, _ := table.NewIdentity("table.identity", "", nil, nil)
		return m.(module.Table), "identity"
	case 3: // static, possibly not idempotent
		mm := map[string]string{}
		names := []string{"alice", "bob", "carol", "bob@example.org", "carol@example.org", "Alice", "stra\u00dfe", "strasse"}
		for i := 0; i < 2+r.intn(6); i++ {
			mm[names[r.intn(len(names))]] = names[r.intn(len(names))]
		}
		if r.chance(50) {
			mm["alice"], mm["bob"] = "bob", "carol"
		}
		return vStatic{mm}, "static"
	case 4: // regexp: strip the domain
		m, _ := table.NewRegexp("table.regexp", "", nil, []string{"(.+)@example.org", "$1"})
		re := m.(*table.Regexp)
		if err := re.Init(config.NewMap(nil, config.Node{Children: []config.Node{{Name: "expand_replaceholders"}, {Name: "full_match"}}})); err != nil {
			panic(err)
		}
		return re, "regexp-strip"
	default: // regexp: not idempotent
		m, _ := table.NewRegexp("table.regexp", "", nil, []string{"(.*)", "${1}@example.org"})
		re := m.(*table.Regexp)
		if err := re.Init(config.NewMap(nil, config.Node{Children: []config.Node{{Name: "expand_replaceholders"}}})); err != nil {
			panic(err)
		}
		return re, "regexp-append"
	}
}

type vStatic struct{ m map[string]string }

func (s vStatic) Lookup(_ context.Context, k string) (string, bool, error) {
	v, ok := s.m[k]
	return v, ok, nil
}

func vSasl(srv sasl.Server, steps [][]byte) (bool, error) {
	var err error
	done := false
	for _, s := range steps {
		if done {
			break
		}
		_, done, err = srv.Next(s)
		if err != nil {
			return false, err
		}
	}
	return done, nil
}

func TestVerif_C14(t *testing.T) {
	out := vOpenOut()
	defer out.Close()
	n := vEnvInt("VERIF_N", 100)

	origBcrypt := HashCompute[HashBcrypt]
	HashCompute[HashBcrypt] = func(opts HashOpts, pass string) (string, error) {
		opts.BcryptCost = bcrypt.MinCost
		return origBcrypt(opts, pass)
	}
	defer func() { HashCompute[HashBcrypt] = origBcrypt }()

	normNames := []string{"auto", "precis_casefold_email", "precis_casefold", "precis", "casefold", "noop"}
	stats := map[string]int{}
	for ci := 0; ci < n; ci++ {
		r := vNewRand(uint64(1400000 + ci))
		mt := &vMut{m: map[string]string{}}
		a := &Auth{modName: "auth.pass_table", table: mt}
		recA := &vRecAuth{inner: a, seen: map[string]bool{}}
		normName := normNames[r.intn(len(normNames))]
		if r.chance(40) {
			normName = "auto"
		}
		snormRec := map[string]*string{}
		nf := authz.NormalizeFuncs[normName]
		amapT, mapKind := vMap(r)
		var recMap *vRecTable
		s := &auth.SASLAuth{
			Log:         log.Logger{Out: log.NopOutput{}},
			EnableLogin: true,
			AuthNormalize: func(u string) (string, error) {
				v, err := nf(u)
				if err != nil {
					snormRec[u] = nil
				} else {
					vv := v
					snormRec[u] = &vv
				}
				return v, err
			},
			Plain: []module.PlainAuth{recA},
		}
		if amapT != nil {
			recMap = &vRecTable{inner: amapT, rec: map[string]*string{}}
			s.AuthMap = recMap
		}
		stats["map="+mapKind]++
		stats["norm="+normName]++

		// a small working set so that operations collide
		users := make([]string, 0, 5)
		for i := 0; i < 2+r.intn(4); i++ {
			users = append(users, vUsers[r.intn(len(vUsers))])
		}
		if r.chance(50) { // a family of spellings of one account
			fam := [][]string{{"alice", "Alice", "ALICE", "\uff41lice"}, {"alic\u00e9", "alice\u0301", "ALIC\u00c9"},
				{"bob@example.org", "Bob@Example.ORG", "BOB@example.org", "bob"}, {"stra\u00dfe", "STRASSE", "strasse"}, {"\u00c5", "A\u030a", "\u212b", "\u00e5"}}[r.intn(5)]
			users = append(users, fam...)
		}
		pws := make([]string, 0, 4)
		for i := 0; i < 2+r.intn(3); i++ {
			pws = append(pws, vPasswords[r.intn(len(vPasswords))])
		}
		if r.chance(25) {
			pws = append(pws, strings.Repeat("a", 72), strings.Repeat("a", 72)+"b", strings.Repeat("a", 71))
		}
		nul := r.chance(8)
		pickU := func() string { return users[r.intn(len(users))] }
		pickP := func() string { return pws[r.intn(len(pws))] }

		type vPair struct{ u, p string }
		var good []vPair
		var ops, outs []string
		directSeen := map[string]bool{}
		nOps := 1 + r.intn(12)
		for oi := 0; oi < nOps; oi++ {
			switch k := r.intn(100); {
			case k < 25:
				u, p := pickU(), pickP()
				algo, calgo := HashBcrypt, "SBcrypt"
				switch r.intn(10) {
				case 0, 1, 2, 3:
					algo, calgo = HashArgon2, "SArgon2"
				case 4:
					algo, calgo = HashSHA256, "SSha256"
				}
				err := a.CreateUserHash(u, p, algo, HashOpts{BcryptCost: bcrypt.MinCost, Argon2Time: 1, Argon2Memory: 8, Argon2Threads: 1})
				directSeen[u] = true
				ops = append(ops, fmt.Sprintf("OManage (MCreate %s %s %s)", cBytes([]byte(u)), cBytes([]byte(p)), calgo))
				outs = append(outs, "RManage "+cBool(err == nil))
				if err == nil {
					good = append(good, vPair{u, p})
				}
				stats["op=create"]++
			case k < 37:
				u, p := pickU(), pickP()
				err := a.SetUserPassword(u, p)
				directSeen[u] = true
				ops = append(ops, fmt.Sprintf("OManage (MSet %s %s)", cBytes([]byte(u)), cBytes([]byte(p))))
				outs = append(outs, "RManage "+cBool(err == nil))
				if err == nil {
					good = append(good, vPair{u, p})
				}
				stats["op=set"]++
			case k < 45:
				u := pickU()
				err := a.DeleteUser(u)
				directSeen[u] = true
				ops = append(ops, fmt.Sprintf("OManage (MDelete %s)", cBytes([]byte(u))))
				outs = append(outs, "RManage "+cBool(err == nil))
				stats["op=delete"]++
			default:
				u, p := pickU(), pickP()
				if len(good) > 0 && r.chance(60) { // around credentials that were set at some point
					g := good[len(good)-1-r.intn((len(good)+1)/2)]
					p = g.p
					if r.chance(60) {
						u = g.u
					}
					switch r.intn(10) {
					case 0:
						p += "b"
					case 1:
						if len(p) > 0 {
							p = p[:len(p)-1]
						}
					case 2:
						p = pickP()
					}
				}
				if nul && r.chance(50) {
					p = vNulPasswords[r.intn(len(vNulPasswords))]
				}
				// direct
				err := a.AuthPlain(u, p)
				directSeen[u] = true
				ops = append(ops, fmt.Sprintf("ODirect %s %s", cBytes([]byte(u)), cBytes([]byte(p))))
				outs = append(outs, "RDirect "+cBool(err == nil))
				if err == nil {
					stats["direct-ok"]++
				}
				stats["op=auth"]++
				if strings.ContainsRune(p, 0) || strings.ContainsRune(u, 0) {
					// not expressible in a PLAIN response; LOGIN only
				} else {
					authzid := ""
					switch r.intn(6) {
					case 0:
						authzid = u
					case 1:
						authzid = pickU()
					}
					var id *string
					srv := s.CreateSASL(sasl.Plain, nil, func(identity string, _ auth.ContextData) error { id = &identity; return nil })
					done, err := vSasl(srv, [][]byte{[]byte(authzid + "\x00" + u + "\x00" + p)})
					if err != nil || !done {
						id = nil
					}
					ops = append(ops, fmt.Sprintf("OPlain %s %s %s", cBytes([]byte(authzid)), cBytes([]byte(u)), cBytes([]byte(p))))
					outs = append(outs, "RSasl "+vOptBytes(id))
					if id != nil {
						stats["plain-ok"]++
					}
					if authzid != "" && authzid != u {
						stats["plain-foreign-authzid"]++
					}
				}
				var id *string
				srv := s.CreateSASL(sasl.Login, nil, func(identity string, _ auth.ContextData) error { id = &identity; return nil })
				steps := [][]byte{nil, []byte(u), []byte(p)}
				if r.chance(30) {
					steps = steps[1:] // initial response
					if u == "" {
						steps[0] = []byte{}
					}
				}
				done, err2 := vSasl(srv, steps)
				if err2 != nil || !done {
					id = nil
				}
				ops = append(ops, fmt.Sprintf("OLogin %s %s", cBytes([]byte(u)), cBytes([]byte(p))))
				outs = append(outs, "RSasl "+vOptBytes(id))
				if id != nil {
					stats["login-ok"]++
				}
			}
		}
		// PRECIS table: every name that reached pass_table
		normRec := map[string]*string{}
		for u := range directSeen {
			recA.seen[u] = true
		}
		for u := range recA.seen {
			k, err := precis.UsernameCaseMapped.CompareKey(u)
			if err != nil {
				normRec[u] = nil
			} else {
				kk := k
				normRec[u] = &kk
			}
		}
		amapTerm := "None"
		if recMap != nil {
			amapTerm = "(Some " + vOtab(recMap.rec) + ")"
		}
		out.Case(fmt.Sprintf("CHist %s %s %s %s %s", vOtab(normRec), vOtab(snormRec), amapTerm, cList(ops), cList(outs)))
	}
	keys := make([]string, 0, len(stats))
	for k := range stats {
		keys = append(keys, k)
	}
	sort.Strings(keys)
	for _, k := range keys {
		out.Stat(k, stats[k])
	}
}

func vOptBytes(s *string) string {
	if s == nil {
		return "None"
	}
	return "(Some " + cBytes([]byte(*s)) + ")"
}
