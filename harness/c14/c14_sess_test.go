//go:build verif

package smtp

// C14 harness (session stream): command sequences against a real endpoint over TCP; the
// endpoint is either "submission" (authentication always required) or "smtp" with an auth
// provider configured.

import (
	"errors"
	"fmt"
	"testing"

	"github.com/emersion/go-sasl"
	"github.com/emersion/go-smtp"
	"github.com/foxcpp/maddy/internal/testutils"
)

type vPwAuth struct{}

func (vPwAuth) AuthPlain(u, p string) error {
	if u != "" && p == "ok" {
		return nil
	}
	return errors.New("bad credentials")
}

func TestVerif_C14Sess(t *testing.T) {
	out := vOpenOut()
	defer out.Close()
	n := vEnvInt("VERIF_N", 20)
	nMailOK, nMailRefused, nAuthOK := 0, 0, 0
	for ci := 0; ci < n; ci++ {
		r := vNewRand(uint64(1450000 + ci))
		submission := r.chance(70)
		mod := "smtp"
		if submission {
			mod = "submission"
		}
		tgt := testutils.Target{}
		endp := testEndpoint(t, mod, vPwAuth{}, &tgt, nil, nil)
		endp.saslAuth.EnableLogin = true
		cl, err := smtp.Dial("127.0.0.1:" + testPort)
		if err != nil {
			endp.Close()
			t.Fatal(err)
		}
		var cmds, replies []string
		authed := false
		directed := ci%4 == 3 // a refused exchange with valid credentials (foreign authorization identity), then MAIL
		for i := 0; i < 1+r.intn(6); i++ {
			// go-smtp drops a client after its fourth refused command ("too many errors"); the model of the
			// session does not go that far: the session ends with the third refusal
			fails := 0
			for _, x := range replies {
				if x == "false" {
					fails++
				}
			}
			if fails >= 3 {
				break
			}
			k := r.intn(10)
			if directed && i == 0 {
				err := cl.Auth(sasl.NewPlainClient("someone-else", "user", "ok"))
				cmds = append(cmds, "CAuth None")
				replies = append(replies, cBool(err == nil))
				if err == nil {
					authed = true
				}
				continue
			}
			if directed && i == 1 {
				k = 0
			}
			switch {
			case k < 4:
				err := cl.Mail("sender@example.org", nil)
				cmds = append(cmds, "CMail")
				replies = append(replies, cBool(err == nil))
				if err == nil {
					nMailOK++
					cl.Reset()
				} else {
					nMailRefused++
				}
			case k < 9 && !authed:
				user := []string{"user", "u2", "user@example.org"}[r.intn(3)]
				pw := "ok"
				if r.chance(50) {
					pw = "bad"
				}
				var c sasl.Client
				switch r.intn(3) {
				case 0:
					c = sasl.NewPlainClient("", user, pw)
				case 1:
					c = sasl.NewLoginClient(user, pw)
				default:
					other := "someone-else"
					c = sasl.NewPlainClient(other, user, pw)
					pw = "bad" // must be refused whatever the password
				}
				err := cl.Auth(c)
				if err == nil {
					authed = true
					nAuthOK++
					cmds = append(cmds, "CAuth (Some "+cBytes([]byte(user))+")")
				} else {
					if pw == "ok" {
						t.Logf("valid credentials refused: %v", err)
					}
					cmds = append(cmds, "CAuth None")
				}
				replies = append(replies, cBool(err == nil))
			default:
				err := cl.Reset()
				cmds = append(cmds, "CRset")
				replies = append(replies, cBool(err == nil))
			}
		}
		cl.Close()
		endp.Close()
		out.Case(fmt.Sprintf("CSess %s %s %s", cBool(submission), cList(cmds), cList(replies)))
	}
	out.Stat("mail-accepted", nMailOK)
	out.Stat("mail-refused", nMailRefused)
	out.Stat("auth-ok", nAuthOK)
}
