//go:build verif

package pool

// C19 harness.  Sequential stream: operation sequences (Get, Return, CleanUp, Close) on a real
// pool with instrumented connections, lifetimes either never or always exceeded.  Concurrent
// stream: 2-8 workers doing get / use / return / close on 1-3 keys with small idle bounds,
// a clean-up goroutine and one shutdown, with random yields; every event is logged in an order
// consistent with happens-before.

import (
	"context"
	"fmt"
	"runtime"
	"sort"
	"sync"
	"sync/atomic"
	"testing"
	"time"
)

type v19World struct {
	mu     sync.Mutex
	closed []int
	log    []string
	wg     sync.WaitGroup
}

type v19Conn struct {
	w        *v19World
	id       int
	bad      bool
	old      bool
	byOwner  atomic.Int32 // the next Close is the owner's (actor id + 1)
	conc     bool
	onUsable func() // runs a competing pool operation at the point where Get has unlocked and holds this connection
	onClose  func() // the same for the point where Return closes the connections of a collected stale bucket
}

func (c *v19Conn) Usable() bool {
	if f := c.onUsable; f != nil {
		c.onUsable = nil
		f()
	}
	return !c.bad
}
func (c *v19Conn) LastUseAt() time.Time {
	if c.old {
		return time.Now().Add(-48 * time.Hour)
	}
	return time.Now()
}
func (c *v19Conn) Close() error {
	if f := c.onClose; f != nil {
		c.onClose = nil
		f()
	}
	c.w.mu.Lock()
	c.w.closed = append(c.w.closed, c.id)
	if c.conc {
		if a := c.byOwner.Swap(0); a == 0 {
			c.w.log = append(c.w.log, fmt.Sprintf("EPoolClose %s", cN(c.id)))
		}
	}
	c.w.mu.Unlock()
	return nil
}

func TestVerif_C19(t *testing.T) {
	out := vOpenOut()
	defer out.Close()
	n := vEnvInt("VERIF_N", 100)
	ctx := context.Background()
	stats := map[string]int{}
	for ci := 0; ci < n; ci++ {
		r := vNewRand(uint64(1900000 + ci))
		expired, stale := r.chance(20), r.chance(35)
		capN, maxKeys := r.intn(3), 1+r.intn(3)
		cfg := Config{MaxKeys: maxKeys, MaxConnsPerKey: capN, MaxConnLifetimeSec: 3600, StaleKeyLifetimeSec: 3600}
		if expired {
			cfg.MaxConnLifetimeSec = -1
		}
		if stale {
			cfg.StaleKeyLifetimeSec = -1
		}
		p := New(cfg)
		w := &v19World{}
		conns := map[int]*v19Conn{}
		var held []int
		var bad []string
		nextTok := 0
		var ops, res []string
		closedPool := false
		settle := func() { time.Sleep(150 * time.Microsecond); runtime.Gosched() }
		for oi := 0; oi < 2+r.intn(14); oi++ {
			switch k := r.intn(100); {
			case k < 40:
				key := r.intn(3)
				c, err := p.Get(ctx, fmt.Sprint(key))
				if err != nil {
					t.Fatal(err)
				}
				ops = append(ops, "PGet "+cN(key))
				if c == nil {
					res = append(res, "RNone")
				} else {
					id := c.(*v19Conn).id
					res = append(res, "(RConn "+cN(id)+")")
					held = append(held, id)
					stats["got"]++
				}
			case k < 85:
				// return a held connection, or a new one
				var id int
				if len(held) > 0 && r.chance(50) {
					i := r.intn(len(held))
					id = held[i]
					held = append(held[:i], held[i+1:]...)
				} else {
					id = nextTok
					nextTok++
					c := &v19Conn{w: w, id: id, bad: r.chance(20), old: r.chance(15)}
					conns[id] = c
					if c.bad || c.old || expired {
						bad = append(bad, cN(id))
					}
				}
				key := r.intn(3)
				p.Return(fmt.Sprint(key), conns[id])
				ops = append(ops, fmt.Sprintf("PReturn %s %s", cN(key), cN(id)))
				res = append(res, "RDone")
			case k < 93:
				p.CleanUp(ctx)
				ops = append(ops, "PCleanUp")
				res = append(res, "RDone")
			default:
				if closedPool {
					continue
				}
				p.Close()
				closedPool = true
				ops = append(ops, "PClose")
				res = append(res, "RDone")
				stats["shutdown"]++
			}
			settle()
		}
		if !closedPool {
			p.Close()
			ops = append(ops, "PClose")
			res = append(res, "RDone")
		}
		time.Sleep(2 * time.Millisecond)
		w.mu.Lock()
		cl := make([]string, len(w.closed))
		for i, x := range w.closed {
			cl[i] = cN(x)
		}
		w.mu.Unlock()
		out.Case(fmt.Sprintf("CSeq {| cap := %d%%nat; max_keys := %d%%nat; expired := %s; stale := %s |} %s %s %s %s",
			capN, maxKeys, cBool(expired), cBool(stale), cList(bad), cList(ops), cList(res), cList(cl)))
	}
	keys := make([]string, 0, len(stats))
	for k := range stats {
		keys = append(keys, k)
	}
	sort.Strings(keys)
	for _, k := range keys {
		out.Stat(k, stats[k])
	}
}

func TestVerif_C19Conc(t *testing.T) {
	out := vOpenOut()
	defer out.Close()
	n := vEnvInt("VERIF_N", 30)
	ctx := context.Background()
	totalGot := 0
	for ci := 0; ci < n; ci++ {
		r := vNewRand(uint64(1950000 + ci))
		cfg := Config{MaxKeys: 1 + r.intn(3), MaxConnsPerKey: 1 + r.intn(2), MaxConnLifetimeSec: 3600, StaleKeyLifetimeSec: 3600}
		if r.chance(30) {
			cfg.StaleKeyLifetimeSec = -1
		}
		if r.chance(15) {
			cfg.MaxConnLifetimeSec = -1
		}
		p := New(cfg)
		w := &v19World{}
		nWorkers, nKeys := 2+r.intn(7), 1+r.intn(3)
		var nextTok atomic.Int32
		var panics atomic.Int32
		var shutdownDone atomic.Bool
		logEv := func(s string) { w.mu.Lock(); w.log = append(w.log, s); w.mu.Unlock() }
		var wg sync.WaitGroup
		for a := 0; a < nWorkers; a++ {
			wg.Add(1)
			seed := r.next()
			go func(a int) {
				defer wg.Done()
				defer func() {
					if e := recover(); e != nil {
						panics.Add(1)
					}
				}()
				rr := &vRand{s: seed}
				for it := 0; it < 30+rr.intn(40); it++ {
					key := fmt.Sprint(rr.intn(nKeys))
					c, _ := p.Get(ctx, key)
					var vc *v19Conn
					if c == nil {
						vc = &v19Conn{w: w, id: int(nextTok.Add(1)) - 1, conc: true, bad: rr.chance(10), old: rr.chance(10)}
						// a new connection is simply owned by its maker
						logEv(fmt.Sprintf("EGot %s %s", cN(a), cN(vc.id)))
					} else {
						vc = c.(*v19Conn)
						logEv(fmt.Sprintf("EGot %s %s", cN(a), cN(vc.id)))
					}
					if rr.chance(50) {
						runtime.Gosched()
					}
					logEv(fmt.Sprintf("EUse %s %s", cN(a), cN(vc.id)))
					if rr.chance(12) {
						logEv(fmt.Sprintf("EOwnerClose %s %s", cN(a), cN(vc.id)))
						vc.byOwner.Store(int32(a) + 1)
						vc.Close()
					} else {
						logEv(fmt.Sprintf("ERet %s %s", cN(a), cN(vc.id)))
						p.Return(key, vc)
					}
					if rr.chance(30) {
						time.Sleep(time.Duration(rr.intn(30)) * time.Microsecond)
					}
				}
			}(a)
		}
		// clean-up sweeps and one shutdown
		wg.Add(1)
		go func() {
			defer wg.Done()
			defer func() {
				if e := recover(); e != nil {
					panics.Add(1)
				}
			}()
			rr := &vRand{s: r.next()}
			for i := 0; i < 5+rr.intn(10); i++ {
				p.CleanUp(ctx)
				time.Sleep(time.Duration(rr.intn(200)) * time.Microsecond)
			}
			if rr.chance(70) {
				p.Close()
				logEv("EShutdown")
				shutdownDone.Store(true)
			}
		}()
		done := make(chan struct{})
		go func() { wg.Wait(); close(done) }()
		stuck := false
		select {
		case <-done:
		case <-time.After(10 * time.Second):
			stuck = true
		}
		if !shutdownDone.Load() && !stuck {
			stuck = !v19CloseBounded(p)
		}
		time.Sleep(2 * time.Millisecond)
		w.mu.Lock()
		lg := cList(w.log)
		for _, e := range w.log {
			if len(e) > 4 && e[:4] == "EGot" {
				totalGot++
			}
		}
		w.mu.Unlock()
		out.Case(fmt.Sprintf("CConc %s %s %s", lg, cN(int(panics.Load())), cBool(stuck)))
	}
	out.Stat("handed-out", totalGot)

	// directed interleavings: a competing operation runs to completion between the unlock of Get
	// and its next receive (hooked into Usable of the connection Get has just taken out)
	directed := 0
	for ci := 0; ci < n*4; ci++ {
		r := vNewRand(uint64(1970000 + ci))
		cfg := Config{MaxKeys: 1 + r.intn(2), MaxConnsPerKey: 2 + r.intn(2), MaxConnLifetimeSec: 3600, StaleKeyLifetimeSec: 3600}
		if r.chance(50) {
			cfg.StaleKeyLifetimeSec = -1
		}
		p := New(cfg)
		w := &v19World{}
		logEv := func(s string) { w.mu.Lock(); w.log = append(w.log, s); w.mu.Unlock() }
		panics := 0
		closedPool := false
		mk := func(id int, bad bool) *v19Conn { return &v19Conn{w: w, id: id, conc: true, bad: bad} }
		nConn := 1 + r.intn(3)
		compet := r.intn(4)
		for i := 0; i < nConn; i++ {
			c := mk(i, r.chance(60))
			if i == 0 {
				c.bad = r.chance(80)
				c.onUsable = func() {
					switch compet {
					case 0:
						p.CleanUp(ctx)
					case 1:
						p.Close()
						closedPool = true
						logEv("EShutdown")
					case 2: // another key fills the table: stale-bucket collection in Return
						x := mk(100, false)
						logEv(fmt.Sprintf("EGot %s %s", cN(9), cN(100)))
						logEv(fmt.Sprintf("ERet %s %s", cN(9), cN(100)))
						p.Return("other", x)
					case 3: // another actor's Get on the same key
						c2, _ := p.Get(ctx, "k")
						if c2 != nil {
							logEv(fmt.Sprintf("EGot %s %s", cN(8), cN(c2.(*v19Conn).id)))
							logEv(fmt.Sprintf("EUse %s %s", cN(8), cN(c2.(*v19Conn).id)))
						}
					}
				}
			}
			logEv(fmt.Sprintf("EGot %s %s", cN(1), cN(i)))
			logEv(fmt.Sprintf("ERet %s %s", cN(1), cN(i)))
			p.Return("k", c)
		}
		func() {
			defer func() {
				if e := recover(); e != nil {
					panics++
				}
			}()
			c, _ := p.Get(ctx, "k")
			if c != nil {
				logEv(fmt.Sprintf("EGot %s %s", cN(2), cN(c.(*v19Conn).id)))
				logEv(fmt.Sprintf("EUse %s %s", cN(2), cN(c.(*v19Conn).id)))
			}
		}()
		stuckD := false
		if !closedPool {
			stuckD = !v19CloseBounded(p)
		}
		time.Sleep(500 * time.Microsecond)
		w.mu.Lock()
		lg := cList(w.log)
		w.mu.Unlock()
		out.Case(fmt.Sprintf("CConc %s %s %s", lg, cN(panics), cBool(stuckD)))
		directed++
	}
	out.Stat("directed-interleavings", directed)

	// directed interleavings for Return: while Return closes the connections of a stale bucket it
	// has just collected, a competing operation is started and given time to finish if it can
	// (with the table lock held by Return it cannot, and simply runs afterwards)
	directedRet := 0
	for ci := 0; ci < n*2; ci++ {
		r := vNewRand(uint64(1990000 + ci))
		cfg := Config{MaxKeys: 1, MaxConnsPerKey: 1 + r.intn(2), MaxConnLifetimeSec: 3600, StaleKeyLifetimeSec: -1}
		p := New(cfg)
		w := &v19World{}
		logEv := func(s string) { w.mu.Lock(); w.log = append(w.log, s); w.mu.Unlock() }
		var panics atomic.Int32
		var closedPool atomic.Bool
		compet := r.intn(3)
		competDone := make(chan struct{})
		c0 := &v19Conn{w: w, id: 0, conc: true}
		c0.onClose = func() {
			go func() {
				defer close(competDone)
				defer func() {
					if e := recover(); e != nil {
						panics.Add(1)
					}
				}()
				switch compet {
				case 0:
					p.CleanUp(ctx)
				case 1:
					p.Close()
					closedPool.Store(true)
					logEv("EShutdown")
				case 2:
					c2, _ := p.Get(ctx, "k1")
					if c2 != nil {
						logEv(fmt.Sprintf("EGot %s %s", cN(8), cN(c2.(*v19Conn).id)))
						logEv(fmt.Sprintf("EUse %s %s", cN(8), cN(c2.(*v19Conn).id)))
					}
				}
			}()
			select {
			case <-competDone:
			case <-time.After(2 * time.Millisecond):
			}
		}
		logEv(fmt.Sprintf("EGot %s %s", cN(1), cN(0)))
		logEv(fmt.Sprintf("ERet %s %s", cN(1), cN(0)))
		p.Return("k0", c0)
		c1 := &v19Conn{w: w, id: 1, conc: true}
		logEv(fmt.Sprintf("EGot %s %s", cN(1), cN(1)))
		logEv(fmt.Sprintf("ERet %s %s", cN(1), cN(1)))
		func() {
			defer func() {
				if e := recover(); e != nil {
					panics.Add(1)
				}
			}()
			p.Return("k1", c1)
		}()
		stuck := false
		select {
		case <-competDone:
		case <-time.After(5 * time.Second):
			stuck = true
		}
		if !closedPool.Load() && !stuck {
			stuck = !v19CloseBounded(p)
		}
		time.Sleep(500 * time.Microsecond)
		w.mu.Lock()
		lg := cList(w.log)
		w.mu.Unlock()
		out.Case(fmt.Sprintf("CConc %s %s %s", lg, cN(int(panics.Load())), cBool(stuck)))
		directedRet++
	}
	out.Stat("directed-interleavings-return", directedRet)

	// directed interleavings with both operations in the middle: a Get is parked while it looks at
	// the first pooled connection (it has left the table lock); a competing operation is started
	// and, as soon as it looks at or closes a pooled connection itself, is parked in turn until
	// the Get has finished.  Every wait has a timeout, so on a correct pool nothing blocks.
	directedMid := 0
	for ci := 0; ci < n*3; ci++ {
		r := vNewRand(uint64(1995000 + ci))
		cfg := Config{MaxKeys: 2, MaxConnsPerKey: 3, MaxConnLifetimeSec: 3600, StaleKeyLifetimeSec: 3600}
		if r.chance(40) {
			cfg.StaleKeyLifetimeSec = -1
		}
		p := New(cfg)
		w := &v19World{}
		logEv := func(s string) { w.mu.Lock(); w.log = append(w.log, s); w.mu.Unlock() }
		var panics atomic.Int32
		var closedPool atomic.Bool
		compet := r.intn(4)
		getterDone := make(chan struct{})
		competDone := make(chan struct{})
		competParked := make(chan struct{})
		var parkOnce sync.Once
		park := func() {
			parkOnce.Do(func() { close(competParked) })
			select {
			case <-getterDone:
			case <-time.After(3 * time.Millisecond):
			}
		}
		conns := []*v19Conn{
			{w: w, id: 0, conc: true, bad: r.chance(70)},
			{w: w, id: 1, conc: true, bad: r.chance(20)},
			{w: w, id: 2, conc: true},
		}
		conns[0].onUsable = func() {
			go func() {
				defer close(competDone)
				defer func() {
					if e := recover(); e != nil {
						panics.Add(1)
					}
				}()
				switch compet {
				case 0:
					p.CleanUp(ctx)
				case 1:
					p.Close()
					closedPool.Store(true)
					logEv("EShutdown")
				case 2:
					x := &v19Conn{w: w, id: 100, conc: true}
					logEv(fmt.Sprintf("EGot %s %s", cN(9), cN(100)))
					logEv(fmt.Sprintf("ERet %s %s", cN(9), cN(100)))
					p.Return("k", x)
				case 3:
					c2, _ := p.Get(ctx, "k")
					if c2 != nil {
						logEv(fmt.Sprintf("EGot %s %s", cN(8), cN(c2.(*v19Conn).id)))
						logEv(fmt.Sprintf("EUse %s %s", cN(8), cN(c2.(*v19Conn).id)))
					}
				}
			}()
			select {
			case <-competDone:
			case <-competParked:
			case <-time.After(3 * time.Millisecond):
			}
		}
		for _, c := range conns[1:] {
			c.onUsable = park
			c.onClose = park
		}
		for _, c := range conns {
			logEv(fmt.Sprintf("EGot %s %s", cN(1), cN(c.id)))
			logEv(fmt.Sprintf("ERet %s %s", cN(1), cN(c.id)))
			p.Return("k", c)
		}
		go func() {
			defer close(getterDone)
			defer func() {
				if e := recover(); e != nil {
					panics.Add(1)
				}
			}()
			c, _ := p.Get(ctx, "k")
			if c != nil {
				logEv(fmt.Sprintf("EGot %s %s", cN(2), cN(c.(*v19Conn).id)))
				logEv(fmt.Sprintf("EUse %s %s", cN(2), cN(c.(*v19Conn).id)))
			}
		}()
		stuck := false
		for _, ch := range []chan struct{}{getterDone, competDone} {
			select {
			case <-ch:
			case <-time.After(3 * time.Second):
				stuck = true
			}
		}
		if !stuck && !closedPool.Load() {
			fin := make(chan struct{})
			go func() { p.Close(); close(fin) }()
			select {
			case <-fin:
			case <-time.After(3 * time.Second):
				stuck = true
			}
		}
		time.Sleep(500 * time.Microsecond)
		w.mu.Lock()
		lg := cList(w.log)
		w.mu.Unlock()
		out.Case(fmt.Sprintf("CConc %s %s %s", lg, cN(int(panics.Load())), cBool(stuck)))
		directedMid++
	}
	out.Stat("directed-interleavings-mid", directedMid)

	// several Gets released at the same instant on a bucket that has outlived its lifetime (each of
	// them finds it expired and wants to drop it), with and without a competing clean-up or Return
	burst := 0
	for ci := 0; ci < n*6; ci++ {
		r := vNewRand(uint64(1997000 + ci))
		cfg := Config{MaxKeys: 2, MaxConnsPerKey: 3, MaxConnLifetimeSec: -1, StaleKeyLifetimeSec: 3600}
		if r.chance(30) {
			cfg.StaleKeyLifetimeSec = -1
		}
		p := New(cfg)
		w := &v19World{}
		logEv := func(s string) { w.mu.Lock(); w.log = append(w.log, s); w.mu.Unlock() }
		var panics atomic.Int32
		for i := 0; i < 1+r.intn(3); i++ {
			c := &v19Conn{w: w, id: i, conc: true}
			logEv(fmt.Sprintf("EGot %s %s", cN(1), cN(i)))
			logEv(fmt.Sprintf("ERet %s %s", cN(1), cN(i)))
			p.Return("k", c)
		}
		start := make(chan struct{})
		var wg sync.WaitGroup
		nG := 2 + r.intn(3)
		extra := r.intn(3)
		for g := 0; g < nG+1; g++ {
			wg.Add(1)
			go func(g int) {
				defer wg.Done()
				defer func() {
					if e := recover(); e != nil {
						panics.Add(1)
					}
				}()
				<-start
				if g == nG {
					switch extra {
					case 1:
						p.CleanUp(ctx)
					case 2:
						x := &v19Conn{w: w, id: 100, conc: true}
						logEv(fmt.Sprintf("EGot %s %s", cN(9), cN(100)))
						logEv(fmt.Sprintf("ERet %s %s", cN(9), cN(100)))
						p.Return("k", x)
					}
					return
				}
				c, _ := p.Get(ctx, "k")
				if c != nil {
					logEv(fmt.Sprintf("EGot %s %s", cN(10+g), cN(c.(*v19Conn).id)))
					logEv(fmt.Sprintf("EUse %s %s", cN(10+g), cN(c.(*v19Conn).id)))
				}
			}(g)
		}
		// everybody queues up on the table lock and is let go at once
		p.keysLock.Lock()
		close(start)
		time.Sleep(time.Millisecond)
		p.keysLock.Unlock()
		done := make(chan struct{})
		go func() { wg.Wait(); close(done) }()
		stuck := false
		select {
		case <-done:
		case <-time.After(3 * time.Second):
			stuck = true
		}
		if !stuck {
			fin := make(chan struct{})
			go func() {
				defer func() { recover() }()
				p.Close()
				close(fin)
			}()
			select {
			case <-fin:
			case <-time.After(3 * time.Second):
				stuck = true
			}
		}
		time.Sleep(300 * time.Microsecond)
		w.mu.Lock()
		lg := cList(w.log)
		w.mu.Unlock()
		out.Case(fmt.Sprintf("CConc %s %s %s", lg, cN(int(panics.Load())), cBool(stuck)))
		burst++
		if stuck {
			break // the pool lock is held for good; more rounds only cost time
		}
	}
	out.Stat("expired-bucket-bursts", burst)
}

// v19CloseBounded closes the pool and reports whether Close returned: an operation that panicked
// while it held the pool's lock leaves it locked for good, and Close would wait for ever.
func v19CloseBounded(p *P) bool {
	fin := make(chan struct{})
	go func() {
		defer func() { recover() }()
		p.Close()
		close(fin)
	}()
	select {
	case <-fin:
		return true
	case <-time.After(3 * time.Second):
		return false
	}
}
