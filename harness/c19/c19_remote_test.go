//go:build verif

package remote

// C19 harness (remote stream): the pool with the connections the remote target really puts into
// it.  Histories of 1-5 consecutive deliveries to one domain over a real remote target and a
// scripted SMTP server; the idle age of the connection at the moment it goes back to the pool is
// set by moving its last-use stamp into the past (the delivery's Commit coming long after its
// last SMTP command, as with a slow second recipient domain), so no history has to wait.  Every
// connection is a token (renamed at every return, its age being a property of that return); the
// history is replayed on the sequential pool model: which delivery got which connection, and which
// connections were closed.

import (
	"context"
	"fmt"
	"net"
	"testing"
	"time"

	"github.com/emersion/go-message/textproto"
	"github.com/emersion/go-smtp"
	"github.com/foxcpp/go-mockdns"
	"github.com/foxcpp/maddy/framework/buffer"
	"github.com/foxcpp/maddy/framework/module"
	"github.com/foxcpp/maddy/internal/smtpconn/pool"
	"github.com/foxcpp/maddy/internal/testutils"
)

func TestVerif_C19Remote(t *testing.T) {
	out := vOpenOut()
	defer out.Close()
	n := vEnvInt("VERIF_N", 20)
	ctx := context.Background()
	const lifetime = 100 // seconds
	stats := map[string]int{}
	for ci := 0; ci < n; ci++ {
		r := vNewRand(uint64(1900000 + ci))
		if l, err := net.Listen("tcp", "127.0.0.1:0"); err == nil {
			smtpPort = fmt.Sprint(l.Addr().(*net.TCPAddr).Port)
			l.Close()
		}
		_, srv := testutils.SMTPServer(t, "127.0.0.1:"+smtpPort)
		zones := map[string]mockdns.Zone{
			"example.invalid.":    {MX: []net.MX{{Host: "mx.example.invalid.", Pref: 10}}},
			"mx.example.invalid.": {A: []string{"127.0.0.1"}},
		}
		tgt := testTarget(t, zones, nil, nil)
		tgt.connReuseLimit = 100
		tgt.pool.Close()
		tgt.pool = pool.New(pool.Config{MaxKeys: 5000, MaxConnsPerKey: 5, MaxConnLifetimeSec: lifetime, StaleKeyLifetimeSec: 300})

		var conns []*mxConn      // in order of first appearance: the session number
		returns := map[*mxConn]int{}
		id := func(c *mxConn) int {
			for i, x := range conns {
				if x == c {
					return i*10 + returns[c]
				}
			}
			conns = append(conns, c)
			return (len(conns) - 1) * 10
		}
		var ops, res, bad []string
		nd := 1 + r.intn(5)
		for di := 0; di < nd; di++ {
			meta := &module.MsgMetadata{ID: fmt.Sprintf("v19r%d", di), DontTraceSender: true, OriginalFrom: "sender@example.com"}
			d, err := tgt.Start(ctx, meta, "sender@example.com")
			if err != nil {
				t.Fatalf("case %d: Start: %v", ci, err)
			}
			known := len(conns)
			if err := d.AddRcpt(ctx, "rcpt@example.invalid", smtp.RcptOptions{}); err != nil {
				t.Fatalf("case %d: AddRcpt: %v", ci, err)
			}
			rd := d.(*remoteDelivery)
			c := rd.connections["example.invalid"]
			if c == nil {
				t.Fatalf("case %d: no connection for the domain", ci)
			}
			cid := id(c)
			ops = append(ops, "PGet 0")
			if len(conns) == known {
				res = append(res, fmt.Sprintf("RConn %s", cN(cid)))
				stats["reused"]++
			} else {
				res = append(res, "RNone")
				stats["dialled"]++
			}
			hdr := textproto.Header{}
			hdr.Add("Subject", "x")
			if err := d.Body(ctx, hdr, buffer.MemoryBuffer{Slice: []byte("hi\r\n")}); err != nil {
				t.Fatalf("case %d: Body: %v", ci, err)
			}
			// the rest of the message's handling takes [age] seconds before Commit
			age := []int{0, 0, 40, 99, 250, 101, 3600}[r.intn(7)]
			c.lastUseAt = time.Now().Add(-time.Duration(age) * time.Second)
			if r.chance(15) {
				if err := d.Abort(ctx); err != nil {
					t.Fatalf("case %d: Abort: %v", ci, err)
				}
			} else if err := d.Commit(ctx); err != nil {
				t.Fatalf("case %d: Commit: %v", ci, err)
			}
			if c.C.Client() == nil {
				stats["closed_by_delivery"]++ // not returned; nothing for the pool to do
				continue
			}
			returns[c]++
			rid := id(c)
			ops = append(ops, fmt.Sprintf("PReturn 0 %s", cN(rid)))
			res = append(res, "RDone")
			if age > lifetime {
				bad = append(bad, cN(rid))
				stats["returned_too_old"]++
			}
		}
		tgt.Close()
		ops = append(ops, "PClose")
		res = append(res, "RDone")
		var closed []string
		for _, c := range conns {
			if c.C.Client() == nil {
				closed = append(closed, cN(id(c)))
			} else {
				stats["left_open"]++
				c.Close()
			}
		}
		srv.Close()
		out.Case(fmt.Sprintf("CSeq {| cap := 5; max_keys := 5000; expired := false; stale := false |} %s %s %s %s",
			cList(bad), cList(ops), cList(res), cList(closed)))
	}
	for k, v := range stats {
		out.Stat(k, v)
	}
}
