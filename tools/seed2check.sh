#!/bin/bash
# tools/seed2check.sh <seed id> [check id]: apply seeded2/<seed>/patch.diff to /repo, run the check, restore
s=$1; c=${2:-$1}
git -C /repo apply /verif/seeded2/$s/patch.diff || exit 2
timeout 3000 /verif/bin/check $c --tier quick 2>&1 | grep -v KNOWN | grep "^#\|^VIOLATION\|^OK" | tail -2 | cut -c1-260
git -C /repo checkout -- . ; git -C /repo clean -fdq
