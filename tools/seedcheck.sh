#!/bin/bash
# tools/seedcheck.sh <wave dir: seeded|seeded2|seeded3> <seed id> [check id]: apply the seed's patch to /repo, run the check, restore
w=$1; s=$2; c=${3:-$2}
git -C /repo apply /verif/$w/$s/patch.diff || exit 2
timeout 3000 /verif/bin/check $c --tier quick 2>&1 | grep -v KNOWN | grep "^#\|^VIOLATION\|^OK" | tail -2 | cut -c1-300
git -C /repo checkout -- . ; git -C /repo clean -fdq
