#!/usr/bin/env python3
# Regenerates /verif/MANIFEST.json from the table below (claimed properties) and properties.jsonl.
import json, os
V = os.path.dirname(os.path.dirname(os.path.abspath(__file__)))
TECH = "machine-checked proof in Coq 8.16 over a hand-written executable model; model tied to the current source by a differential correspondence run (Go harness via -overlay vs vm_compute of the model) and, where noted, go/ast translators; property monitor evaluated in Coq on implementation traces"
CLAIMED = {
 "C10": ("Kernel-checked: printing a header and parsing it back returns byte-identical raw fields for every list of well-formed raw fields (byte-level model of go-message ReadHeader/WriteHeader); loading the spool returns the stored header, body and metadata with only the connection state stripped, on the first attempt, after metadata rewrites and restarts; the stored files do not depend on the connection state (no credentials). The header model is compared with go-message on generated and malformed header bytes; the real queue is run with a recording target through retry and restart and everything handed over is compared with what was accepted, spool files are searched for the session credentials. Partial: the JSON codec of the metadata is a hypothesis (exercised, not proved).",
         "Trusted: Coq kernel, Go harness, hand-written header model validated differentially, JSON round trip assumed; headers beyond 20 kB are compared byte-wise by the harness only."),
 "C18": ("Kernel-checked for every metadata, stored error set and failed-recipient list: no report for the null sender or without bounce pipeline; a report is sent without original sender, so reports never trigger reports; null return path, addressed to the sender; the per-recipient groups are exactly the failed recipients in order, under the address the sender used, with the stored status and a single-line diagnostic; a due report is always generated when every failed recipient has a status class (guaranteed by C16_queue_error_has_status). emitDSN is compared with the model on generated inputs, the report being parsed with the standard library's MIME parser; an integrated stream runs the real queue over several attempts. Partial: MIME multipart framing and header folding are go-message's and only checked well-formed on the implementation.",
         "Trusted: Coq kernel, Go harness and its 30-line field parser, IDNA selection as recorded tables, hand-written model validated differentially; dates ignored."),
 "C01": ("Kernel-checked for every configuration, every set of recipients and every finite sequence of per-attempt fault plans (any stage x temp/perm/unclassified, atomic or per-recipient targets honouring the status contract): the queue records exactly the attempt's outcome per recipient; that outcome is 'delivered' iff the downstream committed for it; exactly one terminal outcome per recipient once the message left the queue; re-attempt only after a temporary/unclassified failure with the counter increasing by one; the message leaves the queue within max_tries attempts; enqueueing de-duplicates. The model is compared with the real queue driven by a scripted target and a recording bounce target, and the property itself is monitored on the implementation's traces (this found and led to two repairs: duplicate recipients, commit failure overwriting permanent statuses).",
         "Trusted: Coq kernel, Go harness, hand-written model of deliver/tryDelivery validated differentially; failure classes abstract; real remote/SMTP/LMTP targets behind the queue are covered by C09's model of their status keys, not by this check; timing (retry delays) is not modelled."),
 "C20": ("A complete executable model of the lexer, dispenser, parser, macro/snippet/import and environment expansion; kernel-checked for every input, file set and environment: the reader never panics (C20_no_panic), every accepted tree has only well-formed names and no macro/snippet declaration at any depth (C20_post_*), environment expansion leaves valid names alone; a generated theorem shows the model accepts the current shipped configuration files; model and parser.Read are compared (trees with line numbers, canonical print, re-read) on corpus, grammar-generated, mutated and random inputs. Partial: the print/parse round trip and fuel sufficiency (termination) are validated on model and implementation by the run, not yet proved in general.",
         "Trusted: Coq kernel, Go harness (generator, canonical printer mirrored in the model), hand-written model validated differentially, Unicode classification and file system as tables/maps, exponential import expansion excluded from generation (known finding). `pipeline validation` of the shipped files is not exercised."),
 "C13": ("authenticated <-> spec and refuse <-> spec for record sets and chains of any size with the TLSA matcher and the X.509 verifier abstract, neutrality of unusable records, absence of panics, TA needing a matching CA certificate, the CheckConn error mapping and the AD-only / fail-closed behaviour of the discovery are kernel-checked; verifyDANE, CheckConn and discoverTLSA are compared with the model on generated real certificate chains / record sets and on 140 DNS zone shapes served by a mock DNSSEC server.",
         "Trusted: Coq kernel, Go harness, oracle tables recorded from miekg TLSA.Verify and crypto/x509 (all root subsets), mock DNS server semantics for the discovery view; TLS handshake internals are not modelled."),
 "C07": ("pass <-> aligned passing identifier, temperror <-> undecided, none when not evaluated, action = published policy, fail-closed on temporary DNS failure and bad From never passing are kernel-checked for result lists of any length and any public-suffix list; the model (verdict, action, direct EvaluateAlignment) is compared with the real verifier + checkRunner.applyResults on a structured sweep and generated cases.",
         "Trusted: Coq kernel, Go harness with scripted resolver, public-suffix oracle tables recorded per case, library parsing of records / From headers; pct other than absent/100 not exercised. Theorems assume one SPF result (as the property quantifies)."),
 "C16": ("Theorems over error trees of any depth (wrapErr, toSMTPErr, helper codes, reject directive) are kernel-checked; a generated theorem covers every SMTP error literal of the current tree; the model is compared with the real conversions (wire form through go-smtp) on generated error trees. Proof is the right level because the claim quantifies over all error values and all literals.",
         "Trusted: Coq kernel, litgen translator, Go harness, hand-written model validated differentially; errors are assumed well-annotated (wa) - literal sites are checked, 8 dynamic sites are listed in the evidence. One known finding (pipeline `reject 4yz`)."),
 "C17": ("Equivalence/key coincidence, ASCII test, split/join and quote/unquote laws are proved for all code-point strings with the Unicode/IDNA library left abstract; idempotence and ASCII/Unicode round-trip are proved from explicit library hypotheses (partial); the model is compared with the real helpers, library oracles being tables recorded from the real library per case.",
         "Trusted: Coq kernel, Go harness, oracle tables (unrecorded argument = identity), model over code points (invalid UTF-8 only exercised for crash-freedom). Library hypotheses of the *_partial theorems are tested, not proved. One known finding (upper-case ACE prefix)."),
}
ORDER_NOTE = "check not built yet in this round (models are built in the order given in DESIGN.md section 8)"
props = [json.loads(l) for l in open(os.path.join(V, "properties.jsonl"))]
checks = []
for p in props:
    i = p["id"]
    if i in CLAIMED:
        text, note = CLAIMED[i]
        checks.append({"property_id": i, "quick_cmd": "bin/check %s --tier quick" % i,
                       "thorough_cmd": "bin/check %s --tier thorough" % i,
                       "evidence_file": "evidence/%s.json" % i,
                       "replay_cmd_template": "bin/check %s --replay {path}" % i, "engine": "coq",
                       "level_claimed": {"category": "proof", "text": text, "design_ref": "DESIGN.md section 6 %s and section 10" % i},
                       "level_note": note, "technique": TECH})
NA = {}
m = {"version": 1, "setup_cmd": "bin/setup",
     "hooks": {"guard": "verif",
               "enable": "go test -tags verif -overlay /verif/work/<id>/overlay.json: harness files (//go:build verif) are injected into /repo's packages through -overlay at check time; no hook is committed in /repo",
               "baseline_off_cmd": "cd /repo && GOFLAGS=-mod=mod GOPROXY=off GOSUMDB=off GOTOOLCHAIN=local go test -vet=off -count=1 -timeout 25m ./...",
               "source_commits": [], "add_only": True},
     "engines": [
        {"name": "coq", "path": "coq/", "serves_properties": sorted(CLAIMED), "kind_free_text": "Coq 8.16.1 theories: executable models, lemmas, property theorems (Props/Cnn.v), correspondence and monitor definitions"},
        {"name": "goharness", "path": "harness/", "serves_properties": sorted(CLAIMED), "kind_free_text": "Go test files compiled into /repo's packages with -overlay; drive the real code and print cases as Coq terms"},
        {"name": "translators", "path": "tools/", "serves_properties": [x for x in ["C16", "C20"] if x in CLAIMED], "kind_free_text": "go/ast translators regenerating Coq obligations from the current source"}],
     "checks": checks,
     "not_applicable": [{"property_id": p["id"], "reason": NA.get(p["id"], ORDER_NOTE)} for p in props if p["id"] not in CLAIMED],
     "notes": "All checks: bin/check Cnn --tier quick|thorough. See DESIGN.md."}
json.dump(m, open(os.path.join(V, "MANIFEST.json"), "w"), indent=1)
print("claimed:", sorted(CLAIMED))
