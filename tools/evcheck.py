#!/usr/bin/env python3
"""Refuse to let evidence written by a run on a modified tree (a seeded change applied) be committed:
every evidence file must record a run in which all obligations were discharged and nothing was reported."""
import glob, json, os, sys
V = os.path.dirname(os.path.dirname(os.path.abspath(__file__)))
bad = []
for f in sorted(glob.glob(os.path.join(V, "evidence", "C*.json"))):
    e = json.load(open(f))
    c = e.get("coverage", {})
    if c.get("obligations") != c.get("discharged") or e.get("violations"):
        bad.append("%s: obligations=%s discharged=%s violations=%s" % (os.path.basename(f), c.get("obligations"), c.get("discharged"), e.get("violations")))
print("\n".join(bad) if bad else "evidence: %d files, all obligations discharged, no violations" % len(glob.glob(os.path.join(V, "evidence", "C*.json"))))
sys.exit(1 if bad else 0)
