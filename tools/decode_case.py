#!/usr/bin/env python3
# pretty-print a case (Coq term) from a replay file or cases file: code-point lists become strings
import json, re, sys
def dec(m):
    return '"' + ''.join(chr(int(x)) for x in m.group(1).split(';')) + '"'
def pretty(c):
    return re.sub(r'\[([0-9;]+)\]%N', dec, c)
if __name__ == "__main__":
    p = sys.argv[1]
    if p.endswith(".json"):
        d = json.load(open(p))
        print("index", d.get("case_index"), "disagreeing", d.get("disagreeing", [])[:20])
        print(pretty(d["case"]))
    else:
        idx = [int(x) for x in sys.argv[2:]]
        lines = [l for l in open(p) if not l.startswith("#")]
        for i in idx:
            print(i, pretty(lines[i]))
