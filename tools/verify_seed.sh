#!/bin/bash
# verify_seed.sh Cnn : confirm a seeded change in a scratch worktree of /repo's HEAD:
#  patch applies, builds, demo fails with it and passes without it, existing suite passes with it.
# Writes /verif/seeded/Cnn/{patch.diff,<demo>,meta.json}. Removes the worktree afterwards.
set -u
ID=$1; SRC=/tmp/seedout/$ID; WT=/tmp/wtv/$ID; OUT=/verif/seeded/$ID
export GOFLAGS=-mod=mod GOPROXY=off GOSUMDB=off GOTOOLCHAIN=local CGO_ENABLED=0
mkdir -p /tmp/wtv $OUT
git -C /repo worktree remove --force $WT 2>/dev/null
git -C /repo worktree add -q --detach $WT HEAD || exit 2
cd $WT
DEMO_REL=$(grep -o '[a-z_/]*zz_seed_demo_test.go' $SRC/NOTES.md | grep / | head -1)
[ -z "$DEMO_REL" ] && DEMO_REL=$(cd /tmp/wt/$ID && git status --short | grep zz_seed_demo_test.go | awk '{print $2}' | head -1)
PKG=$(dirname $DEMO_REL)
cp $SRC/zz_seed_demo_test.go $WT/$DEMO_REL
applies=no; build=no; demo_without=unknown; demo_with=unknown; suite=unknown
go test -vet=off -count=1 -run 'TestSeedDemo' ./$PKG/ > $OUT/demo_without.log 2>&1 && demo_without=pass || demo_without=fail
if git apply --check $SRC/patch.diff 2>/dev/null; then applies=yes; git apply $SRC/patch.diff; fi
if [ $applies = yes ]; then
  go build ./framework/... ./internal/... . > $OUT/build.log 2>&1 && build=yes
  go test -vet=off -count=1 -run 'TestSeedDemo' ./$PKG/ > $OUT/demo_with.log 2>&1 && demo_with=pass || demo_with=fail
  go test -vet=off -count=1 -skip 'TestSeedDemo' -timeout 25m ./... > $OUT/suite_with.log 2>&1
  if grep -v 'maddy-pam-helper' $OUT/suite_with.log | grep -q '^FAIL\|^--- FAIL\|^panic'; then suite=fail; else suite=pass; fi
fi
cp $SRC/patch.diff $OUT/patch.diff; cp $SRC/zz_seed_demo_test.go $OUT/; cp $SRC/NOTES.md $OUT/NOTES.md
HEADREV=$(git -C /repo rev-parse --short HEAD)
python3 - <<PY
import json
json.dump({"property":"$ID","demo_path":"$DEMO_REL","verified_at_repo_head":"$HEADREV",
 "patch_applies":"$applies","builds":"$build","demo_without_patch":"$demo_without","demo_with_patch":"$demo_with",
 "existing_suite_with_patch":"$suite",
 "ran":["git apply patch.diff in a scratch worktree of HEAD","go build ./framework/... ./internal/... .","go test -run TestSeedDemo ./$PKG/ (with and without the patch)","go test -vet=off -count=1 -skip TestSeedDemo ./... (with the patch)"],
 "needs_to_manifest":"see NOTES.md","detected_by":"(filled in after running the checks)"}, open("$OUT/meta.json","w"), indent=1)
PY
cd /; git -C /repo worktree remove --force $WT
echo "$ID applies=$applies build=$build without=$demo_without with=$demo_with suite=$suite"
