// oswrap: prints a copy of a Go source file whose import of "os" is redirected to the recording
// shim (imported under the name os).  Standard library only.  Used through -overlay at check time,
// regenerated from the current source on every run.
package main

import (
	"fmt"
	"go/ast"
	"go/parser"
	"go/printer"
	"go/token"
	"os"
)

func main() {
	if len(os.Args) != 3 {
		fmt.Fprintln(os.Stderr, "usage: oswrap <file.go> <shim import path>")
		os.Exit(2)
	}
	fset := token.NewFileSet()
	f, err := parser.ParseFile(fset, os.Args[1], nil, parser.ParseComments)
	if err != nil {
		fmt.Fprintln(os.Stderr, err)
		os.Exit(1)
	}
	found := false
	for _, imp := range f.Imports {
		if imp.Path.Value == `"os"` {
			imp.Path.Value = `"` + os.Args[2] + `"`
			imp.Name = ast.NewIdent("os")
			found = true
		}
	}
	if !found {
		fmt.Fprintln(os.Stderr, "oswrap: no import of \"os\" found")
		os.Exit(1)
	}
	fmt.Println("//go:build verif")
	fmt.Println()
	if err := printer.Fprint(os.Stdout, fset, f); err != nil {
		fmt.Fprintln(os.Stderr, err)
		os.Exit(1)
	}
}
