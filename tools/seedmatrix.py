#!/usr/bin/env python3
"""Apply every seeded change to /repo in turn, run the quick check of its property, record what happened in
seeded/<id>/meta.json (detected_by) and restore /repo.  Usage: tools/seedmatrix.py [ids...]"""
import json, os, subprocess, sys
V = os.path.dirname(os.path.dirname(os.path.abspath(__file__)))
SEEDDIR = os.environ.get("SEEDDIR", "seeded")   # SEEDDIR=seeded2 for the second wave
ids = sys.argv[1:] or sorted(d for d in os.listdir(os.path.join(V, SEEDDIR)) if d.startswith("C"))
head = subprocess.run(["git", "-C", "/repo", "log", "--format=%h", "-1"], capture_output=True, text=True).stdout.strip()
for i in ids:
    patch = os.path.join(V, SEEDDIR, i, "patch.diff")
    mp = os.path.join(V, SEEDDIR, i, "meta.json")
    meta = json.load(open(mp))
    r = subprocess.run(["git", "-C", "/repo", "apply", "--check", patch], capture_output=True, text=True)
    if r.returncode != 0:
        meta["detected_by"] = "patch no longer applies at /repo %s: %s" % (head, r.stderr.strip()[:200])
        json.dump(meta, open(mp, "w"), indent=1)
        print(i, "DOES NOT APPLY")
        continue
    subprocess.run(["git", "-C", "/repo", "apply", patch], check=True)
    try:
        p = subprocess.run([os.path.join(V, "bin/check"), i, "--tier", "quick"], capture_output=True, text=True, timeout=3000)
        lines = [l for l in p.stdout.splitlines() if l.startswith("#") or l.startswith("VIOLATION") or l.startswith("OK")]
        viol = [l for l in lines if l.startswith("VIOLATION")]
        why = [l for l in lines if l.startswith("# monitor") or l.startswith("# obligation") or l.startswith("# model")]
        if viol:
            meta["detected_by"] = "bin/check %s --tier quick at /repo %s + patch: exit %d; %s; %s" % (
                i, head, p.returncode, (why[-1][:300] if why else ""), viol[-1])
            print(i, "DETECTED", (why[-1][:120] if why else ""))
        else:
            meta["detected_by"] = "NOT detected by bin/check %s --tier quick at /repo %s" % (i, head)
            print(i, "MISSED")
    finally:
        subprocess.run(["git", "-C", "/repo", "checkout", "--", "."], check=True)
        subprocess.run(["git", "-C", "/repo", "clean", "-fdq"], check=False)
    json.dump(meta, open(mp, "w"), indent=1)
