#!/usr/bin/env python3
"""Verify a wave-2 seeded change produced in /tmp/wt2/<id>/SEED and run the property's check against it.
Usage: tools/seedwave2.py <id> <dir of the demo test relative to the repo root> [--nosuite]
Writes /verif/seeded2/<id>/{patch.diff,zz_seed_demo_test.go,NOTES.md,meta.json}."""
import json, os, shutil, subprocess, sys
V = os.path.dirname(os.path.dirname(os.path.abspath(__file__)))
pid, demo_dir = sys.argv[1], sys.argv[2]
wt = os.path.join(os.environ.get("SEEDWT", "/tmp/wt2"), pid)
seed = os.path.join(wt, "SEED")
env = dict(os.environ, GOFLAGS="-mod=mod", GOPROXY="off", GOSUMDB="off", GOTOOLCHAIN="local", CGO_ENABLED="0")
def sh(cmd, cwd=wt, timeout=1800):
    p = subprocess.run(cmd, shell=True, cwd=cwd, env=env, capture_output=True, text=True, timeout=timeout)
    return p.returncode, (p.stdout + p.stderr)
OUT = os.environ.get("SEEDOUT", "seeded2")
meta = {"property": pid, "wave": int(OUT[-1]) if OUT[-1].isdigit() else 1, "demo_path": os.path.join(demo_dir, "zz_seed_demo_test.go")}
sh("git checkout -- . && git clean -fdq -e SEED")
rc, out = sh("git apply --check SEED/patch.diff"); meta["patch_applies"] = "yes" if rc == 0 else "no: " + out[:200]
shutil.copy(os.path.join(seed, "zz_seed_demo_test.go"), os.path.join(wt, demo_dir, "zz_seed_demo_test.go"))
rc, out = sh("go test -vet=off -count=1 -run TestSeedDemo ./%s/" % demo_dir); meta["demo_without_patch"] = "pass" if rc == 0 else "FAIL"
sh("git apply SEED/patch.diff")
rc, out = sh("go build ./framework/... ./internal/... ."); meta["builds"] = "yes" if rc == 0 else "no"
rc, out = sh("go test -vet=off -count=1 -run TestSeedDemo ./%s/" % demo_dir); meta["demo_with_patch"] = "fail" if rc != 0 else "PASS"
if "--nosuite" not in sys.argv:
    rc, out = sh("go test -vet=off -count=1 -skip TestSeedDemo $(go list ./... | grep -v -e /SEED -e maddy-pam-helper)")
    meta["existing_suite_with_patch"] = "pass" if rc == 0 else "FAIL: " + "\n".join(l for l in out.splitlines() if "FAIL" in l)[:300]
sh("git checkout -- . && rm -f %s/zz_seed_demo_test.go" % demo_dir)
dst = os.path.join(V, OUT, pid); os.makedirs(dst, exist_ok=True)
for f in ("patch.diff", "zz_seed_demo_test.go", "NOTES.md"):
    shutil.copy(os.path.join(seed, f), os.path.join(dst, f))
ok = meta.get("patch_applies") == "yes" and meta.get("demo_without_patch") == "pass" and meta.get("demo_with_patch") == "fail" and meta.get("builds") == "yes" and meta.get("existing_suite_with_patch", "pass") == "pass"
meta["confirmed"] = ok
if ok:
    head = subprocess.run(["git", "-C", "/repo", "log", "--format=%h", "-1"], capture_output=True, text=True).stdout.strip()
    meta["verified_at_repo_head"] = head
    r = subprocess.run(["git", "-C", "/repo", "apply", os.path.join(dst, "patch.diff")], capture_output=True, text=True) if "--nocheck" not in sys.argv else None
    if r is None:
        pass   # the check against /repo is left to tools/seedmatrix.py
    elif r.returncode == 0:
        try:
            p = subprocess.run([os.path.join(V, "bin/check"), pid, "--tier", "quick"], capture_output=True, text=True, timeout=3000)
            lines = p.stdout.splitlines()
            viol = [l for l in lines if l.startswith("VIOLATION")]
            why = [l for l in lines if l.startswith("# monitor") or l.startswith("# obligation") or l.startswith("# model")]
            meta["detected_by"] = ("bin/check %s --tier quick at /repo %s + patch: %s; %s" % (pid, head, (why[-1][:300] if why else ""), viol[-1])) if viol else ("NOT detected by bin/check %s --tier quick" % pid)
        finally:
            subprocess.run(["git", "-C", "/repo", "checkout", "--", "."]); subprocess.run(["git", "-C", "/repo", "clean", "-fdq"])
    else:
        meta["detected_by"] = "patch does not apply to /repo: " + r.stderr[:200]
json.dump(meta, open(os.path.join(dst, "meta.json"), "w"), indent=1)
print(json.dumps(meta, indent=1))
