From Maddy Require Import Lib.Base Conc.Pool.
From Coq Require Import Lia.
Local Open Scope N_scope.

Section Pool.
  Variable cap max_keys : nat.
  Variable expired stale good : N -> bool.
  Notation step := (step max_keys expired stale good).
  Notation reach := (reach max_keys expired stale good).

  (* ---- tokens ---- *)
  Record InvT (s : st) : Prop := {
    t_once : forall t, (closes s t <= 1)%nat /\ (loc s t <> PGone -> closes s t = 0%nat);
    t_hold : forall a t, acts s a = AHold t -> loc s t = PHeld a;
    t_cont : forall a cs lk k t, acts s a = ADrain cs lk (Some (k, t)) -> loc s t = PHeld a;
    t_fresh : forall t, next_tok s <= t -> loc s t = PFresh }.

  Ltac unf := unfold set_act, close_tok, move_tok, close_chans, set_keys, upd in *;
              cbn [loc closes ch_open keys next_ch next_tok lock acts panicked] in *.
  Ltac eqs := repeat match goal with
                     | |- context [?x =? ?y] => destruct (N.eqb_spec x y); subst
                     | H : context [?x =? ?y] |- _ => destruct (N.eqb_spec x y); subst
                     end.

  Lemma invT0 : InvT st0.
  Proof. constructor; cbn; intros; try discriminate; auto. Qed.

  Lemma invT_step s s' : InvT s -> step s s' -> InvT s'.
  Proof.
    intros [Ho Hh Hc Hf] Hs.
    assert (Hex : forall a a' t, acts s a = AHold t -> acts s a' = AHold t -> a = a').
    { intros a a' t H1 H2. apply Hh in H1. apply Hh in H2. congruence. }
    assert (Hex2 : forall a a' cs lk k t, acts s a = AHold t -> acts s a' = ADrain cs lk (Some (k, t)) -> a = a').
    { intros a a' cs lk k t H1 H2. apply Hh in H1. apply Hc in H2. congruence. }
    inversion Hs; subst; constructor; unf; intros; eqs;
      repeat match goal with
             | H : acts _ ?a = AHold ?t |- _ => lazymatch goal with G : loc _ t = PHeld a |- _ => fail | _ => pose proof (Hh _ _ H) end
             | H : acts _ ?a = ADrain _ _ (Some (_, ?t)) |- _ => lazymatch goal with G : loc _ t = PHeld a |- _ => fail | _ => pose proof (Hc _ _ _ _ _ H) end
             end;
      try solve [ auto | congruence | discriminate | lia | eauto ].
    all: try solve [ match goal with |- (_ <= 1)%nat /\ _ =>
                       match goal with
                       | H : loc _ ?t = _ |- context [closes _ ?t] => destruct (Ho t) as [A B]; try rewrite B by congruence; split; [lia|intro; congruence]
                       | |- context [closes _ ?t] => destruct (Ho t) as [A B]; split; [lia|auto]
                       end end ].
    all: try solve [ match goal with H : next_tok _ <= ?t |- _ => pose proof (Hf t H); congruence end ].
    all: try solve [ match goal with H : next_tok _ + 1 <= ?t |- _ => apply Hf; lia end ].
    all: try solve [ match goal with H : next_tok _ + 1 <= next_tok _ |- _ => lia end ].
    all: try solve [ exfalso; match goal with H : loc _ (next_tok ?s0) = PHeld _ |- _ => rewrite (Hf (next_tok s0)) in H by lia; discriminate end ].
    all: try solve [ eapply Hc; eassumption | eapply Hh; eassumption ].
    all: try solve [ match goal with |- context [closes ?s0 (next_tok ?s0)] =>
                       destruct (Ho (next_tok s0)) as [A B]; rewrite B by (rewrite (Hf (next_tok s0)) by lia; discriminate); split; [lia|reflexivity] end ].
    all: try solve [ match goal with H1 : ADrain _ _ _ = ADrain _ _ (Some _) |- _ => inversion H1; subst; eapply Hc; eassumption end ].
  Qed.

  (* ---- channels ---- *)
  Record InvC (s : st) : Prop := {
    c_ok : panicked s = false;
    c_keys : forall l k c, keys s = Some l -> In (k, c) l -> ch_open s c = true /\ c < next_ch s;
    c_nodup : forall l, keys s = Some l -> NoDup (map snd l) }.

  Lemma alookup_in (k : N) (l : list (N * N)) c : alookup N.eqb k l = Some c -> In (k, c) l.
  Proof.
    induction l as [|[k' c'] r IH]; cbn; [discriminate|]. destruct (N.eqb_spec k k').
    - intro H; inversion H; subst. left; reflexivity.
    - intro H. right. apply IH. exact H.
  Qed.
  Lemma nodup_snd_inj (l : list (N * N)) k k' c : NoDup (map snd l) -> In (k, c) l -> In (k', c) l -> k = k'.
  Proof.
    induction l as [|[k0 c0] r IH]; intros Hn H1 H2; [destruct H1|]. cbn in Hn. inversion Hn as [|x xs Hnin Hn']; subst.
    destruct H1 as [H1|H1], H2 as [H2|H2].
    - congruence.
    - inversion H1; subst. exfalso. apply Hnin. apply in_map_iff. exists (k', c). auto.
    - inversion H2; subst. exfalso. apply Hnin. apply in_map_iff. exists (k, c). auto.
    - apply IH; assumption.
  Qed.
  Lemma nodup_filter_snd (p : N * N -> bool) (l : list (N * N)) : NoDup (map snd l) -> NoDup (map snd (filter p l)).
  Proof.
    induction l as [|x r IH]; intro H; [constructor|]. cbn in H. inversion H as [|y ys Hnin Hn]; subst. cbn.
    destruct (p x); [|apply IH; exact Hn]. cbn. constructor; [|apply IH; exact Hn].
    intro Hin. apply Hnin. apply in_map_iff in Hin as (z & Hz & Hzin). apply filter_In in Hzin as [Hzin _].
    apply in_map_iff. exists z. auto.
  Qed.
  Lemma mem_b_N_in c cs : mem_b N.eqb c cs = true <-> In c cs.
  Proof.
    unfold mem_b. split.
    - intro H. apply existsb_exists in H as (x & Hx & E). apply N.eqb_eq in E. subst. exact Hx.
    - intro H. apply existsb_exists. exists c. split; [exact H|apply N.eqb_refl].
  Qed.

  (* closing the channels of the entries selected by [p] and keeping the others *)
  Lemma close_filter_ok s l (p : N * N -> bool) :
    (forall k c, In (k, c) l -> ch_open s c = true /\ c < next_ch s) -> NoDup (map snd l) ->
    existsb (fun c => negb (ch_open s c)) (map snd (filter p l)) = false /\
    (forall k c, In (k, c) (filter (fun x => negb (p x)) l) ->
       (if mem_b N.eqb c (map snd (filter p l)) then false else ch_open s c) = true /\ c < next_ch s).
  Proof.
    intros Hk Hn. split.
    - destruct (existsb _ _) eqn:E; [|reflexivity]. apply existsb_exists in E as (c & Hc & Ho).
      apply in_map_iff in Hc as ([k c'] & Hs & Hin). cbn in Hs. subst c'. apply filter_In in Hin as [Hin _].
      destruct (Hk _ _ Hin) as [A _]. rewrite A in Ho. discriminate.
    - intros k c Hin. apply filter_In in Hin as [Hin Hp]. destruct (Hk _ _ Hin) as [A B]. split; [|exact B].
      destruct (mem_b N.eqb c (map snd (filter p l))) eqn:E; [|exact A]. exfalso.
      apply mem_b_N_in in E. apply in_map_iff in E as ([k' c'] & Hs & Hin'). cbn in Hs. subst c'.
      apply filter_In in Hin' as [Hin' Hp']. assert (k = k') by (eapply nodup_snd_inj; eauto). subst k'.
      rewrite Hp' in Hp. discriminate.
  Qed.

  Lemma invC0 : InvC st0.
  Proof. constructor; cbn; intros; try reflexivity. - inversion H; subst. destruct H0. - inversion H; subst. constructor. Qed.

  Lemma existsb_closed_false s (l : list (N * N)) (sub : list (N * N)) :
    (forall k c, In (k, c) l -> ch_open s c = true /\ c < next_ch s) -> (forall x, In x sub -> In x l) ->
    existsb (fun c => negb (ch_open s c)) (map snd sub) = false.
  Proof.
    intros Hk Hsub. destruct (existsb _ _) eqn:E; [|reflexivity]. apply existsb_exists in E as (c & Hc & Ho).
    apply in_map_iff in Hc as ([k c'] & Hs & Hin). cbn in Hs. subst c'. destruct (Hk _ _ (Hsub _ Hin)) as [A _].
    rewrite A in Ho. discriminate.
  Qed.

  Lemma invC_step s s' : InvC s -> step s s' -> InvC s'.
  Proof.
    intros [Hp Hk Hn] Hs. inversion Hs; subst; constructor; unf; intros;
      try solve [ auto | eauto | congruence | discriminate ];
      repeat match goal with H : Some _ = Some _ |- _ => inversion H; subst; clear H end;
      try rewrite Hp; cbn [orb].
    - (* get_expired: panic *)
      match goal with Ha : alookup N.eqb ?k ?l = Some ?c, Hl : keys _ = Some ?l |- _ =>
        assert (Hin := alookup_in _ _ _ Ha); destruct (Hk _ _ _ Hl Hin) as [A _]; cbn; rewrite A; reflexivity end.
    - (* get_expired: remaining keys *)
      match goal with Ha : alookup N.eqb ?k ?l = Some ?c, Hl : keys _ = Some ?l, Hd : In (?k0, ?c0) (del_key ?l ?k) |- _ =>
        assert (Hin := alookup_in _ _ _ Ha); unfold del_key in Hd; apply filter_In in Hd as [Hin' Hne];
        destruct (Hk _ _ _ Hl Hin') as [A B]; split; [|exact B]; cbn; destruct (N.eqb_spec c0 c); [|exact A];
        subst c0; assert (k0 = k) by (eapply nodup_snd_inj; [apply (Hn _ Hl)| |]; eassumption); subst k0;
        cbn in Hne; rewrite N.eqb_refl in Hne; discriminate end.
    - (* get_expired: nodup *)
      match goal with Hl : keys _ = Some ?l |- _ => unfold del_key; apply nodup_filter_snd; apply (Hn _ Hl) end.
    - (* ret_send: panic *)
      match goal with Ha : alookup N.eqb ?k ?l = Some ?c, Hl : keys _ = Some ?l |- _ =>
        assert (Hin := alookup_in _ _ _ Ha); destruct (Hk _ _ _ Hl Hin) as [A _]; rewrite A; reflexivity end.
    - (* ret_gc: panic *)
      subst victims. destruct gc; [|reflexivity].
      match goal with Hl : keys _ = Some ?l |- _ =>
        apply (existsb_closed_false s l); [intros; eapply Hk; eauto|]; intros x Hx; apply filter_In in Hx; tauto end.
    - (* ret_gc: remaining keys *)
      subst victims kept. destruct gc.
      + match goal with Hl : keys _ = Some ?l, Hi : In (?k0, ?c0) (filter _ ?l) |- _ =>
          destruct (close_filter_ok s l (fun p => stale (fst p)) (fun k c Hin => Hk _ _ _ Hl Hin) (Hn _ Hl)) as [_ B];
          apply (B k0 c0); exact Hi end.
      + cbn. eapply Hk; eauto.
    - (* ret_gc: nodup *)
      subst kept. match goal with Hl : keys _ = Some ?l |- _ => destruct gc; [apply nodup_filter_snd|]; apply (Hn _ Hl) end.
    - (* ret_finish: keys *)
      match goal with Hl : keys _ = Some ?l, Hi : In (?k0, ?c0) (_ :: ?l) |- _ =>
        destruct Hi as [Hi|Hi];
        [ inversion Hi; subst; rewrite N.eqb_refl; split; [reflexivity|lia]
        | destruct (Hk _ _ _ Hl Hi) as [A B]; destruct (N.eqb_spec c0 (next_ch s)); [lia|]; split; [exact A|lia] ] end.
    - (* ret_finish: nodup *)
      match goal with Hl : keys _ = Some ?l |- _ =>
        cbn; constructor; [|apply (Hn _ Hl)]; intro Hin; apply in_map_iff in Hin as ([k' c'] & Hs' & Hin); cbn in Hs'; subst c';
        destruct (Hk _ _ _ Hl Hin) as [_ B]; lia end.
    - (* cleanup: panic *)
      subst victims. match goal with Hl : keys _ = Some ?l |- _ =>
        apply (existsb_closed_false s l); [intros; eapply Hk; eauto|]; intros x Hx; apply filter_In in Hx; tauto end.
    - (* cleanup: remaining keys *)
      subst victims. match goal with Hl : keys _ = Some ?l, Hi : In (?k0, ?c0) (filter _ ?l) |- _ =>
        destruct (close_filter_ok s l (fun p => stale (fst p)) (fun k c Hin => Hk _ _ _ Hl Hin) (Hn _ Hl)) as [_ B];
        apply (B k0 c0); exact Hi end.
    - (* cleanup: nodup *)
      match goal with Hl : keys _ = Some ?l |- _ => apply nodup_filter_snd; apply (Hn _ Hl) end.
    - (* shutdown: panic *)
      match goal with Hl : keys _ = Some ?l |- _ => apply (existsb_closed_false s l); [intros; eapply Hk; eauto|auto] end.
  Qed.

  Lemma reach_inv s : reach s -> InvT s /\ InvC s.
  Proof.
    induction 1 as [|s s' Hr [IT IC] Hs]; [split; [apply invT0|apply invC0]|].
    split; [eapply invT_step; eauto|eapply invC_step; eauto].
  Qed.
End Pool.
