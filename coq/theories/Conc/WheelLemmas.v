From Maddy Require Import Lib.Base Conc.Wheel.
From Coq Require Import Lia.
Local Open Scope N_scope.

Lemma closest_in l i t : closest l = Some (i, t) -> In (i, t) l.
Proof.
  revert i t; induction l as [|[j u] r IH]; intros i t H; cbn in H; [discriminate|].
  destruct (closest r) as [[k v]|] eqn:E.
  - destruct (v <? u); inversion H; subst; [right; apply IH; reflexivity|left; reflexivity].
  - inversion H; subst. left; reflexivity.
Qed.

Record InvA (s : st) : Prop := {
  (* ids in the wheel are distinct, below next_id, and were added with that time *)
  i_slots_nodup : NoDup (map fst (slots s));
  i_slots_added : forall i t, In (i, t) (slots s) -> In (i, t) (added s);
  i_added_lt : forall i t, In (i, t) (added s) -> i < next_id s;
  i_added_fun : forall i t t', In (i, t) (added s) -> In (i, t') (added s) -> t = t';
  i_prod_lt : forall p i t, (prods s p = PChecked i t \/ prods s p = PPushed i t) -> i < next_id s;
  i_prod_fresh : forall p i t, prods s p = PChecked i t -> forall u, ~ In (i, u) (added s);
  i_prod_distinct : forall p q i t u, prods s p = PChecked i t -> prods s q = PChecked i u -> p = q;
  (* the entry the tick goroutine waits for is in the wheel *)
  i_wait : forall i t, tk s = TWaitTimer i t -> In (i, t) (slots s) }.

Ltac unf := unfold wsp, upd in *; cbn [now slots stopped done_closed tk cl prods next_id added dispatched atts sem sem_cap] in *.
Ltac eqs := repeat match goal with
                   | |- context [?x =? ?y] => destruct (N.eqb_spec x y); subst
                   | H : context [?x =? ?y] |- _ => destruct (N.eqb_spec x y); subst
                   end.

Lemma in_remove_id l i j t : In (j, t) (remove_id l i) -> In (j, t) l /\ j <> i.
Proof.
  unfold remove_id. intro H. apply filter_In in H as [H1 H2]. split; [exact H1|]. cbn in H2.
  destruct (N.eqb_spec j i); [discriminate|assumption].
Qed.
Lemma nodup_remove_id l i : NoDup (map fst l) -> NoDup (map fst (remove_id l i)).
Proof.
  unfold remove_id. induction l as [|[j t] r IH]; intro H; [constructor|]. cbn in H. inversion H as [|x xs Hn Hd]; subst.
  cbn. destruct (j =? i); cbn; [apply IH; exact Hd|]. constructor; [|apply IH; exact Hd].
  intro Hin. apply Hn. apply in_map_iff in Hin as ([j' t'] & E & Hin). cbn in E. subst j'. apply filter_In in Hin as [Hin _].
  apply in_map_iff. exists (j, t'). auto.
Qed.

Lemma NoDup_app_single {A : Type} (l : list A) (x : A) : NoDup l -> ~ In x l -> NoDup (l ++ [x]).
Proof.
  induction l as [|y r IH]; intros Hn Hx; cbn; [constructor; [intros []|constructor]|].
  inversion Hn as [|z zs Hy Hr]; subst. constructor.
  - intro Hin. apply in_app_or in Hin as [Hin|[Hin|[]]]; [contradiction|]. subst. apply Hx. left; reflexivity.
  - apply IH; [exact Hr|]. intro Hin. apply Hx. right. exact Hin.
Qed.

Lemma invA0 cap : InvA (st0 cap).
Proof. constructor; cbn; intros; try contradiction; try discriminate; try (destruct H; discriminate). constructor. Qed.

Lemma invA_step s s' : InvA s -> step s s' -> InvA s'.
Proof.
  intros [H1 H2 H3 H4 H5 H6 H7 H8] Hs. inversion Hs; subst; constructor; unf; intros; eqs;
    try solve [ auto | eauto | congruence | discriminate | lia
              | match goal with H : _ \/ _ |- _ => destruct H; try discriminate; try congruence; eauto end ].
  (* bounds below the new next_id *)
  all: try solve [ match goal with
                   | H : In (?i, _) (added _) |- ?i < _ => apply H3 in H; lia
                   | H : _ \/ _ |- ?i < _ => destruct H as [H|H]; try discriminate; try (inversion H; subst; lia);
                                               match goal with H' : prods _ _ = _ |- _ => assert (X := H5 _ _ _ (or_introl H')) || assert (X := H5 _ _ _ (or_intror H')); lia end
                   end ].
  all: try solve [ match goal with H : _ \/ _ |- _ => destruct H as [H|H]; try discriminate; try (inversion H; subst);
                     try (eapply H5; left; eassumption); try (eapply H5; right; eassumption); try lia end ].
  (* freshness of the id just handed out *)
  all: try solve [ intro Hin; match goal with H : PChecked _ _ = PChecked _ _ |- _ => inversion H; subst end; apply H3 in Hin; lia ].
  all: try solve [ eapply H6; eassumption ].
  all: try solve [ exfalso; match goal with H : PChecked _ _ = PChecked ?i _, H' : prods _ _ = PChecked ?j _ |- _ =>
                     inversion H; subst; assert (X := H5 _ _ _ (or_introl H')); lia end ].
  all: try solve [ eapply H7; eassumption ].
  (* push *)
  all: try solve [ rewrite map_app; cbn; apply NoDup_app_single; [exact H1|];
                   intro Hin; apply in_map_iff in Hin as ([j u] & E & Hin); cbn in E; subst j; apply H2 in Hin;
                   match goal with H : prods _ _ = PChecked _ _ |- _ => exact (H6 _ _ _ H _ Hin) end ].
  all: try solve [ match goal with H : In _ (_ ++ _) |- _ => apply in_app_or in H as [H|H];
                     [ apply in_or_app; left; eauto | apply in_or_app; right; exact H ] end ].
  all: try solve [ match goal with H : In (?i0, _) (_ ++ [_]) |- ?i0 < _ => apply in_app_or in H as [H|[H|[]]];
                     [ eapply H3; eassumption | inversion H; subst; eapply H5; left; eassumption ] end ].
  all: try solve [ repeat match goal with H : In _ (_ ++ [_]) |- _ => apply in_app_or in H as [H|[H|[]]] end;
                   try (eapply H4; eassumption);
                   repeat match goal with H : (_, _) = (_, _) |- _ => inversion H; subst; clear H end; try reflexivity;
                   exfalso; match goal with H : prods _ _ = PChecked _ _, H' : In (_, _) (added _) |- _ => exact (H6 _ _ _ H _ H') end ].
  all: try solve [ intro Hin; apply in_app_or in Hin as [Hin|[Hin|[]]];
                   [ match goal with H : prods _ _ = PChecked _ _ |- _ => exact (H6 _ _ _ H _ Hin) end
                   | inversion Hin; subst;
                     match goal with Ha : prods _ ?p = PChecked ?i _, Hb : prods _ ?q = PChecked ?i _, Hne : ?q <> ?p |- _ =>
                       apply Hne; eapply H7; eassumption end ] ].
  all: try solve [ apply in_or_app; left; eauto ].
  (* send to a waiting timer *)
  all: try solve [ match goal with H : (if ?b then _ else _) = TWaitTimer _ _ |- _ => destruct b; [inversion H; subst; eauto|discriminate] end ].
  (* scan *)
  all: try solve [ match goal with H : match closest ?l with _ => _ end = TWaitTimer _ _ |- _ =>
                     destruct (closest l) as [[j u]|] eqn:E; [inversion H; subst; apply closest_in; exact E|discriminate] end ].
  (* fire *)
  all: try solve [ apply nodup_remove_id; exact H1 ].
  all: try solve [ match goal with H : In _ (remove_id _ _) |- _ => apply in_remove_id in H as [H _]; eauto end ].
Qed.

Record InvB (s : st) : Prop := {
  (* dispatched entries: were added, are no longer in the wheel, at most once, not early *)
  i_disp_added : forall i at_, In (i, at_) (dispatched s) -> exists t, In (i, t) (added s) /\ t <= at_ /\ at_ <= now s;
  i_disp_gone : forall i at_, In (i, at_) (dispatched s) -> ~ In i (map fst (slots s)) /\ forall p t, prods s p <> PChecked i t;
  i_disp_nodup : NoDup (map fst (dispatched s));
  (* every dispatch is counted as an attempt *)
  i_atts : map fst (atts s) = map fst (dispatched s) }.

Lemma map_fst_set_att l i a : map fst (set_att l i a) = map fst l.
Proof. induction l as [|[j b] r IH]; [reflexivity|]. cbn. destruct (j =? i); cbn; [reflexivity|rewrite IH; reflexivity]. Qed.

Lemma invB0 cap : InvB (st0 cap).
Proof. constructor; cbn; intros; try contradiction; auto. constructor. Qed.

Lemma invB_step s s' : InvA s -> InvB s -> step s s' -> InvB s'.
Proof.
  intros [A1 A2 A3 A4 A5 A6 A7 A8] [B1 B2 B3 B4] Hs. inversion Hs; subst; constructor; unf; intros; eqs;
    try rewrite map_fst_set_att;
    try solve [ auto | eauto | congruence ].
  (* the clock moves on *)
  all: try solve [ match goal with H : In _ (dispatched _) |- exists _, _ => destruct (B1 _ _ H) as (t0 & X1 & X2 & X3); exists t0; repeat split; auto; lia end ].
  (* a fresh id is not a dispatched one *)
  all: try solve [ match goal with H : In (?i, _) (dispatched _) |- _ /\ _ =>
                     destruct (B2 _ _ H) as [X1 X2]; destruct (B1 _ _ H) as (t0 & Y1 & _); split; [exact X1|];
                     intros p0 t1; eqs; [intro E; inversion E; subst; apply A3 in Y1; lia|apply X2] end ].
  all: try solve [ match goal with H : In _ (dispatched _) |- exists _, _ => destruct (B1 _ _ H) as (t0 & X1 & X2 & X3); exists t0; repeat split; auto;
                     apply in_or_app; left; exact X1 end ].
  (* push of an id that is still being added *)
  all: try solve [ match goal with H : In (?i0, _) (dispatched _), Hp : prods _ ?p = PChecked ?i ?t |- _ /\ _ =>
                     destruct (B2 _ _ H) as [X1 X2]; split;
                     [ rewrite map_app; cbn; intro Hin; apply in_app_or in Hin as [Hin|[Hin|[]]]; [contradiction|]; subst; exact (X2 _ _ Hp)
                     | intros p0 t1; eqs; [discriminate|apply X2] ] end ].
  all: try solve [ match goal with H : In (?i0, _) (dispatched _) |- _ /\ _ =>
                     destruct (B2 _ _ H) as [X1 X2]; split; [exact X1|]; intros p0 t1; eqs; [discriminate|apply X2] end ].
  (* fire *)
  all: try solve [ match goal with H : In _ (dispatched _ ++ [_]), Hw : tk _ = TWaitTimer ?i ?t |- exists _, _ =>
                     apply in_app_or in H as [H|[H|[]]];
                     [ destruct (B1 _ _ H) as (t0 & X1 & X2 & X3); exists t0; repeat split; auto
                     | inversion H; subst; exists t; split; [apply A2; apply A8; exact Hw|split; [assumption|lia]] ] end ].
  all: try solve [ match goal with H : In (?i0, _) (dispatched _ ++ [_]), Hw : tk _ = TWaitTimer ?i ?t |- _ /\ _ =>
                     apply in_app_or in H as [H|[H|[]]];
                     [ destruct (B2 _ _ H) as [X1 X2]; split; [|exact X2];
                       intro Hin; apply X1; apply in_map_iff in Hin as ([j u] & E & Hin); cbn in E; subst j;
                       apply in_remove_id in Hin as [Hin _]; apply in_map_iff; exists (i0, u); auto
                     | inversion H; subst; split;
                       [ intro Hin; apply in_map_iff in Hin as ([j u] & E & Hin); cbn in E; subst j; apply in_remove_id in Hin as [_ Hne]; congruence
                       | intros p0 t1 Hp; exact (A6 _ _ _ Hp _ (A2 _ _ (A8 _ _ Hw))) ] ] end ].
  all: try solve [ rewrite map_app; cbn; apply NoDup_app_single; [exact B3|];
                   intro Hin; apply in_map_iff in Hin as ([j u] & E & Hin); cbn in E; subst j;
                   match goal with Hw : tk _ = TWaitTimer ?i ?t |- _ =>
                     destruct (B2 _ _ Hin) as [X1 _]; apply X1; apply in_map_iff; exists (i, t); split; [reflexivity|apply A8; exact Hw] end ].
  all: try solve [ rewrite !map_app, B4; reflexivity ].
Qed.

Record InvC (s : st) : Prop := {
  i_gone : (cl s = CHandshaken \/ cl s = CDoneClosed \/ cl s = CReturned) -> tk s = TGone;
  i_stopped : cl s <> CNone -> stopped s = true;
  i_done : done_closed s = true <-> (cl s = CDoneClosed \/ cl s = CReturned);
  i_returned : cl s = CReturned -> forall i a, In (i, a) (atts s) -> a = AFinished }.

Lemma invC0 cap : InvC (st0 cap).
Proof.
  constructor; cbn; intros; try contradiction; try congruence.
  - destruct H as [H|[H|H]]; discriminate.
  - split; [discriminate|intros [H|H]; discriminate].
Qed.

Lemma in_set_att l i a j b : In (j, b) (set_att l i a) -> In (j, b) l \/ b = a.
Proof.
  induction l as [|[k c] r IH]; cbn; [tauto|]. destruct (k =? i); cbn.
  - intros [H|H]; [inversion H; subst; right; reflexivity|left; right; exact H].
  - intros [H|H]; [left; left; exact H|]. destruct (IH H); [left; right; assumption|right; assumption].
Qed.

Lemma invC_step s s' : InvC s -> step s s' -> InvC s'.
Proof.
  intros [C1 C2 C3 C4] Hs. inversion Hs; subst; constructor; unf; intros;
    try solve [ auto | eauto | congruence | tauto
              | match goal with H : _ \/ _ |- _ => destruct H as [H|[H|H]]; congruence end
              | split; intro; try congruence; try tauto ].
  all: try solve [ exfalso; match goal with H : _ \/ _ \/ _ |- _ => specialize (C1 H); congruence end ].
  all: try solve [ exfalso; match goal with H : cl _ = CReturned |- _ => specialize (C1 (or_intror (or_intror H))); congruence end ].
  all: try solve [ match goal with H : cl _ = CReturned, Hq : In (_, ?x) (atts _) |- _ => specialize (C4 H _ _ Hq); discriminate end ].
  all: try solve [ match goal with H : cl _ = CReturned, Hi : In _ (set_att _ _ _) |- _ =>
                     exfalso; match goal with Hq : In (_, _) (atts _) |- _ => specialize (C4 H _ _ Hq); discriminate end end ].
  all: try solve [ split; [intro Hd; apply C3 in Hd as [Hd|Hd]; congruence|intros [Hd|Hd]; discriminate] ].
  all: try solve [ apply C2; congruence ].
Qed.

Lemma reach_inv cap s : reach cap s -> InvA s /\ InvB s /\ InvC s.
Proof.
  induction 1 as [|s s' Hr (IA & IB & IC) Hs]; [split; [apply invA0|split; [apply invB0|apply invC0]]|].
  split; [eapply invA_step; eauto|split; [eapply invB_step; eauto|eapply invC_step; eauto]].
Qed.

(* no deadlock for a producer inside Add: whenever one has pushed its entry, some step of the
   system is enabled *)
Lemma pushed_not_stuck cap s p i t : reach cap s -> prods s p = PPushed i t -> exists s', step s s' /\ s' <> s.
Proof.
  intros Hr Hp. eexists. split; [apply s_time|]. intro E.
  assert (now (wsp s (now s + 1) (slots s) (stopped s) (done_closed s) (tk s) (cl s) (prods s) (next_id s) (added s) (dispatched s) (atts s) (sem s)) = now s) by (rewrite E; reflexivity).
  cbn in H. lia.
Qed.
