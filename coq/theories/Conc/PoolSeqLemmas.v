(* C19, sequential use of the pool: every connection is at one place at a time - pooled, closed
   (once) or held by a caller - whatever the sequence of operations.  Proofs. *)
From Maddy Require Import Lib.Base Conc.PoolSeq.
Local Open Scope N_scope.

Section SeqInv.
  Variable cf : pcfg.
  Variable good : N -> bool.

  Definition pooled (s : pst) : list N := match p_keys s with Some l => flat_map snd l | None => [] end.
  Notation cnt l x := (count_occ N.eq_dec l x).

  (* the caller's side: what it holds; it returns only what it holds or a brand-new connection *)
  Fixpoint remove1 (x : N) (l : list N) : list N :=
    match l with [] => [] | y :: t => if x =? y then t else y :: remove1 x t end.
  Definition allowed (s : pst) (held : list N) (o : pop) : bool :=
    match o with
    | PReturn _ t => mem_b N.eqb t held || negb (mem_b N.eqb t (pooled s ++ p_closed s))
    | _ => true
    end.
  Definition held_after (held : list N) (o : pop) (r : pres) : list N :=
    match o, r with
    | PGet _, RConn t => t :: held
    | PReturn _ t, _ => remove1 t held
    | _, _ => held
    end.
  Fixpoint wrun (s : pst) (held : list N) (ops : list pop) : option (pst * list N) :=
    match ops with
    | [] => Some (s, held)
    | o :: rest =>
        if allowed s held o then
          let '(s1, r) := pstep cf good s o in wrun s1 (held_after held o r) rest
        else None
    end.

  Definition Inv (s : pst) (held : list N) : Prop :=
    forall x, (cnt (pooled s) x + cnt (p_closed s) x + cnt held x <= 1)%nat.

  (* ---- counting ---- *)
  Lemma cnt_app (a b : list N) x : cnt (a ++ b) x = (cnt a x + cnt b x)%nat.
  Proof. apply count_occ_app. Qed.

  Lemma cnt_set_buf k : forall l buf b x,
    alookup N.eqb k l = Some buf ->
    (cnt (flat_map snd (set_buf l k b)) x + cnt buf x = cnt (flat_map snd l) x + cnt b x)%nat.
  Proof.
    induction l as [|[k' b'] l IH]; intros buf b x H; [discriminate|].
    cbn [alookup] in H. cbn [set_buf flat_map snd].
    destruct (N.eqb_spec k k') as [->|Hne].
    - inversion H; subst. rewrite N.eqb_refl. cbn [flat_map snd]. rewrite !cnt_app. lia.
    - assert (E : (k' =? k) = false) by (apply N.eqb_neq; auto). rewrite E.
      cbn [flat_map snd]. rewrite !cnt_app. specialize (IH buf b x H). lia.
  Qed.

  Lemma cnt_del_le k : forall l x, (cnt (flat_map snd (del l k)) x <= cnt (flat_map snd l) x)%nat.
  Proof.
    induction l as [|[k' b'] l IH]; intros x; [cbn; lia|]. unfold del in *. cbn [filter fst flat_map snd].
    destruct (k' =? k); cbn [negb flat_map snd]; rewrite ?cnt_app; specialize (IH x); lia.
  Qed.
  Lemma cnt_del k : forall l buf x,
    alookup N.eqb k l = Some buf ->
    (cnt (flat_map snd (del l k)) x + cnt buf x <= cnt (flat_map snd l) x)%nat.
  Proof.
    induction l as [|[k' b'] l IH]; intros buf x H; [discriminate|].
    cbn [alookup] in H. unfold del in *. cbn [filter fst flat_map snd].
    destruct (N.eqb_spec k k') as [->|Hne].
    - inversion H; subst. rewrite N.eqb_refl. cbn [negb]. rewrite cnt_app. pose proof (cnt_del_le k' l x). unfold del in H0. lia.
    - assert (E : (k' =? k) = false) by (apply N.eqb_neq; auto). rewrite E. cbn [negb flat_map snd].
      rewrite !cnt_app. specialize (IH buf x H). lia.
  Qed.

  Lemma recv_cnt : forall buf closed res rest closed' x,
    recv good buf closed = (res, rest, closed') ->
    (cnt closed' x + cnt rest x + match res with Some t => cnt [t] x | None => 0 end = cnt closed x + cnt buf x)%nat.
  Proof.
    induction buf as [|t r IH]; intros closed res rest closed' x H; cbn [recv] in H.
    - inversion H; subst. cbn. lia.
    - destruct (good t).
      + inversion H; subst. cbn [count_occ]. destruct (N.eq_dec t x); lia.
      + specialize (IH _ _ _ _ x H). rewrite cnt_app in IH. cbn [count_occ] in *. destruct (N.eq_dec t x); lia.
  Qed.

  Lemma cnt_remove1 t : forall held x,
    cnt (remove1 t held) x = (cnt held x - (if N.eq_dec t x then (if mem_b N.eqb t held then 1 else 0) else 0))%nat.
  Proof.
    induction held as [|y l IH]; intros x; [cbn; destruct (N.eq_dec t x); reflexivity|].
    cbn [remove1 mem_b existsb]. destruct (N.eqb_spec t y) as [->|Hne].
    - cbn [orb count_occ]. destruct (N.eq_dec y x); lia.
    - cbn [orb count_occ]. rewrite IH. fold (mem_b N.eqb t l).
      destruct (N.eq_dec y x), (N.eq_dec t x); subst; try congruence; destruct (mem_b N.eqb t l); lia.
  Qed.

  Lemma mem_b_cnt t l : mem_b N.eqb t l = false -> cnt l t = 0%nat.
  Proof.
    intros H. apply count_occ_not_In. intro Hin. unfold mem_b in H.
    assert (existsb (N.eqb t) l = true) by (apply existsb_exists; exists t; split; [exact Hin|apply N.eqb_refl]). congruence.
  Qed.
  Lemma mem_b_cnt_pos t l : mem_b N.eqb t l = true -> (1 <= cnt l t)%nat.
  Proof.
    intros H. unfold mem_b in H. apply existsb_exists in H. destruct H as [y [Hin E]]. apply N.eqb_eq in E. subst y.
    apply count_occ_In. exact Hin.
  Qed.

  Lemma step_inv s held o s' r :
    Inv s held -> allowed s held o = true -> pstep cf good s o = (s', r) -> Inv s' (held_after held o r).
  Proof.
    intros HI Hal E x. specialize (HI x). unfold pooled in *.
    destruct o as [k|k t| |]; cbn [pstep] in E.
    - (* Get *)
      destruct (p_keys s) as [l|] eqn:Ek; [|inversion E; subst; rewrite Ek; exact HI].
      destruct (alookup N.eqb k l) as [buf|] eqn:Ea; [|inversion E; subst; rewrite Ek; exact HI].
      destruct (expired cf).
      + inversion E; subst. cbn [p_keys p_closed held_after]. rewrite cnt_app.
        pose proof (cnt_del k l buf x Ea). lia.
      + destruct (recv good buf (p_closed s)) as [[res rest] cl] eqn:Er.
        pose proof (recv_cnt _ _ _ _ _ x Er) as R.
        pose proof (cnt_set_buf k l buf rest x Ea) as S.
        destruct res as [t|]; inversion E; subst; cbn [p_keys p_closed held_after count_occ] in *;
          try destruct (N.eq_dec t x); lia.
    - (* Return *)
      cbn [allowed] in Hal. cbn [held_after]. rewrite cnt_remove1.
      assert (Hfresh : mem_b N.eqb t held = false -> t = x ->
                (cnt (match p_keys s with Some l => flat_map snd l | None => [] end) x + cnt (p_closed s) x + cnt held x = 0)%nat).
      { intros Hm ->. rewrite Hm in Hal. cbn [orb] in Hal. apply negb_true_iff in Hal.
        pose proof (mem_b_cnt _ _ Hal) as Z. rewrite cnt_app in Z. unfold pooled in Z. pose proof (mem_b_cnt _ _ Hm). lia. }
      assert (Hheld : mem_b N.eqb t held = true -> t = x -> (1 <= cnt held x)%nat).
      { intros Hm ->. apply mem_b_cnt_pos. exact Hm. }
      destruct (p_keys s) as [l|] eqn:Ek.
      + destruct (alookup N.eqb k l) as [buf|] eqn:Ea.
        * pose proof (cnt_set_buf k l buf (buf ++ [t]) x Ea) as S. rewrite cnt_app in S. cbn [count_occ] in S.
          destruct (Nat.ltb (length buf) (cap cf)); inversion E; subst; cbn [p_keys p_closed];
            rewrite ?cnt_app; cbn [count_occ];
            destruct (N.eq_dec t x) as [Etx|Ntx]; destruct (mem_b N.eqb t held) eqn:Em;
            try (specialize (Hfresh eq_refl Etx)); try (specialize (Hheld eq_refl Etx)); lia.
        * destruct (Nat.eqb (length l) (max_keys cf) && stale cf)%bool;
            destruct (Nat.ltb 0 (cap cf)); inversion E; subst; cbn [p_keys p_closed flat_map snd app];
            rewrite ?cnt_app; cbn [count_occ flat_map];
            destruct (N.eq_dec t x) as [Etx|Ntx]; destruct (mem_b N.eqb t held) eqn:Em;
            try (specialize (Hfresh eq_refl Etx)); try (specialize (Hheld eq_refl Etx)); lia.
      + inversion E; subst. rewrite Ek. destruct (N.eq_dec t x); destruct (mem_b N.eqb t held); lia.
    - (* CleanUp *)
      destruct (p_keys s) as [l|] eqn:Ek; [|inversion E; subst; rewrite Ek; exact HI].
      destruct (stale cf); inversion E; subst; cbn [p_keys p_closed held_after flat_map]; rewrite ?Ek, ?cnt_app; cbn [count_occ]; lia.
    - (* Close *)
      destruct (p_keys s) as [l|] eqn:Ek; [|inversion E; subst; rewrite Ek; exact HI].
      inversion E; subst. cbn [p_keys p_closed held_after]. rewrite cnt_app. cbn [count_occ]. lia.
  Qed.

  Lemma wrun_inv : forall ops s held s' held',
    Inv s held -> wrun s held ops = Some (s', held') -> Inv s' held'.
  Proof.
    induction ops as [|o rest IH]; intros s held s' held' HI E; cbn [wrun] in E.
    - inversion E; subst. exact HI.
    - destruct (allowed s held o) eqn:Ea; [|discriminate].
      destruct (pstep cf good s o) as [s1 r] eqn:Es. eapply IH; [|exact E]. eapply step_inv; eauto.
  Qed.

  (* Under sequential use - every sequence of gets, returns (of what the caller holds or of new
     connections), clean-ups and a shutdown - no connection is closed twice, no closed or pooled
     connection is held by a caller, and nothing is pooled twice. *)
  Theorem seq_one_place_at_a_time ops s held :
    wrun pst0 [] ops = Some (s, held) ->
    NoDup (pooled s ++ p_closed s ++ held).
  Proof.
    intros E. assert (HI : Inv s held).
    { eapply wrun_inv; [|exact E]. intros x. cbn. lia. }
    apply (NoDup_count_occ N.eq_dec). intros x. specialize (HI x). rewrite !cnt_app. lia.
  Qed.
End SeqInv.

(* in the form the monitor of sequential histories uses (clause 3 of PoolCorr) *)
From Maddy Require Import Conc.PoolCorr.
Lemma count_n_count_occ x l : count_n x l = count_occ N.eq_dec l x.
Proof.
  unfold count_n. induction l as [|y l IH]; [reflexivity|]. cbn [filter count_occ].
  destruct (N.eq_dec y x) as [->|Hne].
  - rewrite N.eqb_refl. cbn [length]. rewrite IH. reflexivity.
  - assert (E : (x =? y) = false) by (apply N.eqb_neq; congruence). rewrite E. exact IH.
Qed.
Theorem seq_histories_pass_clause_3 cf good ops s held :
  wrun cf good pst0 [] ops = Some (s, held) ->
  forallb (fun t => Nat.leb (count_n t (p_closed s)) 1) (p_closed s) = true.
Proof.
  intros E. pose proof (seq_one_place_at_a_time cf good ops s held E) as Hn.
  apply forallb_forall. intros t _. apply Nat.leb_le. rewrite count_n_count_occ.
  pose proof (proj1 (NoDup_count_occ N.eq_dec _) Hn t) as H. rewrite !count_occ_app in H. lia.
Qed.

(* every connection Get hands out is usable and within its idle lifetime (clause 7 of PoolCorr) *)
Lemma recv_good good buf closed t rest cl :
  recv good buf closed = (Some t, rest, cl) -> good t = true.
Proof.
  revert closed. induction buf as [|x buf IH]; intros closed E; cbn [recv] in E; [discriminate|].
  destruct (good x) eqn:G; [|exact (IH _ E)]. inversion E; subst. exact G.
Qed.
Lemma pstep_hands_out_good cf good s o s' t : pstep cf good s o = (s', RConn t) -> good t = true.
Proof.
  destruct o as [k|k t'| |]; cbn [pstep]; intros E.
  - destruct (p_keys s) as [l|]; [|discriminate].
    destruct (alookup N.eqb k l) as [buf|]; [|discriminate].
    destruct (expired cf); [discriminate|].
    destruct (recv good buf (p_closed s)) as [[[t0|] rest] cl] eqn:R; [|discriminate].
    inversion E; subst. exact (recv_good _ _ _ _ _ _ R).
  - destruct (p_keys s) as [l|]; [|discriminate].
    destruct (alookup N.eqb k l) as [buf|].
    + destruct (Nat.ltb (length buf) (cap cf)); discriminate.
    + destruct (Nat.ltb 0 (cap cf)); discriminate.
  - destruct (p_keys s) as [l|]; [|discriminate]. destruct (stale cf); discriminate.
  - destruct (p_keys s) as [l|]; discriminate.
Qed.
Theorem seq_hands_out_only_good cf good ops : forall s s' rs t,
  prun cf good s ops = (s', rs) -> In (RConn t) rs -> good t = true.
Proof.
  induction ops as [|o ops IH]; intros s s' rs t E Hin; cbn [prun] in E.
  - inversion E; subst. destruct Hin.
  - destruct (pstep cf good s o) as [s1 x] eqn:P. destruct (prun cf good s1 ops) as [s2 xs] eqn:R.
    inversion E; subst. destruct Hin as [Hx|Hin].
    + subst x. exact (pstep_hands_out_good _ _ _ _ _ _ P).
    + exact (IH _ _ _ _ R Hin).
Qed.
Theorem seq_histories_pass_clause_7 cf bad ops s rs :
  prun cf (fun t => negb (mem_b N.eqb t bad)) pst0 ops = (s, rs) ->
  existsb (fun r => match r with RConn t => mem_b N.eqb t bad | _ => false end) rs = false.
Proof.
  intros E. destruct (existsb _ rs) eqn:X; [|reflexivity].
  apply existsb_exists in X. destruct X as [r [Hin Hr]]. destruct r as [|t|]; try discriminate.
  pose proof (seq_hands_out_only_good _ _ _ _ _ _ _ E Hin) as G. cbn in G. rewrite Hr in G. discriminate.
Qed.
