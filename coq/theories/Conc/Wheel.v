(* C12: the queue's time wheel (timewheel.go) and the dispatch / shutdown handshake of the queue
   as a transition system: producers (Add: check, push, send), the tick goroutine (scan, wait,
   fire = remove + dispatch, which counts the attempt before its goroutine starts), attempts
   (semaphore, run, possibly Add a retry, Done), the logical clock, and one shutdown
   (store stopped, stop handshake, close(done), wait for the attempts).  Definitions only. *)
From Maddy Require Export Lib.Base.
Local Open Scope N_scope.

Inductive prod := PIdle | PChecked (id t : N) | PPushed (id t : N).
Inductive tick := TScan | TWaitEmpty | TWaitTimer (id t : N) | TGone.
Inductive closer := CNone | CStored | CHandshaken | CDoneClosed | CReturned.
Inductive att := AQueued | ARunning | AFinished.

Record st := {
  now : N;
  slots : list (N * N);            (* id, time *)
  stopped : bool; done_closed : bool;
  tk : tick; cl : closer;
  prods : N -> prod;
  next_id : N;                     (* ids handed to Add are fresh *)
  added : list (N * N);            (* every entry ever pushed *)
  dispatched : list (N * N);       (* id, clock value at dispatch *)
  atts : list (N * att);           (* attempts, one per dispatch, all counted in the WaitGroup *)
  sem : nat; sem_cap : nat }.

Definition st0 (cap : nat) : st :=
  {| now := 0; slots := []; stopped := false; done_closed := false; tk := TScan; cl := CNone; prods := fun _ => PIdle;
     next_id := 0; added := []; dispatched := []; atts := []; sem := 0; sem_cap := cap |}.

Definition upd {A : Type} (f : N -> A) (k : N) (v : A) : N -> A := fun x => if x =? k then v else f x.

(* the entry the scan picks: the earliest, the first of them in list order *)
Fixpoint closest (l : list (N * N)) : option (N * N) :=
  match l with
  | [] => None
  | (i, t) :: r => match closest r with
                   | Some (j, u) => if u <? t then Some (j, u) else Some (i, t)
                   | None => Some (i, t)
                   end
  end.
Definition remove_id (l : list (N * N)) (i : N) : list (N * N) := filter (fun p => negb (fst p =? i)) l.
Fixpoint set_att (l : list (N * att)) (i : N) (a : att) : list (N * att) :=
  match l with [] => [] | (j, b) :: r => if j =? i then (j, a) :: r else (j, b) :: set_att r i a end.

Definition wsp (s : st) (nw : N) (sl : list (N * N)) (stp dc : bool) (t : tick) (c : closer) (p : N -> prod)
           (ni : N) (ad dp : list (N * N)) (at_ : list (N * att)) (sm : nat) : st :=
  {| now := nw; slots := sl; stopped := stp; done_closed := dc; tk := t; cl := c; prods := p; next_id := ni;
     added := ad; dispatched := dp; atts := at_; sem := sm; sem_cap := sem_cap s |}.

Inductive step : st -> st -> Prop :=
| s_time s : step s (wsp s (now s + 1) (slots s) (stopped s) (done_closed s) (tk s) (cl s) (prods s) (next_id s) (added s) (dispatched s) (atts s) (sem s))
(* Add: the stopped check *)
| s_add_ignored s p : prods s p = PIdle -> stopped s = true -> step s s
| s_add_check s p t : prods s p = PIdle -> stopped s = false ->
    step s (wsp s (now s) (slots s) (stopped s) (done_closed s) (tk s) (cl s) (upd (prods s) p (PChecked (next_id s) t))
                (next_id s + 1) (added s) (dispatched s) (atts s) (sem s))
| s_add_push s p i t : prods s p = PChecked i t ->
    step s (wsp s (now s) (slots s ++ [(i, t)]) (stopped s) (done_closed s) (tk s) (cl s) (upd (prods s) p (PPushed i t))
                (next_id s) (added s ++ [(i, t)]) (dispatched s) (atts s) (sem s))
(* Add: the send is received by the waiting tick goroutine *)
| s_add_send_empty s p i t : prods s p = PPushed i t -> tk s = TWaitEmpty ->
    step s (wsp s (now s) (slots s) (stopped s) (done_closed s) TScan (cl s) (upd (prods s) p PIdle)
                (next_id s) (added s) (dispatched s) (atts s) (sem s))
| s_add_send_timer s p i t c ct : prods s p = PPushed i t -> tk s = TWaitTimer c ct ->
    step s (wsp s (now s) (slots s) (stopped s) (done_closed s) (if ct <=? t then TWaitTimer c ct else TScan) (cl s)
                (upd (prods s) p PIdle) (next_id s) (added s) (dispatched s) (atts s) (sem s))
(* Add: released by close(done) *)
| s_add_release s p i t : prods s p = PPushed i t -> done_closed s = true ->
    step s (wsp s (now s) (slots s) (stopped s) (done_closed s) (tk s) (cl s) (upd (prods s) p PIdle)
                (next_id s) (added s) (dispatched s) (atts s) (sem s))
(* tick *)
| s_scan s : tk s = TScan ->
    step s (wsp s (now s) (slots s) (stopped s) (done_closed s)
                (match closest (slots s) with Some (i, t) => TWaitTimer i t | None => TWaitEmpty end)
                (cl s) (prods s) (next_id s) (added s) (dispatched s) (atts s) (sem s))
| s_fire s i t : tk s = TWaitTimer i t -> t <= now s ->
    step s (wsp s (now s) (remove_id (slots s) i) (stopped s) (done_closed s) TScan (cl s) (prods s) (next_id s) (added s)
                (dispatched s ++ [(i, now s)]) (atts s ++ [(i, AQueued)]) (sem s))
(* attempts *)
| s_att_start s i : In (i, AQueued) (atts s) -> (sem s < sem_cap s)%nat ->
    step s (wsp s (now s) (slots s) (stopped s) (done_closed s) (tk s) (cl s) (prods s) (next_id s) (added s) (dispatched s)
                (set_att (atts s) i ARunning) (S (sem s)))
| s_att_finish s i : In (i, ARunning) (atts s) ->
    step s (wsp s (now s) (slots s) (stopped s) (done_closed s) (tk s) (cl s) (prods s) (next_id s) (added s) (dispatched s)
                (set_att (atts s) i AFinished) (pred (sem s)))
(* shutdown *)
| s_close_store s : cl s = CNone ->
    step s (wsp s (now s) (slots s) true (done_closed s) (tk s) CStored (prods s) (next_id s) (added s) (dispatched s) (atts s) (sem s))
| s_close_handshake s : cl s = CStored -> (tk s = TWaitEmpty \/ exists i t, tk s = TWaitTimer i t) ->
    step s (wsp s (now s) (slots s) (stopped s) (done_closed s) TGone CHandshaken (prods s) (next_id s) (added s) (dispatched s) (atts s) (sem s))
| s_close_done s : cl s = CHandshaken ->
    step s (wsp s (now s) (slots s) (stopped s) true (tk s) CDoneClosed (prods s) (next_id s) (added s) (dispatched s) (atts s) (sem s))
| s_close_wait s : cl s = CDoneClosed -> (forall i a, In (i, a) (atts s) -> a = AFinished) ->
    step s (wsp s (now s) (slots s) (stopped s) (done_closed s) (tk s) CReturned (prods s) (next_id s) (added s) (dispatched s) (atts s) (sem s)).

Inductive reach (cap : nat) : st -> Prop :=
| r0 : reach cap (st0 cap)
| rS s s' : reach cap s -> step s s' -> reach cap s'.
