(* C19 correspondence (sequential histories) and monitor (sequential and concurrent logs) *)
From Maddy Require Export Lib.Base Conc.PoolSeq.
Local Open Scope N_scope.

(* one event of an instrumented run: an actor obtained a pooled connection, returned it, closed it
   itself, the pool closed it, or it was used; times are positions in the log *)
Inductive pev := EGot (a t : N) | ERet (a t : N) | EOwnerClose (a t : N) | EPoolClose (t : N) | EUse (a t : N) | EShutdown.

Inductive case :=
| CSeq (cf : pcfg) (bad : list N) (ops : list pop) (res : list pres) (closed : list N)
| CConc (log : list pev) (panics : N) (stuck : bool).

Definition pres_eqb (a b : pres) : bool :=
  match a, b with RNone, RNone | RDone, RDone => true | RConn x, RConn y => x =? y | _, _ => false end.
Definition count_n (x : N) (l : list N) : nat := length (filter (N.eqb x) l).
Definition same_multiset (a b : list N) : bool :=
  Nat.eqb (length a) (length b) && forallb (fun x => Nat.eqb (count_n x a) (count_n x b)) a.

Definition agrees (c : case) : bool :=
  match c with
  | CSeq cf bad ops res closed =>
      let '(s, rs) := prun cf (fun t => negb (mem_b N.eqb t bad)) pst0 ops in
      list_eqb pres_eqb rs res && same_multiset (p_closed s) closed
  | CConc _ _ _ => true
  end.
Definition mismatches (cs : list case) : list N := find_idx (fun c => negb (agrees c)) cs.

(* the property on a log: owner of each token over time *)
Fixpoint mon_log (log : list pev) (owner : list (N * N)) (closed : list N) (shut : bool) : list N :=
  match log with
  | [] => []
  | e :: r =>
      match e with
      | EGot a t =>
          (if mem_b N.eqb t closed then [2] else []) ++
          (match alookup N.eqb t owner with Some _ => [1] | None => [] end) ++
          mon_log r ((t, a) :: owner) closed shut
      | ERet a t | EOwnerClose a t =>
          (match alookup N.eqb t owner with Some a' => if a' =? a then [] else [1] | None => [1] end) ++
          (match e with EOwnerClose _ _ => if mem_b N.eqb t closed then [3] else [] | _ => [] end) ++
          mon_log r (filter (fun p => negb (fst p =? t)) owner) (match e with EOwnerClose _ _ => t :: closed | _ => closed end) shut
      | EPoolClose t =>
          (if mem_b N.eqb t closed then [3] else []) ++
          (match alookup N.eqb t owner with Some _ => [4] | None => [] end) ++
          mon_log r owner (t :: closed) shut
      | EUse a t =>
          (if mem_b N.eqb t closed then [2] else []) ++
          (match alookup N.eqb t owner with Some a' => if a' =? a then [] else [1] | None => [1] end) ++
          mon_log r owner closed shut
      | EShutdown => mon_log r owner closed true
      end
  end.

Definition monitor (c : case) : list N :=
  match c with
  | CSeq cf bad ops res closed =>
      (* each token closed at most once *)
      (if forallb (fun t => Nat.leb (count_n t closed) 1) closed then [] else [3]) ++
      (* no connection that is unusable or past its idle lifetime is handed out *)
      (if existsb (fun r => match r with RConn t => mem_b N.eqb t bad | _ => false end) res then [7] else [])
  | CConc log panics stuck =>
      mon_log log [] [] false ++ (if panics =? 0 then [] else [5]) ++ (if stuck then [6] else [])
  end.

Definition dedup_N (l : list N) : list N :=
  fold_right (fun x acc => if existsb (N.eqb x) acc then acc else x :: acc) [] l.
Definition monitor_failures (cs : list case) : list (N * list N) :=
  let fix go (i : N) (l : list case) :=
    match l with
    | [] => []
    | c :: t => match dedup_N (monitor c) with [] => go (N.succ i) t | cl => (i, cl) :: go (N.succ i) t end
    end in go 0%N cs.

Definition tag (c : case) : N :=
  match c with
  | CSeq cf _ ops res closed =>
      1 + (if existsb (fun r => match r with RConn _ => true | _ => false end) res then 2 else 0)
      + (match closed with [] => 0 | _ => 4 end) + (if expired cf then 8 else 0) + (if stale cf then 16 else 0)
      + (if existsb (fun o => match o with PClose => true | _ => false end) ops then 32 else 0)
  | CConc log _ _ => 64 + (if existsb (fun e => match e with EGot _ _ => true | _ => false end) log then 128 else 0)
                        + (if existsb (fun e => match e with EShutdown => true | _ => false end) log then 256 else 0)
  end.
Definition tags (cs : list case) : list N := map tag cs.
