(* C19: the pool under sequential use, executable: the same atomic sections as Conc/Pool.v run to
   completion one after the other, with FIFO channel buffers.  Used for the correspondence with
   the implementation.  Definitions only. *)
From Maddy Require Export Lib.Base.
Local Open Scope N_scope.

Record pcfg := { cap : nat; max_keys : nat; expired : bool; stale : bool }.   (* lifetimes hit or not *)
Record pst := { p_keys : option (list (N * list N));      (* key -> buffered tokens, oldest first *)
                p_closed : list N }.                       (* Close calls, in order *)
Definition pst0 : pst := {| p_keys := Some []; p_closed := [] |}.

Inductive pop := PGet (k : N) | PReturn (k t : N) | PCleanUp | PClose.
Inductive pres := RNone | RConn (t : N) | RDone.

Section Seq.
  Variable cf : pcfg.
  Variable good : N -> bool.          (* Usable and not older than the lifetime *)

  Definition del (l : list (N * list N)) (k : N) := filter (fun p => negb (fst p =? k)) l.
  Fixpoint set_buf (l : list (N * list N)) (k : N) (b : list N) : list (N * list N) :=
    match l with
    | [] => []
    | (k', b') :: r => if k' =? k then (k, b) :: r else (k', b') :: set_buf r k b
    end.
  (* the receive loop of Get: bad connections are closed, the first good one is handed out *)
  Fixpoint recv (buf : list N) (closed : list N) : option N * list N * list N :=
    match buf with
    | [] => (None, [], closed)
    | t :: r => if good t then (Some t, r, closed) else recv r (closed ++ [t])
    end.

  Definition pstep (s : pst) (o : pop) : pst * pres :=
    match o with
    | PGet k =>
        match p_keys s with
        | None => (s, RNone)
        | Some l =>
            match alookup N.eqb k l with
            | None => (s, RNone)
            | Some buf =>
                if expired cf then ({| p_keys := Some (del l k); p_closed := p_closed s ++ buf |}, RNone)
                else match recv buf (p_closed s) with
                     | (Some t, rest, cl) => ({| p_keys := Some (set_buf l k rest); p_closed := cl |}, RConn t)
                     | (None, rest, cl) => ({| p_keys := Some (set_buf l k rest); p_closed := cl |}, RNone)
                     end
            end
        end
    | PReturn k t =>
        match p_keys s with
        | None => (s, RDone)                                   (* dropped *)
        | Some l =>
            match alookup N.eqb k l with
            | Some buf =>
                if Nat.ltb (length buf) (cap cf) then ({| p_keys := Some (set_buf l k (buf ++ [t])); p_closed := p_closed s |}, RDone)
                else ({| p_keys := Some l; p_closed := p_closed s ++ [t] |}, RDone)
            | None =>
                let gc := Nat.eqb (length l) (max_keys cf) && stale cf in
                let l' := if gc then [] else l in
                let cl := if gc then p_closed s ++ flat_map snd l else p_closed s in
                if Nat.ltb 0 (cap cf) then ({| p_keys := Some ((k, [t]) :: l'); p_closed := cl |}, RDone)
                else ({| p_keys := Some ((k, []) :: l'); p_closed := cl ++ [t] |}, RDone)
            end
        end
    | PCleanUp =>
        match p_keys s with
        | None => (s, RDone)
        | Some l => if stale cf then ({| p_keys := Some []; p_closed := p_closed s ++ flat_map snd l |}, RDone) else (s, RDone)
        end
    | PClose =>
        match p_keys s with
        | None => (s, RDone)
        | Some l => ({| p_keys := None; p_closed := p_closed s ++ flat_map snd l |}, RDone)
        end
    end.
  Fixpoint prun (s : pst) (ops : list pop) : pst * list pres :=
    match ops with
    | [] => (s, [])
    | o :: r => let '(s1, x) := pstep s o in let '(s2, xs) := prun s1 r in (s2, x :: xs)
    end.
End Seq.
