(* C19: the connection pool (internal/smtpconn/pool) as a transition system over the atomic
   sections under keysLock, the unlocked receive loop of Get, the drains done after a channel was
   closed (which a concurrent Get can race with), CleanUp, Return (capacity bound, stale-key
   collection) and Close.  Connections are tokens; where a token is (fresh, in the buffer of a
   channel, held by an actor, gone) is a function of the token, as a value sent on a Go channel is
   received exactly once.  Definitions only. *)
From Maddy Require Export Lib.Base.
Local Open Scope N_scope.

Inductive place := PFresh | PChan (c : N) | PHeld (a : N) | PGone.
Definition place_eqb (x y : place) : bool :=
  match x, y with
  | PFresh, PFresh | PGone, PGone => true
  | PChan a, PChan b | PHeld a, PHeld b => a =? b
  | _, _ => false
  end.

(* what an actor is doing *)
Inductive ast :=
| AIdle
| AGet (c : N)                                   (* Get after unlocking: receiving from the remembered channel *)
| ADrain (cs : list N) (locked : bool) (cont : option (N * N))   (* draining closed channels; a pending Return (key, token) *)
| AHold (t : N)
| ADone.                                         (* the closer after shutdown *)

Record st := {
  loc : N -> place;             (* tokens *)
  closes : N -> nat;            (* Close calls per token *)
  ch_open : N -> bool;          (* channels: open? (allocated channels are numbered below next_ch) *)
  keys : option (list (N * N)); (* key -> channel; None after shutdown *)
  next_ch : N; next_tok : N;
  lock : bool;                  (* keysLock held across steps (drains under the lock) *)
  acts : N -> ast;
  panicked : bool }.            (* send on / close of a closed channel *)

Definition st0 : st :=
  {| loc := fun _ => PFresh; closes := fun _ => 0%nat; ch_open := fun _ => false; keys := Some []; next_ch := 0; next_tok := 0;
     lock := false; acts := fun _ => AIdle; panicked := false |}.

Definition upd {A : Type} (f : N -> A) (k : N) (v : A) : N -> A := fun x => if x =? k then v else f x.

Section Pool.
  Variable cap : nat.                    (* MaxConnsPerKey *)
  Variable max_keys : nat.
  Variable expired : N -> bool.          (* bucket of this key older than MaxConnLifetimeSec *)
  Variable stale : N -> bool.            (* bucket of this key older than StaleKeyLifetimeSec *)
  Variable good : N -> bool.             (* token usable and young enough *)

  Definition set_act (s : st) (a : N) (x : ast) : st :=
    {| loc := loc s; closes := closes s; ch_open := ch_open s; keys := keys s; next_ch := next_ch s; next_tok := next_tok s;
       lock := lock s; acts := upd (acts s) a x; panicked := panicked s |}.
  Definition close_tok (s : st) (t : N) : st :=
    {| loc := upd (loc s) t PGone; closes := upd (closes s) t (S (closes s t)); ch_open := ch_open s; keys := keys s;
       next_ch := next_ch s; next_tok := next_tok s; lock := lock s; acts := acts s; panicked := panicked s |}.
  Definition move_tok (s : st) (t : N) (p : place) : st :=
    {| loc := upd (loc s) t p; closes := closes s; ch_open := ch_open s; keys := keys s;
       next_ch := next_ch s; next_tok := next_tok s; lock := lock s; acts := acts s; panicked := panicked s |}.
  Definition close_chans (s : st) (cs : list N) : st :=
    {| loc := loc s; closes := closes s;
       ch_open := fun c => if mem_b N.eqb c cs then false else ch_open s c;
       keys := keys s; next_ch := next_ch s; next_tok := next_tok s; lock := lock s; acts := acts s;
       panicked := panicked s || existsb (fun c => negb (ch_open s c)) cs |}.
  Definition set_keys (s : st) (k : option (list (N * N))) (lk : bool) : st :=
    {| loc := loc s; closes := closes s; ch_open := ch_open s; keys := k; next_ch := next_ch s; next_tok := next_tok s;
       lock := lk; acts := acts s; panicked := panicked s |}.
  Definition del_key (l : list (N * N)) (k : N) : list (N * N) := filter (fun p => negb (fst p =? k)) l.
  (* number of tokens in a channel buffer is not tracked: whether a send finds room is a choice of the step *)

  Inductive step : st -> st -> Prop :=
  (* a worker without a pooled connection makes a new one (cfg.New) *)
  | s_new s a : acts s a = AIdle ->
      step s (set_act (move_tok {| loc := loc s; closes := closes s; ch_open := ch_open s; keys := keys s; next_ch := next_ch s;
                                   next_tok := next_tok s + 1; lock := lock s; acts := acts s; panicked := panicked s |}
                                (next_tok s) (PHeld a)) a (AHold (next_tok s)))
  (* Get, under the lock: no bucket (or shut down) *)
  | s_get_none s a k : acts s a = AIdle -> lock s = false ->
      (match keys s with Some l => alookup N.eqb k l | None => None end) = None -> step s s
  (* Get, under the lock: the bucket has expired - delete, close the channel, drain after unlocking *)
  | s_get_expired s a k l c : acts s a = AIdle -> lock s = false -> keys s = Some l -> alookup N.eqb k l = Some c -> expired k = true ->
      step s (set_act (close_chans (set_keys s (Some (del_key l k)) false) [c]) a (ADrain [c] false None))
  (* Get, under the lock: remember the channel *)
  | s_get_chan s a k l c : acts s a = AIdle -> lock s = false -> keys s = Some l -> alookup N.eqb k l = Some c -> expired k = false ->
      step s (set_act s a (AGet c))
  (* Get, unlocked: a connection is received: unusable or too old ones are closed, the loop goes on *)
  | s_recv_bad s a c t : acts s a = AGet c -> loc s t = PChan c -> good t = false -> step s (close_tok s t)
  | s_recv_good s a c t : acts s a = AGet c -> loc s t = PChan c -> good t = true ->
      step s (set_act (move_tok s t (PHeld a)) a (AHold t))
  (* Get, unlocked: nothing to receive (empty, or closed and empty) *)
  | s_recv_none s a c : acts s a = AGet c -> (forall t, loc s t <> PChan c) -> step s (set_act s a AIdle)
  (* draining a closed channel: each connection found is closed *)
  | s_drain_one s a c cs lk cont t : acts s a = ADrain (c :: cs) lk cont -> loc s t = PChan c -> step s (close_tok s t)
  | s_drain_next s a c cs lk cont : acts s a = ADrain (c :: cs) lk cont -> (forall t, loc s t <> PChan c) ->
      step s (set_act s a (ADrain cs lk cont))
  | s_drain_done s a : acts s a = ADrain [] false None -> step s (set_act s a AIdle)
  (* the owner closes the connection instead of returning it *)
  | s_owner_close s a t : acts s a = AHold t -> step s (set_act (close_tok s t) a AIdle)
  (* Return after shutdown: the connection is dropped *)
  | s_ret_dead s a t : acts s a = AHold t -> lock s = false -> keys s = None ->
      step s (set_act (move_tok s t PGone) a AIdle)
  (* Return, bucket exists: non-blocking send, or Close when the buffer is full *)
  | s_ret_send s a t k l c : acts s a = AHold t -> lock s = false -> keys s = Some l -> alookup N.eqb k l = Some c ->
      step s (set_act (move_tok {| loc := loc s; closes := closes s; ch_open := ch_open s; keys := keys s; next_ch := next_ch s;
                                   next_tok := next_tok s; lock := lock s; acts := acts s;
                                   panicked := panicked s || negb (ch_open s c) |} t (PChan c)) a AIdle)
  | s_ret_full s a t k l c : acts s a = AHold t -> lock s = false -> keys s = Some l -> alookup N.eqb k l = Some c ->
      step s (set_act (close_tok s t) a AIdle)
  (* Return, no bucket: stale buckets are collected when the table is full (drained under the lock),
     then the bucket is created and the connection sent *)
  | s_ret_gc s a t k l : acts s a = AHold t -> lock s = false -> keys s = Some l -> alookup N.eqb k l = None ->
      let gc := Nat.eqb (length l) max_keys in
      let victims := if gc then filter (fun p => stale (fst p)) l else [] in
      let kept := if gc then filter (fun p => negb (stale (fst p))) l else l in
      step s (set_act (close_chans (set_keys s (Some kept) true) (map snd victims))
                      a (ADrain (map snd victims) true (Some (k, t))))
  | s_ret_finish s a k t l : acts s a = ADrain [] true (Some (k, t)) -> keys s = Some l ->
      step s (set_act (move_tok {| loc := loc s; closes := closes s; ch_open := upd (ch_open s) (next_ch s) true;
                                   keys := Some ((k, next_ch s) :: l); next_ch := next_ch s + 1; next_tok := next_tok s;
                                   lock := false; acts := acts s; panicked := panicked s |} t (PChan (next_ch s))) a AIdle)
  (* CleanUp: stale buckets closed and drained under the lock *)
  | s_cleanup s a l : acts s a = AIdle -> lock s = false -> keys s = Some l ->
      let victims := filter (fun p => stale (fst p)) l in
      step s (set_act (close_chans (set_keys s (Some (filter (fun p => negb (stale (fst p))) l)) true) (map snd victims))
                      a (ADrain (map snd victims) true None))
  | s_locked_done s a : acts s a = ADrain [] true None -> step s (set_act (set_keys s (keys s) false) a AIdle)
  (* Close: every bucket closed and drained under the lock, the table dropped *)
  | s_shutdown s a l : acts s a = AIdle -> lock s = false -> keys s = Some l ->
      step s (set_act (close_chans (set_keys s None true) (map snd l)) a (ADrain (map snd l) true None)).

  Inductive reach : st -> Prop :=
  | r0 : reach st0
  | rS s s' : reach s -> step s s' -> reach s'.
End Pool.
