(* C12 correspondence (sequential dispatch order) and monitor (concurrent runs) *)
From Maddy Require Export Lib.Base Conc.Wheel.
Local Open Scope N_scope.

Inductive case :=
| CSeq (entries : list (N * N)) (order : list N)                   (* id, time (ms offset); ids in dispatch order *)
| CConc (added : list (N * N)) (disp : list (N * N * bool))        (* id, target; id, lateness >= 0 ?, after Close returned ? *)
        (panics : N) (stuck : bool)
| CQueue (running_after_close started_after_close broken : N) (lost : N) (stuck : bool).

(* all entries are in the wheel before the first one is due: repeatedly the earliest, first on ties *)
Fixpoint schedule (fuel : nat) (l : list (N * N)) : list N :=
  match fuel with
  | O => []
  | S f => match closest l with
           | Some (i, _) => i :: schedule f (remove_id l i)
           | None => []
           end
  end.

Definition agrees (c : case) : bool :=
  match c with
  | CSeq entries order => list_eqb N.eqb (schedule (length entries) entries) order
  | _ => true
  end.
Definition mismatches (cs : list case) : list N := find_idx (fun c => negb (agrees c)) cs.

Definition count_n (x : N) (l : list N) : nat := length (filter (N.eqb x) l).
Definition monitor (c : case) : list N :=
  match c with
  | CSeq entries order =>
      (if forallb (fun i => Nat.eqb (count_n i order) 1) (map fst entries) && Nat.eqb (length order) (length entries) then [] else [1])
  | CConc added disp panics stuck =>
      let ids := map (fun d => fst (fst d)) disp in
      (if forallb (fun i => Nat.leb (count_n i ids) 1) ids then [] else [1]) ++
      (if forallb (fun i => mem_b N.eqb i (map fst added)) ids then [] else [2]) ++
      (if forallb (fun d => snd (fst d) =? 1) disp then [] else [3]) ++
      (if existsb (fun d => snd d) disp then [4] else []) ++
      (if panics =? 0 then [] else [5]) ++ (if stuck then [6] else [])
  | CQueue r s b lost stuck =>
      (if r =? 0 then [] else [7]) ++ (if s =? 0 then [] else [7]) ++ (if b =? 0 then [] else [8]) ++
      (if lost =? 0 then [] else [9]) ++ (if stuck then [6] else [])
  end.

Definition dedup_N (l : list N) : list N :=
  fold_right (fun x acc => if existsb (N.eqb x) acc then acc else x :: acc) [] l.
Definition monitor_failures (cs : list case) : list (N * list N) :=
  let fix go (i : N) (l : list case) :=
    match l with
    | [] => []
    | c :: t => match dedup_N (monitor c) with [] => go (N.succ i) t | cl => (i, cl) :: go (N.succ i) t end
    end in go 0%N cs.

Definition tag (c : case) : N :=
  match c with
  | CSeq e _ => 1 + (if Nat.ltb 3 (length e) then 2 else 0)
  | CConc a d _ _ => 4 + (match d with [] => 0 | _ => 8 end) + (if Nat.ltb (length d) (length a) then 16 else 0)
  | CQueue _ _ _ _ _ => 32
  end.
Definition tags (cs : list case) : list N := map tag cs.
