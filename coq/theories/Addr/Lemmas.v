(* Proofs about Addr/Model.v (C17). *)
From Maddy Require Import Lib.Base Addr.Model.
Local Open Scope N_scope.

(* ---------- is_ascii ---------- *)
Lemma is_ascii_spec s : is_ascii s = true <-> Forall (fun c => c < 128) s.
Proof.
  unfold is_ascii. rewrite forallb_forall, Forall_forall.
  split; intros H x Hx; specialize (H x Hx); [apply N.ltb_lt|apply N.ltb_lt]; exact H.
Qed.

(* ---------- split / join ---------- *)
Lemma split_last_at_join a m d :
  split_last_at a = Some (m, d) -> a = m ++ AT :: d /\ ~ In AT d.
Proof.
  revert m d. induction a as [|c t IH]; simpl; intros m d H; [discriminate|].
  destruct (split_last_at t) as [[m' d']|] eqn:E.
  - inversion H; subst. destruct (IH _ _ eq_refl) as [-> Hn]. split; [reflexivity|exact Hn].
  - destruct (c =? AT) eqn:Ec; [|discriminate]. inversion H; subst.
    apply N.eqb_eq in Ec; subst. split; [reflexivity|].
    clear -E. induction d as [|x d IHd]; simpl in *; [tauto|].
    destruct (split_last_at d) as [[? ?]|]; [discriminate|].
    destruct (x =? AT) eqn:Ex; [discriminate|]. apply N.eqb_neq in Ex.
    intros [H|H]; [congruence|]. apply IHd; auto.
Qed.

Lemma split_last_at_none d : ~ In AT d -> split_last_at d = None.
Proof.
  induction d as [|x d IH]; simpl; intros H; [reflexivity|].
  rewrite IH by tauto. destruct (x =? AT) eqn:E; [|reflexivity].
  apply N.eqb_eq in E. tauto.
Qed.

Lemma split_last_at_of_join m d :
  ~ In AT d -> split_last_at (m ++ AT :: d) = Some (m, d).
Proof.
  intros Hd. induction m as [|c m IH]; simpl.
  - rewrite (split_last_at_none d Hd). reflexivity.
  - rewrite IH. reflexivity.
Qed.

Lemma postmaster_no_at a : In AT a -> is_postmaster a = false.
Proof.
  intros H. unfold is_postmaster. destruct (str_eqb (map fold1 a) postmaster) eqn:E; [|reflexivity].
  apply str_eqb_eq in E. assert (In (fold1 AT) (map fold1 a)) by (apply in_map; exact H).
  rewrite E in H0. vm_compute in H0. repeat destruct H0 as [H0|H0]; try discriminate; tauto.
Qed.

Lemma split_join a m d :
  split a = Some (m, d) -> d <> [] -> a = m ++ [AT] ++ d /\ m <> [] /\ ~ In AT d.
Proof.
  unfold split. destruct (is_postmaster a).
  - intros H; inversion H; subst. tauto.
  - destruct (split_last_at a) as [[m' d']|] eqn:E; [|discriminate].
    destruct m' as [|x m']; [discriminate|]. destruct d' as [|y d']; [discriminate|].
    intros H _; inversion H; subst. apply split_last_at_join in E as [-> Hn].
    repeat split; auto. discriminate.
Qed.

Lemma split_of_join m d :
  m <> [] -> d <> [] -> ~ In AT d -> split (m ++ [AT] ++ d) = Some (m, d).
Proof.
  intros Hm Hd Hn. unfold split.
  rewrite postmaster_no_at by (apply in_or_app; right; left; reflexivity).
  simpl. rewrite (split_last_at_of_join m d Hn).
  destruct m; [tauto|]. destruct d; [tauto|]. reflexivity.
Qed.

(* ---------- quoting ---------- *)
Lemma nonspecial_plain c :
  mbox_special c = false -> (c =? DQ) = false /\ (c =? BS) = false /\ (c =? AT) = false.
Proof.
  unfold mbox_special. simpl. rewrite !orb_false_iff. intros H.
  repeat match goal with H : _ /\ _ |- _ => destruct H end. auto.
Qed.

Lemma unquote_plain l acc :
  existsb mbox_special l = false ->
  unquote_loop l false false false acc =
    match rev acc ++ l with [] => None | s => Some s end.
Proof.
  revert acc. induction l as [|c l IH]; intros acc H; simpl.
  - rewrite app_nil_r. destruct acc as [|x acc]; [reflexivity|].
    simpl. destruct (rev acc ++ [x]) eqn:E; [|reflexivity].
    apply app_eq_nil in E as [_ E]; discriminate.
  - simpl in H. apply orb_false_iff in H as [Hc Hl].
    destruct (nonspecial_plain c Hc) as (H1 & H2 & H3). rewrite H1, H2, H3. simpl.
    rewrite IH by exact Hl. simpl. rewrite <- app_assoc. reflexivity.
Qed.

Lemma unquote_body l acc :
  unquote_loop (quote_body l ++ [DQ]) true false false acc =
    match rev acc ++ l with [] => None | s => Some s end.
Proof.
  revert acc. induction l as [|c l IH]; intros acc.
  - simpl. rewrite app_nil_r. destruct acc as [|x acc]; [reflexivity|].
    simpl. destruct (rev acc ++ [x]) eqn:E; [|reflexivity].
    apply app_eq_nil in E as [_ E]; discriminate.
  - unfold quote_body. simpl. fold (quote_body l).
    destruct (c =? BS) eqn:Eb.
    + apply N.eqb_eq in Eb; subst. simpl. rewrite IH. simpl. rewrite <- app_assoc. reflexivity.
    + destruct (c =? DQ) eqn:Eq.
      * apply N.eqb_eq in Eq; subst. simpl. rewrite IH. simpl. rewrite <- app_assoc. reflexivity.
      * simpl. rewrite Eq, Eb. simpl. rewrite andb_false_r. rewrite IH. simpl.
        rewrite <- app_assoc. reflexivity.
Qed.

Lemma unquote_quote m : m <> [] -> unquote_mbox (quote_mbox m) = Some m.
Proof.
  intros Hm. unfold unquote_mbox, quote_mbox.
  destruct (existsb mbox_special m) eqn:E.
  - simpl. rewrite unquote_body. simpl. destruct m; [tauto|reflexivity].
  - rewrite unquote_plain by exact E. simpl. destruct m; [tauto|reflexivity].
Qed.

(* ---------- comparison and keys (any oracles) ---------- *)
Section Keys.
  Variables nfc lower : str -> str.
  Variable to_unicode : str -> option str.
  Notation key := (key nfc lower to_unicode).
  Notation equal := (equal nfc lower to_unicode).
  Notation for_lookup := (for_lookup nfc lower to_unicode).
  Notation dns_for_lookup := (dns_for_lookup nfc lower to_unicode).

  Lemma equal_iff_key a b : equal a b = true <-> key a = key b.
  Proof.
    unfold Model.equal. rewrite orb_true_iff, !str_eqb_eq. split.
    - intros [->|H]; auto.
    - auto.
  Qed.

  Lemma equal_refl a : equal a a = true.
  Proof. apply equal_iff_key; reflexivity. Qed.
  Lemma equal_sym a b : equal a b = equal b a.
  Proof.
    destruct (equal a b) eqn:E1, (equal b a) eqn:E2; auto.
    - apply equal_iff_key in E1. symmetry in E1. apply equal_iff_key in E1. congruence.
    - apply equal_iff_key in E2. symmetry in E2. apply equal_iff_key in E2. congruence.
  Qed.
  Lemma equal_trans a b c : equal a b = true -> equal b c = true -> equal a c = true.
  Proof. rewrite !equal_iff_key. congruence. Qed.

  (* the key depends on an address only through the mailbox key and the domain key *)
  Lemma key_congruence a a' m d m' d' :
    split a = Some (m, d) -> split a' = Some (m', d') -> d <> [] -> d' <> [] ->
    lower (nfc m) = lower (nfc m') ->
    dns_for_lookup d = dns_for_lookup d' -> snd (dns_for_lookup d) = true ->
    for_lookup a = for_lookup a' /\ equal a a' = true.
  Proof.
    intros S S' Hd Hd' Hm Hk Hok.
    assert (F : for_lookup a = for_lookup a').
    { unfold Model.for_lookup.
      destruct a as [|x a]; [discriminate|]. destruct a' as [|x' a']; [discriminate|].
      rewrite S, S'. destruct d; [tauto|]. destruct d'; [tauto|].
      rewrite <- Hk. destruct (dns_for_lookup (n :: d)) as [k [|]]; simpl in Hok; [|discriminate].
      rewrite Hm. reflexivity. }
    split; [exact F|]. apply equal_iff_key. unfold Model.key. now rewrite F.
  Qed.

  (* the letter case of the ASCII letters of a domain - of an ACE prefix too - does not matter *)
  Lemma dns_for_lookup_ascii_case d d' :
    (forall s, lower (ascii_lower s) = lower s) ->
    ascii_lower d = ascii_lower d' -> dns_for_lookup d = dns_for_lookup d'.
  Proof.
    intros Hl E. unfold Model.dns_for_lookup. rewrite E.
    destruct (to_unicode (ascii_lower d')); [reflexivity|]. rewrite <- (Hl d), <- (Hl d'), E. reflexivity.
  Qed.

  Section Idempotence.
    (* what is assumed of the Unicode / IDNA library; tested against the real library by the
       correspondence run on the property's alphabet, not proved *)
    Variable good : str -> bool.
    Hypothesis lower_nfc_idem : forall s, lower (nfc (lower (nfc s))) = lower (nfc s).
    Hypothesis lower_nfc_nonempty : forall s, s <> [] -> lower (nfc s) <> [].
    Hypothesis good_domain_canonical :
      forall d, good d = true -> exists u, to_unicode (ascii_lower d) = Some u /\
        let k := trim_dot (lower (nfc u)) in
        k <> [] /\ ~ In AT k /\ dns_for_lookup k = (k, true).

    Lemma for_lookup_idempotent a m d :
      split a = Some (m, d) -> d <> [] -> good d = true ->
      snd (for_lookup a) = true /\ for_lookup (key a) = for_lookup a.
    Proof.
      intros S Hd Hg. destruct (good_domain_canonical d Hg) as (u & Hu & Hk & Hat & Hdk).
      cbv zeta in *. remember (trim_dot (lower (nfc u))) as k eqn:Ek0.
      destruct (split_join a m d S Hd) as (_ & Hm & _).
      assert (F : for_lookup a = (lower (nfc m) ++ [AT] ++ k, true)).
      { unfold Model.for_lookup. destruct a as [|x a]; [discriminate|]. rewrite S.
        destruct d; [tauto|]. unfold Model.dns_for_lookup. rewrite Hu, <- Ek0.
        destruct k; [tauto|]. reflexivity. }
      split; [rewrite F; reflexivity|].
      unfold Model.key. rewrite F. cbn [fst].
      unfold Model.for_lookup at 1.
      assert (S2 : split (lower (nfc m) ++ [AT] ++ k) = Some (lower (nfc m), k))
        by (apply split_of_join; auto).
      destruct (lower (nfc m) ++ [AT] ++ k) eqn:E.
      { apply app_eq_nil in E as [_ E]. discriminate. }
      rewrite S2. destruct k as [|y k']; [tauto|].
      rewrite Hdk. rewrite lower_nfc_idem. rewrite E. reflexivity.
    Qed.
  End Idempotence.

  Section RoundTrip.
    Variable to_ascii : str -> option str.
    Variable good : str -> bool.
    Hypothesis good_ascii_unicode :
      forall d, good d = true -> exists ad u, to_ascii d = Some ad /\ ad <> [] /\ ~ In AT ad /\
                                              to_unicode ad = Some u /\ nfc u = d.

    Lemma ascii_unicode_roundtrip a m d :
      split a = Some (m, d) -> d <> [] -> is_ascii m = true -> good d = true ->
      exists a1, addr_to_ascii to_ascii a = (a1, true) /\
                 addr_to_unicode nfc to_unicode a1 = (a, true).
    Proof.
      intros S Hd Hm Hg. destruct (good_ascii_unicode d Hg) as (ad & u & Ha & Hne & Hat & Hu & Hn).
      destruct (split_join a m d S Hd) as (Ea & Hmne & _).
      exists (m ++ [AT] ++ ad). split.
      - unfold addr_to_ascii. rewrite S, Hm. simpl. destruct d; [tauto|]. rewrite Ha. reflexivity.
      - unfold addr_to_unicode. rewrite (split_of_join m ad Hmne Hne Hat).
        destruct ad; [tauto|]. rewrite Hu, Hn, Ea. reflexivity.
    Qed.
  End RoundTrip.
End Keys.
