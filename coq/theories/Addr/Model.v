(* C17: executable model of framework/address/{split,norm,rfc6531}.go and
   framework/dns/{norm,idna}.go over code-point strings.  Library functions (Unicode NFC,
   strings.ToLower, idna.ToUnicode / ToASCII) are Section variables.  Definitions only. *)
From Maddy Require Export Lib.Base.
Local Open Scope N_scope.

Definition AT : N := 64.      (* at sign *)
Definition DQ : N := 34.      (* double quote *)
Definition BS : N := 92.      (* backslash *)
Definition DOT : N := 46.     (* dot *)

(* strings.EqualFold(s, postmaster): simple case folding; the orbit of s contains U+017F *)
Definition fold1 (c : N) : N :=
  if (65 <=? c) && (c <=? 90) then c + 32 else if c =? 383 then 115 else c.
Definition postmaster : str := [112;111;115;116;109;97;115;116;101;114].
Definition is_postmaster (a : str) : bool := str_eqb (map fold1 a) postmaster.

(* strings.LastIndexByte(addr, AT): split at the last at sign *)
Fixpoint split_last_at (a : str) : option (str * str) :=
  match a with
  | [] => None
  | c :: t =>
      match split_last_at t with
      | Some (m, d) => Some (c :: m, d)
      | None => if c =? AT then Some ([], t) else None
      end
  end.

(* address.Split: None = error *)
Definition split (a : str) : option (str * str) :=
  if is_postmaster a then Some (a, [])
  else match split_last_at a with
       | None => None
       | Some (m, d) =>
           match m, d with
           | [], _ => None
           | _, [] => None
           | _, _ => Some (m, d)
           end
       end.

(* address.UnquoteMbox: the loop state is (quoted, escaped, terminatedQuote, output) *)
Fixpoint unquote_loop (l : str) (quoted escaped term : bool) (acc : str) : option str :=
  match l with
  | [] => match acc with [] => None | _ => Some (rev acc) end
  | ch :: t =>
      if term then None
      else if (ch =? DQ) && negb escaped then
             unquote_loop t (negb quoted) escaped quoted acc
           else if (ch =? BS) && negb escaped then
                  if negb quoted then None else unquote_loop t quoted true term acc
                else if (ch =? AT) && negb quoted then None
                     else unquote_loop t quoted false term (ch :: acc)
  end.
Definition unquote_mbox (m : str) : option str := unquote_loop m false false false [].

Definition mbox_special (c : N) : bool :=
  existsb (N.eqb c) [40;41;60;62;91;93;58;59;64;92;44;34;32].

Definition quote_body (m : str) : str :=
  flat_map (fun c => if (c =? BS) || (c =? DQ) then [BS; c] else [c]) m.
Definition quote_mbox (m : str) : str :=
  if existsb mbox_special m then [DQ] ++ quote_body m ++ [DQ] else m.

Definition is_ascii (s : str) : bool := forallb (fun c => c <? 128) s.

Fixpoint trim_dot (s : str) : str :=          (* strings.TrimSuffix(s, dot) *)
  match s with
  | [] => []
  | [c] => if c =? DOT then [] else [c]
  | c :: t => c :: trim_dot t
  end.

(* ASCII letters to lower case, every other byte as it is *)
Definition ascii_lower (s : str) : str := map (fun c => if (65 <=? c) && (c <=? 90) then c + 32 else c) s.

Section Oracles.
  Variables nfc lower : str -> str.                  (* norm.NFC.String, strings.ToLower *)
  Variables to_unicode to_ascii : str -> option str. (* idna.ToUnicode / ToASCII; None = error *)

  (* dns.ForLookup: the IDNA library recognises the ACE prefix in lower case only, so the ASCII
     letters are lower-cased before it is asked *)
  Definition dns_for_lookup (d : str) : str * bool :=
    match to_unicode (ascii_lower d) with
    | None => (lower d, false)
    | Some u => (trim_dot (lower (nfc u)), true)
    end.

  Definition dns_equal (a b : str) : bool :=
    str_eqb a b || str_eqb (fst (dns_for_lookup a)) (fst (dns_for_lookup b)).

  (* address.ForLookup *)
  Definition for_lookup (a : str) : str * bool :=
    match a with
    | [] => ([], true)
    | _ =>
        match split a with
        | None => (lower a, false)
        | Some (m, d) =>
            match d with
            | [] => (lower (nfc m), true)
            | _ => match dns_for_lookup d with
                   | (_, false) => (lower a, false)
                   | (d', true) =>
                       (* the Go code tests the domain for emptiness again after the lookup
                          normalisation: user@xn-- has the key of the bare local part *)
                       match d' with
                       | [] => (lower (nfc m), true)
                       | _ => (lower (nfc m) ++ [AT] ++ d', true)
                       end
                   end
            end
        end
    end.

  Definition key (a : str) : str := fst (for_lookup a).

  Definition equal (a b : str) : bool := str_eqb a b || str_eqb (key a) (key b).

  (* address.CleanDomain *)
  Definition clean_domain (a : str) : str * bool :=
    match a with
    | [] => ([], true)
    | _ =>
        match split a with
        | None => (a, false)
        | Some (m, d) =>
            match to_unicode d with
            | None => (a, false)
            | Some u =>
                match d with
                | [] => (m, true)
                | _ => (m ++ [AT] ++ lower (nfc u), true)
                end
            end
        end
    end.

  (* address.ToASCII *)
  Definition addr_to_ascii (a : str) : str * bool :=
    match split a with
    | None => (a, false)
    | Some (m, d) =>
        if negb (is_ascii m) then (a, false)
        else match d with
             | [] => (m, true)
             | _ => match to_ascii d with
                    | None => (a, false)
                    | Some ad => (m ++ [AT] ++ ad, true)
                    end
             end
    end.

  (* address.ToUnicode *)
  Definition addr_to_unicode (a : str) : str * bool :=
    match split a with
    | None => (nfc a, false)
    | Some (m, d) =>
        match d with
        | [] => (m, true)
        | _ => match to_unicode d with
               | None => (nfc a, false)
               | Some u => (m ++ [AT] ++ nfc u, true)
               end
        end
    end.
End Oracles.
