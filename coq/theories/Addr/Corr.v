(* C17 correspondence and monitor.  The library oracles are instantiated per case by finite
   tables recorded from the real library (entries where the function is not the identity; an
   argument without entry is mapped to itself). *)
From Maddy Require Export Lib.Base Addr.Model.
Local Open Scope N_scope.

Record tabs := { t_nfc : list (str * str); t_lower : list (str * str);
                 t_tou : list (str * option str); t_toa : list (str * option str) }.

Definition tab_str (t : list (str * str)) (s : str) : str :=
  match alookup str_eqb s t with Some v => v | None => s end.
Definition tab_opt (t : list (str * option str)) (s : str) : option str :=
  match alookup str_eqb s t with Some v => v | None => Some s end.

Definition sb := (str * bool)%type.
Record obs := {
  o_split : option (str * str); o_unq : option str; o_quote : str; o_unq_quote : option str;
  o_key : sb; o_key2 : sb; o_clean : sb; o_toa : sb; o_tou : sb; o_tou_toa : sb;
  o_ascii : bool; o_dns : sb; o_equal : bool; o_dns_equal : bool; o_keyb : sb;
  o_var_keys : list sb }.
Record case := { c_a : str; c_b : str; c_valid : bool; c_variants : list str;
                 c_tabs : tabs; c_obs : obs }.

Definition sb_eqb (x y : sb) : bool := str_eqb (fst x) (fst y) && Bool.eqb (snd x) (snd y).
Definition osplit_eqb (x y : option (str * str)) : bool :=
  match x, y with
  | None, None => true
  | Some (a, b), Some (c, d) => str_eqb a c && str_eqb b d
  | _, _ => false
  end.

Definition model_obs (c : case) : obs :=
  let T := c_tabs c in
  let nfc := tab_str (t_nfc T) in let lower := tab_str (t_lower T) in
  let tou := tab_opt (t_tou T) in let toa := tab_opt (t_toa T) in
  let a := c_a c in let b := c_b c in
  let fl := for_lookup nfc lower tou in
  {| o_split := split a; o_unq := unquote_mbox a; o_quote := quote_mbox a;
     o_unq_quote := unquote_mbox (quote_mbox a);
     o_key := fl a; o_key2 := fl (fst (fl a)); o_clean := clean_domain nfc lower tou a;
     o_toa := addr_to_ascii toa a; o_tou := addr_to_unicode nfc tou a;
     o_tou_toa := addr_to_unicode nfc tou (fst (addr_to_ascii toa a));
     o_ascii := is_ascii a; o_dns := dns_for_lookup nfc lower tou a;
     o_equal := equal nfc lower tou a b; o_dns_equal := dns_equal nfc lower tou a b;
     o_keyb := fl b; o_var_keys := map fl (c_variants c) |}.

Definition obs_eqb (x y : obs) : bool :=
  osplit_eqb (o_split x) (o_split y) && option_eqb str_eqb (o_unq x) (o_unq y)
  && str_eqb (o_quote x) (o_quote y) && option_eqb str_eqb (o_unq_quote x) (o_unq_quote y)
  && sb_eqb (o_key x) (o_key y) && sb_eqb (o_key2 x) (o_key2 y) && sb_eqb (o_clean x) (o_clean y)
  && sb_eqb (o_toa x) (o_toa y) && sb_eqb (o_tou x) (o_tou y) && sb_eqb (o_tou_toa x) (o_tou_toa y)
  && Bool.eqb (o_ascii x) (o_ascii y) && sb_eqb (o_dns x) (o_dns y)
  && Bool.eqb (o_equal x) (o_equal y) && Bool.eqb (o_dns_equal x) (o_dns_equal y)
  && sb_eqb (o_keyb x) (o_keyb y) && list_eqb sb_eqb (o_var_keys x) (o_var_keys y).

Definition agrees (c : case) : bool := obs_eqb (model_obs c) (c_obs c).
Definition mismatches (cs : list case) : list N := find_idx (fun c => negb (agrees c)) cs.

(* a label carrying the ACE prefix in other than lower case: xn-- is 120 110 45 45 *)
Fixpoint has_upper_ace_from (start : bool) (s : str) : bool :=
  match s with
  | c1 :: ((c2 :: c3 :: c4 :: _) as t) =>
      (start && (fold1 c1 =? 120) && (fold1 c2 =? 110) && (c3 =? 45) && (c4 =? 45)
       && negb ((c1 =? 120) && (c2 =? 110)))
      || has_upper_ace_from ((c1 =? DOT) || (c1 =? AT)) t
  | _ :: t => has_upper_ace_from false t
  | [] => false
  end.
Definition has_upper_ace (s : str) : bool := has_upper_ace_from true s.

(* the property on what the implementation returned; no model of the implementation involved *)
Definition monitor (c : case) : list N :=
  let o := c_obs c in let a := c_a c in
  (if negb (Bool.eqb (o_equal o) (str_eqb a (c_b c) || str_eqb (fst (o_key o)) (fst (o_keyb o)))) then [1] else []) ++
  (if negb (Bool.eqb (o_ascii o) (forallb (fun x => x <? 128) a)) then [2] else []) ++
  (match o_split o with
   | Some (m, d) => match d with [] => [] | _ => if str_eqb (m ++ [AT] ++ d) a then [] else [3] end
   | None => [] end) ++
  (match a with [] => [] | _ => if option_eqb str_eqb (o_unq_quote o) (Some a) then [] else [4] end) ++
  (if c_valid c && negb (snd (o_key o) && sb_eqb (o_key2 o) (o_key o)) then [5] else []) ++
  (if c_valid c then
     flat_map (fun vk => if sb_eqb (snd vk) (o_key o) then []
                         else [6])
              (combine (c_variants c) (o_var_keys o))
   else []) ++
  (if c_valid c && snd (o_toa o) && negb (sb_eqb (o_tou_toa o) (a, true)) then [7] else []).

Definition dedup_N (l : list N) : list N :=
  fold_right (fun x acc => if existsb (N.eqb x) acc then acc else x :: acc) [] l.
Definition monitor_failures (cs : list case) : list (N * list N) :=
  let fix go (i : N) (l : list case) :=
    match l with
    | [] => []
    | c :: t => match dedup_N (monitor c) with [] => go (N.succ i) t | cl => (i, cl) :: go (N.succ i) t end
    end in go 0%N cs.

Definition tag (c : case) : N :=
  let o := c_obs c in
  (if c_valid c then 1 else 0) + (match o_split o with Some _ => 2 | None => 0 end)
  + (if snd (o_key o) then 4 else 0) + (if o_ascii o then 0 else 8)
  + (match o_unq o with Some _ => 16 | None => 0 end) + (if o_equal o then 32 else 0)
  + (match t_nfc (c_tabs c) with [] => 0 | _ => 64 end)
  + (match t_tou (c_tabs c) with [] => 0 | _ => 128 end).
Definition tags (cs : list case) : list N := map tag cs.
