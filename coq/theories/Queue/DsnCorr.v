(* C18 correspondence and monitor. *)
From Maddy Require Export Lib.Base Queue.Model Queue.Dsn.
From Coq Require Import String.
Local Open Scope string_scope.
Local Open Scope list_scope.
Local Open Scope Z_scope.

Record tabs := { t_addr : list (bool * str * option str); t_dom : list (bool * str * option str) }.
Definition tlookup (t : list (bool * str * option str)) (u : bool) (s : str) : option str :=
  match find (fun e => Bool.eqb (fst (fst e)) u && str_eqb (snd (fst e)) s) t with
  | Some e => snd e
  | None => Some s
  end.

Inductive outcome := ONone | OPanic | OReport (r : report) (meta_orig_from : str) (wellformed orig_hdr_ok : bool).
Record case := {
  c_cfg : dcfg; c_meta : dmeta; c_failed : list str; c_bfail : bstage; c_tabs : tabs;
  c_out : outcome; c_calls : list call       (* calls seen by the bounce target, recipient arguments blanked *)
}.

Definition field_eqb (a b : field) : bool := str_eqb (fst a) (fst b) && str_eqb (snd a) (snd b).
Definition report_eqb (a b : report) : bool :=
  str_eqb (rp_mail_from a) (rp_mail_from b) && str_eqb (rp_rcpt_to a) (rp_rcpt_to b)
  && str_eqb (rp_hdr_to a) (rp_hdr_to b) && str_eqb (rp_hdr_from a) (rp_hdr_from b)
  && Bool.eqb (rp_utf8 a) (rp_utf8 b) && Bool.eqb (rp_requiretls a) (rp_requiretls b)
  && list_eqb field_eqb (rp_mta a) (rp_mta b)
  && list_eqb (list_eqb field_eqb) (rp_rcpts a) (rp_rcpts b).

Definition call_eqb (a b : call) : bool :=
  match a, b with
  | CStart, CStart | CBody, CBody | CBodyNonAtomic, CBodyNonAtomic | CCommit, CCommit | CAbort, CAbort => true
  | CAddRcpt x, CAddRcpt y => str_eqb x y
  | _, _ => false
  end.

Definition model_res (c : case) : dsn_res :=
  emit_dsn (tlookup (t_addr (c_tabs c))) (tlookup (t_dom (c_tabs c))) (c_cfg c) (c_meta c) (c_failed c).

Definition agrees (c : case) : bool :=
  match model_res c, c_out c with
  | DSuppressed, ONone | DGenError, ONone => list_eqb call_eqb (c_calls c) []
  | DPanic, OPanic => true
  | DReport r, OReport r' _ _ _ =>
      (* when Start itself fails the target sees no content: only the calls are compared *)
      match c_bfail c with
      | BStart => true
      | BRcpt => str_eqb (rp_mail_from r) (rp_mail_from r') && str_eqb (rp_rcpt_to r) (rp_rcpt_to r')
      | _ => report_eqb r r'
      end && list_eqb call_eqb (c_calls c) (bounce_calls (c_bfail c))
  | _, _ => false
  end.
Definition mismatches (cs : list case) : list N := find_idx (fun c => negb (agrees c)) cs.

(* ---- the property on what the bounce target received ---- *)
Definition fget (g : list field) (name : str) : option str := alookup str_eqb name g.
Definition has_prefix_s (p s : str) : bool :=
  (fix go (p s : str) := match p, s with [] , _ => true | a :: p', b :: s' => N.eqb a b && go p' s' | _, [] => false end) p s.

Definition expected_final (c : case) (r : str) : option str :=
  let m := c_meta c in
  tlookup (t_addr (c_tabs c)) (d_utf8 m) (final_rcpt m r).

Definition group_ok (c : case) (r : str) (g : list field) : bool :=
  let m := c_meta c in
  match expected_final c r, mget (d_rcpt_errs m) r, fget g (s_ "Final-Recipient"), fget g (s_ "Status"), fget g (s_ "Action") with
  | Some x, Some e, Some fr, Some st, Some act =>
      str_eqb fr ((if d_utf8 m then s_ "utf8; " else s_ "rfc822; ") ++ x)
      && str_eqb st (dec (r_e0 e) ++ [46%N] ++ dec (r_e1 e) ++ [46%N] ++ dec (r_e2 e))
      && str_eqb act (s_ "failed")
      && match fget g (s_ "Diagnostic-Code") with
         | Some dc => forallb (fun ch => negb (N.eqb ch 10 || N.eqb ch 13)) dc
         | None => true
         end
  | _, _, _, _, _ => false
  end.

(* can a report be generated at all for this recipient with its stored status? *)
Definition reportable (c : case) (r : str) : bool :=
  match expected_final c r, mget (d_rcpt_errs (c_meta c)) r with
  | Some _, Some e => negb (Z.eqb (r_e0 e) 0) && match final_rcpt (c_meta c) r with [] => false | _ => true end
  | _, _ => false
  end.

Definition monitor (c : case) : list N :=
  let m := c_meta c in
  let should := dc_bounce (c_cfg c) && match d_orig_from m with [] => false | _ => true end
                && match c_failed c with [] => false | _ => true end in
  match c_out c with
  | OPanic => [1%N]
  | ONone =>
      if negb should then []
      else if forallb (reportable c) (c_failed c) then [2%N]        (* a report was due and could be built *)
           else if existsb (fun r => match mget (d_rcpt_errs m) r with Some e => Z.eqb (r_e0 e) 0 | None => false end) (c_failed c)
                then [105%N]
                else []   (* a recorded original address that the message's address type cannot carry
                             (non-ASCII in a non-SMTPUTF8 message) is not an address that sender used:
                             the statement says nothing about it *)
  | OReport r ofrom wf hdrok =>
      (if should then [] else [3%N]) ++
      match c_bfail c with
      | BStart => []
      | BRcpt => (if str_eqb (rp_mail_from r) [] && str_eqb (rp_rcpt_to r) (d_from m) then [] else [4%N])
      | _ =>
        (if str_eqb (rp_mail_from r) [] && str_eqb (rp_rcpt_to r) (d_from m) && str_eqb (rp_hdr_to r) (d_orig_from m)
         then [] else [4%N]) ++
        (if Nat.eqb (List.length (rp_rcpts r)) (List.length (c_failed c))
            && forallb (fun rg => group_ok c (fst rg) (snd rg)) (combine (c_failed c) (rp_rcpts r))
         then [] else [5%N]) ++
        (if wf && hdrok then [] else [6%N]) ++
        (match ofrom with [] => [] | _ => [7%N] end)
      end ++
      (if list_eqb call_eqb (c_calls c) (bounce_calls (c_bfail c)) then [] else [8%N])
  end.
Definition monitor_failures (cs : list case) : list (N * list N) :=
  let fix go (i : N) (l : list case) :=
    match l with
    | [] => []
    | c :: t => match monitor c with [] => go (N.succ i) t | cl => (i, cl) :: go (N.succ i) t end
    end in go 0%N cs.

Definition tag (c : case) : N :=
  (match c_out c with ONone => 1 | OPanic => 2 | OReport _ _ _ _ => 3 end
   + 4 * N.of_nat (List.length (c_failed c))
   + (if d_utf8 (c_meta c) then 32 else 0)
   + (match d_orig_rcpts (c_meta c) with [] => 0 | _ => 64 end)
   + (match c_bfail c with BNone => 0 | _ => 128 end))%N.
Definition tags (cs : list case) : list N := map tag cs.
