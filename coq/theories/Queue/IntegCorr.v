(* C01 correspondence and monitor for the integration stream (queue above the real remote target). *)
From Maddy Require Export Lib.Base Queue.Integ.
Local Open Scope N_scope.

Record case := {
  c_max : N;                         (* max_tries *)
  c_rcpts : list (N * N);            (* recipient id, domain id; ids distinct *)
  c_rscript : script rr; c_dscript : script dr;
  c_events : list ev;                (* what the servers and the bounce target saw, in order *)
  c_removed : bool                   (* the spool was empty at quiescence *)
}.

Definition rr_eqb (a b : rr) : bool :=
  match a, b with RAccept, RAccept | RTemp, RTemp | RPerm, RPerm | R421, R421 | RDrop, RDrop => true | _, _ => false end.

Definition model_events (c : case) : list ev :=
  snd (run (c_max c) (N.to_nat (c_max c)) 0
         {| q_pending := c_rcpts c; q_rs := c_rscript c; q_ds := c_dscript c |}).

(* transactions towards different domains run concurrently: only the per-recipient projections
   are compared *)
Definition agrees (c : case) : bool :=
  let m := model_events c in
  forallb (fun rd : N * N =>
             let r := fst rd in
             list_eqb rr_eqb (replies_of m r) (replies_of (c_events c) r)
             && Nat.eqb (commits_of m r) (commits_of (c_events c) r)
             && Nat.eqb (reports_of m r) (reports_of (c_events c) r)) (c_rcpts c)
  && c_removed c.
Definition mismatches (cs : list case) : list N := find_idx (fun c => negb (agrees c)) cs.

(* ---- the property on what the servers and the bounce target saw ---- *)
(* events before the i-th RCPT command for r that already settled r for good *)
Fixpoint settled_then_offered (t : list ev) (r : N) (settled : bool) : bool :=
  match t with
  | [] => false
  | e :: rest =>
      match e with
      | ERcpt r' x =>
          if r' =? r then settled || settled_then_offered rest r (match x with RPerm => true | _ => settled end)
          else settled_then_offered rest r settled
      | ECommit rs => settled_then_offered rest r (settled || mem_b N.eqb r rs)
      | EData rs DPerm => settled_then_offered rest r (settled || mem_b N.eqb r rs)
      | _ => settled_then_offered rest r settled
      end
  end.

Definition monitor (c : case) : list N :=
  let t := c_events c in
  (* 1: exactly one terminal outcome *)
  (if c_removed c then
     flat_map (fun rd : N * N =>
       let cm := commits_of t (fst rd) in let rp := reports_of t (fst rd) in
       if (Nat.eqb cm 1 && Nat.eqb rp 0) || (Nat.eqb cm 0 && Nat.eqb rp 1) then [] else [1]) (c_rcpts c)
   else [4]) ++
  (* 2: never offered more often than max_tries *)
  (if forallb (fun rd : N * N => Nat.leb (length (replies_of t (fst rd))) (N.to_nat (c_max c))) (c_rcpts c) then [] else [2]) ++
  (* 3: never offered again after success or a permanent failure *)
  (if existsb (fun rd : N * N => settled_then_offered t (fst rd) false) (c_rcpts c) then [3] else []).

Definition dedup_N (l : list N) : list N :=
  fold_right (fun x acc => if existsb (N.eqb x) acc then acc else x :: acc) [] l.
Definition monitor_failures (cs : list case) : list (N * list N) :=
  let fix go (i : N) (l : list case) :=
    match l with
    | [] => []
    | c :: t => match dedup_N (monitor c) with [] => go (N.succ i) t | cl => (i, cl) :: go (N.succ i) t end
    end in go 0%N cs.

Definition tag (c : case) : N :=
  N.of_nat (length (c_rcpts c))
  + (if existsb (fun e => match e with EDsn _ => true | _ => false end) (c_events c) then 8 else 0)
  + (if existsb (fun e => match e with ECommit _ => true | _ => false end) (c_events c) then 16 else 0)
  + (if existsb (fun e => match e with ERcpt _ RDrop | ERcpt _ R421 => true | _ => false end) (c_events c) then 32 else 0)
  + (if existsb (fun e => match e with EData _ _ => true | _ => false end) (c_events c) then 64 else 0)
  + (if Nat.ltb 1 (length (dedupN (map snd (c_rcpts c)))) then 128 else 0).
Definition tags (cs : list case) : list N := map tag cs.
