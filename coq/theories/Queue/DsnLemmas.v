(* Proofs about Queue/Dsn.v (C18). *)
From Maddy Require Import Lib.Base Queue.Model Queue.Dsn.
From Coq Require Import String Ascii.
Local Open Scope Z_scope.
Local Open Scope list_scope.

Section IDNA.
  Variable sel_addr sel_dom : bool -> str -> option str.
  Notation emit_dsn := (emit_dsn sel_addr sel_dom).
  Notation rcpt_groups := (rcpt_groups sel_addr).
  Notation rcpt_fields := (rcpt_fields sel_addr).

  Lemma suppressed_null_sender c m failed : d_orig_from m = [] -> emit_dsn c m failed = DSuppressed.
  Proof. intros H. unfold Dsn.emit_dsn. rewrite H. destruct (negb (dc_bounce c)); reflexivity. Qed.

  Lemma suppressed_no_bounce c m failed : dc_bounce c = false -> emit_dsn c m failed = DSuppressed.
  Proof. intros H. unfold Dsn.emit_dsn. rewrite H. reflexivity. Qed.

  (* a failing report never produces another report *)
  Lemma no_loop c m id failed : emit_dsn c (report_meta m id) failed = DSuppressed.
  Proof. apply suppressed_null_sender. reflexivity. Qed.

  Lemma report_envelope c m failed r :
    emit_dsn c m failed = DReport r ->
    rp_mail_from r = [] /\ rp_rcpt_to r = d_from m /\ rp_hdr_to r = d_orig_from m /\
    rp_utf8 r = d_utf8 m /\ rp_requiretls r = d_requiretls m /\
    dc_bounce c = true /\ d_orig_from m <> [].
  Proof.
    unfold Dsn.emit_dsn. destruct (dc_bounce c); simpl; [|discriminate].
    destruct (d_orig_from m) eqn:E; [discriminate|].
    destruct (negb (has_all_errs m failed)); [discriminate|].
    destruct (mta_fields sel_addr sel_dom c m); [|discriminate].
    destruct (rcpt_groups m failed) as [[gs|]|]; try discriminate.
    intros H; inversion H; subst; simpl. repeat split; auto. discriminate.
  Qed.

  (* the group generated for one failed recipient: its original address and its stored status *)
  Definition group_for (m : dmeta) (f : str) (g : list field) : Prop :=
    exists e x, mget (d_rcpt_errs m) f = Some e /\ sel_addr (d_utf8 m) (final_rcpt m f) = Some x /\
      g = rev [ (s_ "Final-Recipient", (if d_utf8 m then s_ "utf8; " else s_ "rfc822; ") ++ x);
                (s_ "Action", s_ "failed");
                (s_ "Status", dec (r_e0 e) ++ [46%N] ++ dec (r_e1 e) ++ [46%N] ++ dec (r_e2 e));
                (s_ "Diagnostic-Code",
                 s_ "smtp; " ++ dec (r_code e) ++ [32%N] ++ dec (r_e0 e) ++ [46%N] ++ dec (r_e1 e) ++ [46%N]
                    ++ dec (r_e2 e) ++ [32%N] ++ no_crlf (r_msg e)) ].

  Lemma rcpt_groups_spec m failed gs :
    rcpt_groups m failed = Some (Some gs) -> Forall2 (group_for m) failed gs.
  Proof.
    revert gs. induction failed as [|f failed IH]; intros gs H; simpl in H.
    { inversion H; subst. constructor. }
    destruct (mget (d_rcpt_errs m) f) as [e|] eqn:Ee; [|discriminate].
    destruct (rcpt_groups m failed) as [[gs'|]|]; try discriminate.
    destruct (rcpt_fields m (final_rcpt m f) e) as [g|] eqn:Eg; [|discriminate].
    inversion H; subst. constructor; [|apply IH; reflexivity].
    unfold Dsn.rcpt_fields in Eg. destruct (final_rcpt m f) eqn:Ef; [discriminate|]. rewrite <- Ef in *.
    destruct (sel_addr (d_utf8 m) (final_rcpt m f)) as [x|] eqn:Ex; [|discriminate].
    destruct (r_e0 e =? 0); [discriminate|]. inversion Eg; subst.
    exists e, x. repeat split; auto.
  Qed.

  (* exactly the failed recipients, in order, each under the address the sender used *)
  Lemma report_lists_exactly_failed c m failed r :
    emit_dsn c m failed = DReport r -> Forall2 (group_for m) failed (rp_rcpts r).
  Proof.
    unfold Dsn.emit_dsn. destruct (negb (dc_bounce c)); [discriminate|].
    destruct (d_orig_from m); [discriminate|].
    destruct (negb (has_all_errs m failed)); [discriminate|].
    destruct (mta_fields sel_addr sel_dom c m); [|discriminate].
    destruct (rcpt_groups m failed) as [[gs|]|] eqn:Eg; try discriminate.
    intros H; inversion H; subst; simpl. apply rcpt_groups_spec. exact Eg.
  Qed.

  (* original, not rewritten, addresses *)
  Lemma final_rcpt_original m f o : mget (d_orig_rcpts m) f = Some o -> o <> [] -> final_rcpt m f = o.
  Proof. intros H Ho. unfold final_rcpt. rewrite H. destruct o; [tauto|reflexivity]. Qed.
  Lemma final_rcpt_unrewritten m f : mget (d_orig_rcpts m) f = None -> final_rcpt m f = f.
  Proof. intros H. unfold final_rcpt. rewrite H. reflexivity. Qed.

  (* a report is generated whenever it is due and every failed recipient has a stored status with
     a class and an address representable in the message's address type *)
  Lemma report_generated c m failed :
    dc_bounce c = true -> d_orig_from m <> [] ->
    mta_fields sel_addr sel_dom c m <> None ->
    (forall f, In f failed -> exists e x, mget (d_rcpt_errs m) f = Some e /\ (r_e0 e =? 0) = false /\
                                          final_rcpt m f <> [] /\ sel_addr (d_utf8 m) (final_rcpt m f) = Some x) ->
    exists r, emit_dsn c m failed = DReport r.
  Proof.
    intros Hb Ho Hm Hf. unfold Dsn.emit_dsn. rewrite Hb. simpl.
    destruct (d_orig_from m) eqn:Eo; [tauto|].
    assert (Ha : has_all_errs m failed = true).
    { unfold has_all_errs. apply forallb_forall. intros f Hin. destruct (Hf f Hin) as (e & x & -> & _). reflexivity. }
    rewrite Ha. simpl.
    destruct (mta_fields sel_addr sel_dom c m) as [mf|]; [|tauto].
    assert (Hg : exists gs, rcpt_groups m failed = Some (Some gs)).
    { clear -Hf. induction failed as [|f failed IH]; simpl; [eexists; reflexivity|].
      destruct (Hf f (or_introl eq_refl)) as (e & x & He & H0 & Hne & Hx). rewrite He.
      destruct IH as [gs Hgs]; [intros; apply Hf; right; assumption|]. rewrite Hgs.
      unfold Dsn.rcpt_fields. rewrite Hx, H0. destruct (final_rcpt m f) eqn:Ef; [tauto|]. eexists; reflexivity. }
    destruct Hg as [gs ->]. eexists; reflexivity.
  Qed.
End IDNA.

(* generated text never contains a bare CR or LF *)
Lemma no_crlf_clean s : forallb (fun c => negb (N.eqb c 10 || N.eqb c 13)) (no_crlf s) = true.
Proof.
  unfold no_crlf. rewrite forallb_forall. intros c Hin. apply in_map_iff in Hin as (x & <- & _).
  destruct (N.eqb x 10 || N.eqb x 13)%bool eqn:E; [reflexivity|]. rewrite E. reflexivity.
Qed.
