(* C01, integration model: a recipient is never offered to a next hop again after a next hop
   accepted it or refused it for good.  Proofs. *)
From Maddy Require Import Lib.Base Queue.Integ Queue.IntegLemmas Queue.IntegCorr.
Local Open Scope N_scope.

(* the "settled" flag after a list of events *)
Fixpoint settles (t : list ev) (r : N) (s : bool) : bool :=
  match t with
  | [] => s
  | e :: rest =>
      settles rest r
        (match e with
         | ERcpt r' x => if r' =? r then (match x with RPerm => true | _ => s end) else s
         | ECommit rs => s || mem_b N.eqb r rs
         | EData rs DPerm => s || mem_b N.eqb r rs
         | _ => s
         end)
  end.

Lemma sto_app t1 : forall t2 r s,
  settled_then_offered (t1 ++ t2) r s = settled_then_offered t1 r s || settled_then_offered t2 r (settles t1 r s).
Proof.
  induction t1 as [|e t1 IH]; intros t2 r s; [reflexivity|].
  cbn [app settled_then_offered settles]. destruct e as [r' x|rs|rs d|rs].
  - destruct (r' =? r); rewrite IH; [rewrite orb_assoc|]; reflexivity.
  - apply IH.
  - destruct d; apply IH.
  - apply IH.
Qed.
Lemma settles_app t1 : forall t2 r s, settles (t1 ++ t2) r s = settles t2 r (settles t1 r s).
Proof. induction t1 as [|e t1 IH]; intros t2 r s; [reflexivity|]. cbn [app settles]. apply IH. Qed.

Lemma sto_no_rcpt t : forall r s, replies_of t r = [] -> settled_then_offered t r s = false.
Proof.
  induction t as [|e t IH]; intros r s H; [reflexivity|]. cbn [settled_then_offered].
  destruct e as [r' x|rs|rs d|rs]; unfold replies_of in H; cbn [flat_map] in H.
  - destruct (r' =? r); [discriminate|]. apply IH, H.
  - apply IH, H.
  - destruct d; apply IH, H.
  - apply IH, H.
Qed.

Lemma sto_rcpt_once t : forall r,
  Forall is_rcpt_ev t -> (length (replies_of t r) <= 1)%nat -> settled_then_offered t r false = false.
Proof.
  induction t as [|e t IH]; intros r HF HL; [reflexivity|]. inversion HF as [|? ? He Ht]; subst.
  destruct e as [r' x|rs|rs d|rs]; try contradiction. cbn [settled_then_offered].
  unfold replies_of in HL. cbn [flat_map] in HL. destruct (r' =? r) eqn:E.
  - cbn [app length] in HL. cbn [orb]. apply sto_no_rcpt.
    fold (replies_of t r) in HL. destruct (replies_of t r); [reflexivity|cbn in HL; lia].
  - apply IH; [exact Ht|exact HL].
Qed.

Lemma settles_true t : forall r, settles t r true = true.
Proof.
  induction t as [|e t IH]; intros r; [reflexivity|]. cbn [settles].
  destruct e as [r' x|rs|rs d|rs]; try (destruct (r' =? r)); try destruct x; try destruct d; cbn [orb]; apply IH.
Qed.

(* a permanent refusal at the recipient stage is recorded as such *)
Record RInv2 (st : rstate) : Prop := {
  r2_perm : forall r, In (ERcpt r RPerm) (rs_ev st) -> In (r, FailP) (rs_fail st);
  r2_nodup : NoDup (map fst (rs_fail st)) }.

Lemma rcpt_step_inv2 done st r d :
  RInv done st -> RInv2 st -> ~ In r (map fst done) -> RInv2 (rcpt_step st (r, d)).
Proof.
  intros [Hc Hd Hn Hs Hf He] [Hp Hnd] Hnew.
  assert (Hnf : ~ In r (map fst (rs_fail st))) by (intro; apply Hnew, Hc; auto).
  assert (FAIL : forall f s' dead evs,
            (forall x, In (ERcpt x RPerm) evs -> In (ERcpt x RPerm) (rs_ev st) \/ (x = r /\ f = FailP)) ->
            RInv2 {| rs_script := s'; rs_dead := dead; rs_acc := rs_acc st;
                     rs_fail := rs_fail st ++ [(r, f)]; rs_ev := evs |}).
  { intros f s' dead evs Hev. constructor; cbn [rs_fail rs_ev].
    - intros x Hx. apply in_app_iff. destruct (Hev x Hx) as [H|[-> ->]]; [left; apply Hp, H|right; left; reflexivity].
    - rewrite map_app. cbn [map fst]. apply NoDup_snoc; assumption. }
  unfold rcpt_step. destruct (mem_b N.eqb d (rs_dead st)).
  - apply FAIL. intros x Hx. left; exact Hx.
  - destruct (pop r (rs_script st) RAccept) as [reply s'].
    destruct reply.
    + constructor; cbn [rs_fail rs_ev]; [|exact Hnd]. intros x Hx. apply in_app_iff in Hx.
      destruct Hx as [Hx|[Hx|[]]]; [apply Hp, Hx|discriminate].
    + apply FAIL. intros x Hx. apply in_app_iff in Hx. destruct Hx as [Hx|[Hx|[]]]; [left; exact Hx|discriminate].
    + apply FAIL. intros x Hx. apply in_app_iff in Hx. destruct Hx as [Hx|[Hx|[]]]; [left; exact Hx|].
      inversion Hx; subst. right; split; reflexivity.
    + apply FAIL. intros x Hx. apply in_app_iff in Hx. destruct Hx as [Hx|[Hx|[]]]; [left; exact Hx|discriminate].
    + apply FAIL. intros x Hx. apply in_app_iff in Hx. destruct Hx as [Hx|[Hx|[]]]; [left; exact Hx|discriminate].
Qed.

Lemma rcpt_fold_inv2 P : forall done st,
  NoDup (map fst (done ++ P)) -> RInv done st -> RInv2 st -> RInv2 (fold_left rcpt_step P st).
Proof.
  induction P as [|[r d] P IH]; intros done st Hn Hi H2; cbn [fold_left]; [exact H2|].
  assert (Hr : ~ In r (map fst done)).
  { rewrite !map_app in Hn. cbn [map fst] in Hn. apply NoDup_remove_2 in Hn. intro H. apply Hn. apply in_app_iff. left. exact H. }
  apply (IH (done ++ [(r, d)])).
  - rewrite <- app_assoc. exact Hn.
  - apply rcpt_step_inv; assumption.
  - eapply rcpt_step_inv2; eassumption.
Qed.

(* the content stage: settling a recipient means recording Delivered or a permanent failure *)
Lemma data_settles dead acc : NoDup (map fst acc) ->
  forall doms ds outs evs ds', NoDup doms ->
  data_stage doms dead acc ds = (outs, evs, ds') ->
  forall r, settles evs r false = true ->
    In r (map fst acc) /\ (alookup N.eqb r outs = Some Delivered \/ alookup N.eqb r outs = Some FailP).
Proof.
  intros Hacc. induction doms as [|d rest IH]; intros ds outs evs ds' Hnd E r Hs; cbn [data_stage] in E.
  - inversion E; subst. cbn in Hs. discriminate.
  - inversion Hnd as [|? ? Hd Hrest]; subst. fold (mine_of d acc) in E.
    assert (Hmine_acc : forall x, In x (mine_of d acc) -> In x (map fst acc)).
    { intros x Hx. apply mine_In in Hx. apply in_map_iff. exists (x, d). auto. }
    assert (Hlater : forall x, In x (mine_of d acc) -> forall d', In d' rest -> ~ In (x, d') acc).
    { intros x Hx d' Hd' H. apply mine_In in Hx. assert (d = d') by (eapply NoDup_fst_fun; eauto). subst. auto. }
    (* a recipient of d settled by the later domains: impossible *)
    assert (REST : forall o e ds0 ds1 (X : res), data_stage rest dead acc ds0 = (o, e, ds1) ->
               settles e r false = true ->
               In r (map fst acc) /\
               (alookup N.eqb r (map (fun x => (x, X)) (mine_of d acc) ++ o) = Some Delivered \/
                alookup N.eqb r (map (fun x => (x, X)) (mine_of d acc) ++ o) = Some FailP)).
    { intros o e ds0 ds1 X Er Hse. destruct (IH _ _ _ _ Hrest Er r Hse) as [Hin Hal]. split; [exact Hin|].
      destruct (in_dec N.eq_dec r (mine_of d acc)) as [Hm|Hm].
      - exfalso. pose proof (data_stage_spec dead acc Hacc rest ds0 o e ds1 Hrest Er) as [_ [S2 _]].
        destruct (S2 r (Hlater r Hm)) as [Hnone _]. rewrite Hnone in Hal. destruct Hal; discriminate.
      - rewrite alookup_const_notin by exact Hm. exact Hal. }
    destruct (mem_b N.eqb d dead).
    + destruct (data_stage rest dead acc ds) as [[o e] ds1] eqn:Er. inversion E; subst.
      eapply REST; eauto.
    + destruct (pop d ds DOk) as [reply ds1].
      destruct (data_stage rest dead acc ds1) as [[o e] ds2] eqn:Er.
      destruct reply; inversion E; subst; cbn [settles orb] in Hs.
      * destruct (mem_b N.eqb r (mine_of d acc)) eqn:Em.
        -- apply mem_b_In in Em. split; [apply Hmine_acc, Em|]. left. apply alookup_const_in, Em.
        -- eapply REST; eauto.
      * eapply REST; eauto.
      * destruct (mem_b N.eqb r (mine_of d acc)) eqn:Em.
        -- apply mem_b_In in Em. split; [apply Hmine_acc, Em|]. right. apply alookup_const_in, Em.
        -- eapply REST; eauto.
Qed.

Lemma replies_rcpt_evs_only t r : (forall e, In e t -> match e with ERcpt _ _ => False | _ => True end) -> replies_of t r = [].
Proof.
  induction t as [|e t IH]; intros H; [reflexivity|]. unfold replies_of. cbn [flat_map].
  pose proof (H e (or_introl eq_refl)) as He. destruct e; try contradiction; cbn [app]; apply IH; intros x Hx; apply H; right; exact Hx.
Qed.

(* ---- one attempt ---- *)
Lemma attempt_order mx k q q' evs :
  NoDup (map fst (q_pending q)) -> attempt mx k q = (q', evs) ->
  forall r,
    settled_then_offered evs r false = false /\
    (~ In r (map fst (q_pending q)) -> replies_of evs r = []) /\
    (settles evs r false = true -> ~ In r (map fst (q_pending q'))).
Proof.
  intros Hn E r. unfold attempt in E.
  set (P := q_pending q) in *.
  set (st := fold_left rcpt_step P _) in E.
  pose proof (rcpt_stage_inv P (q_rs q) Hn) as HI. fold st in HI.
  assert (HI2 : RInv2 st).
  { apply (rcpt_fold_inv2 P [] (st0 (q_rs q))); [exact Hn| |].
    - constructor; cbn; try tauto; try constructor.
    - constructor; cbn; [tauto|constructor]. }
  destruct HI as [Hc Hd Hnd Hs Hf He]. destruct HI2 as [Hp Hfn].
  destruct (match rs_acc st with [] => _ | _ => _ end) as [[outs dev] ds'] eqn:Ed.
  assert (Hdev0 : replies_of dev r = []).
  { destruct (rs_acc st); [inversion Ed; reflexivity|]. eapply data_stage_replies; eauto. }
  assert (Hrs1 : (length (replies_of (rs_ev st) r) <= count_occ N.eq_dec (map fst P) r)%nat).
  { pose proof (rcpt_fold_replies P (st0 (q_rs q)) r) as H. unfold st0 in H. fold st in H. cbn [rs_ev] in H.
    change (replies_of [] r) with (@nil rr) in H. cbn [length] in H. lia. }
  assert (Hcnt : (count_occ N.eq_dec (map fst P) r <= 1)%nat) by (apply NoDup_count_occ; exact Hn).
  (* the settling events of the content stage *)
  assert (W : settles dev r false = true ->
              In r (map fst (rs_acc st)) /\ (alookup N.eqb r outs = Some Delivered \/ alookup N.eqb r outs = Some FailP)).
  { destruct (rs_acc st) as [|a0 acc0] eqn:Ea.
    - inversion Ed; subst. cbn. discriminate.
    - rewrite <- Ea in *. intros Hsd. eapply data_settles; [exact Hnd|apply dedupN_NoDup|exact Ed|exact Hsd]. }
  inversion E as [[Eq Eev]]. clear E. subst q' evs. cbn [q_pending].
  set (dsn := match filter _ P with [] => [] | _ => _ end).
  assert (Hdsn0 : replies_of dsn r = []) by (unfold dsn; apply replies_dsn).
  assert (Hdsn_s : forall s, settles dsn r s = s) by (intros s; unfold dsn; destruct (filter _ P); reflexivity).
  split; [|split].
  - rewrite sto_app, sto_app.
    rewrite (sto_rcpt_once (rs_ev st) r He) by lia.
    rewrite (sto_no_rcpt dev r _ Hdev0), (sto_no_rcpt dsn r _ Hdsn0). reflexivity.
  - intros Hr. rewrite !replies_app, Hdev0, Hdsn0, !app_nil_r.
    assert (count_occ N.eq_dec (map fst P) r = 0)%nat by (apply count_occ_not_In; exact Hr).
    destruct (replies_of (rs_ev st) r); [reflexivity|cbn in Hrs1; lia].
  - rewrite !settles_app, Hdsn_s. intros Hset.
    set (results := rs_fail st ++ outs).
    (* the outcome recorded for r is Delivered or FailP *)
    assert (Hout : alookup N.eqb r results = Some Delivered \/ alookup N.eqb r results = Some FailP).
    { unfold results. rewrite alookup_app.
      destruct (settles (rs_ev st) r false) eqn:Ers.
      - (* refused for good at the recipient stage *)
        assert (Hgen : forall t s, Forall is_rcpt_ev t -> settles t r s = true -> s = true \/ In (ERcpt r RPerm) t).
        { clear. induction t as [|e t IH]; intros s HF Hs; [left; exact Hs|].
          inversion HF as [|? ? H1 H2]; subst. destruct e as [r' x|?|? ?|?]; try contradiction. cbn [settles] in Hs.
          destruct (N.eqb_spec r' r) as [->|Hne].
          - destruct x; try (destruct (IH _ H2 Hs) as [A|A]; [left; exact A|right; right; exact A]).
            right; left; reflexivity.
          - destruct (IH _ H2 Hs) as [A|A]; [left; exact A|right; right; exact A]. }
        assert (Hin : In (ERcpt r RPerm) (rs_ev st)) by (destruct (Hgen _ _ He Ers) as [A|A]; [discriminate|exact A]).
        apply Hp in Hin.
        destruct (alookup_Some_in r (rs_fail st)) as [f [Hf1 Hf2]]; [apply in_map_iff; exists (r, FailP); auto|].
        assert (f = FailP) by (eapply NoDup_fst_fun; eauto). subst f. rewrite Hf1. right; reflexivity.
      - destruct (W Hset) as [Hacc Hal].
        rewrite (alookup_None r (rs_fail st) (Hd r Hacc)). exact Hal. }
    set (pa := fun x : N => match (match alookup N.eqb x results with Some v => v | None => Delivered end) with
                            | FailT => negb (mx <=? k + 1) | _ => false end).
    match goal with |- context [filter ?f P] => change f with (fun rd : N * N => pa (fst rd)) end.
    rewrite (map_fst_filter pa P r). intros [_ Hpa]. unfold pa in Hpa.
    destruct Hout as [Ho|Ho]; rewrite Ho in Hpa; discriminate.
Qed.

(* ---- all attempts ---- *)
Lemma run_order mx r : forall fuel k q q' t,
  NoDup (map fst (q_pending q)) -> run mx fuel k q = (q', t) ->
  settled_then_offered t r false = false /\
  (~ In r (map fst (q_pending q)) -> replies_of t r = []).
Proof.
  induction fuel as [|f IH]; intros k q q' t Hn E; cbn [run] in E.
  - inversion E; subst. split; reflexivity.
  - destruct (q_pending q) as [|x l] eqn:Ep.
    + inversion E; subst. split; reflexivity.
    + rewrite <- Ep in *. destruct (attempt mx k q) as [q1 e1] eqn:Ea.
      destruct (run mx f (k + 1) q1) as [q2 e2] eqn:Er. inversion E; subst. clear E.
      destruct (attempt_spec mx k q q1 e1 Hn Ea) as [[A1 [A2 _]] _].
      destruct (attempt_order mx k q q1 e1 Hn Ea r) as [O1 [O2 O3]].
      destruct (IH (k + 1) q1 q' e2 A2 Er) as [I1 I2].
      split.
      * rewrite sto_app, O1. cbn [orb].
        destruct (settles e1 r false) eqn:Es; [|exact I1].
        apply sto_no_rcpt, I2, O3. reflexivity.
      * intros Hr. rewrite replies_app, (O2 Hr). cbn [app]. apply I2.
        intro H. apply Hr. apply in_map_iff in H. destruct H as [y [Ey Hy]]. apply in_map_iff. exists y. auto.
Qed.

Theorem integ_never_offered_after_settled mx rs ds rcpts r :
  NoDup (map fst rcpts) ->
  settled_then_offered (snd (run mx (N.to_nat mx) 0 {| q_pending := rcpts; q_rs := rs; q_ds := ds |})) r false = false.
Proof.
  intros Hn. destruct (run _ _ _ _) as [q t] eqn:E. cbn [snd].
  exact (proj1 (run_order mx r _ 0 {| q_pending := rcpts; q_rs := rs; q_ds := ds |} q t Hn E)).
Qed.

(* hence the monitor of the integration stream is silent on every history the model produces *)
Theorem integ_model_history_satisfies_monitor mx rs ds rcpts :
  NoDup (map fst rcpts) -> 0 < mx ->
  monitor {| c_max := mx; c_rcpts := rcpts; c_rscript := rs; c_dscript := ds;
             c_events := snd (run mx (N.to_nat mx) 0 {| q_pending := rcpts; q_rs := rs; q_ds := ds |});
             c_removed := true |} = [].
Proof.
  intros Hn Hm. unfold monitor. cbn [c_events c_removed c_rcpts c_max].
  pose proof (integ_exactly_one_outcome mx rs ds rcpts Hn Hm) as [_ H1].
  set (t := snd (run mx (N.to_nat mx) 0 {| q_pending := rcpts; q_rs := rs; q_ds := ds |})) in *.
  assert (E1 : flat_map (fun rd : N * N =>
             if (Nat.eqb (commits_of t (fst rd)) 1 && Nat.eqb (reports_of t (fst rd)) 0)
                || (Nat.eqb (commits_of t (fst rd)) 0 && Nat.eqb (reports_of t (fst rd)) 1) then [] else [1]) rcpts = []).
  { assert (G : forall l, (forall rd, In rd l -> In (fst rd) (map fst rcpts)) ->
         flat_map (fun rd : N * N =>
             if (Nat.eqb (commits_of t (fst rd)) 1 && Nat.eqb (reports_of t (fst rd)) 0)
                || (Nat.eqb (commits_of t (fst rd)) 0 && Nat.eqb (reports_of t (fst rd)) 1) then [] else [1]) l = []).
    { induction l as [|rd l IH]; intros Hl; [reflexivity|]. cbn [flat_map].
      pose proof (H1 (fst rd) (Hl rd (or_introl eq_refl))) as Hs.
      rewrite IH by (intros y Hy; apply Hl; right; exact Hy). rewrite app_nil_r.
      destruct (commits_of t (fst rd)) as [|[|c]], (reports_of t (fst rd)) as [|[|p]]; cbn in Hs |- *; try lia; reflexivity. }
    apply G. intros rd Hrd. apply in_map. exact Hrd. }
  rewrite E1. cbn [app].
  assert (E2 : forallb (fun rd : N * N => Nat.leb (length (replies_of t (fst rd))) (N.to_nat mx)) rcpts = true).
  { apply forallb_forall. intros rd _. apply Nat.leb_le. apply integ_offered_at_most_max_tries. exact Hn. }
  rewrite E2. cbn [app].
  assert (E3 : existsb (fun rd : N * N => settled_then_offered t (fst rd) false) rcpts = false).
  { apply not_true_iff_false. intro H. apply existsb_exists in H. destruct H as [rd [_ H]].
    unfold t in H. rewrite integ_never_offered_after_settled in H by exact Hn. discriminate. }
  rewrite E3. reflexivity.
Qed.
