(* C02: the queue spool as a file system of four files per message, the operation sequences
   the queue issues (storeNewMessage, updateMetadataOnDisk, removeFromDisk), crash states, and the
   start-up scan (readDiskQueue / openMessage).  Definitions only. *)
From Maddy Require Export Lib.Base.
Local Open Scope N_scope.

Definition bytes := list N.
Definition mid := N.                      (* message id *)

Inductive ext := XHeader | XBody | XMeta | XMetaNew.
Definition fname := (mid * ext)%type.
Definition ext_eqb (a b : ext) : bool :=
  match a, b with XHeader, XHeader | XBody, XBody | XMeta, XMeta | XMetaNew, XMetaNew => true | _, _ => false end.
Definition fname_eqb (a b : fname) : bool := N.eqb (fst a) (fst b) && ext_eqb (snd a) (snd b).

(* a file: its data and how much of it is known to be on stable storage *)
Record file := { f_data : bytes; f_synced : nat }.
Definition fs := list (fname * file).

Definition fget (s : fs) (n : fname) : option file := alookup fname_eqb n s.
Fixpoint fdel (s : fs) (n : fname) : fs :=
  match s with
  | [] => []
  | (k, v) :: t => if fname_eqb n k then fdel t n else (k, v) :: fdel t n
  end.
Definition fset (s : fs) (n : fname) (v : file) : fs := (n, v) :: fdel s n.

Inductive fsop :=
| OCreate (n : fname)                 (* os.Create: create or truncate *)
| OWrite (n : fname) (b : bytes)      (* append *)
| OSync (n : fname)
| ORename (i : mid) (a b : ext)   (* within one message: .meta.new -> .meta *)
| ORemove (n : fname).

Definition apply_op (s : fs) (o : fsop) : fs :=
  match o with
  | OCreate n => fset s n {| f_data := []; f_synced := 0 |}
  | OWrite n b => match fget s n with
                  | Some f => fset s n {| f_data := f_data f ++ b; f_synced := f_synced f |}
                  | None => s
                  end
  | OSync n => match fget s n with
               | Some f => fset s n {| f_data := f_data f; f_synced := length (f_data f) |}
               | None => s
               end
  | ORename i a b => match fget s (i, a) with
                     | Some f => fset (fdel s (i, a)) (i, b) f
                     | None => s
                     end
  | ORemove n => fdel s n
  end.
Definition apply_ops (s : fs) (ops : list fsop) : fs := fold_left apply_op ops s.

(* ---- what the queue writes ---- *)
(* storeNewMessage: header (one write per field and the final CRLF), body, metadata through a
   temporary file, then fsync of header and body *)
Definition update_meta_ops (i : mid) (meta : bytes) : list fsop :=
  [OCreate (i, XMetaNew); OWrite (i, XMetaNew) meta; OSync (i, XMetaNew); ORename i XMetaNew XMeta].
Definition store_ops (i : mid) (hdr_chunks body_chunks : list bytes) (meta : bytes) : list fsop :=
  OCreate (i, XHeader) :: map (OWrite (i, XHeader)) hdr_chunks
  ++ OCreate (i, XBody) :: map (OWrite (i, XBody)) body_chunks
  ++ update_meta_ops i meta ++ [OSync (i, XHeader); OSync (i, XBody)].
Definition remove_ops (i : mid) : list fsop :=
  [ORemove (i, XHeader); ORemove (i, XBody); ORemove (i, XMeta)].

(* ---- crash states ---- *)
(* the states a crash can leave behind while [ops] are applied to [s]: before each operation,
   after the last one, and in the middle of each write (any prefix of the written bytes) *)
Fixpoint prefixes (b : bytes) : list bytes :=
  match b with [] => [[]] | c :: t => [] :: map (cons c) (prefixes t) end.

Fixpoint crash_states (s : fs) (ops : list fsop) : list fs :=
  match ops with
  | [] => [s]
  | o :: rest =>
      s :: (match o with
            | OWrite n b => map (fun p => apply_op s (OWrite n p)) (prefixes b)
            | _ => []
            end) ++ crash_states (apply_op s o) rest
  end.

(* the stronger variant: file data beyond the last fsync is lost (directory operations are
   assumed durable once they returned) *)
Definition drop_unsynced (s : fs) : fs :=
  map (fun kv => (fst kv, {| f_data := firstn (f_synced (snd kv)) (f_data (snd kv)); f_synced := f_synced (snd kv) |})) s.

(* ---- start-up scan ---- *)
Section Decode.
  Variable decode : bytes -> option (list N).     (* readMessageMeta: the pending recipients, None = undecodable *)

  Definition ids_with_meta (s : fs) : list mid :=
    flat_map (fun kv => match snd (fst kv) with XMeta => [fst (fst kv)] | _ => [] end) s.

  Inductive verdict :=
  | VSkip                               (* metadata undecodable: left alone *)
  | VDangling (rm : list fname)         (* header or body missing: leftovers removed *)
  | VLoad (to : list N).                (* scheduled for delivery to these recipients *)

  (* readDiskQueue for one id that has a .meta file *)
  Definition scan_one (s : fs) (i : mid) : verdict :=
    match fget s (i, XMeta) with
    | None => VSkip
    | Some m =>
        match decode (f_data m) with
        | None => VSkip
        | Some to =>
            match fget s (i, XHeader), fget s (i, XBody) with
            | None, _ => VDangling [(i, XMeta); (i, XBody)]
            | Some _, None => VDangling [(i, XMeta); (i, XHeader)]
            | Some _, Some _ => VLoad to
            end
        end
    end.

  Definition recover_ops (s : fs) : list fsop :=
    flat_map (fun i => match scan_one s i with
                       | VDangling rm => map ORemove (filter (fun n => match fget s n with Some _ => true | None => false end) rm)
                       | _ => [] end) (ids_with_meta s).
  Definition recover_loads (s : fs) : list (mid * list N) :=
    flat_map (fun i => match scan_one s i with VLoad to => [(i, to)] | _ => [] end) (ids_with_meta s).
End Decode.
