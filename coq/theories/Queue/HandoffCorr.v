(* C10 hand-off stream: what the target was handed in each attempt against what was accepted. *)
From Maddy Require Export Lib.Base Wire.Header Queue.Model Queue.Handoff.
Local Open Scope N_scope.

Record hand := {
  h_hdr : bytes; h_hdr_eq : bool; h_body_eq : bool; h_from : str; h_rcpts : list str; h_id_ok : bool;
  h_orig_from : str; h_utf8 : bool; h_requiretls : bool; h_override : bool; h_quarantine : bool;
  h_orig_rcpts : list (str * str)
}.
Record case := {
  c_hdr : bytes;                 (* WriteHeader of the header the queue accepted ([] when too large to show) *)
  c_from : str; c_to : list str; c_fail_first : list str;   (* recipients failing temporarily in attempt 1 *)
  c_orig_from : str; c_utf8 : bool; c_requiretls : bool; c_override : bool; c_quarantine : bool;
  c_orig_rcpts : list (str * str);
  c_hands : list hand;
  c_leaks : N                    (* occurrences of the session's user name / password in spool files *)
}.

Definition pair_eqb (a b : str * str) : bool := str_eqb (fst a) (fst b) && str_eqb (snd a) (snd b).

(* the model: attempt 1 is handed everything accepted; attempt 2 (if any recipient failed
   temporarily) the same with the pending recipients; header = parse of the printed header *)
Definition expected_rcpts (c : case) : list (list str) :=
  let to := enqueue (c_to c) in
  let pending := filter (fun r => mem_b str_eqb r (c_fail_first c)) to in
  match pending with [] => [to] | _ => [to; pending] end.

Definition model_hdr (c : case) : option bytes :=
  match read_header (c_hdr c) with
  | HOk f _ => Some (write_header f)
  | HErr => None
  end.

Definition hand_ok (c : case) (h : hand) (rc : list str) : bool :=
  match c_hdr c with
  | [] => true                       (* too large to show: only the byte comparison made by the harness *)
  | _ => match model_hdr c with Some hb => list_eqb N.eqb hb (h_hdr h) | None => false end
         && list_eqb N.eqb (c_hdr c) (h_hdr h)
  end && h_hdr_eq h
  && h_body_eq h && str_eqb (h_from h) (c_from c) && list_eqb str_eqb (h_rcpts h) rc && h_id_ok h
  && str_eqb (h_orig_from h) (c_orig_from c)
  && Bool.eqb (h_utf8 h) (c_utf8 c) && Bool.eqb (h_requiretls h) (c_requiretls c)
  && Bool.eqb (h_override h) (c_override c) && Bool.eqb (h_quarantine h) (c_quarantine c)
  && list_eqb pair_eqb (h_orig_rcpts h) (c_orig_rcpts c).

Definition agrees (c : case) : bool :=
  Nat.eqb (length (c_hands c)) (length (expected_rcpts c))
  && forallb (fun hr => hand_ok c (fst hr) (snd hr)) (combine (c_hands c) (expected_rcpts c)).
Definition mismatches (cs : list case) : list N := find_idx (fun c => negb (agrees c)) cs.

(* the property itself: byte-for-byte header and body, same envelope and options, pending
   recipients; no credentials on disk *)
Definition monitor (c : case) : list N :=
  (if forallb (fun h => h_hdr_eq h && h_body_eq h) (c_hands c) then [] else [1]) ++
  (if forallb (fun h => str_eqb (h_from h) (c_from c) && Bool.eqb (h_utf8 h) (c_utf8 c)
                        && Bool.eqb (h_requiretls h) (c_requiretls c) && Bool.eqb (h_override h) (c_override c)
                        && list_eqb pair_eqb (h_orig_rcpts h) (c_orig_rcpts c)) (c_hands c) then [] else [2]) ++
  (if Nat.eqb (length (c_hands c)) (length (expected_rcpts c))
      && forallb (fun hr => list_eqb str_eqb (h_rcpts (fst hr)) (snd hr)) (combine (c_hands c) (expected_rcpts c))
   then [] else [3]) ++
  (if c_leaks c =? 0 then [] else [4]).
Definition monitor_failures (cs : list case) : list (N * list N) :=
  let fix go (i : N) (l : list case) :=
    match l with
    | [] => []
    | c :: t => match monitor c with [] => go (N.succ i) t | cl => (i, cl) :: go (N.succ i) t end
    end in go 0 cs.
Definition tag (c : case) : N :=
  N.of_nat (length (c_hands c)) + 4 * N.of_nat (length (c_to c)) + (if c_utf8 c then 32 else 0)
  + (match c_orig_rcpts c with [] => 0 | _ => 64 end).
Definition tags (cs : list case) : list N := map tag cs.
