(* Proofs about Queue/Model.v (C01). *)
From Maddy Require Import Lib.Base Queue.Model.
Local Open Scope N_scope.

(* ---------- address maps ---------- *)
Lemma str_eqb_sym a b : str_eqb a b = str_eqb b a.
Proof.
  destruct (str_eqb a b) eqn:E1, (str_eqb b a) eqn:E2; auto.
  - apply str_eqb_eq in E1; subst. rewrite str_eqb_refl in E2. discriminate.
  - apply str_eqb_eq in E2; subst. rewrite str_eqb_refl in E1. discriminate.
Qed.

Lemma str_eqb_neq a b : str_eqb a b = false <-> a <> b.
Proof.
  split.
  - intros H E; subst. rewrite str_eqb_refl in H. discriminate.
  - intros H. destruct (str_eqb a b) eqn:E; auto. apply str_eqb_eq in E. tauto.
Qed.

Lemma mget_mdel {V} (m : amap V) k r :
  mget (mdel m k) r = if str_eqb r k then None else mget m r.
Proof.
  unfold mget. induction m as [|[k' v] m IH]; simpl.
  - destruct (str_eqb r k); reflexivity.
  - destruct (str_eqb k k') eqn:E.
    + apply str_eqb_eq in E; subst. rewrite IH. destruct (str_eqb r k'); reflexivity.
    + simpl. rewrite IH. destruct (str_eqb r k') eqn:E2; [|reflexivity].
      apply str_eqb_eq in E2; subst. rewrite str_eqb_sym, E. reflexivity.
Qed.

Lemma mget_mset {V} (m : amap V) k v r :
  mget (mset m k v) r = if str_eqb r k then Some v else mget m r.
Proof.
  unfold mset. change (mget ((k, v) :: mdel m k) r) with
    (if str_eqb r k then Some v else mget (mdel m k) r).
  rewrite mget_mdel. destruct (str_eqb r k); reflexivity.
Qed.

Lemma mem_b_In (r : addr) l : mem_b str_eqb r l = true <-> In r l.
Proof.
  unfold mem_b. rewrite existsb_exists. split.
  - intros (x & Hin & E). apply str_eqb_eq in E; subst; auto.
  - intros H. exists r. split; auto. apply str_eqb_refl.
Qed.

Lemma mem_b_false (r : addr) l : mem_b str_eqb r l = false <-> ~ In r l.
Proof.
  rewrite <- mem_b_In. destruct (mem_b str_eqb r l); split; intros H; try tauto; try discriminate;
    try (intros X; discriminate); try (exfalso; apply H; reflexivity).
Qed.

Lemma mget_set_all errs rs f r :
  mget (set_all errs rs f) r = if mem_b str_eqb r rs then Some f else mget errs r.
Proof.
  unfold set_all. revert errs. induction rs as [|x rs IH]; intros errs; simpl; [reflexivity|].
  rewrite IH, mget_mset. unfold mem_b. simpl.
  destruct (existsb (str_eqb r) rs); [rewrite orb_true_r; reflexivity|].
  rewrite orb_false_r. reflexivity.
Qed.

(* ---------- one attempt: what deliver records for a recipient ---------- *)

(* the outcome of an attempt for recipient r, read off the plan *)
Definition body_fail (p : plan) (r : addr) : option fail :=
  match p_body p with
  | BAtomic x => x
  | BPartial calls => match alookup str_eqb r calls with Some x => x | None => None end
  end.
Definition outcome (p : plan) (r : addr) : option fail :=
  match p_start p with
  | Some f => Some f
  | None =>
      match mget (p_rcpt p) r with
      | Some f => Some f
      | None => match body_fail p r with
                | Some f => Some f
                | None => p_commit p
                end
      end
  end.

(* the AddRcpt loop *)
Definition rcpt_step (p : plan) (st : amap fail * list addr) (r : addr) : amap fail * list addr :=
  let '(e, acc) := st in
  match mget (p_rcpt p) r with
  | Some f => (mset e r f, acc)
  | None => (e, acc ++ [r])
  end.

Lemma rcpt_loop_spec p to e0 acc0 :
  let '(e, acc) := fold_left (rcpt_step p) to (e0, acc0) in
  acc = acc0 ++ accepted_in p to /\
  forall r, mget e r = if mem_b str_eqb r to
                       then match mget (p_rcpt p) r with Some f => Some f | None => mget e0 r end
                       else mget e0 r.
Proof.
  revert e0 acc0. induction to as [|x to IH]; intros e0 acc0.
  { simpl. split; [rewrite app_nil_r; reflexivity|reflexivity]. }
  cbn [fold_left].
  assert (Hs : rcpt_step p (e0, acc0) x =
               match mget (p_rcpt p) x with Some f => (mset e0 x f, acc0) | None => (e0, acc0 ++ [x]) end)
    by reflexivity.
  rewrite Hs. clear Hs. destruct (mget (p_rcpt p) x) as [f|] eqn:Ex.
  - specialize (IH (mset e0 x f) acc0).
    destruct (fold_left (rcpt_step p) to (mset e0 x f, acc0)) as [e acc] eqn:Efold. destruct IH as [Ha He].
    split.
    + rewrite Ha. unfold accepted_in. simpl. rewrite Ex. reflexivity.
    + intros r. rewrite He, mget_mset. unfold mem_b. simpl.
      destruct (str_eqb r x) eqn:E.
      * apply str_eqb_eq in E; subst. simpl. rewrite Ex. destruct (existsb (str_eqb x) to); reflexivity.
      * simpl. reflexivity.
  - specialize (IH e0 (acc0 ++ [x])).
    destruct (fold_left (rcpt_step p) to (e0, acc0 ++ [x])) as [e acc] eqn:Efold. destruct IH as [Ha He].
    split.
    + rewrite Ha. unfold accepted_in. simpl. rewrite Ex. rewrite <- app_assoc. reflexivity.
    + intros r. rewrite He. unfold mem_b. simpl.
      destruct (str_eqb r x) eqn:E; simpl; [|reflexivity].
      apply str_eqb_eq in E; subst. rewrite Ex. destruct (existsb (str_eqb x) to); reflexivity.
Qed.

(* the SetStatus calls of BodyNonAtomic *)
Definition status_step (m : amap fail) (kv : addr * option fail) : amap fail :=
  match snd kv with Some f => mset m (fst kv) f | None => m end.
Fixpoint last_some (calls : list (addr * option fail)) (r : addr) : option fail :=
  match calls with
  | [] => None
  | kv :: t => match last_some t r with
               | Some f => Some f
               | None => if str_eqb r (fst kv) then snd kv else None
               end
  end.

Lemma status_loop_spec calls errs r :
  mget (fold_left status_step calls errs) r =
  match last_some calls r with Some f => Some f | None => mget errs r end.
Proof.
  revert errs. induction calls as [|[k v] calls IH]; intros errs; simpl; [reflexivity|].
  rewrite IH. destruct (last_some calls r); [reflexivity|].
  unfold status_step. simpl. destruct v as [f|].
  - rewrite mget_mset. destruct (str_eqb r k); reflexivity.
  - destruct (str_eqb r k); reflexivity.
Qed.

Lemma last_some_absent calls r :
  count_occ_b str_eqb (map fst calls) r = 0%nat -> last_some calls r = None.
Proof.
  induction calls as [|[k v] calls IH]; simpl; [reflexivity|].
  rewrite (str_eqb_sym k r). destruct (str_eqb r k); [discriminate|]. intros H. rewrite IH by exact H. reflexivity.
Qed.

Lemma last_some_unique calls r :
  count_occ_b str_eqb (map fst calls) r = 1%nat ->
  last_some calls r = match alookup str_eqb r calls with Some x => x | None => None end.
Proof.
  induction calls as [|[k v] calls IH]; simpl; [discriminate|].
  rewrite (str_eqb_sym k r). destruct (str_eqb r k) eqn:E.
  - intros H. injection H as H. rewrite last_some_absent by exact H. reflexivity.
  - simpl. intros H. rewrite IH by exact H.
    destruct (match alookup str_eqb r calls with Some x => x | None => None end); reflexivity.
Qed.

Lemma last_some_only_keys calls r :
  last_some calls r <> None -> In r (map fst calls).
Proof.
  induction calls as [|[k v] calls IH]; simpl; [tauto|].
  destruct (last_some calls r) eqn:E.
  - intros _. right. apply IH. congruence.
  - destruct (str_eqb r k) eqn:Ek; [|tauto]. apply str_eqb_eq in Ek; subst. auto.
Qed.

Lemma accepted_in_In p to r : In r (accepted_in p to) <-> In r to /\ mget (p_rcpt p) r = None.
Proof.
  unfold accepted_in. rewrite filter_In. destruct (mget (p_rcpt p) r); split; intros [? ?]; auto; discriminate.
Qed.

(* deliver records exactly the outcome of the attempt, for every recipient of the attempt,
   when the target honours the status contract *)
Lemma deliver_outcome p to r :
  honest_calls p to = true -> In r to ->
  mget (fst (deliver to p)) r = outcome p r.
Proof.
  intros Hh Hin. unfold deliver, outcome.
  destruct (p_start p) as [f|].
  { simpl. rewrite mget_set_all. apply mem_b_In in Hin. rewrite Hin. reflexivity. }
  change (fold_left _ to ([], [])) with (fold_left (rcpt_step p) to ([], [])).
  destruct (fold_left (rcpt_step p) to ([], [])) as [errs accepted] eqn:Efold.
  assert (S : accepted = [] ++ accepted_in p to /\
              forall r, mget errs r = if mem_b str_eqb r to
                                      then match mget (p_rcpt p) r with Some f => Some f | None => mget [] r end
                                      else mget [] r).
  { pose proof (rcpt_loop_spec p to [] []) as S. unfold amap in *. rewrite Efold in S. exact S. }
  destruct S as [Ha He]. simpl in Ha. subst accepted. clear Efold.
  assert (Her : mget errs r = mget (p_rcpt p) r).
  { rewrite He. apply mem_b_In in Hin. rewrite Hin. destruct (mget (p_rcpt p) r); reflexivity. }
  destruct (accepted_in p to) as [|a0 acc'] eqn:Eacc.
  { simpl. rewrite Her. destruct (mget (p_rcpt p) r) eqn:Er; [reflexivity|].
    exfalso. assert (In r (accepted_in p to)) by (apply accepted_in_In; auto). rewrite Eacc in H. destruct H. }
  rewrite <- Eacc. clear a0 acc' Eacc.
  (* errors after the body stage *)
  set (errs1 := fst (match p_body p with
                     | BAtomic None => (errs, CBody)
                     | BAtomic (Some f) => (set_all errs (accepted_in p to) f, CBody)
                     | BPartial calls => (fold_left (fun m kv => match snd kv with Some f => mset m (fst kv) f | None => m end) calls errs, CBodyNonAtomic)
                     end)).
  assert (H1 : mget errs1 r = match mget (p_rcpt p) r with
                              | Some f => Some f
                              | None => body_fail p r
                              end).
  { subst errs1. unfold body_fail. unfold honest_calls in Hh. destruct (p_body p) as [[f|]|calls]; simpl.
    - rewrite mget_set_all, Her. destruct (mget (p_rcpt p) r) eqn:Er.
      + assert (mem_b str_eqb r (accepted_in p to) = false) as ->; [|reflexivity].
        apply mem_b_false. rewrite accepted_in_In. intros [_ X]. congruence.
      + assert (mem_b str_eqb r (accepted_in p to) = true) as ->; [|reflexivity].
        apply mem_b_In, accepted_in_In. auto.
    - rewrite Her. destruct (mget (p_rcpt p) r); reflexivity.
    - change (fold_left _ calls errs) with (fold_left status_step calls errs).
      rewrite status_loop_spec, Her. apply andb_true_iff in Hh as [Hk Hc].
      destruct (mget (p_rcpt p) r) eqn:Er.
      + (* refused at RCPT: an honest target files no status for it *)
        destruct (last_some calls r) eqn:El; [|reflexivity].
        exfalso. assert (In r (map fst calls)) by (apply last_some_only_keys; congruence).
        apply in_map_iff in H as ([k v] & Ek & Hkv). simpl in Ek; subst k.
        rewrite forallb_forall in Hk. specialize (Hk _ Hkv). simpl in Hk.
        apply mem_b_In, accepted_in_In in Hk. destruct Hk. congruence.
      + rewrite forallb_forall in Hc.
        assert (Hacc : In r (accepted_in p to)) by (apply accepted_in_In; auto).
        specialize (Hc _ Hacc). apply Nat.eqb_eq in Hc.
        rewrite (last_some_unique calls r Hc).
        destruct (match alookup str_eqb r calls with Some x => x | None => None end); reflexivity. }
  destruct (match p_body p with
            | BAtomic None => (errs, CBody)
            | BAtomic (Some f) => (set_all errs (accepted_in p to) f, CBody)
            | BPartial calls => (fold_left (fun m kv => match snd kv with Some f => mset m (fst kv) f | None => m end) calls errs, CBodyNonAtomic)
            end) as [e1 bcall] eqn:Eb. simpl in errs1. subst errs1.
  destruct (forallb (fun r0 => match mget e1 r0 with Some _ => true | None => false end) (accepted_in p to)) eqn:Eall.
  - (* all accepted recipients failed: Abort *)
    simpl. rewrite H1. destruct (mget (p_rcpt p) r) eqn:Er; [reflexivity|].
    rewrite forallb_forall in Eall.
    assert (Hacc : In r (accepted_in p to)) by (apply accepted_in_In; auto).
    specialize (Eall _ Hacc). rewrite H1 in Eall. destruct (body_fail p r); [reflexivity|discriminate].
  - destruct (p_commit p) as [fc|]; simpl.
    + rewrite mget_set_all, H1.
      destruct (mget (p_rcpt p) r) eqn:Er.
      * assert (mem_b str_eqb r (filter (fun r0 => match mget e1 r0 with Some _ => false | None => true end) (accepted_in p to)) = false) as ->; [|reflexivity].
        apply mem_b_false. rewrite filter_In, accepted_in_In. intros [[_ X] _]. congruence.
      * destruct (body_fail p r) eqn:Ebf.
        -- assert (mem_b str_eqb r (filter (fun r0 => match mget e1 r0 with Some _ => false | None => true end) (accepted_in p to)) = false) as ->; [|reflexivity].
           apply mem_b_false. rewrite filter_In. intros [_ X]. rewrite H1 in X. discriminate.
        -- assert (mem_b str_eqb r (filter (fun r0 => match mget e1 r0 with Some _ => false | None => true end) (accepted_in p to)) = true) as ->; [|reflexivity].
           apply mem_b_In. rewrite filter_In, accepted_in_In. rewrite H1. auto.
    + rewrite H1. destruct (mget (p_rcpt p) r); [reflexivity|]. destruct (body_fail p r); reflexivity.
Qed.

(* ---------- the classification loop ---------- *)
Lemma tries_of_mset t k v r : tries_of (mset t k v) r = if str_eqb r k then v else tries_of t r.
Proof. unfold tries_of. rewrite mget_mset. destruct (str_eqb r k); reflexivity. Qed.
Lemma tries_of_mdel t k r : tries_of (mdel t k) r = if str_eqb r k then 0 else tries_of t r.
Proof. unfold tries_of. rewrite mget_mdel. destruct (str_eqb r k); reflexivity. Qed.

(* final verdict of the attempt for one recipient, given its error and its tries counter *)
Inductive verdict := VDelivered | VFailed | VRetry.
Definition verdict_of (maxt : N) (e : option fail) (tries : N) : verdict :=
  match e with
  | None => VDelivered
  | Some f => if (negb (retryable f) || (maxt <=? tries + 1))%bool then VFailed else VRetry
  end.

Definition verdict_eqb (a b : verdict) : bool :=
  match a, b with VDelivered, VDelivered | VFailed, VFailed | VRetry, VRetry => true | _, _ => false end.
Definition vd (maxt : N) (errs : amap fail) (tries : amap N) (r : addr) : verdict :=
  verdict_of maxt (mget errs r) (tries_of tries r).
Definition sel (maxt : N) (errs : amap fail) (tries : amap N) (v : verdict) (to : list addr) : list addr :=
  filter (fun r => verdict_eqb (vd maxt errs tries r) v) to.

Lemma sel_ext maxt errs t1 t2 v to :
  (forall r, In r to -> tries_of t1 r = tries_of t2 r) -> sel maxt errs t1 v to = sel maxt errs t2 v to.
Proof.
  intros H. unfold sel. apply filter_ext_in. intros r Hr. unfold vd. rewrite (H r Hr). reflexivity.
Qed.

(* with distinct recipients the loop is three filters on the verdicts computed from the counters
   at the start of the attempt; the counter of a retried recipient goes up by exactly one *)
Lemma classify_filter maxt errs to : forall tries tries0,
  NoDup to -> (forall r, In r to -> tries_of tries r = tries_of tries0 r) ->
  let '(d, f, n, t') := classify maxt errs to tries in
  d = sel maxt errs tries0 VDelivered to /\ f = sel maxt errs tries0 VFailed to /\
  n = sel maxt errs tries0 VRetry to /\
  (forall r, In r to -> vd maxt errs tries0 r = VRetry -> tries_of t' r = tries_of tries0 r + 1) /\
  (forall r, ~ In r to -> tries_of t' r = tries_of tries r).
Proof.
  induction to as [|x to IH]; intros tries tries0 Hnd Hag.
  { simpl. repeat split; auto. intros r []. }
  inversion Hnd as [|? ? Hx Hnd']; subst.
  assert (Hneq : forall r, In r to -> str_eqb r x = false).
  { intros r Hr. apply str_eqb_neq. intros ->. tauto. }
  assert (Hxx : tries_of tries x = tries_of tries0 x) by (apply Hag; left; reflexivity).
  cbn [classify]. unfold sel. cbn [filter].
  assert (Hvx : vd maxt errs tries0 x = verdict_of maxt (mget errs x) (tries_of tries x))
    by (unfold vd; rewrite Hxx; reflexivity).
  rewrite Hvx. clear Hvx.
  destruct (mget errs x) as [e|] eqn:Ex; unfold verdict_of.
  - destruct (negb (retryable e) || (maxt <=? tries_of tries x + 1))%bool eqn:Ev.
    + specialize (IH (mdel tries x) tries0 Hnd').
      destruct (classify maxt errs to (mdel tries x)) as [[[d f] n] t'].
      destruct IH as (I1 & I2 & I3 & I4 & I5).
      { intros r Hr. rewrite tries_of_mdel, (Hneq r Hr). apply Hag. right; exact Hr. }
      cbn [verdict_eqb]. rewrite I1, I2, I3. repeat split; auto.
      * intros r [->|Hr] Hv; [|apply I4; auto]. unfold vd, verdict_of in Hv. rewrite Ex, <- Hxx, Ev in Hv. discriminate.
      * intros r Hn. rewrite I5 by (intros H; apply Hn; right; exact H).
        rewrite tries_of_mdel. destruct (str_eqb r x) eqn:E; [|reflexivity].
        apply str_eqb_eq in E; subst. exfalso; apply Hn; left; reflexivity.
    + specialize (IH (mset tries x (tries_of tries x + 1)) tries0 Hnd').
      destruct (classify maxt errs to (mset tries x (tries_of tries x + 1))) as [[[d f] n] t'].
      destruct IH as (I1 & I2 & I3 & I4 & I5).
      { intros r Hr. rewrite tries_of_mset, (Hneq r Hr). apply Hag. right; exact Hr. }
      cbn [verdict_eqb]. rewrite I1, I2, I3. repeat split; auto.
      * intros r [->|Hr] Hv; [|apply I4; auto].
        rewrite I5 by exact Hx. rewrite tries_of_mset, str_eqb_refl, Hxx. reflexivity.
      * intros r Hn. rewrite I5 by (intros H; apply Hn; right; exact H).
        rewrite tries_of_mset. destruct (str_eqb r x) eqn:E; [|reflexivity].
        apply str_eqb_eq in E; subst. exfalso; apply Hn; left; reflexivity.
  - specialize (IH tries tries0 Hnd').
    destruct (classify maxt errs to tries) as [[[d f] n] t'].
    destruct IH as (I1 & I2 & I3 & I4 & I5).
    { intros r Hr. apply Hag. right; exact Hr. }
    cbn [verdict_eqb]. rewrite I1, I2, I3. repeat split; auto.
    * intros r [->|Hr] Hv; [|apply I4; auto]. unfold vd, verdict_of in Hv. rewrite Ex in Hv. discriminate.
    * intros r Hn. apply I5. intros H; apply Hn; right; exact H.
Qed.

(* ---------- one attempt ---------- *)
Definition V (c : qcfg) (m : qmeta) (p : plan) (r : addr) : verdict :=
  verdict_of (max_tries c) (outcome p r) (tries_of (q_tries m) r).
Definition pick (c : qcfg) (m : qmeta) (p : plan) (v : verdict) : list addr :=
  filter (fun r => verdict_eqb (V c m p r) v) (q_to m).

Definition dsn_events (c : qcfg) (m : qmeta) (f : list addr) : list event :=
  match f with
  | [] => []
  | _ => if (has_bounce c && negb (q_null_sender m))%bool then [EDsn f] else [EDsnSuppressed f]
  end.

Lemma try_delivery_spec c m p :
  NoDup (q_to m) -> honest_calls p (q_to m) = true ->
  exists t',
    try_delivery c m p =
      (ECalls (snd (deliver (q_to m) p)) :: map EDelivered (pick c m p VDelivered)
         ++ dsn_events c m (pick c m p VFailed)
         ++ [match pick c m p VRetry with [] => ERemoved | n => ERetry n end],
       match pick c m p VRetry with
       | [] => None
       | n => Some {| q_to := n; q_tries := t'; q_null_sender := q_null_sender m |}
       end) /\
    (forall r, In r (pick c m p VRetry) -> tries_of t' r = tries_of (q_tries m) r + 1).
Proof.
  intros Hnd Hh. unfold try_delivery.
  destruct (deliver (q_to m) p) as [errs calls] eqn:Ed.
  pose proof (classify_filter (max_tries c) errs (q_to m) (q_tries m) (q_tries m) Hnd (fun _ _ => eq_refl)) as Hc.
  destruct (classify (max_tries c) errs (q_to m) (q_tries m)) as [[[d f] n] t'].
  destruct Hc as (Hd & Hf & Hn & Ht & _).
  assert (Hsel : forall v, sel (max_tries c) errs (q_tries m) v (q_to m) = pick c m p v).
  { intros v. unfold sel, pick. apply filter_ext_in. intros r Hr. unfold vd, V.
    replace errs with (fst (deliver (q_to m) p)) by (rewrite Ed; reflexivity).
    rewrite (deliver_outcome p (q_to m) r Hh Hr). reflexivity. }
  rewrite Hsel in Hd, Hf, Hn. subst d f n. exists t'. split.
  - simpl. unfold dsn_events. destruct (pick c m p VRetry); reflexivity.
  - intros r Hr. apply Ht.
    + unfold pick in Hr. apply filter_In in Hr. tauto.
    + unfold pick in Hr. apply filter_In in Hr as [Hin Hv]. unfold vd, V in *.
      replace errs with (fst (deliver (q_to m) p)) by (rewrite Ed; reflexivity).
      rewrite (deliver_outcome p (q_to m) r Hh Hin). destruct (verdict_of _ _ _); simpl in Hv; congruence.
Qed.

(* ---------- counting terminal outcomes ---------- *)
Definition delivered_n (evs : list event) (r : addr) : nat :=
  length (filter (fun e => match e with EDelivered x => str_eqb x r | _ => false end) evs).
Definition reported_n (evs : list event) (r : addr) : nat :=
  length (filter (fun e => match e with
                           | EDsn l | EDsnSuppressed l => mem_b str_eqb r l
                           | _ => false end) evs).

Lemma delivered_n_app a b r : delivered_n (a ++ b) r = (delivered_n a r + delivered_n b r)%nat.
Proof. unfold delivered_n. rewrite filter_app, app_length. reflexivity. Qed.
Lemma reported_n_app a b r : reported_n (a ++ b) r = (reported_n a r + reported_n b r)%nat.
Proof. unfold reported_n. rewrite filter_app, app_length. reflexivity. Qed.

Lemma delivered_n_map l r :
  NoDup l -> delivered_n (map EDelivered l) r = if mem_b str_eqb r l then 1%nat else 0%nat.
Proof.
  unfold delivered_n. induction l as [|x l IH]; intros Hnd; [reflexivity|].
  inversion Hnd as [|? ? Hx Hnd']; subst. simpl. specialize (IH Hnd').
  unfold mem_b in *. simpl. rewrite (str_eqb_sym r x).
  destruct (str_eqb x r) eqn:E; simpl.
  - apply str_eqb_eq in E; subst. rewrite IH.
    assert (existsb (str_eqb r) l = false) as ->; [|reflexivity].
    apply mem_b_false. exact Hx.
  - exact IH.
Qed.
Lemma reported_n_map l r : reported_n (map EDelivered l) r = 0%nat.
Proof. unfold reported_n. induction l; simpl; auto. Qed.
Lemma delivered_n_dsn c m f r : delivered_n (dsn_events c m f) r = 0%nat.
Proof. unfold dsn_events. destruct f; [reflexivity|]. destruct (has_bounce c && negb (q_null_sender m))%bool; reflexivity. Qed.
Lemma reported_n_dsn c m f r :
  reported_n (dsn_events c m f) r = if mem_b str_eqb r f then 1%nat else 0%nat.
Proof.
  unfold dsn_events, reported_n. destruct f as [|x f]; [reflexivity|].
  destruct (has_bounce c && negb (q_null_sender m))%bool; cbn [filter];
    destruct (mem_b str_eqb r (x :: f)); reflexivity.
Qed.

Lemma NoDup_filter {A} (p : A -> bool) l : NoDup l -> NoDup (filter p l).
Proof.
  induction 1 as [|x l Hx Hnd IH]; simpl; [constructor|].
  destruct (p x); [constructor; auto; rewrite filter_In; tauto|exact IH].
Qed.

Lemma verdict_cases v : v = VDelivered \/ v = VFailed \/ v = VRetry.
Proof. destruct v; auto. Qed.

Lemma mem_pick c m p v r :
  mem_b str_eqb r (pick c m p v) = (mem_b str_eqb r (q_to m) && verdict_eqb (V c m p r) v)%bool.
Proof.
  destruct (mem_b str_eqb r (pick c m p v)) eqn:E.
  - apply mem_b_In in E. unfold pick in E. apply filter_In in E as [Hin Hv].
    apply mem_b_In in Hin. rewrite Hin, Hv. reflexivity.
  - destruct (mem_b str_eqb r (q_to m)) eqn:Hin; [|reflexivity].
    destruct (verdict_eqb (V c m p r) v) eqn:Hv; [|reflexivity].
    exfalso. apply mem_b_false in E. apply E. unfold pick. apply filter_In. split; auto.
    apply mem_b_In. exact Hin.
Qed.

(* events of one attempt, per recipient *)
Lemma attempt_counts c m p evs m' r :
  NoDup (q_to m) -> honest_calls p (q_to m) = true -> try_delivery c m p = (evs, m') ->
  delivered_n evs r = (if (mem_b str_eqb r (q_to m) && verdict_eqb (V c m p r) VDelivered)%bool then 1 else 0)%nat /\
  reported_n evs r = (if (mem_b str_eqb r (q_to m) && verdict_eqb (V c m p r) VFailed)%bool then 1 else 0)%nat.
Proof.
  intros Hnd Hh Ht. destruct (try_delivery_spec c m p Hnd Hh) as (t' & Hs & _).
  rewrite Hs in Ht. inversion Ht; subst. clear Ht.
  change (ECalls ?x :: ?l) with ([ECalls x] ++ l).
  rewrite !delivered_n_app, !reported_n_app.
  rewrite delivered_n_map by (apply NoDup_filter; exact Hnd).
  rewrite reported_n_map, delivered_n_dsn, reported_n_dsn, !mem_pick.
  assert (Hl : delivered_n [match pick c m p VRetry with [] => ERemoved | a :: l => ERetry (a :: l) end] r = 0%nat /\
               reported_n [match pick c m p VRetry with [] => ERemoved | a :: l => ERetry (a :: l) end] r = 0%nat).
  { destruct (pick c m p VRetry); split; reflexivity. }
  destruct Hl as [-> ->].
  change (delivered_n [ECalls (snd (deliver (q_to m) p))] r) with 0%nat.
  change (reported_n [ECalls (snd (deliver (q_to m) p))] r) with 0%nat.
  split; lia.
Qed.

(* ---------- the whole life of a message ---------- *)
Fixpoint honest_run (c : qcfg) (m : qmeta) (ps : list plan) : bool :=
  match ps with
  | [] => true
  | p :: rest =>
      honest_calls p (q_to m) &&
      match snd (try_delivery c m p) with
      | None => true
      | Some m1 => honest_run c m1 rest
      end
  end.

Lemma run_counts c : forall ps m evss mf r,
  NoDup (q_to m) -> honest_run c m ps = true -> run c m ps = (evss, mf) ->
  (~ In r (q_to m) -> delivered_n (concat evss) r = 0%nat /\ reported_n (concat evss) r = 0%nat) /\
  (In r (q_to m) -> mf = None -> (delivered_n (concat evss) r + reported_n (concat evss) r = 1)%nat).
Proof.
  induction ps as [|p rest IH]; intros m evss mf r Hnd Hh Hr.
  { simpl in Hr. inversion Hr; subst. split; [intros; split; reflexivity|intros _ H; discriminate]. }
  simpl in Hh. apply andb_true_iff in Hh as [Hp Hrest].
  simpl in Hr. destruct (try_delivery c m p) as [evs m'] eqn:Et.
  destruct (attempt_counts c m p evs m' r Hnd Hp Et) as [Hd Hrp].
  destruct (try_delivery_spec c m p Hnd Hp) as (t' & Hs & Htr). rewrite Et in Hs.
  simpl in Hrest.
  destruct m' as [m1|].
  - destruct (run c m1 rest) as [l mf1] eqn:Er. inversion Hr; subst. clear Hr.
    assert (Hm1 : q_to m1 = pick c m p VRetry).
    { inversion Hs as [[He Hm]]. destruct (pick c m p VRetry); [discriminate|]. inversion Hm; reflexivity. }
    assert (Hnd1 : NoDup (q_to m1)) by (rewrite Hm1; apply NoDup_filter; exact Hnd).
    destruct (IH m1 l mf r Hnd1 Hrest Er) as [IHa IHb].
    cbn [concat]. rewrite delivered_n_app, reported_n_app, Hd, Hrp.
    split.
    + intros Hn. apply mem_b_false in Hn. rewrite Hn. simpl.
      apply IHa. rewrite Hm1. unfold pick. rewrite filter_In. intros [X _]. apply mem_b_false in Hn. tauto.
    + intros Hin Hmf. pose proof Hin as Hin'. apply mem_b_In in Hin'. rewrite Hin'. simpl.
      destruct (verdict_cases (V c m p r)) as [Hv|[Hv|Hv]]; rewrite Hv; simpl.
      * destruct IHa as [-> ->]; [|lia]. rewrite Hm1. unfold pick. rewrite filter_In, Hv. simpl. intros [_ X]; discriminate.
      * destruct IHa as [-> ->]; [|lia]. rewrite Hm1. unfold pick. rewrite filter_In, Hv. simpl. intros [_ X]; discriminate.
      * assert (In r (q_to m1)) by (rewrite Hm1; unfold pick; rewrite filter_In, Hv; auto).
        specialize (IHb H Hmf). lia.
  - inversion Hr; subst. clear Hr. cbn [concat]. rewrite app_nil_r, Hd, Hrp.
    assert (Hempty : pick c m p VRetry = []).
    { inversion Hs as [[He Hm]]. destruct (pick c m p VRetry); [reflexivity|discriminate]. }
    split.
    + intros Hn. apply mem_b_false in Hn. rewrite Hn. simpl. auto.
    + intros Hin _. pose proof Hin as Hin'. apply mem_b_In in Hin'. rewrite Hin'. simpl.
      destruct (verdict_cases (V c m p r)) as [Hv|[Hv|Hv]]; rewrite Hv; simpl; try lia.
      exfalso. assert (In r (pick c m p VRetry)) by (unfold pick; rewrite filter_In, Hv; auto).
      rewrite Hempty in H. destruct H.
Qed.

(* ---------- retry discipline and quiescence ---------- *)
Lemma next_attempt_rcpts c m p m1 r :
  NoDup (q_to m) -> honest_calls p (q_to m) = true -> snd (try_delivery c m p) = Some m1 ->
  (In r (q_to m1) <->
   In r (q_to m) /\ exists f, outcome p r = Some f /\ retryable f = true /\
                              (tries_of (q_tries m) r + 1 < max_tries c)) /\
  (In r (q_to m1) -> tries_of (q_tries m1) r = tries_of (q_tries m) r + 1).
Proof.
  intros Hnd Hh Hs. destruct (try_delivery_spec c m p Hnd Hh) as (t' & Hspec & Htr).
  rewrite Hspec in Hs. simpl in Hs.
  destruct (pick c m p VRetry) as [|a l] eqn:Ep; [discriminate|]. inversion Hs; subst m1. cbn [q_to q_tries]. clear Hs.
  rewrite <- Ep in *. split.
  - unfold pick. rewrite filter_In. unfold V, verdict_of.
    destruct (outcome p r) as [f|]; simpl.
    + destruct (retryable f) eqn:Er; simpl.
      * destruct (max_tries c <=? tries_of (q_tries m) r + 1) eqn:El; simpl.
        -- split; [intros [_ X]; discriminate|]. intros (_ & f' & E & _ & Hlt). apply N.leb_le in El. lia.
        -- split; [|tauto]. intros [Hin _]. split; auto. exists f. repeat split; auto.
           apply N.leb_gt in El. exact El.
      * split; [intros [_ X]; discriminate|]. intros (_ & f' & E & Hr' & _). inversion E; subst. congruence.
    + split; [intros [_ X]; discriminate|]. intros (_ & f' & E & _). discriminate.
  - intros Hr. apply Htr. exact Hr.
Qed.

(* after k attempts every pending recipient has been tried k times: the message leaves the queue
   after at most max_tries attempts *)
Lemma run_quiesces c : forall ps m k,
  NoDup (q_to m) -> honest_run c m ps = true ->
  (forall r, In r (q_to m) -> k <= tries_of (q_tries m) r) ->
  (max_tries c <= k + N.of_nat (length ps)) -> (1 <= max_tries c) -> ps <> [] ->
  snd (run c m ps) = None.
Proof.
  induction ps as [|p rest IH]; intros m k Hnd Hh Hk Hlen Hmax Hne; [tauto|].
  simpl in Hh. apply andb_true_iff in Hh as [Hp Hrest].
  simpl. destruct (try_delivery c m p) as [evs m'] eqn:Et. simpl in Hrest.
  destruct m' as [m1|]; [|reflexivity].
  assert (Hs : snd (try_delivery c m p) = Some m1) by (rewrite Et; reflexivity).
  assert (Hnd1 : NoDup (q_to m1)).
  { destruct (try_delivery_spec c m p Hnd Hp) as (t' & Hspec & _). rewrite Hspec in Hs. simpl in Hs.
    destruct (pick c m p VRetry) eqn:Ep; [discriminate|]. inversion Hs; subst. simpl. rewrite <- Ep.
    apply NoDup_filter. exact Hnd. }
  assert (Hk1 : forall r, In r (q_to m1) -> k + 1 <= tries_of (q_tries m1) r).
  { intros r Hr. destruct (next_attempt_rcpts c m p m1 r Hnd Hp Hs) as [Ha Hb].
    rewrite (Hb Hr). apply Ha in Hr as [Hin _]. specialize (Hk r Hin). lia. }
  destruct rest as [|p2 rest'].
  - (* no plan left: impossible, a retried recipient still has tries + 1 < max_tries *)
    exfalso. destruct (try_delivery_spec c m p Hnd Hp) as (t' & Hspec & _). rewrite Hspec in Hs. simpl in Hs.
    destruct (pick c m p VRetry) as [|a l] eqn:Ep; [discriminate|].
    assert (Hin : In a (q_to m1)) by (inversion Hs; subst; simpl; left; reflexivity).
    destruct (next_attempt_rcpts c m p m1 a Hnd Hp ltac:(rewrite Et; reflexivity)) as [Ha _].
    apply Ha in Hin as (Hin & f & _ & _ & Hlt). specialize (Hk a Hin). simpl in Hlen. lia.
  - destruct (run c m1 (p2 :: rest')) as [l mf] eqn:Er. simpl.
    change mf with (snd (l, mf)). rewrite <- Er.
    apply (IH m1 (k + 1)); auto; try discriminate.
    simpl in Hlen. simpl. lia.
Qed.

(* ---------- link with the downstream's own view ---------- *)
Lemma outcome_truly p to r :
  honest_calls p to = true -> In r to ->
  (outcome p r = None <-> truly_delivered p to r = true).
Proof.
  intros Hh Hin. unfold outcome, truly_delivered, committed_in.
  destruct (p_start p); [split; discriminate|].
  destruct (mget (p_rcpt p) r) eqn:Er.
  - split; [discriminate|]. rewrite !andb_true_iff. intros [[_ Hm] _].
    apply mem_b_In, accepted_in_In in Hm. destruct Hm. congruence.
  - assert (Hacc : In r (accepted_in p to)) by (apply accepted_in_In; auto).
    assert (Hbo : body_ok p r = match body_fail p r with None => true | Some _ => false end).
    { unfold body_ok, body_fail. unfold honest_calls in Hh. destruct (p_body p) as [[?|]|calls]; auto.
      apply andb_true_iff in Hh as [_ Hc].
      rewrite forallb_forall in Hc. specialize (Hc _ Hacc). apply Nat.eqb_eq in Hc.
      destruct (alookup str_eqb r calls) as [[?|]|] eqn:El; auto.
      exfalso. clear -Hc El. induction calls as [|[k v] calls IH]; simpl in *; [discriminate|].
      rewrite (str_eqb_sym k r) in Hc. destruct (str_eqb r k); [discriminate|]. auto. }
    rewrite Hbo. destruct (body_fail p r).
    + split; [discriminate|]. rewrite !andb_true_iff. intros [_ X]; discriminate.
    + destruct (p_commit p).
      * split; [discriminate|]. rewrite !andb_true_iff. intros [[[_ X] _] _]; discriminate.
      * split; [|reflexivity]. intros _. rewrite !andb_true_iff. repeat split; auto;
          try (apply mem_b_In; exact Hacc).
        apply existsb_exists. exists r. split; auto.
Qed.

Lemma enqueue_from_spec seen to :
  NoDup (enqueue_from seen to) /\
  forall r, In r (enqueue_from seen to) <-> In r to /\ ~ In r seen.
Proof.
  revert seen. induction to as [|x to IH]; intros seen; simpl.
  { split; [constructor|]. intros r; tauto. }
  destruct (mem_b str_eqb x seen) eqn:E.
  - destruct (IH seen) as [Hn Hi]. split; auto. intros r. rewrite Hi. apply mem_b_In in E.
    split; [tauto|]. intros [[->|H] Hs]; tauto.
  - destruct (IH (x :: seen)) as [Hn Hi]. apply mem_b_false in E. split.
    + constructor; auto. rewrite Hi. simpl. tauto.
    + intros r. simpl. rewrite Hi. simpl. split.
      * intros [->|[H1 H2]]; tauto.
      * intros [[->|H] Hs]; auto. destruct (list_eq_dec N.eq_dec x r); [left; auto|right; tauto].
Qed.

Lemma enqueue_nodup to : NoDup (enqueue to) /\ forall r, In r (enqueue to) <-> In r to.
Proof.
  destruct (enqueue_from_spec [] to) as [H1 H2]. split; auto. intros r. rewrite (H2 r). simpl. tauto.
Qed.
