(* C01: executable model of the delivery loop of internal/target/queue/queue.go
   (deliver, tryDelivery, the decision to emit a failure report, removal / retry).
   Definitions only. *)
From Maddy Require Export Lib.Base.
Local Open Scope N_scope.

Definition addr := str.

(* classification of a failure as exterrors.IsTemporaryOrUnspec sees it *)
Inductive fail := FTemp | FPerm | FUnspec.
Definition retryable (f : fail) : bool := match f with FPerm => false | _ => true end.
Definition fail_eqb (a b : fail) : bool :=
  match a, b with FTemp, FTemp | FPerm, FPerm | FUnspec, FUnspec => true | _, _ => false end.

(* small maps keyed by address *)
Definition amap (V : Type) := list (addr * V).
Definition mget {V} (m : amap V) (k : addr) : option V := alookup str_eqb k m.
Fixpoint mdel {V} (m : amap V) (k : addr) : amap V :=
  match m with
  | [] => []
  | (k', v) :: t => if str_eqb k k' then mdel t k else (k', v) :: mdel t k
  end.
Definition mset {V} (m : amap V) (k : addr) (v : V) : amap V := (k, v) :: mdel m k.

(* what the downstream target does in one attempt *)
Inductive body_plan :=
| BAtomic (r : option fail)                          (* Delivery.Body *)
| BPartial (calls : list (addr * option fail)).      (* PartialDelivery.BodyNonAtomic: SetStatus calls, in order *)
Record plan := {
  p_start : option fail;
  p_rcpt : amap fail;            (* recipients refused at AddRcpt; others accepted *)
  p_body : body_plan;
  p_commit : option fail
}.

Inductive call :=
| CStart | CAddRcpt (r : addr) | CBody | CBodyNonAtomic | CCommit | CAbort.

(* queue.go deliver: per-recipient errors of the attempt and the calls made on the target.
   Absence of a key means delivered. *)
Definition set_all (errs : amap fail) (rs : list addr) (f : fail) : amap fail :=
  fold_left (fun m r => mset m r f) rs errs.

Definition deliver (to : list addr) (p : plan) : amap fail * list call :=
  match p_start p with
  | Some f => (set_all [] to f, [CStart])
  | None =>
      let '(errs, accepted) :=
        fold_left (fun st r =>
                     let '(e, acc) := st in
                     match mget (p_rcpt p) r with
                     | Some f => (mset e r f, acc)
                     | None => (e, acc ++ [r])
                     end) to ([], []) in
      let rcpt_calls := CStart :: map CAddRcpt to in
      match accepted with
      | [] => (errs, rcpt_calls ++ [CAbort])
      | _ =>
          let '(errs1, bcall) :=
            match p_body p with
            | BAtomic None => (errs, CBody)
            | BAtomic (Some f) => (set_all errs accepted f, CBody)
            | BPartial calls =>
                (fold_left (fun m kv => match snd kv with Some f => mset m (fst kv) f | None => m end) calls errs,
                 CBodyNonAtomic)
            end in
          if forallb (fun r => match mget errs1 r with Some _ => true | None => false end) accepted
          then (errs1, rcpt_calls ++ [bcall; CAbort])
          else match p_commit p with
               | Some f => (set_all errs1 (filter (fun r => match mget errs1 r with Some _ => false | None => true end) accepted) f,
                            rcpt_calls ++ [bcall; CCommit])
               | None => (errs1, rcpt_calls ++ [bcall; CCommit])
               end
      end
  end.

Record qmeta := { q_to : list addr; q_tries : amap N; q_null_sender : bool }.
Record qcfg := { max_tries : N; has_bounce : bool }.

Inductive event :=
| ECalls (cs : list call)
| EDelivered (r : addr)
| EDsn (rs : list addr)              (* failure report handed to the bounce pipeline *)
| EDsnSuppressed (rs : list addr)    (* null sender or no bounce pipeline *)
| ERetry (rs : list addr)
| ERemoved.

Definition tries_of (t : amap N) (r : addr) : N := match mget t r with Some n => n | None => 0 end.

(* the classification loop of tryDelivery, element by element of To *)
Fixpoint classify (maxt : N) (errs : amap fail) (to : list addr) (tries : amap N)
  : list addr * list addr * list addr * amap N :=      (* delivered, failed, retried, tries' *)
  match to with
  | [] => ([], [], [], tries)
  | r :: rest =>
      match mget errs r with
      | None =>
          let '(d, f, n, t') := classify maxt errs rest tries in (r :: d, f, n, t')
      | Some e =>
          if (negb (retryable e) || (maxt <=? tries_of tries r + 1))%bool then
            let '(d, f, n, t') := classify maxt errs rest (mdel tries r) in (d, r :: f, n, t')
          else
            let '(d, f, n, t') := classify maxt errs rest (mset tries r (tries_of tries r + 1)) in (d, f, r :: n, t')
      end
  end.

Definition try_delivery (c : qcfg) (m : qmeta) (p : plan) : list event * option qmeta :=
  let '(errs, calls) := deliver (q_to m) p in
  let '(d, f, n, t') := classify (max_tries c) errs (q_to m) (q_tries m) in
  let ev_dsn := match f with
                | [] => []
                | _ => if (has_bounce c && negb (q_null_sender m))%bool then [EDsn f] else [EDsnSuppressed f]
                end in
  match n with
  | [] => (ECalls calls :: map EDelivered d ++ ev_dsn ++ [ERemoved], None)
  | _ => (ECalls calls :: map EDelivered d ++ ev_dsn ++ [ERetry n],
          Some {| q_to := n; q_tries := t'; q_null_sender := q_null_sender m |})
  end.

(* the life of one message: one plan per attempt *)
Fixpoint run (c : qcfg) (m : qmeta) (ps : list plan) : list (list event) * option qmeta :=
  match ps with
  | [] => ([], Some m)
  | p :: rest =>
      let '(evs, m') := try_delivery c m p in
      match m' with
      | None => ([evs], None)
      | Some m1 => let '(l, mf) := run c m1 rest in (evs :: l, mf)
      end
  end.

(* queueDelivery.AddRcpt: a recipient named again by the client is not tracked twice *)
Fixpoint enqueue_from (seen : list addr) (to : list addr) : list addr :=
  match to with
  | [] => []
  | r :: t => if mem_b str_eqb r seen then enqueue_from seen t else r :: enqueue_from (r :: seen) t
  end.
Definition enqueue (to : list addr) : list addr := enqueue_from [] to.

(* ---- ground truth of an attempt, from the plan alone ---- *)
Definition accepted_in (p : plan) (to : list addr) : list addr :=
  filter (fun r => match mget (p_rcpt p) r with Some _ => false | None => true end) to.

(* the downstream's own per-recipient body result, read off its status calls: a target that
   honours the status contract (C09) reports, for every accepted recipient and nobody else,
   exactly one status under the address it was given *)
Definition honest_calls (p : plan) (to : list addr) : bool :=
  match p_body p with
  | BAtomic _ => true
  | BPartial calls =>
      forallb (fun kv => mem_b str_eqb (fst kv) (accepted_in p to)) calls
      && forallb (fun r => Nat.eqb (count_occ_b str_eqb (map fst calls) r) 1) (accepted_in p to)
  end.
Definition body_ok (p : plan) (r : addr) : bool :=
  match p_body p with
  | BAtomic None => true
  | BAtomic (Some _) => false
  | BPartial calls => match alookup str_eqb r calls with Some None => true | _ => false end
  end.
Definition committed_in (p : plan) (to : list addr) : bool :=
  match p_start p with
  | Some _ => false
  | None => existsb (body_ok p) (accepted_in p to) && match p_commit p with None => true | Some _ => false end
  end.
(* the target committed the message for r in this attempt *)
Definition truly_delivered (p : plan) (to : list addr) (r : addr) : bool :=
  committed_in p to && mem_b str_eqb r (accepted_in p to) && body_ok p r.
