(* C10: what the queue hands to the downstream target, as a function of what it accepted.
   The spool is three files: the printed header, the body bytes, and the serialised metadata
   with the connection state stripped.  JSON (de)serialisation is a Section variable. *)
From Maddy Require Export Lib.Base Wire.Header Queue.Model.
Local Open Scope N_scope.

Record conn := { cn_user : str; cn_password : str; cn_host : str }.
Record envelope := {
  e_id : str; e_from : str; e_orig_from : str; e_utf8 : bool; e_requiretls : bool;
  e_override : bool; e_quarantine : bool; e_orig_rcpts : list (str * str);
  e_conn : option conn
}.
Record qstate := { s_env : envelope; s_to : list addr; s_tries : list (addr * N) }.

Definition strip_conn (e : envelope) : envelope :=
  {| e_id := e_id e; e_from := e_from e; e_orig_from := e_orig_from e; e_utf8 := e_utf8 e;
     e_requiretls := e_requiretls e; e_override := e_override e; e_quarantine := e_quarantine e;
     e_orig_rcpts := e_orig_rcpts e; e_conn := None |}.
Definition strip (s : qstate) : qstate := {| s_env := strip_conn (s_env s); s_to := s_to s; s_tries := s_tries s |}.

Record disk := { d_header : bytes; d_body : bytes; d_meta : bytes }.

Section Json.
  Variable encode : qstate -> bytes.
  Variable decode : bytes -> option qstate.

  (* storeNewMessage / updateMetadataOnDisk *)
  Definition store (hdr : list bytes) (body : bytes) (s : qstate) : disk :=
    {| d_header := write_header hdr; d_body := body; d_meta := encode (strip s) |}.
  Definition update_meta (d : disk) (s : qstate) : disk :=
    {| d_header := d_header d; d_body := d_body d; d_meta := encode (strip s) |}.

  (* openMessage *)
  Definition load (d : disk) : option (list bytes * bytes * qstate) :=
    match decode (d_meta d), read_header (d_header d) with
    | Some s, HOk f _ => Some (f, d_body d, s)
    | _, _ => None
    end.
End Json.
