(* C01 correspondence and monitor. *)
From Maddy Require Export Lib.Base Queue.Model.
Local Open Scope N_scope.

Inductive obs :=
| OAttempt (calls : list call) (committed : list addr)   (* calls seen by the scripted target; what it committed *)
| ODsn (rs : list addr).                                 (* recipients named by a report handed to the bounce target *)

Record case := {
  c_cfg : qcfg; c_to : list addr; c_null : bool; c_plans : list plan;
  c_trace : list obs; c_removed : bool
}.

Definition call_eqb (a b : call) : bool :=
  match a, b with
  | CStart, CStart | CBody, CBody | CBodyNonAtomic, CBodyNonAtomic | CCommit, CCommit | CAbort, CAbort => true
  | CAddRcpt x, CAddRcpt y => str_eqb x y
  | _, _ => false
  end.

(* projection of the model's events onto what the harness can see *)
Definition proj_events (evs : list event) : list (list call + list addr) :=
  flat_map (fun e => match e with ECalls cs => [inl cs] | EDsn rs => [inr rs] | _ => [] end) evs.
Definition proj_obs (t : list obs) : list (list call + list addr) :=
  map (fun o => match o with OAttempt cs _ => inl cs | ODsn rs => inr rs end) t.
Definition item_eqb (a b : list call + list addr) : bool :=
  match a, b with
  | inl x, inl y => list_eqb call_eqb x y
  | inr x, inr y => list_eqb str_eqb x y
  | _, _ => false
  end.

Definition m0 (c : case) : qmeta := {| q_to := enqueue (c_to c); q_tries := []; q_null_sender := c_null c |}.

Definition agrees (c : case) : bool :=
  let '(evs, mf) := run (c_cfg c) (m0 c) (c_plans c) in
  list_eqb item_eqb (flat_map proj_events evs) (proj_obs (c_trace c))
  && Bool.eqb (match mf with None => true | Some _ => false end) (c_removed c).
Definition mismatches (cs : list case) : list N := find_idx (fun c => negb (agrees c)) cs.

(* ---- the property on the implementation's trace ---- *)
Fixpoint dedup (l : list addr) : list addr :=
  match l with [] => [] | x :: t => if mem_b str_eqb x t then dedup t else x :: dedup t end.

Definition commits_of (t : list obs) (r : addr) : nat :=
  fold_left (fun n o => match o with OAttempt _ cm => if mem_b str_eqb r cm then S n else n | _ => n end) t 0%nat.
Definition reports_of (t : list obs) (r : addr) : nat :=
  fold_left (fun n o => match o with ODsn rs => if mem_b str_eqb r rs then S n else n | _ => n end) t 0%nat.
Definition attempts_with (t : list obs) (r : addr) : nat :=
  fold_left (fun n o => match o with
                        | OAttempt cs _ => if existsb (call_eqb (CAddRcpt r)) cs then S n else n
                        | _ => n end) t 0%nat.

(* ground truth of one attempt for recipient r, from the plan (honest targets) *)
Definition truth (p : plan) (to : list addr) (r : addr) : option fail :=     (* None = delivered *)
  match p_start p with
  | Some f => Some f
  | None =>
      match mget (p_rcpt p) r with
      | Some f => Some f
      | None =>
          let bf := match p_body p with
                    | BAtomic x => x
                    | BPartial calls => match alookup str_eqb r calls with Some x => x | None => None end
                    end in
          match bf with
          | Some f => Some f
          | None => if committed_in p to then None
                    else match p_commit p with Some f => Some f | None => Some FUnspec end
          end
      end
  end.

(* recipients offered in each attempt (None when Start itself failed: nothing was offered) *)
Definition attempt_rcpts (t : list obs) : list (option (list addr)) :=
  flat_map (fun o => match o with
                     | OAttempt [CStart] _ => [None]
                     | OAttempt cs _ => [Some (flat_map (fun c => match c with CAddRcpt r => [r] | _ => [] end) cs)]
                     | ODsn _ => [] end) t.

(* re-attempt only after a temporary or unclassified failure: [allowed] = the recipients that may
   still be offered (None = nothing is known yet, i.e. the recipients of the message) *)
Fixpoint retry_ok (plans : list plan) (atts : list (option (list addr))) (allowed : list addr) : bool :=
  match plans, atts with
  | p :: ps, Some a :: rest =>
      forallb (fun r => mem_b str_eqb r allowed) a
      && retry_ok ps rest (filter (fun r => match truth p a r with Some f => retryable f | None => false end) a)
  | p :: ps, None :: rest =>
      (* Start failed for everybody pending *)
      retry_ok ps rest (match p_start p with Some f => if retryable f then allowed else [] | None => allowed end)
  | _, _ => true
  end.

Definition honest (c : case) : bool :=
  (fix go (ps : list plan) (atts : list (option (list addr))) :=
     match ps, atts with
     | p :: ps', Some a :: atts' => honest_calls p a && go ps' atts'
     | p :: ps', None :: atts' => go ps' atts'
     | _, _ => true
     end) (c_plans c) (attempt_rcpts (c_trace c)).

Definition nodup_b (l : list addr) : bool := Nat.eqb (length (dedup l)) (length l).

Definition monitor (c : case) : list N :=
  if negb (honest c) then [] else
  let t := c_trace c in
  let reporting := has_bounce (c_cfg c) && negb (c_null c) in
  (* 1: exactly one terminal outcome per distinct recipient once the message has left the queue *)
  (if c_removed c then
     flat_map (fun r =>
       let cm := commits_of t r in let rp := reports_of t r in
       if reporting then
         if (Nat.eqb cm 1 && Nat.eqb rp 0) || (Nat.eqb cm 0 && Nat.eqb rp 1) then []
         else [1]
       else if Nat.leb cm 1 && Nat.eqb rp 0 then [] else [1])
       (dedup (c_to c))
   else []) ++
  (* 2: never more than max_tries attempts for a recipient *)
  (if forallb (fun r => Nat.leb (attempts_with t r) (N.to_nat (max_tries (c_cfg c)))) (dedup (c_to c))
   then [] else [2]) ++
  (* 3: re-attempted only after a temporary or unclassified failure *)
  (if retry_ok (c_plans c) (attempt_rcpts t) (enqueue (c_to c)) then [] else [3]) ++
  (* 4: with enough attempts planned the message leaves the queue *)
  (if (N.to_nat (max_tries (c_cfg c)) <=? length (c_plans c))%nat && negb (c_removed c) then [4] else []).

Definition dedup_N (l : list N) : list N :=
  fold_right (fun x acc => if existsb (N.eqb x) acc then acc else x :: acc) [] l.
Definition monitor_failures (cs : list case) : list (N * list N) :=
  let fix go (i : N) (l : list case) :=
    match l with
    | [] => []
    | c :: t => match dedup_N (monitor c) with [] => go (N.succ i) t | cl => (i, cl) :: go (N.succ i) t end
    end in go 0%N cs.

Definition tag (c : case) : N :=
  N.of_nat (length (c_trace c)) + 16 * N.of_nat (length (c_to c))
  + (if honest c then 128 else 0) + (if c_removed c then 256 else 0)
  + (if existsb (fun o => match o with ODsn _ => true | _ => false end) (c_trace c) then 512 else 0).
Definition tags (cs : list case) : list N := map tag cs.
