(* C01, integration stream: the queue above the real remote-MX target talking to scripted,
   possibly misbehaving, SMTP servers.  The model is at the level of what the servers and the
   bounce target see: RCPT commands and their replies, DATA transactions, failure reports.
   Definitions only. *)
From Maddy Require Export Lib.Base.
Local Open Scope N_scope.

(* scripted reply to a RCPT command *)
Inductive rr := RAccept | RTemp (* 450 *) | RPerm (* 550 *) | R421 (* 421, connection kept *)
              | RDrop (* connection closed without a reply *).
(* scripted end of a DATA transaction *)
Inductive dr := DOk | DTemp | DPerm.

Inductive ev :=
| ERcpt (r : N) (reply : rr)          (* the server saw RCPT for recipient r and did this *)
| ECommit (rs : list N)               (* the server accepted a transaction for these recipients *)
| EData (rs : list N) (d : dr)        (* the server refused the content of a transaction *)
| EDsn (rs : list N).                 (* a failure report naming these recipients reached the bounce target *)

Definition script (A : Type) := list (N * list A).   (* per key: what is still to come; then the default *)

Fixpoint pop {A} (k : N) (s : script A) (dflt : A) : A * script A :=
  match s with
  | [] => (dflt, [])
  | (k', l) :: t =>
      if k =? k' then match l with [] => (dflt, s) | x :: l' => (x, (k', l') :: t) end
      else let '(x, t') := pop k t dflt in (x, (k', l) :: t')
  end.

Inductive res := Delivered | FailT | FailP.

(* recipient stage of one attempt: pending recipients (id, domain) in order *)
Record rstate := { rs_script : script rr; rs_dead : list N; rs_acc : list (N * N);
                   rs_fail : list (N * res); rs_ev : list ev }.

Definition rcpt_step (st : rstate) (rd : N * N) : rstate :=
  let '(r, d) := rd in
  if mem_b N.eqb d (rs_dead st) then
    {| rs_script := rs_script st; rs_dead := rs_dead st; rs_acc := rs_acc st;
       rs_fail := rs_fail st ++ [(r, FailT)]; rs_ev := rs_ev st |}
  else
    let '(reply, s') := pop r (rs_script st) RAccept in
    let evs := rs_ev st ++ [ERcpt r reply] in
    match reply with
    | RAccept => {| rs_script := s'; rs_dead := rs_dead st; rs_acc := rs_acc st ++ [(r, d)];
                    rs_fail := rs_fail st; rs_ev := evs |}
    | RTemp | R421 => {| rs_script := s'; rs_dead := rs_dead st; rs_acc := rs_acc st;
                         rs_fail := rs_fail st ++ [(r, FailT)]; rs_ev := evs |}
    | RPerm => {| rs_script := s'; rs_dead := rs_dead st; rs_acc := rs_acc st;
                  rs_fail := rs_fail st ++ [(r, FailP)]; rs_ev := evs |}
    | RDrop => {| rs_script := s'; rs_dead := d :: rs_dead st; rs_acc := rs_acc st;
                  rs_fail := rs_fail st ++ [(r, FailT)]; rs_ev := evs |}
    end.

Fixpoint dedupN (l : list N) : list N :=
  match l with [] => [] | x :: t => x :: filter (fun y => negb (y =? x)) (dedupN t) end.

(* content stage: one transaction per domain that has accepted recipients and a live connection *)
Fixpoint data_stage (doms : list N) (dead : list N) (acc : list (N * N)) (ds : script dr)
  : list (N * res) * list ev * script dr :=
  match doms with
  | [] => ([], [], ds)
  | d :: rest =>
      let mine := map fst (filter (fun x : N * N => snd x =? d) acc) in
      if mem_b N.eqb d dead then
        let '(o, e, ds') := data_stage rest dead acc ds in
        (map (fun r => (r, FailT)) mine ++ o, e, ds')
      else
        let '(reply, ds1) := pop d ds DOk in
        let '(o, e, ds') := data_stage rest dead acc ds1 in
        match reply with
        | DOk => (map (fun r => (r, Delivered)) mine ++ o, ECommit mine :: e, ds')
        | DTemp => (map (fun r => (r, FailT)) mine ++ o, EData mine DTemp :: e, ds')
        | DPerm => (map (fun r => (r, FailP)) mine ++ o, EData mine DPerm :: e, ds')
        end
  end.

Record qstate := { q_pending : list (N * N); q_rs : script rr; q_ds : script dr }.

(* one delivery attempt, the k-th (from 0) of at most [mx] *)
Definition attempt (mx k : N) (q : qstate) : qstate * list ev :=
  let st := fold_left rcpt_step (q_pending q)
              {| rs_script := q_rs q; rs_dead := []; rs_acc := []; rs_fail := []; rs_ev := [] |} in
  let '(outs, dev, ds') :=
    match rs_acc st with
    | [] => ([], [], q_ds q)               (* nothing accepted: the delivery is aborted *)
    | _ => data_stage (dedupN (map snd (rs_acc st))) (rs_dead st) (rs_acc st) (q_ds q)
    end in
  let results := rs_fail st ++ outs in
  let last := mx <=? k + 1 in
  let outcome (r : N) : res :=
    match alookup N.eqb r results with Some x => x | None => Delivered end in
  let given_up := filter (fun rd : N * N => match outcome (fst rd) with
                                           | FailP => true | FailT => last | Delivered => false end) (q_pending q) in
  let again := filter (fun rd : N * N => match outcome (fst rd) with
                                        | FailT => negb last | _ => false end) (q_pending q) in
  ({| q_pending := again; q_rs := rs_script st; q_ds := ds' |},
   rs_ev st ++ dev ++ (match given_up with [] => [] | _ => [EDsn (map fst given_up)] end)).

Fixpoint run (mx : N) (fuel : nat) (k : N) (q : qstate) : qstate * list ev :=
  match fuel with
  | O => (q, [])
  | S f =>
      match q_pending q with
      | [] => (q, [])
      | _ => let '(q1, e1) := attempt mx k q in
             let '(q2, e2) := run mx f (k + 1) q1 in (q2, e1 ++ e2)
      end
  end.

(* ---- projections onto one recipient ---- *)
Definition replies_of (t : list ev) (r : N) : list rr :=
  flat_map (fun e => match e with ERcpt r' x => if r' =? r then [x] else [] | _ => [] end) t.
Definition commits_of (t : list ev) (r : N) : nat :=
  length (filter (fun e => match e with ECommit rs => mem_b N.eqb r rs | _ => false end) t).
Definition reports_of (t : list ev) (r : N) : nat :=
  length (filter (fun e => match e with EDsn rs => mem_b N.eqb r rs | _ => false end) t).
