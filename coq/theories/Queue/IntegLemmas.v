(* C01, integration model: every recipient ends in exactly one terminal outcome, whatever the
   servers do.  Proofs. *)
From Maddy Require Import Lib.Base Queue.Integ.
Local Open Scope N_scope.

Lemma mem_b_In r l : mem_b N.eqb r l = true <-> In r l.
Proof.
  unfold mem_b. rewrite existsb_exists. split.
  - intros [x [Hx E]]. apply N.eqb_eq in E. subst; auto.
  - intros H. exists r. split; auto. apply N.eqb_refl.
Qed.

Lemma commits_app t1 t2 r : commits_of (t1 ++ t2) r = (commits_of t1 r + commits_of t2 r)%nat.
Proof. unfold commits_of. rewrite filter_app, app_length. reflexivity. Qed.
Lemma reports_app t1 t2 r : reports_of (t1 ++ t2) r = (reports_of t1 r + reports_of t2 r)%nat.
Proof. unfold reports_of. rewrite filter_app, app_length. reflexivity. Qed.

Definition is_rcpt_ev (e : ev) : Prop := match e with ERcpt _ _ => True | _ => False end.
Lemma rcpt_evs_silent t r : Forall is_rcpt_ev t -> commits_of t r = 0%nat /\ reports_of t r = 0%nat.
Proof.
  induction 1 as [|e t He _ IH]; [split; reflexivity|].
  destruct e; try contradiction. unfold commits_of, reports_of in *. cbn [filter]. exact IH.
Qed.

Lemma NoDup_snoc {A} (l : list A) x : NoDup l -> ~ In x l -> NoDup (l ++ [x]).
Proof.
  induction 1 as [|y l Hy Hl IH]; intros Hx; cbn.
  - constructor; [intros []|constructor].
  - constructor.
    + rewrite in_app_iff. cbn. intros [H|[H|[]]]; [auto|]. subst. apply Hx. left; reflexivity.
    + apply IH. intro; apply Hx; right; assumption.
Qed.

Lemma NoDup_fst_fun {A} (l : list (N * A)) r a b :
  NoDup (map fst l) -> In (r, a) l -> In (r, b) l -> a = b.
Proof.
  induction l as [|[k v] l IH]; cbn; intros Hn Ha Hb; [contradiction|].
  inversion Hn as [|? ? Hk Hn']; subst.
  destruct Ha as [Ha|Ha], Hb as [Hb|Hb].
  - congruence.
  - inversion Ha; subst. exfalso. apply Hk. apply in_map_iff. exists (r, b). auto.
  - inversion Hb; subst. exfalso. apply Hk. apply in_map_iff. exists (r, a). auto.
  - eauto.
Qed.

(* ---- recipient stage ---- *)
Record RInv (done : list (N * N)) (st : rstate) : Prop := {
  ri_cover : forall r, In r (map fst done) <-> In r (map fst (rs_acc st)) \/ In r (map fst (rs_fail st));
  ri_disj : forall r, In r (map fst (rs_acc st)) -> ~ In r (map fst (rs_fail st));
  ri_nodup : NoDup (map fst (rs_acc st));
  ri_sub : forall x, In x (rs_acc st) -> In x done;
  ri_failnd : forall r f, In (r, f) (rs_fail st) -> f <> Delivered;
  ri_ev : Forall is_rcpt_ev (rs_ev st) }.

Lemma rcpt_step_inv done st r d :
  RInv done st -> ~ In r (map fst done) -> RInv (done ++ [(r, d)]) (rcpt_step st (r, d)).
Proof.
  intros [Hc Hd Hn Hs Hf He] Hnew.
  assert (Hna : ~ In r (map fst (rs_acc st))) by (intro; apply Hnew, Hc; auto).
  assert (Hnf : ~ In r (map fst (rs_fail st))) by (intro; apply Hnew, Hc; auto).
  assert (FAIL : forall f s' dead evs, f <> Delivered -> Forall is_rcpt_ev evs ->
            RInv (done ++ [(r, d)]) {| rs_script := s'; rs_dead := dead; rs_acc := rs_acc st;
                                       rs_fail := rs_fail st ++ [(r, f)]; rs_ev := evs |}).
  { intros f s' dead evs Hfd Hev. constructor; cbn [rs_acc rs_fail rs_ev].
    - intros x. rewrite !map_app, !in_app_iff. cbn [map fst In]. rewrite (Hc x). tauto.
    - intros x Hx. rewrite map_app, in_app_iff. cbn [map fst In].
      intros [H|[H|[]]]; [exact (Hd x Hx H)|]. subst. auto.
    - exact Hn.
    - intros x Hx. apply in_app_iff. left. auto.
    - intros x f0. rewrite in_app_iff. cbn [In]. intros [H|[H|[]]]; [eauto|]. inversion H; subst; auto.
    - exact Hev. }
  unfold rcpt_step.
  destruct (mem_b N.eqb d (rs_dead st)).
  - apply FAIL; [discriminate|exact He].
  - destruct (pop r (rs_script st) RAccept) as [reply s'].
    assert (Hev : Forall is_rcpt_ev (rs_ev st ++ [ERcpt r reply])).
    { apply Forall_app. split; [exact He|]. constructor; [exact I|constructor]. }
    destruct reply; try (apply FAIL; [discriminate|exact Hev]).
    constructor; cbn [rs_acc rs_fail rs_ev].
    + intros x. rewrite !map_app, !in_app_iff. cbn [map fst In]. rewrite (Hc x). tauto.
    + intros x. rewrite map_app, in_app_iff. cbn [map fst In].
      intros [H|[H|[]]]; [exact (Hd x H)|]. subst. exact Hnf.
    + rewrite map_app. cbn [map fst]. apply NoDup_snoc; assumption.
    + intros x. rewrite !in_app_iff. cbn [In]. intros [H|[H|[]]]; [left; auto|right; left; auto].
    + exact Hf.
    + exact Hev.
Qed.

Lemma rcpt_fold_inv P : forall done st,
  NoDup (map fst (done ++ P)) -> RInv done st -> RInv (done ++ P) (fold_left rcpt_step P st).
Proof.
  induction P as [|[r d] P IH]; intros done st Hn Hi; cbn [fold_left].
  - rewrite app_nil_r. exact Hi.
  - replace (done ++ (r, d) :: P) with ((done ++ [(r, d)]) ++ P) in * by (rewrite <- app_assoc; reflexivity).
    apply IH; [exact Hn|]. apply rcpt_step_inv; [exact Hi|].
    rewrite !map_app in Hn. cbn [map fst] in Hn.
    rewrite <- app_assoc in Hn. apply NoDup_remove_2 in Hn.
    intro H. apply Hn. apply in_app_iff. left. exact H.
Qed.

Definition st0 (s : script rr) : rstate :=
  {| rs_script := s; rs_dead := []; rs_acc := []; rs_fail := []; rs_ev := [] |}.

Lemma rcpt_stage_inv P s : NoDup (map fst P) -> RInv P (fold_left rcpt_step P (st0 s)).
Proof.
  intros Hn. apply (rcpt_fold_inv P [] (st0 s)); [exact Hn|].
  constructor; cbn; try tauto; try constructor.
Qed.

(* ---- content stage ---- *)
Definition mine_of (d : N) (acc : list (N * N)) : list N :=
  map fst (filter (fun x : N * N => snd x =? d) acc).

Lemma mine_In r d acc : In r (mine_of d acc) <-> In (r, d) acc.
Proof.
  unfold mine_of. rewrite in_map_iff. split.
  - intros [[r' d'] [E H]]. cbn in E. subst. apply filter_In in H. destruct H as [H E].
    cbn in E. apply N.eqb_eq in E. subst. exact H.
  - intros H. exists (r, d). split; [reflexivity|]. apply filter_In. split; [exact H|]. cbn. apply N.eqb_refl.
Qed.

Lemma alookup_const_in (X : res) r l o :
  In r l -> alookup N.eqb r (map (fun r => (r, X)) l ++ o) = Some X.
Proof.
  induction l as [|y l IH]; cbn; [contradiction|]. intros [H|H].
  - subst. rewrite N.eqb_refl. reflexivity.
  - destruct (r =? y); [reflexivity|auto].
Qed.
Lemma alookup_const_notin (X : res) r l o :
  ~ In r l -> alookup N.eqb r (map (fun r => (r, X)) l ++ o) = alookup N.eqb r o.
Proof.
  induction l as [|y l IH]; cbn; [reflexivity|]. intros H.
  destruct (r =? y) eqn:E; [apply N.eqb_eq in E; subst; exfalso; apply H; left; reflexivity|].
  apply IH. intro; apply H; right; assumption.
Qed.

Lemma commits_cons_commit rs t r :
  commits_of (ECommit rs :: t) r = ((if mem_b N.eqb r rs then 1 else 0) + commits_of t r)%nat.
Proof. unfold commits_of. cbn [filter]. destruct (mem_b N.eqb r rs); reflexivity. Qed.
Lemma commits_cons_data rs x t r : commits_of (EData rs x :: t) r = commits_of t r.
Proof. reflexivity. Qed.
Lemma reports_cons_commit rs t r : reports_of (ECommit rs :: t) r = reports_of t r.
Proof. reflexivity. Qed.
Lemma reports_cons_data rs x t r : reports_of (EData rs x :: t) r = reports_of t r.
Proof. reflexivity. Qed.

Definition DataSpec (doms : list N) (acc : list (N * N)) (outs : list (N * res)) (evs : list ev) : Prop :=
  (forall r, reports_of evs r = 0%nat) /\
  (forall r, (forall d, In d doms -> ~ In (r, d) acc) ->
             alookup N.eqb r outs = None /\ commits_of evs r = 0%nat) /\
  (forall r d, In d doms -> In (r, d) acc ->
     (alookup N.eqb r outs = Some Delivered /\ commits_of evs r = 1%nat) \/
     (exists f, f <> Delivered /\ alookup N.eqb r outs = Some f /\ commits_of evs r = 0%nat)).

Lemma data_stage_spec dead acc : NoDup (map fst acc) ->
  forall doms ds outs evs ds', NoDup doms ->
  data_stage doms dead acc ds = (outs, evs, ds') -> DataSpec doms acc outs evs.
Proof.
  intros Hacc. induction doms as [|d rest IH]; intros ds outs evs ds' Hnd E; cbn [data_stage] in E.
  - inversion E; subst. repeat split; try reflexivity. intros r d [].
  - inversion Hnd as [|? ? Hd Hrest]; subst.
    fold (mine_of d acc) in E.
    (* the recipients of d are not recipients of a later domain *)
    assert (Hlater : forall r, In r (mine_of d acc) -> forall d', In d' rest -> ~ In (r, d') acc).
    { intros r Hr d' Hd' H. apply mine_In in Hr. assert (d = d') by (eapply NoDup_fst_fun; eauto). subst. auto. }
    assert (GEN : forall (X : res) o e evs0,
               DataSpec rest acc o e ->
               (forall r, reports_of evs0 r = 0%nat) ->
               (forall r, In r (mine_of d acc) -> commits_of evs0 r = (match X with Delivered => 1 | _ => 0 end + commits_of e r)%nat) ->
               (forall r, ~ In r (mine_of d acc) -> commits_of evs0 r = commits_of e r) ->
               DataSpec (d :: rest) acc (map (fun r => (r, X)) (mine_of d acc) ++ o) evs0).
    { intros X o e evs0 [S1 [S2 S3]] R C1 C2. split; [exact R|]. split.
      - intros r Hr. assert (Hm : ~ In r (mine_of d acc)) by (rewrite mine_In; apply Hr; left; reflexivity).
        rewrite alookup_const_notin by exact Hm. rewrite C2 by exact Hm.
        apply S2. intros d' Hd'. apply Hr. right; exact Hd'.
      - intros r d' [Hd'|Hd'] Hin.
        + subst d'. assert (Hm : In r (mine_of d acc)) by (apply mine_In; exact Hin).
          rewrite alookup_const_in by exact Hm. rewrite C1 by exact Hm.
          destruct (S2 r (Hlater r Hm)) as [_ Hz]. rewrite Hz.
          destruct X; [left; split; reflexivity| right; exists FailT | right; exists FailP];
            (split; [discriminate|split; reflexivity]).
        + assert (Hm : ~ In r (mine_of d acc)).
          { intro Hm. exact (Hlater r Hm d' Hd' Hin). }
          rewrite alookup_const_notin by exact Hm. rewrite C2 by exact Hm. eapply S3; eauto. }
    destruct (mem_b N.eqb d dead).
    + destruct (data_stage rest dead acc ds) as [[o e] ds1] eqn:Er. inversion E; subst.
      apply (GEN FailT o evs); [eapply IH; eauto| | |].
      * destruct (IH _ _ _ _ Hrest Er) as [S1 _]. exact S1.
      * intros; reflexivity.
      * intros; reflexivity.
    + destruct (pop d ds DOk) as [reply ds1].
      destruct (data_stage rest dead acc ds1) as [[o e] ds2] eqn:Er.
      pose proof (IH _ _ _ _ Hrest Er) as SP. destruct SP as [S1 S23].
      destruct reply; inversion E; subst.
      * apply (GEN Delivered o e); [split; assumption| | |].
        -- intros r. rewrite reports_cons_commit. apply S1.
        -- intros r Hm. rewrite commits_cons_commit. apply mem_b_In in Hm. rewrite Hm. reflexivity.
        -- intros r Hm. rewrite commits_cons_commit.
           destruct (mem_b N.eqb r (mine_of d acc)) eqn:Em; [apply mem_b_In in Em; contradiction|reflexivity].
      * apply (GEN FailT o e); [split; assumption| | |].
        -- intros r. rewrite reports_cons_data. apply S1.
        -- intros; apply commits_cons_data.
        -- intros; apply commits_cons_data.
      * apply (GEN FailP o e); [split; assumption| | |].
        -- intros r. rewrite reports_cons_data. apply S1.
        -- intros; apply commits_cons_data.
        -- intros; apply commits_cons_data.
Qed.

(* ---- one attempt ---- *)
Lemma dedupN_In l : forall y, In y (dedupN l) <-> In y l.
Proof.
  induction l as [|x t IH]; intros y; cbn [dedupN]; [tauto|]. cbn [In].
  rewrite filter_In, IH. destruct (N.eq_dec y x) as [->|Hne].
  - split; auto.
  - assert (negb (y =? x) = true) by (apply negb_true_iff, N.eqb_neq; exact Hne).
    split; [intros [H1|[H1 _]]; auto | intros [H1|H1]; [left; exact H1|right; split; assumption]].
Qed.
Lemma dedupN_NoDup l : NoDup (dedupN l).
Proof.
  induction l as [|x t IH]; cbn [dedupN]; constructor.
  - rewrite filter_In. intros [_ H]. rewrite N.eqb_refl in H. discriminate.
  - apply NoDup_filter. exact IH.
Qed.

Lemma alookup_app {B} r (l1 l2 : list (N * B)) :
  alookup N.eqb r (l1 ++ l2) = match alookup N.eqb r l1 with Some x => Some x | None => alookup N.eqb r l2 end.
Proof. induction l1 as [|[k v] l IH]; cbn; [reflexivity|]. destruct (r =? k); auto. Qed.
Lemma alookup_None {B} r (l : list (N * B)) : ~ In r (map fst l) -> alookup N.eqb r l = None.
Proof.
  induction l as [|[k v] l IH]; cbn; [reflexivity|]. intros H.
  destruct (r =? k) eqn:E; [apply N.eqb_eq in E; subst; exfalso; apply H; left; reflexivity|].
  apply IH. intro; apply H; right; assumption.
Qed.
Lemma alookup_Some_in {B} r (l : list (N * B)) : In r (map fst l) -> exists v, alookup N.eqb r l = Some v /\ In (r, v) l.
Proof.
  induction l as [|[k v] l IH]; cbn; [contradiction|]. intros H.
  destruct (r =? k) eqn:E.
  - apply N.eqb_eq in E; subst. exists v. split; [reflexivity|left; reflexivity].
  - destruct H as [H|H]; [subst; rewrite N.eqb_refl in E; discriminate|].
    destruct (IH H) as [v' [H1 H2]]. exists v'. split; [exact H1|right; exact H2].
Qed.

Lemma map_fst_filter {B} (p : N -> bool) (l : list (N * B)) r :
  In r (map fst (filter (fun rd => p (fst rd)) l)) <-> In r (map fst l) /\ p r = true.
Proof.
  rewrite !in_map_iff. split.
  - intros [[k v] [E H]]. cbn in E; subst. apply filter_In in H. destruct H as [H1 H2]. cbn in H2.
    split; [exists (r, v); auto|exact H2].
  - intros [[[k v] [E H]] Hp]. cbn in E; subst. exists (r, v). split; [reflexivity|].
    apply filter_In. split; [exact H|exact Hp].
Qed.
Lemma NoDup_map_fst_filter {B} (p : N * B -> bool) (l : list (N * B)) :
  NoDup (map fst l) -> NoDup (map fst (filter p l)).
Proof.
  induction l as [|x l IH]; cbn; [auto|]. intros Hn. inversion Hn as [|? ? Hx Hl]; subst.
  destruct (p x); cbn; [constructor|]; auto.
  intro H. apply Hx. apply in_map_iff in H. destruct H as [y [E Hy]]. apply filter_In in Hy.
  apply in_map_iff. exists y. tauto.
Qed.
Lemma filter_all_false {A} (p : A -> bool) l : (forall x, p x = false) -> filter p l = [].
Proof. intros H. induction l as [|x l IH]; cbn; [reflexivity|]. rewrite H. exact IH. Qed.

Lemma reports_dsn (l : list (N * N)) r :
  reports_of (match l with [] => [] | _ => [EDsn (map fst l)] end) r
  = if mem_b N.eqb r (map fst l) then 1%nat else 0%nat.
Proof.
  destruct l as [|x l]; [reflexivity|]. unfold reports_of. cbn [filter].
  destruct (mem_b N.eqb r (map fst (x :: l))); reflexivity.
Qed.
Lemma commits_dsn (l : list (N * N)) r :
  commits_of (match l with [] => [] | _ => [EDsn (map fst l)] end) r = 0%nat.
Proof. destruct l; reflexivity. Qed.

Definition AttemptSpec (P P' : list (N * N)) (evs : list ev) : Prop :=
  (forall x, In x P' -> In x P) /\ NoDup (map fst P') /\
  (forall r, In r (map fst P) ->
     (In r (map fst P') /\ commits_of evs r = 0%nat /\ reports_of evs r = 0%nat) \/
     (~ In r (map fst P') /\ (commits_of evs r + reports_of evs r = 1)%nat)) /\
  (forall r, ~ In r (map fst P) -> commits_of evs r = 0%nat /\ reports_of evs r = 0%nat).

Lemma attempt_spec mx k q q' evs :
  NoDup (map fst (q_pending q)) -> attempt mx k q = (q', evs) ->
  AttemptSpec (q_pending q) (q_pending q') evs /\ ((mx <=? k + 1) = true -> q_pending q' = []).
Proof.
  intros Hn E. unfold attempt in E.
  set (P := q_pending q) in *.
  set (st := fold_left rcpt_step P _) in E.
  pose proof (rcpt_stage_inv P (q_rs q) Hn) as HI. fold st in HI.
  destruct HI as [Hc Hd Hnd Hs Hf He].
  destruct (match rs_acc st with [] => _ | _ => _ end) as [[outs dev] ds'] eqn:Ed.
  (* what the content stage did *)
  assert (W : (forall r, reports_of dev r = 0%nat) /\
              (forall r, ~ In r (map fst (rs_acc st)) -> alookup N.eqb r outs = None /\ commits_of dev r = 0%nat) /\
              (forall r, In r (map fst (rs_acc st)) ->
                 (alookup N.eqb r outs = Some Delivered /\ commits_of dev r = 1%nat) \/
                 (exists f, f <> Delivered /\ alookup N.eqb r outs = Some f /\ commits_of dev r = 0%nat))).
  { destruct (rs_acc st) as [|a0 acc0] eqn:Ea.
    - inversion Ed; subst. repeat split; try reflexivity. intros r [].
    - rewrite <- Ea in *. apply data_stage_spec in Ed; [|exact Hnd|apply dedupN_NoDup].
      destruct Ed as [S1 [S2 S3]]. split; [exact S1|]. split.
      + intros r Hr. apply S2. intros d _ Hin. apply Hr. apply in_map_iff. exists (r, d). auto.
      + intros r Hr. apply in_map_iff in Hr. destruct Hr as [[r' d] [Er Hin]]. cbn in Er; subst r'.
        apply (S3 r d); [|exact Hin]. apply dedupN_In. apply in_map_iff. exists (r, d). auto. }
  destruct W as [W1 [W2 W3]].
  set (results := rs_fail st ++ outs) in E.
  set (last := mx <=? k + 1) in E.
  set (outcome := fun r : N => match alookup N.eqb r results with Some x => x | None => Delivered end) in E.
  (* the outcome decides the commits *)
  assert (OC : forall r, In r (map fst P) ->
             (outcome r = Delivered /\ commits_of (rs_ev st ++ dev) r = 1%nat) \/
             (outcome r <> Delivered /\ commits_of (rs_ev st ++ dev) r = 0%nat)).
  { intros r Hr. rewrite commits_app. destruct (rcpt_evs_silent (rs_ev st) r He) as [Hz _]. rewrite Hz.
    unfold outcome, results. rewrite alookup_app.
    apply Hc in Hr. destruct Hr as [Ha|Hfl].
    - rewrite (alookup_None r (rs_fail st) (Hd r Ha)).
      destruct (W3 r Ha) as [[H1 H2]|[f [H0 [H1 H2]]]]; rewrite H1, H2; [left|right]; split; auto.
    - destruct (alookup_Some_in r (rs_fail st) Hfl) as [f [H1 H2]]. rewrite H1.
      right. split; [eapply Hf; eauto|].
      assert (Hna : ~ In r (map fst (rs_acc st))) by (intro Ha; exact (Hd r Ha Hfl)).
      destruct (W2 r Hna) as [_ Hz2]. rewrite Hz2. reflexivity. }
  assert (ON : forall r, ~ In r (map fst P) -> commits_of (rs_ev st ++ dev) r = 0%nat).
  { intros r Hr. rewrite commits_app. destruct (rcpt_evs_silent (rs_ev st) r He) as [Hz _]. rewrite Hz.
    assert (Hna : ~ In r (map fst (rs_acc st))) by (intro Ha; apply Hr, Hc; left; exact Ha).
    destruct (W2 r Hna) as [_ Hz2]. rewrite Hz2. reflexivity. }
  assert (RP : forall r, reports_of (rs_ev st ++ dev) r = 0%nat).
  { intros r. rewrite reports_app. destruct (rcpt_evs_silent (rs_ev st) r He) as [_ Hz]. rewrite Hz, W1. reflexivity. }
  set (pg := fun r : N => match outcome r with FailP => true | FailT => last | Delivered => false end).
  set (pa := fun r : N => match outcome r with FailT => negb last | _ => false end).
  inversion E as [[Eq Eev]]. clear E. subst q' evs. cbn [q_pending].
  repeat match goal with
         | |- context [filter ?f P] =>
             progress (first [ change f with (fun rd : N * N => pa (fst rd))
                             | change f with (fun rd : N * N => pg (fst rd)) ])
         end.
  split.
  - split; [intros x Hx; apply filter_In in Hx; tauto|].
    split; [apply NoDup_map_fst_filter; exact Hn|].
    split.
    + intros r Hr.
      rewrite app_assoc, commits_app, reports_app, commits_dsn, reports_dsn, RP.
      rewrite (map_fst_filter pa P r).
      destruct (mem_b N.eqb r (map fst (filter (fun rd : N * N => pg (fst rd)) P))) eqn:Eg.
      * apply mem_b_In in Eg. apply (map_fst_filter pg P r) in Eg. destruct Eg as [_ Eg].
        right. unfold pg, pa in *.
        destruct (OC r Hr) as [[O1 O2]|[O1 O2]]; rewrite O2.
        -- rewrite O1 in Eg. discriminate.
        -- split; [|reflexivity]. intros [_ Hpa]. destruct (outcome r); try discriminate.
           rewrite Eg in Hpa. discriminate.
      * assert (Eg' : pg r = false).
        { destruct (pg r) eqn:Ep; [|reflexivity]. exfalso.
          assert (In r (map fst (filter (fun rd : N * N => pg (fst rd)) P))) by (apply map_fst_filter; auto).
          apply mem_b_In in H. rewrite H in Eg. discriminate. }
        unfold pg, pa in *.
        destruct (OC r Hr) as [[O1 O2]|[O1 O2]]; rewrite O2.
        -- right. split; [|reflexivity]. intros [_ Hpa]. rewrite O1 in Hpa. discriminate.
        -- left. destruct (outcome r); try congruence; try discriminate.
           rewrite Eg'. cbn. repeat split; auto.
    + intros r Hr. rewrite app_assoc, commits_app, reports_app, commits_dsn, reports_dsn, RP, (ON r Hr).
      destruct (mem_b N.eqb r (map fst (filter (fun rd : N * N => pg (fst rd)) P))) eqn:Eg; [|split; reflexivity].
      apply mem_b_In in Eg. apply (map_fst_filter pg P r) in Eg. tauto.
  - intros Hl. apply filter_all_false. intros x. unfold pa. fold last in Hl.
    destruct (outcome (fst x)); try reflexivity. rewrite Hl. reflexivity.
Qed.

(* ---- all attempts ---- *)
Lemma run_spec mx : forall fuel k q q' t,
  NoDup (map fst (q_pending q)) -> mx <= k + N.of_nat fuel -> (mx <= k -> q_pending q = []) ->
  run mx fuel k q = (q', t) ->
  q_pending q' = [] /\
  (forall r, In r (map fst (q_pending q)) -> (commits_of t r + reports_of t r = 1)%nat) /\
  (forall r, ~ In r (map fst (q_pending q)) -> commits_of t r = 0%nat /\ reports_of t r = 0%nat).
Proof.
  induction fuel as [|f IH]; intros k q q' t Hn Hk H0 E; cbn [run] in E.
  - inversion E; subst. assert (Ep : q_pending q' = []) by (apply H0; lia).
    rewrite Ep. repeat split; try reflexivity. intros r [].
  - destruct (q_pending q) as [|x l] eqn:Ep.
    + inversion E; subst. rewrite Ep. repeat split; try reflexivity. intros r [].
    + rewrite <- Ep in *.
      destruct (attempt mx k q) as [q1 e1] eqn:Ea.
      destruct (run mx f (k + 1) q1) as [q2 e2] eqn:Er. inversion E; subst. clear E.
      destruct (attempt_spec mx k q q1 e1 Hn Ea) as [[A1 [A2 [A3 A4]]] A5].
      assert (Hk' : mx <= k + 1 + N.of_nat f) by lia.
      assert (H0' : mx <= k + 1 -> q_pending q1 = []) by (intros H; apply A5; apply N.leb_le; exact H).
      destruct (IH (k + 1) q1 q' e2 A2 Hk' H0' Er) as [R1 [R2 R3]].
      split; [exact R1|]. split.
      * intros r Hr. rewrite commits_app, reports_app.
        destruct (A3 r Hr) as [[B1 [B2 B3]]|[B1 B2]].
        -- rewrite B2, B3. exact (R2 r B1).
        -- destruct (R3 r B1) as [C1 C2]. rewrite C1, C2. lia.
      * intros r Hr. rewrite commits_app, reports_app.
        destruct (A4 r Hr) as [B1 B2]. rewrite B1, B2.
        assert (Hr1 : ~ In r (map fst (q_pending q1))).
        { intro H. apply Hr. apply in_map_iff in H. destruct H as [y [Ey Hy]]. apply in_map_iff. exists y. auto. }
        destruct (R3 r Hr1) as [C1 C2]. rewrite C1, C2. split; reflexivity.
Qed.

(* Every recipient of an accepted message ends in exactly one terminal outcome: the next hop
   accepted a transaction naming it exactly once, or exactly one failure report names it; and the
   queue is empty after at most max_tries attempts.  For all scripts of server behaviour. *)
Theorem integ_exactly_one_outcome mx rs ds rcpts :
  NoDup (map fst rcpts) -> 0 < mx ->
  let res := run mx (N.to_nat mx) 0 {| q_pending := rcpts; q_rs := rs; q_ds := ds |} in
  q_pending (fst res) = [] /\
  forall r, In r (map fst rcpts) -> (commits_of (snd res) r + reports_of (snd res) r = 1)%nat.
Proof.
  intros Hn Hm res. destruct res as [q t] eqn:E. subst res.
  destruct (run_spec mx (N.to_nat mx) 0 {| q_pending := rcpts; q_rs := rs; q_ds := ds |} q t) as [R1 [R2 _]];
    cbn [q_pending fst snd] in *.
  - exact Hn.
  - rewrite N2Nat.id. lia.
  - intros H. lia.
  - exact E.
  - split; [exact R1|exact R2].
Qed.

(* ---- a recipient is offered to the next hop at most max_tries times ---- *)
Lemma replies_app t1 t2 r : replies_of (t1 ++ t2) r = replies_of t1 r ++ replies_of t2 r.
Proof. unfold replies_of. apply flat_map_app. Qed.

Lemma rcpt_step_replies st r0 d r :
  (length (replies_of (rs_ev (rcpt_step st (r0, d))) r)
   <= length (replies_of (rs_ev st) r) + (if N.eq_dec r0 r then 1 else 0))%nat.
Proof.
  unfold rcpt_step. destruct (mem_b N.eqb d (rs_dead st)); cbn [rs_ev]; [lia|].
  destruct (pop r0 (rs_script st) RAccept) as [reply s'].
  assert (H : (length (replies_of (rs_ev st ++ [ERcpt r0 reply]) r)
               <= length (replies_of (rs_ev st) r) + (if N.eq_dec r0 r then 1 else 0))%nat).
  { rewrite replies_app, app_length. unfold replies_of at 2. cbn [flat_map].
    destruct (N.eq_dec r0 r) as [->|Hne].
    - rewrite N.eqb_refl. cbn. lia.
    - apply N.eqb_neq in Hne. rewrite Hne. cbn. lia. }
  destruct reply; cbn [rs_ev]; exact H.
Qed.

Lemma rcpt_fold_replies P : forall st r,
  (length (replies_of (rs_ev (fold_left rcpt_step P st)) r)
   <= length (replies_of (rs_ev st) r) + count_occ N.eq_dec (map fst P) r)%nat.
Proof.
  induction P as [|[r0 d] P IH]; intros st r; cbn [fold_left map fst count_occ]; [lia|].
  specialize (IH (rcpt_step st (r0, d)) r). pose proof (rcpt_step_replies st r0 d r).
  destruct (N.eq_dec r0 r); lia.
Qed.

Lemma data_stage_replies dead acc r : forall doms ds outs evs ds',
  data_stage doms dead acc ds = (outs, evs, ds') -> replies_of evs r = [].
Proof.
  induction doms as [|d rest IH]; intros ds outs evs ds' E; cbn [data_stage] in E.
  - inversion E; reflexivity.
  - destruct (mem_b N.eqb d dead).
    + destruct (data_stage rest dead acc ds) as [[o e] ds1] eqn:Er. inversion E; subst. eauto.
    + destruct (pop d ds DOk) as [reply ds1].
      destruct (data_stage rest dead acc ds1) as [[o e] ds2] eqn:Er.
      destruct reply; inversion E; subst; unfold replies_of; cbn [flat_map app]; eapply IH; eauto.
Qed.

Lemma replies_dsn (l : list (N * N)) r :
  replies_of (match l with [] => [] | _ => [EDsn (map fst l)] end) r = [].
Proof. destruct l; reflexivity. Qed.

Lemma attempt_replies mx k q q' evs r :
  NoDup (map fst (q_pending q)) -> attempt mx k q = (q', evs) ->
  (length (replies_of evs r) <= 1)%nat.
Proof.
  intros Hn E. unfold attempt in E.
  set (st := fold_left rcpt_step (q_pending q) _) in E.
  destruct (match rs_acc st with [] => _ | _ => _ end) as [[outs dev] ds'] eqn:Ed.
  inversion E as [[Eq Eev]]. clear E.
  rewrite !replies_app.
  assert (Hd : replies_of dev r = []).
  { destruct (rs_acc st); [inversion Ed; reflexivity|]. eapply data_stage_replies; eauto. }
  rewrite Hd. cbn [app].
  rewrite replies_dsn, app_nil_r.
  pose proof (rcpt_fold_replies (q_pending q) (st0 (q_rs q)) r) as H.
  unfold st0 in H. fold st in H. cbn [rs_ev] in H. change (replies_of [] r) with (@nil rr) in H. cbn [length] in H.
  assert (count_occ N.eq_dec (map fst (q_pending q)) r <= 1)%nat by (apply NoDup_count_occ; exact Hn).
  lia.
Qed.

Lemma run_replies mx r : forall fuel k q q' t,
  NoDup (map fst (q_pending q)) -> run mx fuel k q = (q', t) ->
  (length (replies_of t r) <= fuel)%nat.
Proof.
  induction fuel as [|f IH]; intros k q q' t Hn E; cbn [run] in E.
  - inversion E; subst. cbn. lia.
  - destruct (q_pending q) as [|x l] eqn:Ep.
    + inversion E; subst. cbn. lia.
    + rewrite <- Ep in *. destruct (attempt mx k q) as [q1 e1] eqn:Ea.
      destruct (run mx f (k + 1) q1) as [q2 e2] eqn:Er. inversion E; subst. clear E.
      destruct (attempt_spec mx k q q1 e1 Hn Ea) as [[_ [A2 _]] _].
      pose proof (attempt_replies mx k q q1 e1 r Hn Ea).
      pose proof (IH (k + 1) q1 q' e2 A2 Er).
      rewrite replies_app, app_length. lia.
Qed.

Theorem integ_offered_at_most_max_tries mx rs ds rcpts r :
  NoDup (map fst rcpts) ->
  (length (replies_of (snd (run mx (N.to_nat mx) 0 {| q_pending := rcpts; q_rs := rs; q_ds := ds |})) r)
   <= N.to_nat mx)%nat.
Proof.
  intros Hn. destruct (run _ _ _ _) as [q t] eqn:E. cbn [snd].
  eapply (run_replies mx r _ 0 _ q t); [|exact E]. exact Hn.
Qed.
