(* Proofs about Queue/Spool.v (C02): every crash state of every interleaving of message
   life-cycles, reduced to the four files of one message. *)
From Maddy Require Import Lib.Base Queue.Spool.
Local Open Scope N_scope.

(* ---------- file-system map ---------- *)
Lemma ext_eqb_eq a b : ext_eqb a b = true <-> a = b.
Proof. destruct a, b; simpl; split; intros; congruence. Qed.
Lemma fname_eqb_eq a b : fname_eqb a b = true <-> a = b.
Proof.
  destruct a as [i x], b as [j y]. unfold fname_eqb. simpl. rewrite andb_true_iff, N.eqb_eq, ext_eqb_eq.
  split; [intros [-> ->]; reflexivity|intros E; inversion E; auto].
Qed.
Lemma fname_eqb_refl a : fname_eqb a a = true.
Proof. apply fname_eqb_eq. reflexivity. Qed.
Lemma fname_eqb_neq a b : a <> b -> fname_eqb a b = false.
Proof. intros H. destruct (fname_eqb a b) eqn:E; auto. apply fname_eqb_eq in E. tauto. Qed.

Lemma fget_fdel s n k : fget (fdel s n) k = if fname_eqb k n then None else fget s k.
Proof.
  unfold fget. induction s as [|[k' v] s IH]; simpl.
  - destruct (fname_eqb k n); reflexivity.
  - destruct (fname_eqb n k') eqn:E.
    + apply fname_eqb_eq in E; subst. rewrite IH. destruct (fname_eqb k k'); reflexivity.
    + simpl. rewrite IH. destruct (fname_eqb k k') eqn:E2; [|reflexivity].
      apply fname_eqb_eq in E2; subst. destruct (fname_eqb k' n) eqn:E3; [|reflexivity].
      apply fname_eqb_eq in E3; subst. rewrite fname_eqb_refl in E. discriminate.
Qed.
Lemma fget_fset s n v k : fget (fset s n v) k = if fname_eqb k n then Some v else fget s k.
Proof.
  unfold fset. change (fget ((n, v) :: fdel s n) k) with (if fname_eqb k n then Some v else fget (fdel s n) k).
  rewrite fget_fdel. destruct (fname_eqb k n); reflexivity.
Qed.

(* ---------- the four files of one message ---------- *)
Record view := { vh : option file; vb : option file; vm : option file; vn : option file }.
Definition view_of (s : fs) (i : mid) : view :=
  {| vh := fget s (i, XHeader); vb := fget s (i, XBody); vm := fget s (i, XMeta); vn := fget s (i, XMetaNew) |}.
Definition vget (v : view) (e : ext) : option file :=
  match e with XHeader => vh v | XBody => vb v | XMeta => vm v | XMetaNew => vn v end.
Definition vset (v : view) (e : ext) (f : option file) : view :=
  match e with
  | XHeader => {| vh := f; vb := vb v; vm := vm v; vn := vn v |}
  | XBody => {| vh := vh v; vb := f; vm := vm v; vn := vn v |}
  | XMeta => {| vh := vh v; vb := vb v; vm := f; vn := vn v |}
  | XMetaNew => {| vh := vh v; vb := vb v; vm := vm v; vn := f |}
  end.

Inductive lop := LCreate (e : ext) | LWrite (e : ext) (b : bytes) | LSync (e : ext) | LRename (a b : ext) | LRemove (e : ext).
Definition lstep (v : view) (o : lop) : view :=
  match o with
  | LCreate e => vset v e (Some {| f_data := []; f_synced := 0 |})
  | LWrite e b => match vget v e with
                  | Some f => vset v e (Some {| f_data := f_data f ++ b; f_synced := f_synced f |})
                  | None => v end
  | LSync e => match vget v e with
               | Some f => vset v e (Some {| f_data := f_data f; f_synced := length (f_data f) |})
               | None => v end
  | LRename a b => match vget v a with
                   | Some f => vset (vset v a None) b (Some f)
                   | None => v end
  | LRemove e => vset v e None
  end.

(* the operation as seen by message i: None = it concerns another message *)
Definition localize (i : mid) (o : fsop) : option lop :=
  match o with
  | OCreate (j, e) => if N.eqb j i then Some (LCreate e) else None
  | OWrite (j, e) b => if N.eqb j i then Some (LWrite e b) else None
  | OSync (j, e) => if N.eqb j i then Some (LSync e) else None
  | ORename j a b => if N.eqb j i then Some (LRename a b) else None
  | ORemove (j, e) => if N.eqb j i then Some (LRemove e) else None
  end.

Lemma view_ext (a b : view) : vh a = vh b -> vb a = vb b -> vm a = vm b -> vn a = vn b -> a = b.
Proof. destruct a, b; simpl; intros; subst; reflexivity. Qed.

Lemma fname_eqb_same_id i e e' : fname_eqb (i, e) (i, e') = ext_eqb e e'.
Proof. unfold fname_eqb. simpl. rewrite N.eqb_refl. reflexivity. Qed.
Lemma fname_eqb_other_id i j e e' : N.eqb j i = false -> fname_eqb (i, e) (j, e') = false.
Proof. intros H. unfold fname_eqb. simpl. rewrite N.eqb_sym, H. reflexivity. Qed.

Lemma view_fset_same s i e f : view_of (fset s (i, e) f) i = vset (view_of s i) e (Some f).
Proof.
  unfold view_of. apply view_ext; destruct e; simpl; rewrite fget_fset, fname_eqb_same_id; reflexivity.
Qed.
Lemma view_fdel_same s i e : view_of (fdel s (i, e)) i = vset (view_of s i) e None.
Proof.
  unfold view_of. apply view_ext; destruct e; simpl; rewrite fget_fdel, fname_eqb_same_id; reflexivity.
Qed.
Lemma view_fset_other s i j e f : N.eqb j i = false -> view_of (fset s (j, e) f) i = view_of s i.
Proof.
  intros H. unfold view_of. apply view_ext; simpl; rewrite fget_fset, (fname_eqb_other_id i j _ e H); reflexivity.
Qed.
Lemma view_fdel_other s i j e : N.eqb j i = false -> view_of (fdel s (j, e)) i = view_of s i.
Proof.
  intros H. unfold view_of. apply view_ext; simpl; rewrite fget_fdel, (fname_eqb_other_id i j _ e H); reflexivity.
Qed.
Lemma vget_view s i e : vget (view_of s i) e = fget s (i, e).
Proof. destruct e; reflexivity. Qed.

(* operations commute with the projection; operations on other messages are invisible *)
Lemma view_apply_op s i o :
  view_of (apply_op s o) i = match localize i o with Some l => lstep (view_of s i) l | None => view_of s i end.
Proof.
  destruct o as [[j e]|[j e] b|[j e]|j a b|[j e]]; cbn [localize apply_op]; destruct (N.eqb j i) eqn:E;
    try (apply N.eqb_eq in E; subst j); cbn [lstep]; rewrite ?vget_view.
  - apply view_fset_same.
  - apply view_fset_other, E.
  - destruct (fget s (i, e)); [apply view_fset_same|reflexivity].
  - destruct (fget s (j, e)); [apply view_fset_other, E|reflexivity].
  - destruct (fget s (i, e)); [apply view_fset_same|reflexivity].
  - destruct (fget s (j, e)); [apply view_fset_other, E|reflexivity].
  - destruct (fget s (i, a)); [|reflexivity].
    rewrite view_fset_same, view_fdel_same. reflexivity.
  - destruct (fget s (j, a)); [|reflexivity]. rewrite view_fset_other, view_fdel_other by exact E. reflexivity.
  - apply view_fdel_same.
  - apply view_fdel_other, E.
Qed.

(* crash states of the local machine *)
Fixpoint lcrash (v : view) (ops : list lop) : list view :=
  match ops with
  | [] => [v]
  | o :: rest =>
      v :: (match o with
            | LWrite e b => map (fun p => lstep v (LWrite e p)) (prefixes b)
            | _ => []
            end) ++ lcrash (lstep v o) rest
  end.
Definition local_ops (i : mid) (ops : list fsop) : list lop :=
  flat_map (fun o => match localize i o with Some l => [l] | None => [] end) ops.

(* every crash state of the whole spool, seen from message i, is a crash state of i's own
   operation sequence: other messages' operations - however interleaved - do not matter *)
Lemma crash_view i ops : forall s s',
  In s' (crash_states s ops) -> In (view_of s' i) (lcrash (view_of s i) (local_ops i ops)).
Proof.
  induction ops as [|o ops IH]; intros s s' H.
  - simpl in *. destruct H as [<-|[]]. left; reflexivity.
  - simpl in H. unfold local_ops. simpl. fold (local_ops i ops).
    pose proof (view_apply_op s i o) as Ho.
    destruct H as [<-|H].
    + destruct (localize i o); simpl; [left; reflexivity|].
      (* the initial state is always the first crash state *)
      clear. destruct (local_ops i ops); simpl; left; reflexivity.
    + apply in_app_or in H as [H|H].
      * (* torn write *)
        destruct o as [n|n b|n|j a b|n]; try destruct H.
        apply in_map_iff in H as (p & <- & Hp).
        pose proof (view_apply_op s i (OWrite n p)) as Hp'. destruct n as [j e]. simpl in *.
        destruct (N.eqb j i) eqn:E.
        -- simpl. right. apply in_or_app. left. apply in_map_iff. exists p. split; [symmetry; exact Hp'|exact Hp].
        -- rewrite Hp'. clear. destruct (local_ops i ops); simpl; left; reflexivity.
      * specialize (IH _ _ H). rewrite Ho in IH.
        destruct (localize i o) as [l|]; simpl; [|exact IH].
        right. apply in_or_app. right. exact IH.
Qed.

(* ---------- the life cycle of one message ---------- *)
Definition lupdate (m : bytes) : list lop :=
  [LCreate XMetaNew; LWrite XMetaNew m; LSync XMetaNew; LRename XMetaNew XMeta].
Definition lstore (hc bc : list bytes) (m : bytes) : list lop :=
  LCreate XHeader :: map (LWrite XHeader) hc ++ LCreate XBody :: map (LWrite XBody) bc
  ++ lupdate m ++ [LSync XHeader; LSync XBody].
Definition lremove : list lop := [LRemove XHeader; LRemove XBody; LRemove XMeta].

Lemma local_map_write i e chunks :
  local_ops i (map (OWrite (i, e)) chunks) = map (LWrite e) chunks.
Proof. induction chunks as [|c t IH]; simpl; [reflexivity|]. rewrite N.eqb_refl. simpl. f_equal. exact IH. Qed.
Lemma local_ops_app i a b : local_ops i (a ++ b) = local_ops i a ++ local_ops i b.
Proof. unfold local_ops. apply flat_map_app. Qed.
Lemma local_update i m : local_ops i (update_meta_ops i m) = lupdate m.
Proof. unfold update_meta_ops, local_ops. simpl. rewrite !N.eqb_refl. reflexivity. Qed.
Lemma local_cons_same i o l rest :
  localize i o = Some l -> local_ops i (o :: rest) = l :: local_ops i rest.
Proof. intros H. unfold local_ops. simpl. rewrite H. reflexivity. Qed.

Lemma local_store i hc bc m : local_ops i (store_ops i hc bc m) = lstore hc bc m.
Proof.
  unfold store_ops, lstore.
  rewrite (local_cons_same i _ (LCreate XHeader)) by (simpl; rewrite N.eqb_refl; reflexivity).
  rewrite local_ops_app, local_map_write.
  rewrite (local_cons_same i _ (LCreate XBody)) by (simpl; rewrite N.eqb_refl; reflexivity).
  rewrite local_ops_app, local_map_write, local_ops_app, local_update.
  rewrite (local_cons_same i _ (LSync XHeader)) by (simpl; rewrite N.eqb_refl; reflexivity).
  rewrite (local_cons_same i _ (LSync XBody)) by (simpl; rewrite N.eqb_refl; reflexivity).
  reflexivity.
Qed.
Lemma local_remove i : local_ops i (remove_ops i) = lremove.
Proof. unfold remove_ops, local_ops. simpl. rewrite !N.eqb_refl. reflexivity. Qed.

Definition lrun (v : view) (ops : list lop) : view := fold_left lstep ops v.

Lemma lcrash_app v a b x :
  In x (lcrash v (a ++ b)) <-> In x (lcrash v a) \/ In x (lcrash (lrun v a) b).
Proof.
  revert v. induction a as [|o a IH]; intros v; simpl.
  - split; [intros H; right; exact H|]. intros [[<-|[]]|H]; auto.
    destruct b; simpl; left; reflexivity.
  - rewrite !in_app_iff, IH. unfold lrun. simpl. tauto.
Qed.

Lemma lcrash_last v ops : In (lrun v ops) (lcrash v ops).
Proof.
  revert v. induction ops as [|o ops IH]; intros v; simpl; [left; reflexivity|].
  right. apply in_or_app. right. apply IH.
Qed.

(* operations that do not name .meta leave it alone, in every crash state *)
Definition touches (e : ext) (o : lop) : bool :=
  match o with
  | LCreate x | LWrite x _ | LSync x | LRemove x => ext_eqb x e
  | LRename a b => ext_eqb a e || ext_eqb b e
  end.

Lemma vget_vset_other v a b f : ext_eqb a b = false -> vget (vset v a f) b = vget v b.
Proof. destruct a, b; simpl; intros; try discriminate; reflexivity. Qed.
Lemma vget_vset_same v a f : vget (vset v a f) a = f.
Proof. destruct a; reflexivity. Qed.

Lemma lstep_untouched v o e : touches e o = false -> vget (lstep v o) e = vget v e.
Proof.
  destruct o as [x|x b|x|a b|x]; simpl; intros H.
  - apply vget_vset_other, H.
  - destruct (vget v x); [apply vget_vset_other, H|reflexivity].
  - destruct (vget v x); [apply vget_vset_other, H|reflexivity].
  - apply orb_false_iff in H as [Ha Hb]. destruct (vget v a); [|reflexivity].
    rewrite vget_vset_other by exact Hb. apply vget_vset_other, Ha.
  - apply vget_vset_other, H.
Qed.

Lemma lcrash_untouched e ops : forall v x,
  forallb (fun o => negb (touches e o)) ops = true -> In x (lcrash v ops) -> vget x e = vget v e.
Proof.
  induction ops as [|o ops IH]; intros v x Ht Hx; simpl in *.
  - destruct Hx as [<-|[]]. reflexivity.
  - apply andb_true_iff in Ht as [Ho Hs]. apply negb_true_iff in Ho.
    destruct Hx as [<-|Hx]; [reflexivity|]. apply in_app_or in Hx as [Hx|Hx].
    + destruct o as [y|y b|y|a b|y]; try destruct Hx.
      apply in_map_iff in Hx as (p & <- & _). apply (lstep_untouched v (LWrite y p) e). exact Ho.
    + rewrite (IH _ _ Hs Hx). apply lstep_untouched, Ho.
Qed.

Lemma lrun_untouched e ops v :
  forallb (fun o => negb (touches e o)) ops = true -> vget (lrun v ops) e = vget v e.
Proof. intros H. apply (lcrash_untouched e ops v _ H). apply lcrash_last. Qed.

(* the metadata rewrite: .meta is the old one or the complete new one, nothing else changes *)
Lemma update_crash v m x :
  In x (lcrash v (lupdate m)) ->
  vh x = vh v /\ vb x = vb v /\
  (vm x = vm v \/ exists f, vm x = Some f /\ f_data f = m).
Proof.
  intros H. unfold lupdate in H. cbn [lcrash] in H.
  destruct H as [<-|[<-|H]]; [auto|simpl; auto|].
  apply in_app_or in H. destruct H as [H|H].
  - apply in_map_iff in H as (p & <- & _). simpl. auto.
  - cbn [lcrash app] in H. destruct H as [<-|[<-|[<-|[]]]]; simpl; auto.
    split; [reflexivity|]. split; [reflexivity|]. right. eexists. split; reflexivity.
Qed.

Lemma update_final v m :
  vh (lrun v (lupdate m)) = vh v /\ vb (lrun v (lupdate m)) = vb v /\
  exists f, vm (lrun v (lupdate m)) = Some f /\ f_data f = m.
Proof. unfold lrun, lupdate. simpl. repeat split. eexists. split; reflexivity. Qed.

(* ---------- theorems on one message ---------- *)
Definition empty_view : view := {| vh := None; vb := None; vm := None; vn := None |}.
Definition mok (vs : list bytes) (x : view) : Prop :=
  match vm x with None => True | Some f => In (f_data f) vs end.

Definition no_meta (o : lop) : bool := negb (touches XMeta o).

Lemma store_prefix_no_meta hc bc :
  forallb no_meta (LCreate XHeader :: map (LWrite XHeader) hc ++ LCreate XBody :: map (LWrite XBody) bc) = true.
Proof.
  simpl. rewrite forallb_app. simpl.
  assert (H : forall e l, ext_eqb e XMeta = false -> forallb no_meta (map (LWrite e) l) = true).
  { intros e l He. induction l; simpl; auto. unfold no_meta at 1. simpl. rewrite He. simpl. exact IHl. }
  rewrite !H by reflexivity. reflexivity.
Qed.

(* while a message is stored its .meta is absent or holds the complete first version *)
Lemma store_crash hc bc m v x :
  vm v = None -> In x (lcrash v (lstore hc bc m)) ->
  vm x = None \/ exists f, vm x = Some f /\ f_data f = m.
Proof.
  intros Hv.
  assert (E : lstore hc bc m = (LCreate XHeader :: map (LWrite XHeader) hc ++ LCreate XBody :: map (LWrite XBody) bc)
                               ++ lupdate m ++ [LSync XHeader; LSync XBody]).
  { unfold lstore. simpl. f_equal. rewrite <- app_assoc. reflexivity. }
  rewrite E. clear E.
  rewrite lcrash_app. intros [H|H].
  - left. pose proof (lcrash_untouched XMeta _ v x (store_prefix_no_meta hc bc) H) as E.
    change (vm x = vm v) in E. rewrite E. exact Hv.
  - set (v1 := lrun v _) in H.
    assert (Hv1 : vm v1 = None).
    { pose proof (lrun_untouched XMeta _ v (store_prefix_no_meta hc bc)) as E.
      change (vm v1 = vm v) in E. rewrite E. exact Hv. }
    rewrite lcrash_app in H. destruct H as [H|H].
    + destruct (update_crash v1 m x H) as (_ & _ & [E|E]); [left; rewrite E; exact Hv1|right; exact E].
    + destruct (update_final v1 m) as (_ & _ & f & Hf & Hd).
      assert (E : vget x XMeta = vget (lrun v1 (lupdate m)) XMeta).
      { apply (lcrash_untouched XMeta [LSync XHeader; LSync XBody]); [reflexivity|exact H]. }
      change (vm x = vm (lrun v1 (lupdate m))) in E. right. exists f. split; [rewrite E; exact Hf|exact Hd].
Qed.

Definition lupdates (ms : list bytes) : list lop := flat_map lupdate ms.

Lemma updates_crash ms : forall v vs x,
  mok vs v -> In x (lcrash v (lupdates ms)) ->
  mok (vs ++ ms) x /\ vh x = vh v /\ vb x = vb v.
Proof.
  induction ms as [|m ms IH]; intros v vs x Hv Hx.
  - simpl in Hx. destruct Hx as [<-|[]]. rewrite app_nil_r. auto.
  - unfold lupdates in Hx. cbn [flat_map] in Hx. fold (lupdates ms) in Hx.
    rewrite lcrash_app in Hx. destruct Hx as [Hx|Hx].
    + destruct (update_crash v m x Hx) as (Hh & Hb & [E|(f & Ef & Ed)]).
      * repeat split; auto. unfold mok in *. rewrite E. destruct (vm v); auto. apply in_or_app. left. exact Hv.
      * repeat split; auto. unfold mok. rewrite Ef, Ed. apply in_or_app. right. left. reflexivity.
    + destruct (update_final v m) as (Hh & Hb & f & Ef & Ed).
      assert (Hv1 : mok (vs ++ [m]) (lrun v (lupdate m))).
      { unfold mok. rewrite Ef, Ed. apply in_or_app. right. left. reflexivity. }
      destruct (IH _ _ _ Hv1 Hx) as (Hm & Hh' & Hb'). rewrite <- app_assoc in Hm. simpl in Hm.
      repeat split; auto; congruence.
Qed.

Lemma updates_keep_meta ms : forall v x f0,
  vm v = Some f0 -> In x (lcrash v (lupdates ms)) -> exists f, vm x = Some f.
Proof.
  induction ms as [|m ms IH]; intros v x f0 Hv Hx.
  - simpl in Hx. destruct Hx as [<-|[]]. eauto.
  - unfold lupdates in Hx. cbn [flat_map] in Hx. fold (lupdates ms) in Hx.
    rewrite lcrash_app in Hx. destruct Hx as [Hx|Hx].
    + destruct (update_crash v m x Hx) as (_ & _ & [E|(f & E & _)]); [rewrite E; eauto|eauto].
    + destruct (update_final v m) as (_ & _ & f & Ef & _). eapply IH; eauto.
Qed.

Lemma updates_final ms : forall v vs,
  mok vs v -> mok (vs ++ ms) (lrun v (lupdates ms)) /\ vh (lrun v (lupdates ms)) = vh v /\ vb (lrun v (lupdates ms)) = vb v.
Proof. intros v vs Hv. apply (updates_crash ms v vs _ Hv). apply lcrash_last. Qed.

(* writing chunks appends their concatenation and touches nothing else *)
Lemma lrun_writes e chunks : forall v f,
  vget v e = Some f ->
  vget (lrun v (map (LWrite e) chunks)) e = Some {| f_data := f_data f ++ concat chunks; f_synced := f_synced f |} /\
  forall e', ext_eqb e e' = false -> vget (lrun v (map (LWrite e) chunks)) e' = vget v e'.
Proof.
  induction chunks as [|c t IH]; intros v f Hf; simpl.
  - rewrite app_nil_r. destruct f; simpl in *. split; [exact Hf|reflexivity].
  - unfold lrun in *. simpl. rewrite Hf.
    destruct (IH (vset v e (Some {| f_data := f_data f ++ c; f_synced := f_synced f |})) _ (vget_vset_same _ _ _)) as [H1 H2].
    simpl in H1. rewrite <- app_assoc in H1. split; [exact H1|].
    intros e' He. rewrite H2 by exact He. apply vget_vset_other, He.
Qed.

Lemma lrun_app v a b : lrun v (a ++ b) = lrun (lrun v a) b.
Proof. unfold lrun. apply fold_left_app. Qed.

(* the state once storeNewMessage has returned: all three files complete, nothing else *)
Lemma store_final hc bc m :
  let v := lrun empty_view (lstore hc bc m) in
  (exists f, vh v = Some f /\ f_data f = concat hc) /\
  (exists f, vb v = Some f /\ f_data f = concat bc) /\
  (exists f, vm v = Some f /\ f_data f = m) /\ vn v = None.
Proof.
  unfold lstore.
  change (LCreate XHeader :: ?l) with ([LCreate XHeader] ++ l).
  rewrite !lrun_app.
  set (v1 := lrun empty_view [LCreate XHeader]).
  destruct (lrun_writes XHeader hc v1 _ eq_refl) as [H1 H1o].
  set (v2 := lrun v1 (map (LWrite XHeader) hc)) in *.
  change (LCreate XBody :: ?l) with ([LCreate XBody] ++ l). rewrite !lrun_app.
  set (v3 := lrun v2 [LCreate XBody]).
  assert (H3b : vget v3 XBody = Some {| f_data := []; f_synced := 0 |}) by reflexivity.
  destruct (lrun_writes XBody bc v3 _ H3b) as [H4 H4o].
  set (v4 := lrun v3 (map (LWrite XBody) bc)) in *.
  assert (H4h : vget v4 XHeader = vget v2 XHeader) by (rewrite H4o by reflexivity; reflexivity).
  assert (H4m : vget v4 XMeta = None).
  { rewrite H4o by reflexivity. change (vget v2 XMeta = None). unfold v2. rewrite H1o by reflexivity. reflexivity. }
  assert (H4n : vget v4 XMetaNew = None).
  { rewrite H4o by reflexivity. change (vget v2 XMetaNew = None). unfold v2. rewrite H1o by reflexivity. reflexivity. }
  change (vh v4 = vh v2) in H4h. change (vm v4 = None) in H4m. change (vn v4 = None) in H4n.
  change (vb v4 = Some {| f_data := [] ++ concat bc; f_synced := 0 |}) in H4.
  change (vh v2 = Some {| f_data := [] ++ concat hc; f_synced := 0 |}) in H1.
  rewrite H1 in H4h. clearbody v4. clear -H4h H4m H4n H4.
  destruct v4 as [h b mm n]; simpl in *. subst.
  unfold lrun, lupdate. simpl. repeat split; eexists; split; reflexivity.
Qed.

(* removal: header first, so that an interrupted removal is recognised *)
Lemma remove_crash v x :
  In x (lcrash v lremove) ->
  x = v \/ (vh x = None /\ (vm x = vm v \/ vm x = None)).
Proof.
  unfold lremove. simpl. intros [<-|[<-|[<-|[<-|[]]]]]; simpl; auto.
Qed.
Lemma remove_final v : let x := lrun v lremove in vh x = None /\ vb x = None /\ vm x = None.
Proof. unfold lrun, lremove. simpl. auto. Qed.

(* ---------- the start-up scan, through the view ---------- *)
Section Decode.
  Variable decode : bytes -> option (list N).

  Definition loads_view (v : view) : option (list N) :=       (* Some to: the message is scheduled *)
    match vm v with
    | None => None
    | Some m => match decode (f_data m) with
                | None => None
                | Some to => match vh v, vb v with Some _, Some _ => Some to | _, _ => None end
                end
    end.

  Lemma scan_one_loads s i :
    match scan_one decode s i with VLoad to => loads_view (view_of s i) = Some to | _ => loads_view (view_of s i) = None end.
  Proof.
    unfold scan_one, loads_view, view_of. simpl.
    destruct (fget s (i, XMeta)) as [m|]; [|reflexivity].
    destruct (decode (f_data m)); [|reflexivity].
    destruct (fget s (i, XHeader)), (fget s (i, XBody)); reflexivity.
  Qed.

  (* I. only complete metadata versions are ever loaded - whatever the other messages do, at every
        crash point of the message's whole life (store, any number of rewrites, optional removal) *)
  Lemma only_complete_versions s0 ops i hc bc m0 ms (rm : bool) s' to :
    view_of s0 i = empty_view ->
    local_ops i ops = lstore hc bc m0 ++ lupdates ms ++ (if rm then lremove else []) ->
    In s' (crash_states s0 ops) ->
    scan_one decode s' i = VLoad to ->
    exists v, In v (m0 :: ms) /\ decode v = Some to.
  Proof.
    intros H0 Hops Hs Hscan.
    pose proof (crash_view i ops s0 s' Hs) as Hv. rewrite H0, Hops in Hv.
    pose proof (scan_one_loads s' i) as Hl. rewrite Hscan in Hl.
    set (x := view_of s' i) in *.
    assert (Hm : mok (m0 :: ms) x).
    { rewrite lcrash_app in Hv. destruct Hv as [Hv|Hv].
      - destruct (store_crash hc bc m0 empty_view x eq_refl Hv) as [E|(f & E & Ed)]; unfold mok; rewrite E; auto.
        rewrite Ed. left; reflexivity.
      - destruct (store_final hc bc m0) as (_ & _ & (f & Ef & Ed) & _).
        set (v1 := lrun empty_view (lstore hc bc m0)) in *.
        assert (Hv1 : mok [m0] v1) by (unfold mok; rewrite Ef, Ed; left; reflexivity).
        rewrite lcrash_app in Hv. destruct Hv as [Hv|Hv].
        + apply (updates_crash ms v1 [m0] x Hv1 Hv).
        + destruct (updates_final ms v1 [m0] Hv1) as (Hm2 & _ & _).
          destruct rm.
          * destruct (remove_crash _ x Hv) as [->|(_ & [E|E])]; [exact Hm2| |].
            -- unfold mok in *. rewrite E. exact Hm2.
            -- unfold mok. rewrite E. exact I.
          * simpl in Hv. destruct Hv as [<-|[]]. exact Hm2. }
    unfold loads_view in Hl. unfold mok in Hm. destruct (vm x) as [f|]; [|discriminate].
    exists (f_data f). split; [exact Hm|].
    destruct (decode (f_data f)) as [t|]; [|discriminate].
    destruct (vh x), (vb x); try discriminate. congruence.
  Qed.

  (* II. between the return of storeNewMessage and the start of the removal the message is always
         loadable, with complete header and body and one of its complete metadata versions *)
  Lemma accepted_survives s0 ops1 ops2 i hc bc m0 ms s' :
    view_of s0 i = empty_view ->
    local_ops i ops1 = lstore hc bc m0 -> local_ops i ops2 = lupdates ms ->
    (forall v, In v (m0 :: ms) -> decode v <> None) ->
    In s' (crash_states (apply_ops s0 ops1) ops2) ->
    exists v to, In v (m0 :: ms) /\ decode v = Some to /\ scan_one decode s' i = VLoad to /\
                 (exists f, fget s' (i, XHeader) = Some f /\ f_data f = concat hc) /\
                 (exists f, fget s' (i, XBody) = Some f /\ f_data f = concat bc).
  Proof.
    intros H0 Ho1 Ho2 Hdec Hs.
    assert (Hrun : forall ops s, view_of (apply_ops s ops) i = lrun (view_of s i) (local_ops i ops)).
    { induction ops as [|o ops IHo]; intros s; [reflexivity|].
      unfold apply_ops. simpl. fold (apply_ops (apply_op s o) ops). rewrite IHo, view_apply_op.
      unfold local_ops. simpl. fold (local_ops i ops). destruct (localize i o); reflexivity. }
    pose proof (crash_view i ops2 _ s' Hs) as Hv. rewrite Hrun, H0, Ho1, Ho2 in Hv.
    destruct (store_final hc bc m0) as ((fh & Efh & Edh) & (fb & Efb & Edb) & (fm & Efm & Edm) & _).
    set (v1 := lrun empty_view (lstore hc bc m0)) in *.
    assert (Hv1 : mok [m0] v1) by (unfold mok; rewrite Efm, Edm; left; reflexivity).
    destruct (updates_crash ms v1 [m0] _ Hv1 Hv) as (Hm & Hh & Hb).
    set (x := view_of s' i) in *.
    (* the metadata slot is never empty once the message is stored *)
    assert (Hsome : exists f, vm x = Some f) by (eapply updates_keep_meta; eauto).
    destruct Hsome as [f Ef]. unfold mok in Hm. rewrite Ef in Hm. simpl in Hm.
    destruct (decode (f_data f)) as [to|] eqn:Ed; [|exfalso; eapply Hdec; eauto].
    exists (f_data f), to. split; [exact Hm|]. split; [exact Ed|].
    assert (Hxh : fget s' (i, XHeader) = Some fh) by (change (vh x = Some fh); rewrite Hh; exact Efh).
    assert (Hxb : fget s' (i, XBody) = Some fb) by (change (vb x = Some fb); rewrite Hb; exact Efb).
    split.
    - unfold scan_one. change (fget s' (i, XMeta)) with (vm x). rewrite Ef, Ed, Hxh, Hxb. reflexivity.
    - split; [exists fh|exists fb]; auto.
  Qed.

  (* III. once the removal has begun the message is never loaded again; after it has completed
          nothing of the message is left *)
  Lemma removed_never_loaded s i s' :
    In s' (crash_states s (remove_ops i)) -> s' <> s ->
    forall to, scan_one decode s' i <> VLoad to.
  Proof.
    intros Hs Hne to Hscan.
    unfold remove_ops in Hs. simpl in Hs.
    assert (Hh : fget s' (i, XHeader) = None).
    { destruct Hs as [E|[<-|[<-|[<-|[]]]]]; [congruence| | |]; cbn [apply_op];
        repeat (rewrite fget_fdel, fname_eqb_same_id; cbn [ext_eqb]); reflexivity. }
    unfold scan_one in Hscan. rewrite Hh in Hscan.
    destruct (fget s' (i, XMeta)); [|discriminate]. destruct (decode (f_data f)); discriminate.
  Qed.

  Lemma removal_complete s i :
    view_of (apply_ops s (remove_ops i)) i = {| vh := None; vb := None; vm := None; vn := vn (view_of s i) |}.
  Proof.
    unfold remove_ops, apply_ops. simpl. rewrite !view_fdel_same. reflexivity.
  Qed.

  (* IV. operations on other messages never change what the scan decides for this one *)
  Lemma other_messages_irrelevant s i o :
    localize i o = None -> scan_one decode (apply_op s o) i = scan_one decode s i.
  Proof.
    intros H. pose proof (view_apply_op s i o) as Hv. rewrite H in Hv.
    unfold scan_one. change (fget (apply_op s o) (i, XMeta)) with (vm (view_of (apply_op s o) i)).
    change (fget (apply_op s o) (i, XHeader)) with (vh (view_of (apply_op s o) i)).
    change (fget (apply_op s o) (i, XBody)) with (vb (view_of (apply_op s o) i)).
    rewrite Hv. reflexivity.
  Qed.
End Decode.
