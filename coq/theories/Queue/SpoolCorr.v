(* C02 correspondence and monitor. *)
From Maddy Require Export Lib.Base Wire.Header Queue.Spool.
Local Open Scope N_scope.

Record smsg := { sm_rcpts : list N; sm_hdr : bytes; sm_body : bytes }.
Inductive mark :=
| MAccepted (i : N) | MAborted (i : N) | MAttempt (i : N)
| MOffered (i r : N) | MDelivered (i r : N) | MFailed (i r : N).
Record del := { dl_id : N; dl_rcpts : list N; dl_hdr_eq : bool; dl_body_eq : bool }.

Record case := {
  c_failfirst : bool;                 (* the first attempt after the restart refuses its first recipient temporarily *)
  c_msgs : list smsg;                 (* message index = position *)
  c_ops : list fsop;                  (* mutating file operations completed before the stop *)
  c_torn : option fsop;               (* a write interrupted half-way *)
  c_strong : bool;                    (* unsynced file data lost *)
  c_marks : list mark;                (* what had happened before the stop, in order *)
  c_decode : list (bytes * option (list N * bool));   (* pending recipients; is the first one on its last try? *)
  c_dels : list del;                  (* deliveries committed by the restarted queue *)
  c_offered : list (N * N);           (* (message, recipient) of every AddRcpt after the restart *)
  c_rec_failed : list (N * N);        (* (message, recipient) named by failure reports of the restarted queue *)
  c_listing : list fname              (* spool after the restarted queue became idle *)
}.

Definition bytes_eqb : bytes -> bytes -> bool := list_eqb N.eqb.
Definition decode_of (c : case) (b : bytes) : option (list N) :=
  match alookup bytes_eqb b (c_decode c) with Some (Some v) => Some (fst v) | _ => None end.
Definition exhausted_of (c : case) (b : bytes) : bool :=
  match alookup bytes_eqb b (c_decode c) with Some (Some v) => snd v | _ => false end.

Definition crash_fs (c : case) : fs :=
  let s := apply_ops [] (c_ops c ++ match c_torn c with Some o => [o] | None => [] end) in
  if c_strong c then drop_unsynced s else s.

Definition msg_of (c : case) (i : N) : smsg :=
  nth (N.to_nat i) (c_msgs c) {| sm_rcpts := []; sm_hdr := []; sm_body := [] |}.
Definition data_of (s : fs) (n : fname) : bytes := match fget s n with Some f => f_data f | None => [] end.

(* what the restarted queue does with one loadable message *)
Definition expected_del (c : case) (s : fs) (l : mid * list N) : option (option del) :=
  (* None = header unreadable: nothing happens; Some None = no recipients: removed silently *)
  let '(i, to) := l in
  match read_header (data_of s (i, XHeader)) with
  | HErr => None
  | HOk fields _ =>
      match to with
      | [] => Some None
      | _ => Some (Some {| dl_id := i; dl_rcpts := to;
                           dl_hdr_eq := bytes_eqb (write_header fields) (sm_hdr (msg_of c i));
                           dl_body_eq := bytes_eqb (data_of s (i, XBody)) (sm_body (msg_of c i)) |})
      end
  end.

Definition del_eqb (a b : del) : bool :=
  N.eqb (dl_id a) (dl_id b) && list_eqb N.eqb (dl_rcpts a) (dl_rcpts b)
  && Bool.eqb (dl_hdr_eq a) (dl_hdr_eq b) && Bool.eqb (dl_body_eq a) (dl_body_eq b).

Definition same_set {A} (eqb : A -> A -> bool) (a b : list A) : bool :=
  forallb (fun x => existsb (eqb x) b) a && forallb (fun x => existsb (eqb x) a) b
  && Nat.eqb (length a) (length b).

(* the refused first recipient is retried at once - unless that was its last try *)
Definition split_first (c : case) (s : fs) (d : del) : list del :=
  if c_failfirst c then
    let last_try := exhausted_of c (data_of s (dl_id d, XMeta)) in
    let mk rs := {| dl_id := dl_id d; dl_rcpts := rs; dl_hdr_eq := dl_hdr_eq d; dl_body_eq := dl_body_eq d |} in
    match dl_rcpts d with
    | r0 :: rest =>
        (match rest with [] => [] | _ => [mk rest] end) ++ (if last_try then [] else [mk [r0]])
    | [] => [d]
    end
  else [d].
Definition model_dels (c : case) : list del :=
  let s := crash_fs c in
  flat_map (fun l => match expected_del c s l with Some (Some d) => split_first c s d | _ => [] end)
           (recover_loads (decode_of c) s).
Definition model_listing (c : case) : list fname :=
  let s := crash_fs c in
  let s1 := apply_ops s (recover_ops (decode_of c) s) in
  let gone := flat_map (fun l => match expected_del c s l with
                                 | Some (Some _) =>
                                     (* a retry rewrites the metadata through .meta.new, which disappears with the rename *)
                                     [(fst l, XHeader); (fst l, XBody); (fst l, XMeta)]
                                     ++ (if c_failfirst c then [(fst l, XMetaNew)] else [])
                                 | Some None => [(fst l, XHeader); (fst l, XBody); (fst l, XMeta)]
                                 | None => [] end) (recover_loads (decode_of c) s) in
  map fst (fold_left (fun acc n => fdel acc n) gone s1).

Definition agrees (c : case) : bool :=
  same_set del_eqb (model_dels c) (c_dels c) && same_set fname_eqb (model_listing c) (c_listing c).
Definition mismatches (cs : list case) : list N := find_idx (fun c => negb (agrees c)) cs.

(* ---- the property on the restarted implementation ---- *)
Definition has_mark (c : case) (p : mark -> bool) : bool := existsb p (c_marks c).
Definition is_accepted i m := match m with MAccepted j => N.eqb i j | _ => false end.
Definition is_aborted i m := match m with MAborted j => N.eqb i j | _ => false end.
Definition is_final i r m := match m with MDelivered j q | MFailed j q => N.eqb i j && N.eqb r q | _ => false end.
Definition is_attempt i m := match m with MAttempt j => N.eqb i j | _ => false end.

(* marks before the last attempt of message i began *)
Fixpoint before_last_attempt (i : N) (ms : list mark) : list mark :=
  match ms with
  | [] => []
  | m :: t => if existsb (is_attempt i) t then m :: before_last_attempt i t
              else []
  end.

Definition monitor (c : case) : list N :=
  let ids := map N.of_nat (seq 0 (length (c_msgs c))) in
  flat_map (fun i =>
    let m := msg_of c i in
    let dels_i := filter (fun d => N.eqb (dl_id d) i) (c_dels c) in
    (* 1: accepted mail survives *)
    (if has_mark c (is_accepted i) then
       (* before the stop: delivered or reported; after the restart: delivered, reported, or still
          pending in the spool (and then it must have been offered at least once) *)
       (if forallb (fun r => has_mark c (is_final i r)
                             || existsb (fun d => mem_b N.eqb r (dl_rcpts d)) dels_i
                             || existsb (fun o => N.eqb (fst o) i && N.eqb (snd o) r) (c_rec_failed c)
                             || (existsb (fname_eqb (i, XMeta)) (c_listing c)
                                 && existsb (fun o => N.eqb (fst o) i && N.eqb (snd o) r) (c_offered c)))
                   (sm_rcpts m) then [] else [1]) ++
       (* 5: what is delivered of an accepted message is what was accepted *)
       (if forallb (fun d => dl_hdr_eq d && dl_body_eq d) dels_i then [] else [5])
     else []) ++
    (* 2: an aborted transaction is never delivered *)
    (if has_mark c (is_aborted i) then match dels_i with [] => [] | _ => [2] end else []) ++
    (* 3: only recipients of the stored message *)
    (if forallb (fun d => forallb (fun r => mem_b N.eqb r (sm_rcpts m)) (dl_rcpts d)) dels_i then [] else [3]) ++
    (* 4: nobody finalised before a later attempt began is sent to again *)
    (let early := before_last_attempt i (c_marks c) in
     if forallb (fun d => forallb (fun r => negb (existsb (is_final i r) early)) (dl_rcpts d)) dels_i then [] else [4]))
    ids.

Definition dedup_N (l : list N) : list N :=
  fold_right (fun x acc => if existsb (N.eqb x) acc then acc else x :: acc) [] l.
Definition monitor_failures (cs : list case) : list (N * list N) :=
  let fix go (i : N) (l : list case) :=
    match l with
    | [] => []
    | c :: t => match dedup_N (monitor c) with [] => go (N.succ i) t | cl => (i, cl) :: go (N.succ i) t end
    end in go 0 cs.

Definition tag (c : case) : N :=
  1 + N.min 30 (N.of_nat (length (c_ops c))) + (if c_strong c then 32 else 0)
  + (match c_torn c with Some _ => 64 | None => 0 end)
  + 128 * N.of_nat (length (c_dels c)).
Definition tags (cs : list case) : list N := map tag cs.
