(* C04 correspondence and monitor; oracles instantiated by per-case tables *)
From Maddy Require Export Lib.Base Pipeline.Route Pipeline.Spec.
Local Open Scope N_scope.

Definition otab := list (str * option str).
Definition tab_fun (t : otab) (s : str) : option str :=
  match alookup str_eqb s t with Some v => v | None => None end.
Definition nstr_eqb (a b : N * str) : bool := (fst a =? fst b) && str_eqb (snd a) (snd b).

Definition msg := (str * list str * option N * list outc)%type.
Record case := {
  c_flk : otab; c_dflk : otab; c_valid : list str; c_split : otab; c_tbl : list (N * str);
  c_rws : list ((N * str) * option str); c_rwr : list ((N * str) * option (list str));
  c_nodes : list node; c_loaded : bool;
  c_msgs : list (msg * msg) }.       (* a message and a respelling of it *)

Definition o_valid (c : case) (s : str) : bool := mem_b str_eqb s (c_valid c).
Definition o_tbl (c : case) (t : N) (k : str) : bool := existsb (nstr_eqb (t, k)) (c_tbl c).
Definition o_rws (c : case) (m : N) (s : str) : option str :=
  match alookup nstr_eqb (m, s) (c_rws c) with Some v => v | None => None end.
Definition o_rwr (c : case) (m : N) (s : str) : option (list str) :=
  match alookup nstr_eqb (m, s) (c_rwr c) with Some v => v | None => None end.

Definition ev_eqb (a b : ev) : bool :=
  (fst (fst a) =? fst (fst b)) && str_eqb (snd (fst a)) (snd (fst b)) && str_eqb (snd a) (snd b).
Definition outc_eqb (a b : outc) : bool := list_eqb ev_eqb (fst a) (fst b) && option_eqb N.eqb (snd a) (snd b).
Definition mres_eqb (a b : option N * list outc) : bool :=
  option_eqb N.eqb (fst a) (fst b) && list_eqb outc_eqb (snd a) (snd b).

Definition PFUEL : nat := 40.
Definition RFUEL : nat := 12.

Definition model_parse (c : case) : res pipe :=
  parse_root (tab_fun (c_flk c)) (tab_fun (c_dflk c)) (o_valid c) PFUEL (c_nodes c).
Definition model_msg (c : case) (p : pipe) (m : msg) : option N * list outc :=
  match m with (from, tos, _, _) =>
    message (tab_fun (c_flk c)) (tab_fun (c_split c)) (o_tbl c) (o_rws c) (o_rwr c) RFUEL p from tos end.
Definition obs_of (m : msg) : option N * list outc := match m with (_, _, st, outs) => (st, outs) end.

Definition agrees (c : case) : bool :=
  match model_parse c with
  | Ok p => c_loaded c && forallb (fun mm => mres_eqb (model_msg c p (fst mm)) (obs_of (fst mm))
                                          && mres_eqb (model_msg c p (snd mm)) (obs_of (snd mm))) (c_msgs c)
  | Bad => negb (c_loaded c)
  | NoFuel => false
  end.
Definition mismatches (cs : list case) : list N := find_idx (fun c => negb (agrees c)) cs.

(* ---- monitor: the implementation's observations against the documented rules ---- *)
Definition spec_msg (c : case) (m : msg) : option N * list outc :=
  match m with (from, tos, _, _) =>
    spec_message (tab_fun (c_flk c)) (tab_fun (c_dflk c)) (o_valid c) (tab_fun (c_split c)) (o_tbl c)
                 (o_rws c) (o_rwr c) RFUEL (c_nodes c) from tos end.

(* what a respelling may not change: the targets reached and the replies *)
Definition shape (r : option N * list outc) : option N * list (list N * option N) :=
  (fst r, map (fun o => (map (fun e => fst (fst e)) (fst o), snd o)) (snd r)).
Definition shape_eqb (a b : option N * list (list N * option N)) : bool :=
  option_eqb N.eqb (fst a) (fst b)
  && list_eqb (fun x y => list_eqb N.eqb (fst x) (fst y) && option_eqb N.eqb (snd x) (snd y)) (snd a) (snd b).

(* a label with the ACE prefix in other than lower case (known finding of C17) *)
Fixpoint upper_ace_from (start : bool) (s : str) : bool :=
  match s with
  | c1 :: ((c2 :: c3 :: c4 :: _) as t) =>
      (start && ((c1 =? 88) || (c1 =? 120)) && ((c2 =? 78) || (c2 =? 110)) && (c3 =? 45) && (c4 =? 45)
       && negb ((c1 =? 120) && (c2 =? 110)))
      || upper_ace_from ((c1 =? 46) || (c1 =? 64)) t
  | _ :: t => upper_ace_from false t
  | [] => false
  end.
Definition msg_has_upper_ace (m : msg) : bool :=
  match m with (from, tos, _, _) => upper_ace_from true from || existsb (upper_ace_from true) tos end.
Fixpoint nodes_upper_ace (fuel : nat) (ns : list node) : bool :=
  match fuel with
  | O => false
  | S f => existsb (fun n => match n with Node _ args _ _ ch => existsb (upper_ace_from true) args || nodes_upper_ace f ch end) ns
  end.

Definition monitor (c : case) : list N :=
  if negb (c_loaded c) then []
  else
    (if all_decided PFUEL 0 (c_nodes c) then [] else [3]) ++
    flat_map (fun mm =>
      let m := fst mm in let v := snd mm in
      let s := spec_msg c m in
      (if option_eqb N.eqb (fst s) (fst (obs_of m)) then [] else [1]) ++
      (if list_eqb outc_eqb (snd s) (snd (obs_of m)) then [] else [2]) ++
      (if shape_eqb (shape (obs_of m)) (shape (obs_of v)) then []
       else [4]))
      (c_msgs c).

Definition dedup_N (l : list N) : list N :=
  fold_right (fun x acc => if existsb (N.eqb x) acc then acc else x :: acc) [] l.
Definition monitor_failures (cs : list case) : list (N * list N) :=
  let fix go (i : N) (l : list case) :=
    match l with
    | [] => []
    | c :: t => match dedup_N (monitor c) with [] => go (N.succ i) t | cl => (i, cl) :: go (N.succ i) t end
    end in go 0%N cs.

Definition tag (c : case) : N :=
  (if c_loaded c then 1 else 0)
  + (if existsb (fun mm => match obs_of (fst mm) with (None, _) => true | _ => false end) (c_msgs c) then 2 else 0)
  + (if existsb (fun mm => existsb (fun o => match fst o with _ :: _ :: _ => true | _ => false end) (snd (obs_of (fst mm)))) (c_msgs c) then 4 else 0)
  + (if existsb (fun mm => existsb (fun o => match snd o with Some _ => true | None => false end) (snd (obs_of (fst mm)))) (c_msgs c) then 8 else 0)
  + (if existsb (fun n => match n with Node DSource _ _ _ _ | Node DSourceIn _ _ _ _ => true | _ => false end) (c_nodes c) then 16 else 0)
  + (match c_rwr c with [] => 0 | _ => 32 end)
  + (match c_tbl c with [] => 0 | _ => 64 end)
  + (if wf_deepb PFUEL (c_nodes c) then 128 else 0).
Definition tags (cs : list case) : list N := map tag cs.
