(* C06: a delivered message has been shown to every applicable check, stage by stage.  Proofs. *)
From Maddy Require Import Lib.Base Pipeline.Checks Pipeline.ChecksOnce.
Local Open Scope N_scope.

Section Seen.
  Variable script : N -> stage -> verdict.

  Definition keys (rn : runner) : list (N * stage) := map key (r_log rn).

  Record Seen (rn : runner) : Prop := {
    k_cs : r_from rn = true -> forall c s, In (c, s) (r_states rn) ->
           In (c, s, SConn) (r_log rn) /\ In (s, SSender) (keys rn);
    k_seen : forall s r, existsb (nn_eqb (s, r)) (r_seen rn) = true -> In (s, SRcpt r) (keys rn);
    k_body : forall s, existsb (N.eqb s) (r_body rn) = true -> In (s, SBody) (keys rn) }.

  (* what every operation of the runner does to the log and the registered states: they grow *)
  Definition Grow (rn rn' : runner) : Prop :=
    incl (r_log rn) (r_log rn') /\ exists news, r_states rn' = r_states rn ++ news.
  Lemma grow_refl rn : Grow rn rn.
  Proof. split; [apply incl_refl|exists []; rewrite app_nil_r; reflexivity]. Qed.
  Lemma grow_trans a b c : Grow a b -> Grow b c -> Grow a c.
  Proof.
    intros [L1 [n1 S1]] [L2 [n2 S2]]. split; [eapply incl_tran; eauto|].
    exists (n1 ++ n2). rewrite S2, S1, app_assoc. reflexivity.
  Qed.
  Lemma grow_keys a b k : Grow a b -> In k (keys a) -> In k (keys b).
  Proof. intros [L _] H. unfold keys in *. apply in_map_iff in H. destruct H as [cl [E H]]. apply in_map_iff. exists cl. split; [exact E|apply L; exact H]. Qed.
  Lemma grow_log a b cl : Grow a b -> In cl (r_log a) -> In cl (r_log b).
  Proof. intros [L _] H. apply L. exact H. Qed.

  Lemma alookup_app_some {B} c (l n : list (N * B)) s : alookup N.eqb c l = Some s -> alookup N.eqb c (l ++ n) = Some s.
  Proof.
    induction l as [|[k v] l IH]; cbn; [discriminate|]. destruct (c =? k); [auto|exact IH].
  Qed.
  Lemma alookup_app_none {B} c (l n : list (N * B)) : alookup N.eqb c l = None -> alookup N.eqb c (l ++ n) = alookup N.eqb c n.
  Proof.
    induction l as [|[k v] l IH]; cbn; [reflexivity|]. destruct (c =? k); [discriminate|exact IH].
  Qed.
  Lemma alookup_in {B} c (l : list (N * B)) s : alookup N.eqb c l = Some s -> In (c, s) l.
  Proof.
    induction l as [|[k v] l IH]; cbn; [discriminate|]. destruct (N.eqb_spec c k) as [->|Hne].
    - intros H; inversion H; left; reflexivity.
    - intros H; right; exact (IH H).
  Qed.
  Lemma grow_lookup a b c s : Grow a b -> alookup N.eqb c (r_states a) = Some s -> alookup N.eqb c (r_states b) = Some s.
  Proof. intros [_ [n S]] H. rewrite S. apply alookup_app_some. exact H. Qed.

  Lemma mark_seen rn c s stg : Seen rn -> Seen (mark rn c s stg).
  Proof.
    intros [A B C]. assert (G : forall k, In k (keys rn) -> In k (keys (mark rn c s stg))).
    { intros k H. unfold keys, mark. cbn [r_log]. rewrite map_app. apply in_or_app. left. exact H. }
    constructor.
    - intros Hf c0 s0 H. cbn [mark r_from r_states] in *. destruct (A Hf c0 s0 H) as [H1 H2].
      split; [unfold mark; cbn [r_log]; apply in_or_app; left; exact H1|apply G; exact H2].
    - intros s0 r0 H. unfold mark in H. cbn [r_seen] in H. destruct stg as [| |r1|]; try (apply G; apply B; exact H).
      cbn [existsb] in H. apply orb_true_iff in H. destruct H as [H|H]; [|apply G; apply B; exact H].
      apply nn_eqb_true in H. inversion H; subst. unfold keys, mark. cbn [r_log]. rewrite map_app. apply in_or_app. right. left. reflexivity.
    - intros s0 H. unfold mark in H. cbn [r_body] in H. destruct stg as [| |r1|]; try (apply G; apply C; exact H).
      cbn [existsb] in H. apply orb_true_iff in H. destruct H as [H|H]; [|apply G; apply C; exact H].
      apply N.eqb_eq in H. subst. unfold keys, mark. cbn [r_log]. rewrite map_app. apply in_or_app. right. left. reflexivity.
  Qed.
  Lemma mark_grow rn c s stg : Grow rn (mark rn c s stg).
  Proof. split; [unfold mark; cbn [r_log]; apply incl_appl; apply incl_refl|exists []; unfold mark; cbn [r_states]; rewrite app_nil_r; reflexivity]. Qed.

  Definition direct (stg : stage) : bool := match stg with SConn | SSender => true | _ => false end.

  Lemma batch_go_seen stg : forall sts rn rej quar rn' rej' quar',
    Seen rn -> batch_go script sts stg rn rej quar = (rn', rej', quar') ->
    Seen rn' /\ Grow rn rn' /\ r_states rn' = r_states rn /\ r_from rn' = r_from rn /\
    (forall c s, In (c, s) sts -> In (s, stg) (keys rn')) /\
    (direct stg = true -> forall c s, In (c, s) sts -> In (c, s, stg) (r_log rn')).
  Proof.
    induction sts as [|[c s] rest IH]; intros rn rej quar rn' rej' quar' HS E; cbn [batch_go] in E.
    - inversion E; subst. split; [exact HS|]. split; [apply grow_refl|]. split; [reflexivity|]. split; [reflexivity|].
      split; intros; contradiction.
    - destruct (skipped rn s stg) eqn:Esk.
      + destruct (IH _ _ _ _ _ _ HS E) as [S1 [G1 [T1 [F1 [K1 D1]]]]].
        split; [exact S1|]. split; [exact G1|]. split; [exact T1|]. split; [exact F1|]. split.
        * intros c0 s0 [H|H]; [|eauto]. inversion H; subst. apply (grow_keys rn rn' _ G1).
          destruct stg as [| |r|]; cbn [skipped] in Esk; try discriminate; [apply (k_seen _ HS)|apply (k_body _ HS)]; exact Esk.
        * intros Hd. destruct stg; cbn in Hd; try discriminate; cbn in Esk; discriminate.
      + destruct (IH _ _ _ _ _ _ (mark_seen rn c s stg HS) E) as [S1 [G1 [T1 [F1 [K1 D1]]]]].
        pose proof (grow_trans _ _ _ (mark_grow rn c s stg) G1) as G.
        split; [exact S1|]. split; [exact G|]. split; [exact T1|]. split; [exact F1|]. split.
        * intros c0 s0 [H|H]; [|eauto]. inversion H; subst. apply (grow_keys _ rn' _ G1).
          unfold keys, mark. cbn [r_log]. rewrite map_app. apply in_or_app. right. left. reflexivity.
        * intros Hd c0 s0 [H|H]; [|eauto]. inversion H; subst. apply (grow_log _ rn' _ G1).
          unfold mark. cbn [r_log]. apply in_or_app. right. left. reflexivity.
  Qed.

  Lemma set_quar_seen rn q : Seen rn -> Seen (set_quar rn q).
  Proof. intros [A B C]. constructor; assumption. Qed.

  Lemma batch_seen sts stg rn rn' rej :
    Seen rn -> batch script sts stg rn = (rn', rej) ->
    Seen rn' /\ Grow rn rn' /\ r_states rn' = r_states rn /\ r_from rn' = r_from rn /\
    (forall c s, In (c, s) sts -> In (s, stg) (keys rn')) /\
    (direct stg = true -> forall c s, In (c, s) sts -> In (c, s, stg) (r_log rn')).
  Proof.
    intros HS E. unfold batch in E. destruct (batch_go script sts stg rn false false) as [[rn1 rj] q] eqn:Eb.
    destruct (batch_go_seen stg _ _ _ _ _ _ _ HS Eb) as [S1 [G1 [T1 [F1 [K1 D1]]]]].
    destruct rj; inversion E; subst.
    - split; [exact S1|]. split; [exact G1|]. split; [exact T1|]. split; [exact F1|]. split; assumption.
    - split; [exact (set_quar_seen _ _ S1)|]. split; [exact G1|]. split; [exact T1|]. split; [exact F1|]. split; assumption.
  Qed.

  Lemma replay_seen sts : forall rcpts rn rn' b,
    Seen rn -> replay script sts rcpts rn = (rn', b) ->
    Seen rn' /\ Grow rn rn' /\ r_states rn' = r_states rn /\ r_from rn' = r_from rn.
  Proof.
    induction rcpts as [|r rest IH]; intros rn rn' b HS E; cbn [replay] in E.
    - inversion E; subst. split; [exact HS|]. split; [apply grow_refl|]. split; reflexivity.
    - destruct (batch script sts (SRcpt r) rn) as [rn1 rj] eqn:Eb.
      destruct (batch_seen _ _ _ _ _ HS Eb) as [S1 [G1 [T1 [F1 _]]]].
      destruct rj; [inversion E; subst; split; [exact S1|]; split; [exact G1|]; split; assumption|].
      destruct (IH _ _ _ S1 E) as [S2 [G2 [T2 F2]]].
      split; [exact S2|]. split; [eapply grow_trans; eauto|]. split; congruence.
  Qed.

  Lemma alookup_skip {B} c k (v : B) l n : c <> k -> alookup N.eqb c (l ++ (k, v) :: n) = alookup N.eqb c (l ++ n).
  Proof.
    intros Hne. induction l as [|[k' v'] l IH]; cbn.
    - destruct (N.eqb_spec c k); [contradiction|reflexivity].
    - destruct (c =? k'); [reflexivity|exact IH].
  Qed.

  Lemma collect_lookup : forall checks reg next sts news n,
    collect checks reg next = (sts, news, n) ->
    (forall c, In c checks -> exists s, In (c, s) sts /\ alookup N.eqb c (reg ++ news) = Some s) /\
    (forall c s, In (c, s) sts -> In (c, s) (reg ++ news)).
  Proof.
    induction checks as [|c rest IH]; intros reg next sts news n E; cbn [collect] in E.
    - inversion E; subst. split; intros; contradiction.
    - destruct (alookup N.eqb c reg) as [s|] eqn:Ea.
      + destruct (collect rest reg next) as [[sts0 news0] n0] eqn:Ec. inversion E; subst.
        destruct (IH _ _ _ _ _ Ec) as [H1 H2]. split.
        * intros c0 [->|H].
          -- exists s. split; [left; reflexivity|apply alookup_app_some; exact Ea].
          -- destruct (H1 c0 H) as [s0 [A B]]. exists s0. split; [right; exact A|exact B].
        * intros c0 s0 [H|H]; [inversion H; subst; apply in_or_app; left; apply alookup_in; exact Ea|apply H2; exact H].
      + destruct (collect rest reg (next + 1)) as [[sts0 news0] n0] eqn:Ec. inversion E; subst.
        destruct (IH _ _ _ _ _ Ec) as [H1 H2]. split.
        * intros c0 Hin. destruct (N.eq_dec c0 c) as [->|Hne].
          -- exists next. split; [left; reflexivity|]. rewrite alookup_app_none by exact Ea. cbn. rewrite N.eqb_refl. reflexivity.
          -- destruct Hin as [->|H]; [contradiction|]. destruct (H1 c0 H) as [s0 [A B]]. exists s0.
             split; [right; exact A|]. rewrite alookup_skip by exact Hne. exact B.
        * intros c0 s0 [H|H]; [inversion H; subst; apply in_or_app; right; left; reflexivity|].
          specialize (H2 _ _ H). apply in_app_iff in H2. apply in_or_app. destruct H2; [left|right; right]; assumption.
  Qed.

  Lemma with_next_seen rn n : Seen rn -> Seen (with_next rn n).
  Proof. intros [A B C]. constructor; assumption. Qed.

  (* checkStates *)
  Lemma check_states_seen checks rn rn' o :
    Seen rn -> check_states script checks rn = (rn', o) ->
    Seen rn' /\ Grow rn rn' /\ r_from rn' = r_from rn /\
    (forall sts, o = Some sts ->
       (forall c, In c checks -> exists s, In (c, s) sts /\ alookup N.eqb c (r_states rn') = Some s)).
  Proof.
    intros HS E. unfold check_states in E.
    destruct (collect checks (r_states rn) (r_next rn)) as [[sts news] n] eqn:Ec.
    destruct (collect_lookup _ _ _ _ _ _ Ec) as [CL _].
    pose proof (with_next_seen rn n HS) as HS1.
    assert (G1 : Grow rn (with_next rn n)) by (split; [apply incl_refl|exists []; cbn [with_next r_states]; rewrite app_nil_r; reflexivity]).
    remember (with_next rn n) as rn1 eqn:Ern1.
    assert (Hs1 : r_states rn1 = r_states rn) by (rewrite Ern1; reflexivity).
    assert (Hf1 : r_from rn1 = r_from rn) by (rewrite Ern1; reflexivity).
    clear Ern1.
    destruct news as [|nw news'].
    - inversion E; subst rn' o. split; [exact HS1|]. split; [exact G1|]. split; [exact Hf1|].
      intros sts0 Hs. inversion Hs; subst sts0. intros c Hc. destruct (CL c Hc) as [s [A B]]. exists s.
      split; [exact A|]. rewrite Hs1. rewrite app_nil_r in B. exact B.
    - remember (nw :: news') as news eqn:Enews. clear Enews.
      (* the tail: replay the recipients checked so far, then register *)
      assert (AFTER : forall rn2, Seen rn2 -> Grow rn rn2 -> r_states rn2 = r_states rn -> r_from rn2 = r_from rn ->
                 (r_from rn2 = true -> forall c s, In (c, s) news -> In (c, s, SConn) (r_log rn2) /\ In (s, SSender) (keys rn2)) ->
                 forall rn3 o3,
                 (match replay script sts (r_checked rn2) rn2 with
                  | (rn3, true) => (rn3, None)
                  | (rn3, false) => (register rn3 news, Some sts)
                  end) = (rn3, o3) ->
                 Seen rn3 /\ Grow rn rn3 /\ r_from rn3 = r_from rn /\
                 (forall sts0, o3 = Some sts0 ->
                    (forall c, In c checks -> exists s, In (c, s) sts0 /\ alookup N.eqb c (r_states rn3) = Some s))).
      { intros rn2 S2 G2 T2 F2 N2 rn3 o3 E3.
        destruct (replay script sts (r_checked rn2) rn2) as [rn4 b] eqn:Er.
        destruct (replay_seen sts _ _ _ _ S2 Er) as [S4 [G4 [T4 F4]]].
        destruct b; inversion E3; subst rn3 o3.
        - split; [exact S4|]. split; [eapply grow_trans; eauto|]. split; [congruence|]. intros sts0 Hs; discriminate.
        - split; [|split; [|split]].
          + constructor.
            * intros Hf c s Hin. cbn [register r_from r_states r_log] in *. unfold keys. cbn [register r_log].
              apply in_app_iff in Hin. destruct Hin as [Hin|Hin].
              -- exact (k_cs _ S4 Hf c s Hin).
              -- assert (Hf2 : r_from rn2 = true) by congruence. destruct (N2 Hf2 c s Hin) as [A B].
                 split; [exact (grow_log _ _ _ G4 A)|exact (grow_keys _ _ _ G4 B)].
            * exact (k_seen _ S4).
            * exact (k_body _ S4).
          + destruct G2 as [L2 _]. destruct G4 as [L4 _]. split; [cbn [register r_log]; eapply incl_tran; eauto|].
            exists news. cbn [register r_states]. congruence.
          + cbn [register r_from]. congruence.
          + intros sts0 Hs. inversion Hs; subst sts0. intros c Hc. destruct (CL c Hc) as [s [A B]]. exists s.
            split; [exact A|]. cbn [register r_states]. rewrite T4, T2. exact B. }
      destruct (r_from rn1) eqn:Ef.
      + destruct (batch script news SConn rn1) as [rn2 rj] eqn:Eb1.
        destruct (batch_seen _ _ _ _ _ HS1 Eb1) as [S2 [G2 [T2 [F2 [_ D2]]]]].
        destruct rj.
        * inversion E; subst rn' o. split; [exact S2|]. split; [eapply grow_trans; eauto|]. split; [congruence|]. intros sts0 Hs; discriminate.
        * destruct (batch script news SSender rn2) as [rn3 rj2] eqn:Eb2.
          destruct (batch_seen _ _ _ _ _ S2 Eb2) as [S3 [G3 [T3 [F3 [K3 _]]]]].
          destruct rj2.
          -- inversion E; subst rn' o. split; [exact S3|]. split; [eapply grow_trans; [exact G1|eapply grow_trans; eauto]|].
             split; [congruence|]. intros sts0 Hs; discriminate.
          -- eapply (AFTER rn3 S3); [eapply grow_trans; [exact G1|eapply grow_trans; eauto]|congruence|congruence| |exact E].
             intros _ c s Hin. split; [exact (grow_log _ _ _ G3 (D2 eq_refl c s Hin))|exact (K3 c s Hin)].
      + assert (Hf1' : r_from rn1 = r_from rn) by (rewrite Ef; exact Hf1).
        eapply (AFTER rn1 HS1 G1 Hs1 Hf1'); [|exact E]. intros Hf. congruence.
  Qed.

  Lemma set_from_seen rn : Seen rn -> (r_from rn = true \/ r_states rn = []) -> Seen (set_from rn).
  Proof.
    intros [A B C] H. constructor; [|exact B|exact C]. intros _ c s Hin. cbn [set_from r_states r_log] in *.
    destruct H as [H|H]; [exact (A H c s Hin)|rewrite H in Hin; destruct Hin].
  Qed.

  Definition has_state (rn : runner) (c : N) : Prop := exists s, alookup N.eqb c (r_states rn) = Some s.
  Definition saw (rn : runner) (c : N) (stg : stage) : Prop :=
    exists s, alookup N.eqb c (r_states rn) = Some s /\ In (s, stg) (keys rn).
  Lemma saw_grow a b c stg : Grow a b -> saw a c stg -> saw b c stg.
  Proof. intros G [s [A B]]. exists s. split; [exact (grow_lookup _ _ _ _ G A)|exact (grow_keys _ _ _ G B)]. Qed.

  Lemma check_conn_sender_seen checks rn rn' ok :
    Seen rn -> (r_from rn = true \/ r_states rn = []) ->
    check_conn_sender script checks rn = (rn', ok) ->
    Seen rn' /\ Grow rn rn' /\ r_from rn' = true /\ (ok = true -> forall c, In c checks -> has_state rn' c).
  Proof.
    intros HS H0 E. unfold check_conn_sender in E.
    destruct (check_states script checks (set_from rn)) as [rn1 o] eqn:Ec.
    destruct (check_states_seen checks _ _ _ (set_from_seen rn HS H0) Ec) as [S1 [G1 [F1 L1]]].
    assert (G : Grow rn rn1) by (eapply grow_trans; [|exact G1]; split; [apply incl_refl|exists []; cbn; rewrite app_nil_r; reflexivity]).
    destruct o as [sts|]; inversion E; subst; (split; [exact S1|]; split; [exact G|]; split; [exact F1|]).
    - intros _ c Hc. destruct (L1 sts eq_refl c Hc) as [s [_ B]]. exists s. exact B.
    - discriminate.
  Qed.

  Lemma add_checked_seen rn r : Seen rn -> Seen (add_checked rn r).
  Proof. intros [A B C]. constructor; assumption. Qed.

  Lemma check_rcpt_seen checks r rn rn' ok :
    Seen rn -> check_rcpt script checks r rn = (rn', ok) ->
    Seen rn' /\ Grow rn rn' /\ r_from rn' = r_from rn /\ (ok = true -> forall c, In c checks -> saw rn' c (SRcpt r)).
  Proof.
    intros HS E. unfold check_rcpt in E.
    destruct (check_states script checks rn) as [rn1 o] eqn:Ec.
    destruct (check_states_seen checks _ _ _ HS Ec) as [S1 [G1 [F1 L1]]].
    destruct o as [sts|]; [|inversion E; subst; split; [exact S1|]; split; [exact G1|]; split; [exact F1|discriminate]].
    destruct (batch script sts (SRcpt r) rn1) as [rn2 rj] eqn:Eb.
    destruct (batch_seen _ _ _ _ _ S1 Eb) as [S2 [G2 [T2 [F2 [K2 _]]]]].
    inversion E; subst. split; [exact (add_checked_seen _ _ S2)|]. split.
    - eapply grow_trans; [exact G1|]. destruct G2 as [L2 N2]. split; [exact L2|exact N2].
    - split; [cbn [add_checked r_from]; congruence|]. intros _ c Hc. destruct (L1 sts eq_refl c Hc) as [s [A B]].
      exists s. cbn [add_checked r_states]. split; [rewrite T2; exact B|exact (K2 c s A)].
  Qed.

  Lemma check_body_seen checks rn rn' ok :
    Seen rn -> check_body script checks rn = (rn', ok) ->
    Seen rn' /\ Grow rn rn' /\ r_from rn' = r_from rn /\ (ok = true -> forall c, In c checks -> saw rn' c SBody).
  Proof.
    intros HS E. unfold check_body in E.
    destruct (check_states script checks rn) as [rn1 o] eqn:Ec.
    destruct (check_states_seen checks _ _ _ HS Ec) as [S1 [G1 [F1 L1]]].
    destruct o as [sts|]; [|inversion E; subst; split; [exact S1|]; split; [exact G1|]; split; [exact F1|discriminate]].
    destruct (batch script sts SBody rn1) as [rn2 rj] eqn:Eb.
    destruct (batch_seen _ _ _ _ _ S1 Eb) as [S2 [G2 [T2 [F2 [K2 _]]]]].
    inversion E; subst. split; [exact S2|]. split; [eapply grow_trans; eauto|]. split; [congruence|].
    intros _ c Hc. destruct (L1 sts eq_refl c Hc) as [s [A B]]. exists s. split; [rewrite T2; exact B|exact (K2 c s A)].
  Qed.

  (* ---- the pipeline around the runner ---- *)
  Lemma seen0 : Seen runner0.
  Proof. constructor; cbn; intros; discriminate. Qed.

  Lemma has_state_grow a b c : Grow a b -> has_state a c -> has_state b c.
  Proof. intros G [s H]. exists s. exact (grow_lookup _ _ _ _ G H). Qed.

  Lemma start_seen cfg s ok :
    start script cfg = (s, ok) ->
    Seen (s_rn s) /\ r_from (s_rn s) = true /\
    (ok = true -> forall c, In c (g_checks cfg ++ s_checks cfg) -> has_state (s_rn s) c).
  Proof.
    unfold start. intros E.
    destruct (check_conn_sender script (g_checks cfg) runner0) as [rn b] eqn:E1.
    destruct (check_conn_sender_seen _ _ _ _ seen0 (or_intror eq_refl) E1) as [S1 [G1 [F1 H1]]].
    destruct b; [|inversion E; subst; cbn [s_rn]; split; [exact S1|]; split; [exact F1|discriminate]].
    destruct (check_conn_sender script (s_checks cfg) rn) as [rn' b'] eqn:E2.
    destruct (check_conn_sender_seen _ _ _ _ S1 (or_introl F1) E2) as [S2 [G2 [F2 H2]]].
    inversion E; subst. cbn [s_rn]. split; [exact S2|]. split; [exact F2|].
    intros Hok c Hc. apply in_app_iff in Hc. destruct Hc as [Hc|Hc].
    - exact (has_state_grow _ _ _ G2 (H1 eq_refl c Hc)).
    - exact (H2 Hok c Hc).
  Qed.

  Lemma used_in b used : In b (if existsb (N.eqb b) used then used else used ++ [b]).
  Proof.
    destruct (existsb (N.eqb b) used) eqn:E.
    - apply existsb_exists in E. destruct E as [x [Hx Hb]]. apply N.eqb_eq in Hb. subst. exact Hx.
    - apply in_or_app. right. left. reflexivity.
  Qed.
  Lemma used_incl b used : incl used (if existsb (N.eqb b) used then used else used ++ [b]).
  Proof. destruct (existsb (N.eqb b) used); [apply incl_refl|apply incl_appl; apply incl_refl]. Qed.

  Lemma add_rcpt_seen cfg s r b s' ok :
    Seen (s_rn s) -> add_rcpt script cfg s r b = (s', ok) ->
    Seen (s_rn s') /\ Grow (s_rn s) (s_rn s') /\ r_from (s_rn s') = r_from (s_rn s) /\
    incl (s_used s) (s_used s') /\
    (ok = true -> In b (s_used s') /\
                  forall c, In c (g_checks cfg ++ s_checks cfg ++ block_checks cfg b) -> saw (s_rn s') c (SRcpt r)).
  Proof.
    intros HS E. unfold add_rcpt in E.
    destruct (check_rcpt script (g_checks cfg) r (s_rn s)) as [rn b1] eqn:E1.
    destruct (check_rcpt_seen _ _ _ _ _ HS E1) as [S1 [G1 [F1 K1]]].
    destruct b1; [|inversion E; subst; cbn [with_rn s_rn s_used]; split; [exact S1|]; split; [exact G1|]; split; [exact F1|]; split; [apply incl_refl|discriminate]].
    destruct (check_rcpt script (s_checks cfg) r rn) as [rn1 b2] eqn:E2.
    destruct (check_rcpt_seen _ _ _ _ _ S1 E2) as [S2 [G2 [F2 K2]]].
    pose proof (grow_trans _ _ _ G1 G2) as G12.
    destruct b2; [|inversion E; subst; cbn [with_rn s_rn s_used]; split; [exact S2|]; split; [exact G12|]; split; [congruence|]; split; [apply incl_refl|discriminate]].
    destruct (check_rcpt script (block_checks cfg b) r rn1) as [rn2 b3] eqn:E3.
    destruct (check_rcpt_seen _ _ _ _ _ S2 E3) as [S3 [G3 [F3 K3]]].
    pose proof (grow_trans _ _ _ G12 G3) as G123.
    destruct b3; [|inversion E; subst; cbn [with_rn s_rn s_used]; split; [exact S3|]; split; [exact G123|]; split; [congruence|]; split; [apply incl_refl|discriminate]].
    destruct (existsb (N.eqb r) (mod_fail cfg)); inversion E; subst; cbn [s_rn s_used];
      (split; [exact S3|]; split; [exact G123|]; split; [congruence|]; split; [apply used_incl|]); [discriminate|].
    intros _. split; [apply used_in|]. intros c Hc. apply in_app_iff in Hc. destruct Hc as [Hc|Hc].
    - exact (saw_grow _ _ _ _ (grow_trans _ _ _ G2 G3) (K1 eq_refl c Hc)).
    - apply in_app_iff in Hc. destruct Hc as [Hc|Hc]; [exact (saw_grow _ _ _ _ G3 (K2 eq_refl c Hc))|exact (K3 eq_refl c Hc)].
  Qed.

  Lemma rcpts_go_seen cfg : forall l s s' oks,
    Seen (s_rn s) -> rcpts_go script cfg s l = (s', oks) ->
    Seen (s_rn s') /\ Grow (s_rn s) (s_rn s') /\ r_from (s_rn s') = r_from (s_rn s) /\
    incl (s_used s) (s_used s') /\
    (forall r b, In ((r, b), true) (combine l oks) ->
       In b (s_used s') /\
       forall c, In c (g_checks cfg ++ s_checks cfg ++ block_checks cfg b) -> saw (s_rn s') c (SRcpt r)).
  Proof.
    induction l as [|[r b] rest IH]; intros s s' oks HS E; cbn [rcpts_go] in E.
    - inversion E; subst. split; [exact HS|]. split; [apply grow_refl|]. split; [reflexivity|]. split; [apply incl_refl|].
      intros r b H. destruct H.
    - destruct (add_rcpt script cfg s r b) as [s1 ok] eqn:E1.
      destruct (add_rcpt_seen _ _ _ _ _ _ HS E1) as [S1 [G1 [F1 [U1 A1]]]].
      destruct (rcpts_go script cfg s1 rest) as [s2 oks2] eqn:E2. inversion E; subst.
      destruct (IH _ _ _ S1 E2) as [S2 [G2 [F2 [U2 A2]]]].
      split; [exact S2|]. split; [eapply grow_trans; eauto|]. split; [congruence|]. split; [eapply incl_tran; eauto|].
      intros r0 b0 H. cbn [combine] in H. destruct H as [H|H].
      + inversion H; subst. destruct (A1 eq_refl) as [Hb Hc]. split; [apply U2; exact Hb|].
        intros c Hin. exact (saw_grow _ _ _ _ G2 (Hc c Hin)).
      + exact (A2 r0 b0 H).
  Qed.

  Lemma body_blocks_seen cfg : forall bs rn rn' ok,
    Seen rn -> body_blocks script cfg bs rn = (rn', ok) ->
    Seen rn' /\ Grow rn rn' /\ r_from rn' = r_from rn /\
    (ok = true -> forall b, In b bs -> forall c, In c (block_checks cfg b) -> saw rn' c SBody).
  Proof.
    induction bs as [|b rest IH]; intros rn rn' ok HS E; cbn [body_blocks] in E.
    - inversion E; subst. split; [exact HS|]. split; [apply grow_refl|]. split; [reflexivity|]. intros _ b [].
    - destruct (check_body script (block_checks cfg b) rn) as [rn1 b1] eqn:E1.
      destruct (check_body_seen _ _ _ _ HS E1) as [S1 [G1 [F1 K1]]].
      destruct b1; [|inversion E; subst; split; [exact S1|]; split; [exact G1|]; split; [exact F1|discriminate]].
      destruct (IH _ _ _ S1 E) as [S2 [G2 [F2 K2]]].
      split; [exact S2|]. split; [eapply grow_trans; eauto|]. split; [congruence|].
      intros Hok b0 [->|Hb] c Hc; [exact (saw_grow _ _ _ _ G2 (K1 eq_refl c Hc))|exact (K2 Hok b0 Hb c Hc)].
  Qed.

  Lemma body_seen cfg s rn d :
    Seen (s_rn s) -> body script cfg s = (rn, Some d) ->
    Seen rn /\ Grow (s_rn s) rn /\ r_from rn = r_from (s_rn s) /\
    (forall c, In c (g_checks cfg ++ s_checks cfg) -> saw rn c SBody) /\
    (forall b, In b (s_used s) -> forall c, In c (block_checks cfg b) -> saw rn c SBody).
  Proof.
    intros HS E. unfold body in E.
    destruct (check_body script (g_checks cfg) (s_rn s)) as [rn0 b0] eqn:E0.
    destruct (check_body_seen _ _ _ _ HS E0) as [S0 [G0 [F0 K0]]].
    destruct b0; [|discriminate].
    destruct (check_body script (s_checks cfg) rn0) as [rn1 b1] eqn:E1.
    destruct (check_body_seen _ _ _ _ S0 E1) as [S1 [G1 [F1 K1]]].
    destruct b1; [|discriminate].
    destruct (body_blocks script cfg (s_used s) rn1) as [rn2 b2] eqn:E2.
    destruct (body_blocks_seen cfg _ _ _ _ S1 E2) as [S2 [G2 [F2 K2]]].
    destruct b2; [|discriminate].
    destruct (dmarc cfg =? 2); [discriminate|]. inversion E; subst.
    split; [exact S2|]. split; [eapply grow_trans; [exact G0|eapply grow_trans; eauto]|]. split; [congruence|]. split.
    - intros c Hc. apply in_app_iff in Hc. destruct Hc as [Hc|Hc].
      + exact (saw_grow _ _ _ _ (grow_trans _ _ _ G1 G2) (K0 eq_refl c Hc)).
      + exact (saw_grow _ _ _ _ G2 (K1 eq_refl c Hc)).
    - exact (K2 eq_refl).
  Qed.
End Seen.

(* ---- the statement, and its form in the monitor (clause 7 of ChecksCorr) ---- *)
From Maddy Require Import Pipeline.ChecksCorr.

Lemma accepted_in (l : list (N * N)) oks r b :
  In (r, b) (flat_map (fun x : (N * N) * bool => if snd x then [fst x] else []) (combine l oks)) <->
  In ((r, b), true) (combine l oks).
Proof.
  rewrite in_flat_map. split.
  - intros [[[r0 b0] ok] [Hin H]]. cbn in H. destruct ok; [|destruct H]. destruct H as [H|[]]. inversion H; subst. exact Hin.
  - intros H. exists ((r, b), true). split; [exact H|left; reflexivity].
Qed.

Section Final.
  Variable script : N -> stage -> verdict.

  (* A delivered message: every applicable check - global, per-sender, and of every block an
     accepted recipient was routed to - has one state that was shown the connection, the sender,
     every accepted recipient in its scope, and the body. *)
  Theorem delivered_seen cfg l d :
    let o := run_message script cfg l in
    o_body o = Some (Some d) ->
    forall c, In c (applicable cfg l o) ->
    exists s, In (c, s, SConn) (o_log o) /\ In (s, SSender) (map key (o_log o)) /\ In (s, SBody) (map key (o_log o)) /\
              forall r, In r (in_scope cfg l o c) -> In (s, SRcpt r) (map key (o_log o)).
  Proof.
    unfold run_message.
    destruct (start script cfg) as [s0 ok] eqn:Es.
    destruct (start_seen script cfg s0 ok Es) as [S0 [F0 H0]].
    destruct ok; [|cbn; discriminate].
    destruct (rcpts_go script cfg s0 l) as [s1 oks] eqn:Er.
    destruct (rcpts_go_seen script cfg l s0 s1 oks S0 Er) as [S1 [G1 [F1 [_ A1]]]].
    destruct (existsb (fun b => b) oks); [|cbn; discriminate].
    destruct (body script cfg s1) as [rn res] eqn:Eb. cbn [o_body o_log o_rcpts].
    intros Hres. inversion Hres; subst res. clear Hres.
    destruct (body_seen script cfg s1 rn d S1 Eb) as [S2 [G2 [F2 [B1 B2]]]].
    assert (Hfrom : r_from rn = true) by congruence.
    intros c Hc.
    (* the state of c saw the body *)
    assert (Hb : saw rn c SBody).
    { unfold applicable in Hc. cbn [o_rcpts] in Hc. rewrite app_assoc in Hc. apply in_app_iff in Hc. destruct Hc as [Hc|Hc]; [exact (B1 c Hc)|].
      apply in_flat_map in Hc. destruct Hc as [b [Hb Hc]]. unfold used_blocks, accepted_rcpts in Hb. cbn [o_rcpts] in Hb.
      apply in_map_iff in Hb. destruct Hb as [[r b'] [Eb' Hin]]. cbn in Eb'. subst b'.
      apply accepted_in in Hin. destruct (A1 r b Hin) as [Hu _]. exact (B2 b Hu c Hc). }
    destruct Hb as [s [Hl Hk]]. exists s.
    destruct (k_cs _ S2 Hfrom c s (alookup_in _ _ _ Hl)) as [Hc1 Hc2].
    split; [exact Hc1|]. split; [exact Hc2|]. split; [exact Hk|].
    intros r Hr.
    assert (Hacc : exists b, In ((r, b), true) (combine l oks) /\ In c (g_checks cfg ++ s_checks cfg ++ block_checks cfg b)).
    { unfold in_scope in Hr. cbn [o_rcpts] in Hr.
      destruct (existsb (N.eqb c) (g_checks cfg) || existsb (N.eqb c) (s_checks cfg))%bool eqn:Eg.
      - apply in_map_iff in Hr. destruct Hr as [[r' b] [Er' Hin]]. cbn in Er'. subst r'. exists b.
        split; [apply accepted_in; exact Hin|].
        apply orb_true_iff in Eg. destruct Eg as [Eg|Eg]; apply existsb_exists in Eg; destruct Eg as [x [Hx Hcx]];
          apply N.eqb_eq in Hcx; subst x; [apply in_or_app; left; exact Hx|apply in_or_app; right; apply in_or_app; left; exact Hx].
      - apply in_flat_map in Hr. destruct Hr as [[r' b] [Hin Hr]]. cbn [snd fst] in Hr.
        destruct (existsb (N.eqb c) (block_checks cfg b)) eqn:Ebk; [|destruct Hr]. destruct Hr as [Hr|[]]. subst r'.
        exists b. split; [apply accepted_in; exact Hin|]. apply existsb_exists in Ebk. destruct Ebk as [x [Hx Hcx]].
        apply N.eqb_eq in Hcx. subst x. apply in_or_app. right. apply in_or_app. right. exact Hx. }
    destruct Hacc as [b [Hin Hcb]]. destruct (A1 r b Hin) as [_ Hsaw].
    destruct (saw_grow _ _ _ _ G2 (Hsaw c Hcb)) as [s' [Hl' Hk']]. rewrite Hl in Hl'. inversion Hl'; subst s'. exact Hk'.
  Qed.
End Final.

Lemma calls_exactly_once (o : outcome) s stg :
  NoDup (map key (o_log o)) -> In (s, stg) (map key (o_log o)) -> Nat.eqb (calls_of o s stg) 1 = true.
Proof.
  intros Hn Hin. apply Nat.eqb_eq. unfold calls_of.
  pose proof (nodup_calls_once (o_log o) Hn s stg) as Hle.
  match goal with |- length (filter ?f ?l) = _ => remember (filter f l) as fl eqn:Efl end.
  assert (Hle' : (length fl <= 1)%nat) by (rewrite Efl; exact Hle).
  assert (Hex : exists cl, In cl fl).
  { apply in_map_iff in Hin. destruct Hin as [cl [Ek Hcl]]. unfold key in Ek. inversion Ek; subst s stg.
    exists cl. rewrite Efl. apply filter_In. split; [exact Hcl|]. rewrite N.eqb_refl. cbn. apply stage_eqb_eq. reflexivity. }
  destruct Hex as [cl Hcl]. destruct fl as [|x fl']; [destruct Hcl|]. cbn [length] in *. lia.
Qed.

(* in the form the monitor evaluates (clause 7 of ChecksCorr): together with "no state sees a
   stage twice" every count is exactly one *)
Theorem model_outcomes_pass_clause_7 script cfg l d :
  let o := run_message script cfg l in
  o_body o = Some (Some d) ->
  forallb (fun c =>
     existsb (fun s => Nat.eqb (calls_of o s SConn) 1 && Nat.eqb (calls_of o s SSender) 1
                       && Nat.eqb (calls_of o s SBody) 1
                       && forallb (fun r => Nat.eqb (calls_of o s (SRcpt r)) 1) (in_scope cfg l o c))
             (states_of o c)) (applicable cfg l o) = true.
Proof.
  intros o Hd. apply forallb_forall. intros c Hc.
  destruct (delivered_seen script cfg l d Hd c Hc) as [s [H1 [H2 [H3 H4]]]].
  pose proof (no_state_sees_a_stage_twice script cfg l) as Hn. fold o in Hn.
  apply existsb_exists. exists s. split.
  - unfold states_of. apply in_flat_map. exists (c, s, SConn). split; [exact H1|]. cbn. rewrite N.eqb_refl. left. reflexivity.
  - rewrite !andb_true_iff. split; [split; [split|]|].
    + apply calls_exactly_once; [exact Hn|]. apply in_map_iff. exists (c, s, SConn). split; [reflexivity|exact H1].
    + apply calls_exactly_once; assumption.
    + apply calls_exactly_once; assumption.
    + apply forallb_forall. intros r Hr. apply calls_exactly_once; [exact Hn|exact (H4 r Hr)].
Qed.
