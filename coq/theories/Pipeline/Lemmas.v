From Maddy Require Import Lib.Base Pipeline.Route Pipeline.Spec Auth.Lemmas.
From Coq Require Import Lia.
Local Open Scope N_scope.

Lemma alookup_app {B : Type} (k : str) (m1 m2 : list (str * B)) :
  alookup str_eqb k (m1 ++ m2) = match alookup str_eqb k m1 with Some x => Some x | None => alookup str_eqb k m2 end.
Proof.
  induction m1 as [|[k' v] m1 IH]; cbn; [reflexivity|].
  destruct (str_eqb k k'); [reflexivity|exact IH].
Qed.

Section Route.
  Variable flk : str -> option str.
  Variable dflk : str -> option str.
  Variable valid_rule : str -> bool.
  Variable split_dom : str -> option str.
  Variable tbl : N -> str -> bool.
  Variable rw_s : N -> str -> option str.
  Variable rw_r : N -> str -> option (list str).

  Notation norm_rule := (norm_rule flk dflk valid_rule).
  Notation declares := (declares flk dflk valid_rule).

  (* first declaration wins, within one directive and across directives *)
  Lemma add_rules_lookup {B : Type} (rules : list str) : forall (m m' : list (str * B)) (b : B) (k : str),
    add_rules flk dflk valid_rule m rules b = Some m' ->
    alookup str_eqb k m' = match alookup str_eqb k m with
                           | Some x => Some x
                           | None => if declares rules k then Some b else None
                           end.
  Proof.
    induction rules as [|r rules IH]; intros m m' b k H; cbn in H.
    - inversion H; subst. cbn. destruct (alookup str_eqb k m'); reflexivity.
    - unfold Spec.declares. cbn [existsb]. fold (declares rules k).
      destruct (norm_rule r) as [kr|] eqn:En; [|discriminate].
      destruct (alookup str_eqb kr m) as [x|] eqn:El.
      + rewrite (IH _ _ _ k H). destruct (alookup str_eqb k m) eqn:Ek; [reflexivity|].
        destruct (str_eqb kr k) eqn:E; [|reflexivity].
        apply str_eqb_eq in E. subst kr. congruence.
      + rewrite (IH _ _ _ k H). rewrite alookup_app. cbn.
        destruct (alookup str_eqb k m) eqn:Ek; [reflexivity|].
        rewrite (str_eqb_sym k kr). destruct (str_eqb kr k); reflexivity.
  Qed.

  (* the destination table built by a source scope against the declarations *)
  Definition first_decl_r (prcpt : list node -> res rblk) : list node -> str -> option rblk :=
    fix go (nodes : list node) (k : str) : option rblk :=
      match nodes with
      | [] => None
      | Node d args _ _ ch :: rest =>
          if is_d DDest d && declares args k
          then match prcpt ch with Ok r => Some r | _ => None end
          else go rest k
      end.
  Definition first_decl_s (psrc : list node -> res src) : list node -> str -> option src :=
    fix go (nodes : list node) (k : str) : option src :=
      match nodes with
      | [] => None
      | Node d args _ _ ch :: rest =>
          if is_d DSource d && declares args k
          then match psrc ch with Ok r => Some r | _ => None end
          else go rest k
      end.

  Lemma src_go_per prcpt nodes : forall acc acc' k,
    src_go flk dflk valid_rule prcpt acc nodes = Ok acc' ->
    alookup str_eqb k (sa_per acc') = match alookup str_eqb k (sa_per acc) with
                                      | Some x => Some x
                                      | None => first_decl_r prcpt nodes k
                                      end.
  Proof.
    induction nodes as [|[d args ids blk ch] rest IH]; intros acc acc' k H.
    - cbn in H. inversion H; subst. cbn. destruct (alookup str_eqb k (sa_per acc')); reflexivity.
    - cbn [src_go] in H. cbn [first_decl_r].
      destruct d; cbn [is_d andb]; try discriminate;
        try (rewrite (IH _ _ k H); cbn [sa_per]; reflexivity).
      + (* DDestIn *)
        destruct ids as [|t [|t2 ids]]; try discriminate.
        destruct (prcpt ch) as [r| |]; try discriminate. rewrite (IH _ _ k H). reflexivity.
      + (* DDest *)
        destruct (prcpt ch) as [r| |] eqn:Ep; try discriminate.
        destruct args as [|a args]; [discriminate|].
        destruct (add_rules flk dflk valid_rule (sa_per acc) (a :: args) r) as [m|] eqn:Ea; [|discriminate].
        rewrite (IH _ _ k H). cbn [sa_per]. rewrite (add_rules_lookup _ _ _ _ k Ea).
        destruct (alookup str_eqb k (sa_per acc)); [reflexivity|].
        destruct (declares (a :: args) k); reflexivity.
      + (* DDefaultDest *)
        destruct (sa_dflt acc); [discriminate|]. rewrite (IH _ _ k H). reflexivity.
  Qed.

  Lemma root_go_per psrc nodes : forall acc acc' k,
    root_go flk dflk valid_rule psrc acc nodes = Ok acc' ->
    alookup str_eqb k (pa_per acc') = match alookup str_eqb k (pa_per acc) with
                                      | Some x => Some x
                                      | None => first_decl_s psrc nodes k
                                      end.
  Proof.
    induction nodes as [|[d args ids blk ch] rest IH]; intros acc acc' k H.
    - cbn in H. inversion H; subst. cbn. destruct (alookup str_eqb k (pa_per acc')); reflexivity.
    - cbn [root_go] in H. cbn [first_decl_s].
      destruct d; cbn [is_d andb]; try discriminate;
        try (rewrite (IH _ _ k H); cbn [pa_per]; reflexivity).
      + (* DSourceIn *)
        destruct ids as [|t [|t2 ids]]; try discriminate.
        destruct (psrc ch) as [r| |]; try discriminate. rewrite (IH _ _ k H). reflexivity.
      + (* DSource *)
        destruct (psrc ch) as [r| |] eqn:Ep; try discriminate.
        destruct args as [|a args]; [discriminate|].
        destruct (add_rules flk dflk valid_rule (pa_per acc) (a :: args) r) as [m|] eqn:Ea; [|discriminate].
        rewrite (IH _ _ k H). cbn [pa_per]. rewrite (add_rules_lookup _ _ _ _ k Ea).
        destruct (alookup str_eqb k (pa_per acc)); [reflexivity|].
        destruct (declares (a :: args) k); reflexivity.
      + (* DDefaultSource *)
        destruct (pa_dflt acc); [discriminate|]. rewrite (IH _ _ k H). reflexivity.
  Qed.

  (* tables keep declaration order *)
  Definition decl_in_r (prcpt : list node -> res rblk) (nodes : list node) : list (N * rblk) :=
    flat_map (fun n => match n with
                       | Node DDestIn _ [t] _ ch => match prcpt ch with Ok r => [(t, r)] | _ => [] end
                       | _ => [] end) nodes.
  Lemma src_go_in prcpt nodes : forall acc acc',
    src_go flk dflk valid_rule prcpt acc nodes = Ok acc' -> sa_in acc' = sa_in acc ++ decl_in_r prcpt nodes.
  Proof.
    induction nodes as [|[d args ids blk ch] rest IH]; intros acc acc' H.
    - cbn in H. inversion H; subst. cbn. rewrite app_nil_r. reflexivity.
    - cbn [src_go] in H. unfold decl_in_r. cbn [flat_map]. fold (decl_in_r prcpt rest).
      destruct d; try discriminate; try (rewrite (IH _ _ H); cbn [sa_in]; reflexivity).
      + destruct ids as [|t [|t2 ids]]; try discriminate.
        destruct (prcpt ch) as [r| |]; try discriminate. rewrite (IH _ _ H). cbn [sa_in].
        rewrite <- app_assoc. reflexivity.
      + destruct (prcpt ch) as [r| |]; try discriminate. destruct args; [discriminate|].
        destruct (add_rules _ _ _ _ _ _); [|discriminate]. rewrite (IH _ _ H). reflexivity.
      + destruct (sa_dflt acc); [discriminate|]. rewrite (IH _ _ H). reflexivity.
  Qed.

  Lemma parse_src_eq f nodes :
    parse_src flk dflk valid_rule (S f) nodes =
    match src_go flk dflk valid_rule (parse_rcpt flk dflk valid_rule f) sacc0 nodes with
    | Ok acc =>
        match default_nodes (sa_per acc) (sa_dflt acc) (sa_oth acc) with
        | None => Bad
        | Some dn => match parse_rcpt flk dflk valid_rule f dn with
                     | Ok r => Ok (Src (sa_m acc) (sa_in acc) (sa_per acc) r)
                     | Bad => Bad | NoFuel => NoFuel end
        end
    | Bad => Bad | NoFuel => NoFuel
    end.
  Proof. reflexivity. Qed.
  Lemma parse_root_eq f nodes :
    parse_root flk dflk valid_rule (S f) nodes =
    match root_go flk dflk valid_rule (parse_src flk dflk valid_rule f) pacc0 nodes with
    | Ok acc =>
        match default_nodes (pa_per acc) (pa_dflt acc) (pa_oth acc) with
        | None => Bad
        | Some dn => match parse_src flk dflk valid_rule f dn with
                     | Ok s => Ok (Pipe (pa_m acc) (pa_in acc) (pa_per acc) s)
                     | Bad => Bad | NoFuel => NoFuel end
        end
    | Bad => Bad | NoFuel => NoFuel
    end.
  Proof. reflexivity. Qed.
  Lemma parse_rcpt_eq f nodes :
    parse_rcpt flk dflk valid_rule (S f) nodes =
    match rcpt_go (parse_root flk dflk valid_rule f) racc0 nodes with
    | Ok acc => finish_rcpt acc
    | Bad => Bad | NoFuel => NoFuel
    end.
  Proof. reflexivity. Qed.

  (* a parsed source scope: its destination table is "first declaration wins" over the
     directives as written *)
  Lemma parse_src_first_wins f nodes sm rin rper rd k :
    parse_src flk dflk valid_rule (S f) nodes = Ok (Src sm rin rper rd) ->
    alookup str_eqb k rper = first_decl_r (parse_rcpt flk dflk valid_rule f) nodes k /\
    rin = decl_in_r (parse_rcpt flk dflk valid_rule f) nodes.
  Proof.
    rewrite parse_src_eq. destruct (src_go _ _ _ _ _ nodes) as [acc| |] eqn:Eg; try discriminate.
    destruct (default_nodes _ _ _) as [dn|]; [|discriminate].
    destruct (parse_rcpt flk dflk valid_rule f dn); try discriminate.
    intro H; inversion H; subst. split.
    - rewrite (src_go_per _ _ _ _ k Eg). reflexivity.
    - rewrite (src_go_in _ _ _ _ Eg). reflexivity.
  Qed.
  Lemma parse_root_first_wins f nodes gm sin per d k :
    parse_root flk dflk valid_rule (S f) nodes = Ok (Pipe gm sin per d) ->
    alookup str_eqb k per = first_decl_s (parse_src flk dflk valid_rule f) nodes k.
  Proof.
    rewrite parse_root_eq. destruct (root_go _ _ _ _ _ nodes) as [acc| |] eqn:Eg; try discriminate.
    destruct (default_nodes _ _ _) as [dn|]; [|discriminate].
    destruct (parse_src flk dflk valid_rule f dn); try discriminate.
    intro H; inversion H; subst. rewrite (root_go_per _ _ _ _ k Eg). reflexivity.
  Qed.

  (* every recipient block the parser produces decides *)
  Lemma parse_rcpt_decides fuel nodes rm rej tg :
    parse_rcpt flk dflk valid_rule fuel nodes = Ok (Rblk rm rej tg) -> rej <> None \/ tg <> [].
  Proof.
    destruct fuel as [|f]; [discriminate|]. rewrite parse_rcpt_eq.
    destruct (rcpt_go _ _ _) as [acc| |]; try discriminate. unfold finish_rcpt.
    destruct (ra_t acc) as [|t ts] eqn:Et; destruct (ra_rej acc) as [c|] eqn:Er; try discriminate;
      intro H; inversion H; subst; [left|right|right]; discriminate.
  Qed.

  (* precedence of one scope *)
  Lemma select_rcpt_cases sm rin rper rd to b :
    select_rcpt flk split_dom tbl (Src sm rin rper rd) to = SBlock b ->
    exists clean, flk to = Some clean /\
      (first_table tbl rin clean = Some b \/
       (first_table tbl rin clean = None /\
        (alookup str_eqb clean rper = Some b \/
         (alookup str_eqb clean rper = None /\ exists dom, split_dom clean = Some dom /\
            (alookup str_eqb dom rper = Some b \/ (alookup str_eqb dom rper = None /\ b = rd)))))).
  Proof.
    cbn. destruct (flk to) as [clean|]; [|discriminate]. intro H. exists clean. split; [reflexivity|].
    destruct (first_table tbl rin clean) as [b1|]; [left; congruence|]. right. split; [reflexivity|].
    destruct (alookup str_eqb clean rper) as [b2|]; [left; congruence|]. right. split; [reflexivity|].
    destruct (split_dom clean) as [dom|]; [|discriminate]. exists dom. split; [reflexivity|].
    destruct (alookup str_eqb dom rper) as [b3|]; [left; congruence|]. right. split; [reflexivity|congruence].
  Qed.

  Lemma select_rcpt_key_only s a a' : flk a = flk a' -> select_rcpt flk split_dom tbl s a = select_rcpt flk split_dom tbl s a'.
  Proof. intro H. destruct s. cbn. rewrite H. reflexivity. Qed.
  Lemma select_src_key_only p a a' :
    a <> [] -> a' <> [] -> flk a = flk a' -> select_src flk split_dom tbl p a = select_src flk split_dom tbl p a'.
  Proof. intros Ha Ha' H. destruct p. cbn. destruct a; [contradiction|]. destruct a'; [contradiction|]. rewrite H. reflexivity. Qed.
  Lemma declares_key_only (args args' : list str) k :
    map norm_rule args = map norm_rule args' -> declares args k = declares args' k.
  Proof.
    revert args'; induction args as [|r args IH]; intros [|r' args'] H; try discriminate; [reflexivity|].
    cbn in H. inversion H as [[H1 H2]]. unfold Spec.declares. cbn [existsb]. rewrite H1.
    f_equal. apply IH. exact H2.
  Qed.

  (* a block whose targets are all plain targets: every rewritten recipient goes to every
     target of that block once, in order, and nowhere else *)
  Lemma seq_all_leaf (A : Type) (f : A -> list ev) (l : list A) :
    seq_all (fun x => (f x, None)) l = (flat_map f l, None).
  Proof.
    induction l as [|x l IH]; [reflexivity|]. cbn. rewrite IH. reflexivity.
  Qed.
End Route.
