(* C04: message pipeline configuration and routing.  parseMsgPipelineRootCfg / SrcCfg / RcptCfg
   on a directive tree, srcBlockForAddr, AddRcpt with rcptBlockForAddr, modifier groups and nested
   reroute pipelines.  Address normalisation, rule validity, tables and modifiers are oracles.
   Checks are not part of routing and are skipped.  Definitions only. *)
From Maddy Require Export Lib.Base.
Local Open Scope N_scope.

Inductive dname := DCheck | DModify | DSourceIn | DSource | DDefaultSource | DDmarc | DDeliver
                 | DReroute | DDestIn | DDest | DDefaultDest | DReject | DOther.
(* args: match rules of source / destination; ids: modifier ids of a modify block, the table of
   source_in / destination_in, the target of deliver_to, the numeric arguments of reject *)
(* blk: the directive was written with a block; an empty block differs from none for default_source / default_destination *)
Inductive node := Node (d : dname) (args : list str) (ids : list N) (blk : bool) (children : list node).

Inductive pipe := Pipe (gm : list N) (sin : list (N * src)) (per : list (str * src)) (dflt : src)
with src := Src (sm : list N) (rin : list (N * rblk)) (rper : list (str * rblk)) (rdflt : rblk)
with rblk := Rblk (rm : list N) (rej : option N) (tgts : list tgt)
with tgt := TLeaf (id : N) | TPipe (p : pipe).

Inductive res (A : Type) := Ok (a : A) | Bad | NoFuel.
Arguments Ok {A}. Arguments Bad {A}. Arguments NoFuel {A}.

Definition has_at (s : str) : bool := existsb (N.eqb 64) s.

(* reject [code [e0 e1 e2]] -> code * 1000 + enhanced code digits; None: refused at load time *)
Definition parse_reject (ids : list N) : option N :=
  let okc c := (c / 100 =? 4) || (c / 100 =? 5) in
  match ids with
  | [] => Some 554570
  | [c] => if okc c then Some (c * 1000 + 570) else None
  | [c; e0; e1; e2] => if okc c && ((e0 =? 4) || (e0 =? 5)) then Some (c * 1000 + e0 * 100 + e1 * 10 + e2) else None
  | _ => None
  end.

Section Route.
  Variable flk : str -> option str.            (* address.ForLookup *)
  Variable dflk : str -> option str.           (* dns.ForLookup *)
  Variable valid_rule : str -> bool.           (* validMatchRule *)
  Variable split_dom : str -> option str.      (* address.Split: domain part *)
  Variable tbl : N -> str -> bool.             (* source_in / destination_in table: key present *)
  Variable rw_s : N -> str -> option str.      (* modifier: RewriteSender *)
  Variable rw_r : N -> str -> option (list str).   (* modifier: RewriteRcpt *)

  Definition norm_rule (r : str) : option str :=
    match (if has_at r then flk r else dflk r) with
    | Some k => if valid_rule k then Some k else None
    | None => None
    end.

  (* add the rules of one source / destination directive: first declaration wins *)
  Fixpoint add_rules {B : Type} (m : list (str * B)) (rules : list str) (b : B) : option (list (str * B)) :=
    match rules with
    | [] => Some m
    | r :: rest => match norm_rule r with
                   | None => None
                   | Some k => match alookup str_eqb k m with
                               | Some _ => add_rules m rest b
                               | None => add_rules (m ++ [(k, b)]) rest b
                               end
                   end
    end.

  Record racc := { ra_m : list N; ra_rej : option N; ra_t : list tgt }.
  Record sacc := { sa_m : list N; sa_in : list (N * rblk); sa_per : list (str * rblk);
                   sa_dflt : option (list node); sa_oth : list node }.
  Record pacc := { pa_m : list N; pa_in : list (N * src); pa_per : list (str * src);
                   pa_dflt : option (list node); pa_oth : list node }.

  Definition finish_rcpt (a : racc) : res rblk :=
    match ra_t a, ra_rej a with
    | [], None => Bad                                   (* no deliver_to, reroute or reject *)
    | _, _ => Ok (Rblk (ra_m a) (ra_rej a) (ra_t a))
    end.

  (* the loops over the directives of one scope, parameterised by the parser of the scope below *)
  Definition root_go (psrc : list node -> res src) : pacc -> list node -> res pacc :=
    fix go (acc : pacc) (l : list node) : res pacc :=
      match l with
      | [] => Ok acc
      | Node d args ids blk ch :: rest =>
        match d with
        | DCheck | DDmarc => go acc rest
        | DModify => go {| pa_m := pa_m acc ++ ids; pa_in := pa_in acc; pa_per := pa_per acc; pa_dflt := pa_dflt acc; pa_oth := pa_oth acc |} rest
        | DSourceIn =>
            match ids with
            | [t] => match psrc ch with
                     | Ok s => go {| pa_m := pa_m acc; pa_in := pa_in acc ++ [(t, s)]; pa_per := pa_per acc; pa_dflt := pa_dflt acc; pa_oth := pa_oth acc |} rest
                     | Bad => Bad | NoFuel => NoFuel end
            | _ => Bad
            end
        | DSource =>
            match psrc ch with
            | Ok s => match args with
                      | [] => Bad
                      | _ => match add_rules (pa_per acc) args s with
                             | Some m => go {| pa_m := pa_m acc; pa_in := pa_in acc; pa_per := m; pa_dflt := pa_dflt acc; pa_oth := pa_oth acc |} rest
                             | None => Bad end
                      end
            | Bad => Bad | NoFuel => NoFuel end
        | DDefaultSource =>
            match pa_dflt acc with
            | None => go {| pa_m := pa_m acc; pa_in := pa_in acc; pa_per := pa_per acc; pa_dflt := (if blk then Some ch else None); pa_oth := pa_oth acc |} rest
            | Some _ => Bad
            end
        | DDeliver | DReroute | DDestIn | DDest | DDefaultDest | DReject =>
            go {| pa_m := pa_m acc; pa_in := pa_in acc; pa_per := pa_per acc; pa_dflt := pa_dflt acc; pa_oth := pa_oth acc ++ [Node d args ids blk ch] |} rest
        | DOther => Bad
        end
      end.
  Definition src_go (prcpt : list node -> res rblk) : sacc -> list node -> res sacc :=
    fix go (acc : sacc) (l : list node) : res sacc :=
      match l with
      | [] => Ok acc
      | Node d args ids blk ch :: rest =>
        match d with
        | DCheck => go acc rest
        | DModify => go {| sa_m := sa_m acc ++ ids; sa_in := sa_in acc; sa_per := sa_per acc; sa_dflt := sa_dflt acc; sa_oth := sa_oth acc |} rest
        | DDestIn =>
            match ids with
            | [t] => match prcpt ch with
                     | Ok r => go {| sa_m := sa_m acc; sa_in := sa_in acc ++ [(t, r)]; sa_per := sa_per acc; sa_dflt := sa_dflt acc; sa_oth := sa_oth acc |} rest
                     | Bad => Bad | NoFuel => NoFuel end
            | _ => Bad
            end
        | DDest =>
            match prcpt ch with
            | Ok r => match args with
                      | [] => Bad
                      | _ => match add_rules (sa_per acc) args r with
                             | Some m => go {| sa_m := sa_m acc; sa_in := sa_in acc; sa_per := m; sa_dflt := sa_dflt acc; sa_oth := sa_oth acc |} rest
                             | None => Bad end
                      end
            | Bad => Bad | NoFuel => NoFuel end
        | DDefaultDest =>
            match sa_dflt acc with
            | None => go {| sa_m := sa_m acc; sa_in := sa_in acc; sa_per := sa_per acc; sa_dflt := (if blk then Some ch else None); sa_oth := sa_oth acc |} rest
            | Some _ => Bad
            end
        | DDeliver | DReroute | DReject =>
            go {| sa_m := sa_m acc; sa_in := sa_in acc; sa_per := sa_per acc; sa_dflt := sa_dflt acc; sa_oth := sa_oth acc ++ [Node d args ids blk ch] |} rest
        | _ => Bad
        end
      end.
  Definition rcpt_go (proot : list node -> res pipe) : racc -> list node -> res racc :=
    fix go (acc : racc) (l : list node) : res racc :=
      match l with
      | [] => Ok acc
      | Node d args ids blk ch :: rest =>
        match d with
        | DCheck => go acc rest
        | DModify => go {| ra_m := ra_m acc ++ ids; ra_rej := ra_rej acc; ra_t := ra_t acc |} rest
        | DDeliver =>
            match ra_rej acc, ids with
            | None, [t] => go {| ra_m := ra_m acc; ra_rej := None; ra_t := ra_t acc ++ [TLeaf t] |} rest
            | _, _ => Bad
            end
        | DReroute =>
            match ch with
            | [] => Bad
            | _ => match proot ch with
                   | Ok p => go {| ra_m := ra_m acc; ra_rej := ra_rej acc; ra_t := ra_t acc ++ [TPipe p] |} rest
                   | Bad => Bad | NoFuel => NoFuel end
            end
        | DReject =>
            match ra_t acc with
            | [] => match parse_reject ids with
                    | Some c => go {| ra_m := ra_m acc; ra_rej := Some c; ra_t := [] |} rest
                    | None => Bad end
            | _ => Bad
            end
        | _ => Bad
        end
      end.

  (* which directives make up the default block of a scope: the explicit default block, or the
     handling directives written directly in the scope when it declares no rules *)
  Definition default_nodes {B : Type} (per : list (str * B)) (dflt : option (list node)) (oth : list node) : option (list node) :=
    let dn0 := match dflt with Some l => l | None => [] end in
    match per, dn0 with
    | [], [] => match oth with [] => None | o => Some o end
    | _, _ => match oth with
              | [] => match dn0 with [] => None | dn => Some dn end
              | _ => None end
    end.
  Definition pacc0 : pacc := {| pa_m := []; pa_in := []; pa_per := []; pa_dflt := None; pa_oth := [] |}.
  Definition sacc0 : sacc := {| sa_m := []; sa_in := []; sa_per := []; sa_dflt := None; sa_oth := [] |}.
  Definition racc0 : racc := {| ra_m := []; ra_rej := None; ra_t := [] |}.

  Fixpoint parse_root (fuel : nat) (nodes : list node) : res pipe :=
    match fuel with
    | O => NoFuel
    | S f =>
      match root_go (parse_src f) pacc0 nodes with
      | Ok acc =>
          match default_nodes (pa_per acc) (pa_dflt acc) (pa_oth acc) with
          | None => Bad
          | Some dn => match parse_src f dn with
                       | Ok s => Ok (Pipe (pa_m acc) (pa_in acc) (pa_per acc) s)
                       | Bad => Bad | NoFuel => NoFuel end
          end
      | Bad => Bad | NoFuel => NoFuel
      end
    end
  with parse_src (fuel : nat) (nodes : list node) : res src :=
    match fuel with
    | O => NoFuel
    | S f =>
      match src_go (parse_rcpt f) sacc0 nodes with
      | Ok acc =>
          match default_nodes (sa_per acc) (sa_dflt acc) (sa_oth acc) with
          | None => Bad
          | Some dn => match parse_rcpt f dn with
                       | Ok r => Ok (Src (sa_m acc) (sa_in acc) (sa_per acc) r)
                       | Bad => Bad | NoFuel => NoFuel end
          end
      | Bad => Bad | NoFuel => NoFuel
      end
    end
  with parse_rcpt (fuel : nat) (nodes : list node) : res rblk :=
    match fuel with
    | O => NoFuel
    | S f =>
      match rcpt_go (parse_root f) racc0 nodes with
      | Ok acc => finish_rcpt acc
      | Bad => Bad | NoFuel => NoFuel
      end
    end.

  (* ---- modifier groups ---- *)
  Fixpoint group_sender (ms : list N) (a : str) : option str :=
    match ms with
    | [] => Some a
    | m :: r => match rw_s m a with Some a' => group_sender r a' | None => None end
    end.
  Fixpoint map_opt_flat {A B : Type} (f : A -> option (list B)) (l : list A) : option (list B) :=
    match l with
    | [] => Some []
    | x :: r => match f x with
                | None => None
                | Some y => match map_opt_flat f r with Some z => Some (y ++ z) | None => None end
                end
    end.
  Fixpoint group_rcpt_l (ms : list N) (l : list str) : option (list str) :=
    match ms with
    | [] => Some l
    | m :: r => match map_opt_flat (rw_r m) l with Some l' => group_rcpt_l r l' | None => None end
    end.
  Definition group_rcpt (ms : list N) (a : str) : option (list str) := group_rcpt_l ms [a].

  (* ---- block selection: table match, full address, domain, default ---- *)
  Fixpoint first_table {B : Type} (l : list (N * B)) (key : str) : option B :=
    match l with
    | [] => None
    | (t, b) :: r => if tbl t key then Some b else first_table r key
    end.

  (* replies: code * 1000 + enhanced code; 999 = an error that is not an SMTP reply *)
  Inductive sel (B : Type) := SBlock (b : B) | SFail (reply : N).
  Arguments SBlock {B}. Arguments SFail {B}.

  Definition select_src (p : pipe) (from : str) : sel src :=
    match p with Pipe _ sin per dflt =>
      match (match from with [] => Some [] | _ => flk from end) with
      | None => SFail 501517
      | Some clean =>
        match first_table sin clean with
        | Some b => SBlock b
        | None =>
          match alookup str_eqb clean per with
          | Some b => SBlock b
          | None =>
            match split_dom clean, clean with
            | None, _ :: _ => SFail 501513
            | od, _ => let dom := match od with Some d => d | None => [] end in
                       match alookup str_eqb dom per with
                       | Some b => SBlock b
                       | None => SBlock dflt
                       end
            end
          end
        end
      end
    end.

  Definition select_rcpt (s : src) (to : str) : sel rblk :=
    match s with Src _ rin per dflt =>
      match flk to with
      | None => SFail 553512
      | Some clean =>
        match first_table rin clean with
        | Some b => SBlock b
        | None =>
          match alookup str_eqb clean per with
          | Some b => SBlock b
          | None =>
            match split_dom clean with
            | None => SFail 501513
            | Some dom => match alookup str_eqb dom per with
                          | Some b => SBlock b
                          | None => SBlock dflt
                          end
            end
          end
        end
      end
    end.

  (* MsgPipeline.Start: the source block and the sender the targets will see *)
  Definition start (p : pipe) (from : str) : sel (src * str) :=
    match p with Pipe gm _ _ _ =>
      match group_sender gm from with
      | None => SFail 999
      | Some from1 =>
        match select_src p from1 with
        | SFail r => SFail r
        | SBlock s => match s with Src sm _ _ _ =>
                        match group_sender sm from1 with
                        | None => SFail 999
                        | Some from2 => SBlock (s, from2)
                        end
                      end
        end
      end
    end.

  (* one AddRcpt call on a target: (target, sender the target was started with, recipient) *)
  Definition ev := (N * str * str)%type.
  Definition outc := (list ev * option N)%type.     (* events in order; the reply if refused *)

  (* run [f] over [l] until the first refusal *)
  Fixpoint seq_all {A : Type} (f : A -> outc) (l : list A) : outc :=
    match l with
    | [] => ([], None)
    | x :: r => match f x with
                | (e, Some c) => (e, Some c)
                | (e, None) => let o := seq_all f r in (e ++ fst o, snd o)
                end
    end.

  Fixpoint add_rcpt (fuel : nat) (p : pipe) (s : src) (from : str) (to : str) : outc :=
    match fuel with
    | O => ([], Some 998)
    | S f =>
      match p, s with Pipe gm _ _ _, Src sm _ _ _ =>
        match group_rcpt gm to with
        | None => ([], Some 999)
        | Some l1 =>
          match map_opt_flat (group_rcpt sm) l1 with
          | None => ([], Some 999)
          | Some l2 =>
              seq_all (fun to2 =>
                match select_rcpt s to2 with
                | SFail r => ([], Some r)
                | SBlock (Rblk rm rej tg) =>
                  match rej with
                  | Some c => ([], Some c)
                  | None =>
                    match group_rcpt rm to2 with
                    | None => ([], Some 999)
                    | Some l3 =>
                        seq_all (fun to3 =>
                          seq_all (fun t =>
                            match t with
                            | TLeaf id => ([(id, from, to3)], None)
                            | TPipe p' =>
                                match start p' from with
                                | SFail r => ([], Some r)
                                | SBlock (s', from') => add_rcpt f p' s' from' to3
                                end
                            end) tg) l3
                    end
                  end
                end) l2
          end
        end
      end
    end.

  (* a whole message: MAIL FROM and a sequence of RCPT TO *)
  Definition message (fuel : nat) (p : pipe) (from : str) (tos : list str) : option N * list outc :=
    match start p from with
    | SFail r => (Some r, [])
    | SBlock (s, from') => (None, map (add_rcpt fuel p s from') tos)
    end.
End Route.
Arguments SBlock {B}. Arguments SFail {B}.
