(* C04: a whole message in the model (Route.message on the parsed configuration) is the whole
   message of the documented rules (Spec.spec_message on the directive tree), for every accepted
   configuration, nesting depth, rewrite and envelope.  Lemmas only. *)
From Maddy Require Import Lib.Base Pipeline.Route Pipeline.Spec Pipeline.Lemmas Pipeline.SpecSel.
Local Open Scope N_scope.

(* every list of directives reachable from [l] through children and sub-lists *)
Inductive reach : list node -> list node -> Prop :=
| reach_refl l : reach l l
| reach_incl l l' l'' : incl l' l -> reach l' l'' -> reach l l''
| reach_child l d a i b ch l'' : In (Node d a i b ch) l -> reach ch l'' -> reach l l''.
Definition wf_deep (l : list node) : Prop := forall l', reach l l' -> wf_nodes l'.
Lemma wf_deep_here l : wf_deep l -> wf_nodes l.
Proof. intro H. apply H. apply reach_refl. Qed.
Lemma wf_deep_incl l l' : wf_deep l -> incl l' l -> wf_deep l'.
Proof. intros H I l'' R. apply H. eapply reach_incl; eauto. Qed.
Lemma wf_deep_child l d a i b ch : wf_deep l -> In (Node d a i b ch) l -> wf_deep ch.
Proof. intros H I l'' R. apply H. eapply reach_child; eauto. Qed.

Lemma first_in_In tbl din nodes k ch :
  first_in tbl din nodes k = Some ch -> exists d a i b, In (Node d a i b ch) nodes.
Proof.
  induction nodes as [|[d a i b c] rest IH]; cbn; [discriminate|].
  destruct (din d && _).
  - intro H; inversion H; subst. exists d, a, i, b. left. reflexivity.
  - intro H. destruct (IH H) as (d' & a' & i' & b' & Hin). exists d', a', i', b'. right. exact Hin.
Qed.
Lemma first_rule_In flk dflk vr drule nodes k ch :
  first_rule flk dflk vr drule nodes k = Some ch -> exists d a i b, In (Node d a i b ch) nodes.
Proof.
  induction nodes as [|[d a i b c] rest IH]; cbn; [discriminate|].
  destruct (drule d && _).
  - intro H; inversion H; subst. exists d, a, i, b. left. reflexivity.
  - intro H. destruct (IH H) as (d' & a' & i' & b' & Hin). exists d', a', i', b'. right. exact Hin.
Qed.
Lemma dflt_blocks_In ddef nodes ch : In ch (dflt_blocks ddef nodes) -> exists d a i b, In (Node d a i b ch) nodes.
Proof.
  induction nodes as [|[d a i b c] rest IH]; cbn; [contradiction|].
  intro H. apply in_app_or in H. destruct H as [H|H].
  - destruct (ddef d); [|contradiction]. destruct c; [contradiction|]. destruct H as [H|[]]. subst ch.
    exists d, a, i, b. left. reflexivity.
  - destruct (IH H) as (d' & a' & i' & b' & Hin). exists d', a', i', b'. right. exact Hin.
Qed.
Lemma wf_deep_default ddef handling nodes : wf_deep nodes -> wf_deep (default_of ddef handling nodes).
Proof.
  intro W. rewrite default_of_eq. destruct (dflt_blocks ddef nodes) as [|ch r] eqn:E.
  - apply (wf_deep_incl _ _ W). intros n Hn. apply filter_In in Hn. tauto.
  - destruct (dflt_blocks_In ddef nodes ch) as (d & a & i & b & Hin); [rewrite E; left; reflexivity|].
    apply (wf_deep_child _ _ _ _ _ _ W Hin).
Qed.
Lemma wf_deep_pick flk dflk vr sd tbl din drule ddef handling nodes clean ae blk :
  wf_deep nodes -> pick_block flk dflk vr sd tbl din drule ddef handling nodes clean ae = PNodes blk -> wf_deep blk.
Proof.
  intros W. unfold pick_block.
  assert (forall k ch, first_rule flk dflk vr drule nodes k = Some ch -> wf_deep ch) as FR.
  { intros k ch H. destruct (first_rule_In _ _ _ _ _ _ _ H) as (d & a & i & b & Hin). apply (wf_deep_child _ _ _ _ _ _ W Hin). }
  destruct (first_in tbl din nodes clean) as [ch|] eqn:E1.
  { intro H; inversion H; subst. destruct (first_in_In _ _ _ _ _ E1) as (d & a & i & b & Hin). apply (wf_deep_child _ _ _ _ _ _ W Hin). }
  destruct (first_rule flk dflk vr drule nodes clean) as [ch|] eqn:E2.
  { intro H; inversion H; subst. apply (FR _ _ E2). }
  destruct (sd clean) as [dom|].
  - destruct (first_rule flk dflk vr drule nodes dom) as [ch|] eqn:E3; intro H; inversion H; subst.
    + apply (FR _ _ E3). + apply wf_deep_default; exact W.
  - destruct (ae && _); [|discriminate].
    destruct (first_rule flk dflk vr drule nodes []) as [ch|] eqn:E3; intro H; inversion H; subst.
    + apply (FR _ _ E3). + apply wf_deep_default; exact W.
Qed.

(* seq_all *)
Lemma seq_all_app {A : Type} (f : A -> outc) (l1 l2 : list A) :
  seq_all f (l1 ++ l2) = match seq_all f l1 with
                         | (e, Some c) => (e, Some c)
                         | (e, None) => (e ++ fst (seq_all f l2), snd (seq_all f l2))
                         end.
Proof.
  induction l1 as [|x l1 IH]; cbn.
  - destruct (seq_all f l2); reflexivity.
  - destruct (f x) as [e [c|]]; [reflexivity|]. rewrite IH.
    destruct (seq_all f l1) as [e1 [c1|]]; cbn; [reflexivity|]. rewrite app_assoc. reflexivity.
Qed.
Lemma seq_all_flat_map {A B : Type} (f : B -> outc) (g : A -> list B) (l : list A) :
  seq_all f (flat_map g l) = seq_all (fun x => seq_all f (g x)) l.
Proof.
  induction l as [|x l IH]; cbn; [reflexivity|]. rewrite seq_all_app, IH.
  destruct (seq_all f (g x)) as [e [c|]]; reflexivity.
Qed.
Lemma seq_all_ext {A : Type} (f g : A -> outc) (l : list A) :
  (forall x, In x l -> f x = g x) -> seq_all f l = seq_all g l.
Proof.
  induction l as [|x l IH]; intro H; cbn; [reflexivity|].
  rewrite (H x (or_introl eq_refl)). rewrite IH; [reflexivity|]. intros y Hy. apply H. right. exact Hy.
Qed.
Lemma seq_all_one {A : Type} (f : A -> outc) (x : A) : seq_all f [x] = f x.
Proof. cbn. destruct (f x) as [e [c|]]; [reflexivity|]. cbn. rewrite app_nil_r. reflexivity. Qed.

(* the boolean check run on every generated configuration implies the hypothesis *)
Lemma wf_deepb_here f l : wf_deepb f l = true -> wf_nodes l.
Proof.
  destruct f as [|f]; [discriminate|]. cbn [wf_deepb]. rewrite forallb_forall.
  intros H d a i ch Hin. specialize (H _ Hin). cbn in H. destruct ch; [reflexivity|discriminate].
Qed.
Lemma wf_deepb_sound f l : wf_deepb f l = true -> wf_deep l.
Proof.
  intros H l' R. revert f H. induction R as [l|l l1 l2 I R IH|l d a i b ch l2 Hin R IH]; intros f H.
  - apply (wf_deepb_here f). exact H.
  - apply (IH f). destruct f as [|f]; [discriminate|]. cbn [wf_deepb] in *. rewrite forallb_forall in *.
    intros n Hn. apply H. apply I. exact Hn.
  - destruct f as [|f]; [discriminate|]. cbn [wf_deepb] in H. rewrite forallb_forall in H.
    specialize (H _ Hin). cbn in H. apply andb_prop in H. apply (IH f). tauto.
Qed.

Section Whole.
  Variable flk : str -> option str.
  Variable dflk : str -> option str.
  Variable valid_rule : str -> bool.
  Variable split_dom : str -> option str.
  Variable tbl : N -> str -> bool.
  Variable rw_s : N -> str -> option str.
  Variable rw_r : N -> str -> option (list str).
  Notation parse_root := (parse_root flk dflk valid_rule).
  Notation parse_src := (parse_src flk dflk valid_rule).
  Notation parse_rcpt := (parse_rcpt flk dflk valid_rule).

  (* modifiers of a scope: in the order written *)
  Lemma root_go_mods psrc nodes : forall acc acc',
    root_go flk dflk valid_rule psrc acc nodes = Ok acc' -> pa_m acc' = pa_m acc ++ mods_of nodes.
  Proof.
    induction nodes as [|[d args ids blk ch] rest IH]; intros acc acc' H.
    - cbn in H. inversion H; subst. cbn. rewrite app_nil_r. reflexivity.
    - cbn [root_go] in H. unfold mods_of. cbn [flat_map]. fold (mods_of rest).
      destruct d; try discriminate; try (rewrite (IH _ _ H); cbn [pa_m app]; try rewrite <- app_assoc; reflexivity).
      + destruct ids as [|t [|t2 ids]]; try discriminate.
        destruct (psrc ch) as [r| |]; try discriminate. rewrite (IH _ _ H). reflexivity.
      + destruct (psrc ch) as [r| |]; try discriminate. destruct args; [discriminate|].
        destruct (add_rules _ _ _ _ _ _); [|discriminate]. rewrite (IH _ _ H). reflexivity.
      + destruct (pa_dflt acc); [discriminate|]. rewrite (IH _ _ H). reflexivity.
  Qed.
  Lemma src_go_mods prcpt nodes : forall acc acc',
    src_go flk dflk valid_rule prcpt acc nodes = Ok acc' -> sa_m acc' = sa_m acc ++ mods_of nodes.
  Proof.
    induction nodes as [|[d args ids blk ch] rest IH]; intros acc acc' H.
    - cbn in H. inversion H; subst. cbn. rewrite app_nil_r. reflexivity.
    - cbn [src_go] in H. unfold mods_of. cbn [flat_map]. fold (mods_of rest).
      destruct d; try discriminate; try (rewrite (IH _ _ H); cbn [sa_m app]; try rewrite <- app_assoc; reflexivity).
      + destruct ids as [|t [|t2 ids]]; try discriminate.
        destruct (prcpt ch) as [r| |]; try discriminate. rewrite (IH _ _ H). reflexivity.
      + destruct (prcpt ch) as [r| |]; try discriminate. destruct args; [discriminate|].
        destruct (add_rules _ _ _ _ _ _); [|discriminate]. rewrite (IH _ _ H). reflexivity.
      + destruct (sa_dflt acc); [discriminate|]. rewrite (IH _ _ H). reflexivity.
  Qed.

  (* a recipient block: modifiers, the reply, the targets - in the order written *)
  Definition tg_of (proot : list node -> res pipe) (n : node) : list tgt :=
    match n with
    | Node DDeliver _ [t] _ _ => [TLeaf t]
    | Node DReroute _ _ _ ch => match proot ch with Ok p => [TPipe p] | _ => [] end
    | _ => []
    end.
  Definition rej_step (acc : option N) (n : node) : option N :=
    match n with Node DReject _ ids _ _ => parse_reject ids | _ => acc end.
  Lemma rcpt_go_content proot nodes : forall acc acc',
    rcpt_go proot acc nodes = Ok acc' ->
    ra_m acc' = ra_m acc ++ mods_of nodes /\
    ra_rej acc' = fold_left rej_step nodes (ra_rej acc) /\
    (ra_rej acc' = None -> ra_t acc' = ra_t acc ++ flat_map (tg_of proot) nodes) /\
    (forall a i b ch, In (Node DReroute a i b ch) nodes -> exists p, proot ch = Ok p).
  Proof.
    induction nodes as [|[d args ids blk ch] rest IH]; intros acc acc' H.
    - cbn in H. inversion H; subst. cbn. rewrite !app_nil_r. repeat split; auto. intros ? ? ? ? [].
    - cbn [rcpt_go] in H. unfold mods_of. cbn [flat_map fold_left rej_step]. fold (mods_of rest).
      destruct d; try discriminate.
      + (* DCheck *) destruct (IH _ _ H) as (A & B & C & D). cbn [app tg_of]. repeat split; auto.
        intros a i b c [E|E]; [discriminate|eauto].
      + (* DModify *) destruct (IH _ _ H) as (A & B & C & D). cbn [ra_m ra_rej ra_t] in *.
        rewrite <- app_assoc in A. cbn [app tg_of]. repeat split; auto.
        intros a i b c [E|E]; [discriminate|eauto].
      + (* DDeliver *)
        destruct (ra_rej acc) eqn:Er; [discriminate|]. destruct ids as [|t [|t2 ids]]; try discriminate.
        destruct (IH _ _ H) as (A & B & C & D). cbn [ra_m ra_rej ra_t] in *. cbn [tg_of].
        repeat split; auto.
        * intro E. rewrite (C E), <- app_assoc. reflexivity.
        * intros a i b c [E|E]; [discriminate|eauto].
      + (* DReroute *)
        destruct ch as [|c0 ch]; [discriminate|]. destruct (proot (c0 :: ch)) as [p| |] eqn:Ep; try discriminate.
        destruct (IH _ _ H) as (A & B & C & D). cbn [ra_m ra_rej ra_t] in *. cbn [tg_of]. rewrite Ep.
        repeat split; auto.
        * intro E. rewrite (C E), <- app_assoc. reflexivity.
        * intros a i b c [E|E]; [inversion E; subst; eauto|eauto].
      + (* DReject *)
        destruct (ra_t acc) eqn:Et; [|discriminate]. destruct (parse_reject ids) as [c|] eqn:Ec; [|discriminate].
        destruct (IH _ _ H) as (A & B & C & D). cbn [ra_m ra_rej ra_t] in *. cbn [tg_of app].
        repeat split; auto. intros a i b c' [E|E]; [discriminate|eauto].
  Qed.
  Lemma reject_of_eq nodes : reject_of nodes = fold_left rej_step nodes None.
  Proof. reflexivity. Qed.

  Lemma parse_rcpt_content f blk rm rej tg :
    parse_rcpt (S f) blk = Ok (Rblk rm rej tg) ->
    rm = mods_of blk /\ rej = reject_of blk /\
    (rej = None -> tg = flat_map (tg_of (parse_root f)) blk) /\
    (forall a i b ch, In (Node DReroute a i b ch) blk -> exists p, parse_root f ch = Ok p).
  Proof.
    rewrite parse_rcpt_eq. destruct (rcpt_go _ _ _) as [acc| |] eqn:Eg; try discriminate.
    destruct (rcpt_go_content _ _ _ _ Eg) as (A & B & C & D). cbn [ra_m ra_rej ra_t racc0 app] in *.
    unfold finish_rcpt. destruct (ra_t acc) eqn:Et; destruct (ra_rej acc) eqn:Er; try discriminate;
      intro H; inversion H; subst; rewrite reject_of_eq; repeat split; auto; try discriminate.
  Qed.

  (* MAIL FROM *)
  Lemma start_eq_spec f nodes p from :
    wf_nodes nodes -> parse_root (S f) nodes = Ok p ->
    match spec_start flk dflk valid_rule split_dom tbl rw_s nodes from with
    | SFail r => start flk split_dom tbl rw_s p from = SFail r
    | SBlock (sn, from2) => exists s, parse_src f sn = Ok s /\ start flk split_dom tbl rw_s p from = SBlock (s, from2)
    end.
  Proof.
    intros W P. pose proof P as P0. destruct p as [gm sin per d0].
    rewrite parse_root_eq in P.
    destruct (root_go _ _ _ _ _ nodes) as [acc| |] eqn:Eg; try discriminate.
    destruct (default_nodes _ _ _) as [dn|] eqn:Ed; [|discriminate].
    destruct (parse_src f dn) as [s0| |] eqn:Er; try discriminate.
    inversion P; subst gm sin per d0. clear P.
    pose proof (root_go_mods _ _ _ _ Eg) as Hm. cbn [pa_m pacc0 app] in Hm.
    unfold spec_start, start. rewrite Hm.
    destruct (group_sender rw_s (mods_of nodes) from) as [from1|]; [|reflexivity].
    destruct (match from1 with [] => Some [] | _ => flk from1 end) as [clean|] eqn:Ec.
    2:{ unfold select_src. rewrite Ec. reflexivity. }
    pose proof (select_src_eq_spec flk dflk valid_rule split_dom tbl f nodes _ from1 clean W P0 Ec) as Hs.
    rewrite Hm in Hs.
    destruct (pick_block _ _ _ _ _ _ _ _ _ nodes clean true) as [sn|r].
    - destruct Hs as (s & Ps & Sel). rewrite Sel. destruct s as [sm rin rper rd].
      assert (sm = mods_of sn) as ->.
      { destruct f as [|f']; [discriminate|]. rewrite parse_src_eq in Ps.
        destruct (src_go _ _ _ _ _ sn) as [acc2| |] eqn:Eg2; try discriminate.
        destruct (default_nodes (sa_per acc2) _ _) as [dn2|]; [|discriminate].
        destruct (parse_rcpt f' dn2); try discriminate. inversion Ps; subst.
        pose proof (src_go_mods _ _ _ _ Eg2) as Hm2. exact Hm2. }
      destruct (group_sender rw_s (mods_of sn) from1) as [from2|]; [|reflexivity].
      exists (Src (mods_of sn) rin rper rd). split; [exact Ps|reflexivity].
    - rewrite Hs. reflexivity.
  Qed.
  Lemma parse_root_mods fp nodes gm sin per d0 : parse_root fp nodes = Ok (Pipe gm sin per d0) -> gm = mods_of nodes.
  Proof.
    destruct fp as [|f]; [discriminate|]. rewrite parse_root_eq.
    destruct (root_go _ _ _ _ _ nodes) as [acc| |] eqn:Eg; try discriminate.
    destruct (default_nodes _ _ _) as [dn|]; [|discriminate].
    destruct (parse_src f dn); try discriminate. intro H; inversion H; subst.
    apply (root_go_mods _ _ _ _ Eg).
  Qed.
  Lemma parse_src_mods fs sn sm rin rper rd : parse_src fs sn = Ok (Src sm rin rper rd) -> sm = mods_of sn.
  Proof.
    destruct fs as [|f]; [discriminate|]. rewrite parse_src_eq.
    destruct (src_go _ _ _ _ _ sn) as [acc| |] eqn:Eg; try discriminate.
    destruct (default_nodes _ _ _) as [dn|]; [|discriminate].
    destruct (parse_rcpt f dn); try discriminate. intro H; inversion H; subst.
    apply (src_go_mods _ _ _ _ Eg).
  Qed.
  Lemma wf_deep_start nodes from sn from2 :
    wf_deep nodes -> spec_start flk dflk valid_rule split_dom tbl rw_s nodes from = SBlock (sn, from2) -> wf_deep sn.
  Proof.
    intro W. unfold spec_start. destruct (group_sender rw_s (mods_of nodes) from) as [from1|]; [|discriminate].
    destruct (match from1 with [] => Some [] | _ => flk from1 end) as [clean|]; [|discriminate].
    destruct (pick_block _ _ _ _ _ _ _ _ _ nodes clean true) as [blk|r] eqn:Ep; [|discriminate].
    destruct (group_sender rw_s (mods_of blk) from1); [|discriminate]. intro H; inversion H; subst.
    apply (wf_deep_pick _ _ _ _ _ _ _ _ _ _ _ _ _ W Ep).
  Qed.

  (* RCPT TO, through rewrites at three levels and nested pipelines of any depth *)
  Lemma add_rcpt_eq_spec : forall rf fp fs nodes p sn s from to,
    wf_deep nodes -> wf_deep sn ->
    parse_root fp nodes = Ok p -> parse_src fs sn = Ok s ->
    add_rcpt flk split_dom tbl rw_s rw_r rf p s from to =
    spec_add_rcpt flk dflk valid_rule split_dom tbl rw_s rw_r rf nodes sn from to.
  Proof.
    induction rf as [|rf IH]; intros fp fs nodes p sn s from to Wn Ws Pp Ps; [reflexivity|].
    destruct p as [gm sin per d0]. destruct s as [sm rin rper rd].
    pose proof (parse_root_mods _ _ _ _ _ _ Pp) as ->. pose proof (parse_src_mods _ _ _ _ _ _ Ps) as ->.
    cbn [add_rcpt spec_add_rcpt].
    destruct (group_rcpt rw_r (mods_of nodes) to) as [l1|]; [|reflexivity].
    destruct (map_opt_flat (group_rcpt rw_r (mods_of sn)) l1) as [l2|]; [|reflexivity].
    apply seq_all_ext. intros to2 _.
    destruct (flk to2) as [clean|] eqn:Ek.
    2:{ unfold select_rcpt. rewrite Ek. reflexivity. }
    destruct fs as [|fs]; [discriminate|].
    pose proof (select_rcpt_eq_spec flk dflk valid_rule split_dom tbl fs sn _ to2 clean (wf_deep_here _ Ws) Ps Ek) as Hs.
    destruct (pick_block _ _ _ _ _ _ _ _ _ sn clean false) as [blk|r] eqn:Epk.
    2:{ rewrite Hs. reflexivity. }
    destruct Hs as (b & Pb & Sel). rewrite Sel. destruct b as [rm rej tg].
    destruct fs as [|f2]; [discriminate|].
    destruct (parse_rcpt_content _ _ _ _ _ Pb) as (A & B & C & D). subst rm rej.
    pose proof (wf_deep_pick _ _ _ _ _ _ _ _ _ _ _ _ _ Ws Epk) as Wb.
    destruct (reject_of blk) as [c|]; [reflexivity|].
    destruct (group_rcpt rw_r (mods_of blk) to2) as [l3|]; [|reflexivity].
    apply seq_all_ext. intros to3 _.
    rewrite (C eq_refl), seq_all_flat_map. apply seq_all_ext. intros [d a i b ch] Hn.
    destruct d; cbn [tg_of]; try reflexivity.
    - (* deliver_to *)
      destruct i as [|t [|t2 i]]; reflexivity.
    - (* reroute *)
      destruct (D _ _ _ _ Hn) as (p' & Pp'). rewrite Pp', seq_all_one.
      destruct f2 as [|f3]; [discriminate|].
      pose proof (wf_deep_child _ _ _ _ _ _ Wb Hn) as Wc.
      pose proof (start_eq_spec f3 ch p' from (wf_deep_here _ Wc) Pp') as St.
      destruct (spec_start flk dflk valid_rule split_dom tbl rw_s ch from) as [[src' from']|r] eqn:Es.
      + destruct St as (s' & Ps' & St). rewrite St.
        apply (IH _ _ ch p' src' s' from' to3 Wc (wf_deep_start _ _ _ _ Wc Es) Pp' Ps').
      + rewrite St. reflexivity.
  Qed.

  Theorem message_eq_spec rf fp nodes p from tos :
    wf_deep nodes -> parse_root fp nodes = Ok p ->
    message flk split_dom tbl rw_s rw_r rf p from tos =
    spec_message flk dflk valid_rule split_dom tbl rw_s rw_r rf nodes from tos.
  Proof.
    intros W P. destruct fp as [|f]; [discriminate|].
    unfold message, spec_message.
    pose proof (start_eq_spec f nodes p from (wf_deep_here _ W) P) as St.
    destruct (spec_start flk dflk valid_rule split_dom tbl rw_s nodes from) as [[sn from']|r] eqn:Es.
    - destruct St as (s & Ps & St). rewrite St. f_equal. apply map_ext. intro to.
      apply (add_rcpt_eq_spec rf _ _ nodes p sn s from' to W (wf_deep_start _ _ _ _ W Es) P Ps).
    - rewrite St. reflexivity.
  Qed.
End Whole.
