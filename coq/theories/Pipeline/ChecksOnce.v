(* C06: no check state is shown the same stage of a message twice.  Proofs. *)
From Maddy Require Import Lib.Base Pipeline.Checks.
Local Open Scope N_scope.

Definition key (cl : call) : N * stage := (snd (fst cl), snd cl).
Definition st_of (cl : call) : N := snd (fst cl).

Section Once.
  Variable script : N -> stage -> verdict.

  Record Inv (rn : runner) : Prop := {
    i_below : forall cl, In cl (r_log rn) -> st_of cl < r_next rn;
    i_seen : forall c s r, In (c, s, SRcpt r) (r_log rn) -> existsb (nn_eqb (s, r)) (r_seen rn) = true;
    i_body : forall c s, In (c, s, SBody) (r_log rn) -> existsb (N.eqb s) (r_body rn) = true;
    i_nodup : NoDup (map key (r_log rn));
    i_reg : forall c s, In (c, s) (r_states rn) -> s < r_next rn }.

  Lemma inv0 : Inv runner0.
  Proof. constructor; cbn; try (intros; contradiction). constructor. Qed.

  Lemma NoDup_snoc {A} (l : list A) x : NoDup l -> ~ In x l -> NoDup (l ++ [x]).
  Proof.
    induction 1 as [|y l Hy Hl IH]; intros Hx; cbn.
    - constructor; [intros []|constructor].
    - constructor.
      + rewrite in_app_iff. cbn. intros [H|[H|[]]]; [auto|]. subst. apply Hx. left; reflexivity.
      + apply IH. intro; apply Hx; right; assumption.
  Qed.

  Lemma nn_eqb_true a b : nn_eqb a b = true <-> a = b.
  Proof.
    unfold nn_eqb. rewrite andb_true_iff, !N.eqb_eq. destruct a, b; cbn. split; [intros [-> ->]; reflexivity|intros H; inversion H; auto].
  Qed.

  (* showing a stage to a state that has not seen it *)
  Lemma mark_inv rn c s stg :
    Inv rn -> s < r_next rn -> ~ In (s, stg) (map key (r_log rn)) -> Inv (mark rn c s stg).
  Proof.
    intros [A B C D E] Hs Hnew. constructor; unfold mark; cbn [r_log r_next r_seen r_body r_states].
    - intros cl H. apply in_app_iff in H. destruct H as [H|[H|[]]]; [auto|subst; exact Hs].
    - intros c' s' r H. apply in_app_iff in H. destruct H as [H|[H|[]]].
      + specialize (B _ _ _ H). destruct stg; try exact B. cbn [existsb]. rewrite B. apply orb_true_r.
      + inversion H; subst. cbn [existsb]. rewrite (proj2 (nn_eqb_true (s', r) (s', r)) eq_refl). reflexivity.
    - intros c' s' H. apply in_app_iff in H. destruct H as [H|[H|[]]].
      + specialize (C _ _ H). destruct stg; try exact C. cbn [existsb]. rewrite C. apply orb_true_r.
      + inversion H; subst. cbn [existsb]. rewrite N.eqb_refl. reflexivity.
    - rewrite map_app. cbn [map key fst snd]. apply NoDup_snoc; assumption.
    - exact E.
  Qed.

  Lemma skipped_false_new rn s stg :
    Inv rn -> skipped rn s stg = false ->
    match stg with SRcpt _ | SBody => True | _ => False end ->
    ~ In (s, stg) (map key (r_log rn)).
  Proof.
    intros [A B C D E] Hsk Hst Hin. apply in_map_iff in Hin. destruct Hin as [[[c s'] stg'] [Hk Hcl]].
    unfold key in Hk. cbn in Hk. inversion Hk; subst. destruct stg; try contradiction; cbn [skipped] in Hsk.
    - rewrite (B _ _ _ Hcl) in Hsk. discriminate.
    - rewrite (C _ _ Hcl) in Hsk. discriminate.
  Qed.

  (* a batch: for the connection and sender stages the states must be fresh for that stage *)
  Definition fresh_for (rn : runner) (sts : list (N * N)) (stg : stage) : Prop :=
    match stg with
    | SRcpt _ | SBody => True
    | _ => NoDup (map snd sts) /\ forall c s, In (c, s) sts -> ~ In (s, stg) (map key (r_log rn))
    end.

  Lemma batch_go_inv stg : forall sts rn rej quar rn' rej' quar',
    Inv rn -> (forall c s, In (c, s) sts -> s < r_next rn) -> fresh_for rn sts stg ->
    batch_go script sts stg rn rej quar = (rn', rej', quar') ->
    Inv rn' /\ r_next rn' = r_next rn /\ r_states rn' = r_states rn /\
    (forall k, In k (map key (r_log rn')) -> In k (map key (r_log rn)) \/ (snd k = stg /\ In (fst k) (map snd sts))).
  Proof.
    induction sts as [|[c s] rest IH]; intros rn rej quar rn' rej' quar' HI Hlt Hfr E; cbn [batch_go] in E.
    - inversion E; subst. split; [exact HI|]. split; [reflexivity|]. split; [reflexivity|]. intros k Hk; left; exact Hk.
    - assert (Hlt' : forall c0 s0, In (c0, s0) rest -> s0 < r_next rn) by (intros; eapply Hlt; right; eauto).
      destruct (skipped rn s stg) eqn:Esk.
      + destruct (IH rn rej quar rn' rej' quar' HI Hlt') as [I1 [I2 [I3 I4]]]; [|exact E|].
        * destruct stg; cbn [fresh_for] in *; try exact I; destruct Hfr as [Hn Hf]; cbn [map snd] in Hn;
            inversion Hn; subst; (split; [assumption|intros; eapply Hf; right; eauto]).
        * split; [exact I1|]. split; [exact I2|]. split; [exact I3|]. intros k Hk. destruct (I4 k Hk) as [H|[H1 H2]]; [left; exact H|right; split; [exact H1|right; exact H2]].
      + assert (Hnew : ~ In (s, stg) (map key (r_log rn))).
        { destruct stg; try (apply skipped_false_new; [exact HI|exact Esk|exact I]);
            cbn [fresh_for] in Hfr; destruct Hfr as [_ Hf]; eapply Hf; left; reflexivity. }
        assert (HI' : Inv (mark rn c s stg)) by (apply mark_inv; [exact HI|eapply Hlt; left; reflexivity|exact Hnew]).
        destruct (IH (mark rn c s stg) (rej || is_reject (script c stg))%bool (quar || is_quar (script c stg))%bool rn' rej' quar' HI') as [I1 [I2 [I3 I4]]]; [exact Hlt'| |exact E|].
        * destruct stg; cbn [fresh_for] in *; try exact I; destruct Hfr as [Hn Hf]; cbn [map snd] in Hn;
            inversion Hn as [|? ? Hs1 Hn']; subst; (split; [exact Hn'|]); intros c0 s0 H0;
            unfold mark; cbn [r_log]; rewrite map_app, in_app_iff; cbn [map key fst snd In];
            (intros [H|[H|[]]]; [eapply Hf; [right; exact H0|exact H]|]); inversion H; subst;
            apply Hs1; apply in_map_iff; exists (c0, s0); auto.
        * split; [exact I1|]. split; [exact I2|]. split; [exact I3|]. intros k Hk. destruct (I4 k Hk) as [H|[H1 H2]].
          -- unfold mark in H. cbn [r_log] in H. rewrite map_app, in_app_iff in H. cbn [map key fst snd In] in H.
             destruct H as [H|[H|[]]]; [left; exact H|]. subst k. right. split; [reflexivity|left; reflexivity].
          -- right. split; [exact H1|right; exact H2].
  Qed.

  (* what a runner operation may do: keep the invariant, never lower the state counter *)
  Definition Ext (rn rn' : runner) : Prop := Inv rn' /\ r_next rn <= r_next rn'.

  Lemma set_quar_inv rn q : Inv rn -> Inv (set_quar rn q).
  Proof. intros [A B C D E]. constructor; assumption. Qed.

  Lemma batch_inv sts stg rn rn' rej :
    Inv rn -> (forall c s, In (c, s) sts -> s < r_next rn) -> fresh_for rn sts stg ->
    batch script sts stg rn = (rn', rej) ->
    Inv rn' /\ r_next rn' = r_next rn /\ r_states rn' = r_states rn /\
    (forall k, In k (map key (r_log rn')) -> In k (map key (r_log rn)) \/ (snd k = stg /\ In (fst k) (map snd sts))).
  Proof.
    intros HI Hlt Hfr E. unfold batch in E.
    destruct (batch_go script sts stg rn false false) as [[rn1 rj] q] eqn:Eb.
    destruct (batch_go_inv stg sts rn false false rn1 rj q HI Hlt Hfr Eb) as [I1 [I2 [I3 I4]]].
    destruct rj; inversion E; subst; [auto|].
    split; [apply set_quar_inv; exact I1|]. cbn [set_quar r_next r_states r_log]. auto.
  Qed.

  Lemma replay_inv sts : forall rcpts rn rn' b,
    Inv rn -> (forall c s, In (c, s) sts -> s < r_next rn) ->
    replay script sts rcpts rn = (rn', b) ->
    Inv rn' /\ r_next rn' = r_next rn /\ r_states rn' = r_states rn.
  Proof.
    induction rcpts as [|r rest IH]; intros rn rn' b HI Hlt E; cbn [replay] in E.
    - inversion E; subst. auto.
    - destruct (batch script sts (SRcpt r) rn) as [rn1 rj] eqn:Eb.
      destruct (batch_inv sts (SRcpt r) rn rn1 rj HI Hlt I Eb) as [I1 [I2 [I3 _]]].
      destruct rj; [inversion E; subst; auto|].
      destruct (IH rn1 rn' b I1) as [J1 [J2 J3]]; [intros; rewrite I2; eauto|exact E|].
      split; [exact J1|]. split; congruence.
  Qed.

  Lemma collect_spec : forall checks reg next sts news n,
    (forall c s, In (c, s) reg -> s < next) ->
    collect checks reg next = (sts, news, n) ->
    next <= n /\ (forall c s, In (c, s) sts -> s < n) /\
    (forall c s, In (c, s) news -> next <= s < n) /\ NoDup (map snd news).
  Proof.
    induction checks as [|c rest IH]; intros reg next sts news n Hreg E; cbn [collect] in E.
    - inversion E; subst. repeat split; try lia; try (intros; contradiction). constructor.
    - destruct (alookup N.eqb c reg) as [s|] eqn:Ea.
      + destruct (collect rest reg next) as [[sts0 news0] n0] eqn:Ec. inversion E; subst.
        destruct (IH _ _ _ _ _ Hreg Ec) as [H1 [H2 [H3 H4]]].
        split; [exact H1|]. split; [|split; assumption].
        intros c0 s0 [H|H]; [|eauto]. inversion H; subst.
        assert (In (c0, s0) reg).
        { clear -Ea. induction reg as [|[k v] reg IHr]; [discriminate|]. cbn [alookup] in Ea.
          destruct (N.eqb_spec c0 k) as [->|Hne]; [inversion Ea; left; reflexivity|right; auto]. }
        specialize (Hreg _ _ H0). lia.
      + destruct (collect rest reg (next + 1)) as [[sts0 news0] n0] eqn:Ec. inversion E; subst.
        assert (Hreg' : forall c0 s0, In (c0, s0) reg -> s0 < next + 1) by (intros c0 s0 H; specialize (Hreg _ _ H); lia).
        destruct (IH _ _ _ _ _ Hreg' Ec) as [H1 [H2 [H3 H4]]].
        split; [lia|]. split; [|split].
        * intros c0 s0 [H|H]; [inversion H; subst; lia|eauto].
        * intros c0 s0 [H|H]; [inversion H; subst; lia|]. specialize (H3 _ _ H). lia.
        * cbn [map snd]. constructor; [|exact H4]. intro H. apply in_map_iff in H.
          destruct H as [[c1 s1] [Es H]]. cbn in Es. subst s1. specialize (H3 _ _ H). lia.
  Qed.

  Lemma with_next_inv rn n : Inv rn -> r_next rn <= n -> Inv (with_next rn n).
  Proof.
    intros [A B C D E] Hn. constructor; cbn [with_next r_log r_next r_seen r_body r_states]; try assumption.
    - intros cl H. specialize (A cl H). lia.
    - intros c s H. specialize (E c s H). lia.
  Qed.
  Lemma register_inv rn news : Inv rn -> (forall c s, In (c, s) news -> s < r_next rn) -> Inv (register rn news).
  Proof.
    intros [A B C D E] Hn. constructor; cbn [register r_log r_next r_seen r_body r_states]; try assumption.
    intros c s H. apply in_app_iff in H. destruct H as [H|H]; [eauto|eauto].
  Qed.

  Lemma check_states_inv checks rn rn' o :
    Inv rn -> check_states script checks rn = (rn', o) ->
    Inv rn' /\ r_next rn <= r_next rn' /\
    (forall sts, o = Some sts -> forall c s, In (c, s) sts -> s < r_next rn').
  Proof.
    intros HI E. unfold check_states in E.
    destruct (collect checks (r_states rn) (r_next rn)) as [[sts news] n] eqn:Ec.
    destruct (collect_spec _ _ _ _ _ _ (i_reg rn HI) Ec) as [C1 [C2 [C3 C4]]].
    pose proof (with_next_inv rn n HI C1) as HI1.
    remember (with_next rn n) as rn1 eqn:Ern1.
    assert (Hn1 : r_next rn1 = n) by (rewrite Ern1; reflexivity).
    assert (Hs1 : r_states rn1 = r_states rn) by (rewrite Ern1; reflexivity).
    assert (Hl1 : r_log rn1 = r_log rn) by (rewrite Ern1; reflexivity).
    assert (Hf1 : r_from rn1 = r_from rn) by (rewrite Ern1; reflexivity).
    clear Ern1.
    destruct news as [|nw news'].
    - inversion E; subst rn' o. split; [exact HI1|]. split; [rewrite Hn1; exact C1|].
      intros sts0 Hs c s Hin. inversion Hs; subst sts0. rewrite Hn1. eauto.
    - remember (nw :: news') as news eqn:Enews. clear Enews.
      assert (Hnews_lt : forall c s, In (c, s) news -> s < r_next rn1) by (intros c s H; rewrite Hn1; apply (C3 _ _ H)).
      (* the states created now have not seen anything *)
      assert (Hold : forall c s stg, In (c, s) news -> ~ In (s, stg) (map key (r_log rn))).
      { intros c s stg Hin Hk. apply in_map_iff in Hk. destruct Hk as [cl [Ek Hcl]].
        pose proof (i_below rn HI cl Hcl) as Hb. unfold key in Ek. inversion Ek. unfold st_of in Hb.
        specialize (C3 _ _ Hin). lia. }
      assert (AFTER : forall rn2, Inv rn2 -> r_next rn2 = n -> r_states rn2 = r_states rn ->
                 forall rn3 o3,
                 (match replay script sts (r_checked rn2) rn2 with
                  | (rn3, true) => (rn3, None)
                  | (rn3, false) => (register rn3 news, Some sts)
                  end) = (rn3, o3) ->
                 Inv rn3 /\ r_next rn <= r_next rn3 /\
                 (forall sts0, o3 = Some sts0 -> forall c s, In (c, s) sts0 -> s < r_next rn3)).
      { intros rn2 I2 N2 S2 rn3 o3 E3.
        destruct (replay script sts (r_checked rn2) rn2) as [rn4 b] eqn:Er.
        destruct (replay_inv sts (r_checked rn2) rn2 rn4 b I2) as [J1 [J2 J3]]; [intros; rewrite N2; eauto|exact Er|].
        destruct b; inversion E3; subst rn3 o3.
        - split; [exact J1|]. split; [lia|]. intros sts0 Hs; discriminate.
        - split; [apply register_inv; [exact J1|intros c s H; rewrite J2, N2; apply (C3 _ _ H)]|].
          cbn [register r_next]. split; [lia|]. intros sts0 Hs c s Hin. inversion Hs; subst sts0. rewrite J2, N2. eauto. }
      destruct (r_from rn1) eqn:Ef.
      + destruct (batch script news SConn rn1) as [rn2 rj] eqn:Eb1.
        destruct (batch_inv news SConn rn1 rn2 rj HI1 Hnews_lt) as [K1 [K2 [K3 K4]]]; [|exact Eb1|].
        { split; [exact C4|]. intros c s H. rewrite Hl1. exact (Hold c s SConn H). }
        destruct rj.
        * inversion E; subst rn' o. split; [exact K1|]. split; [rewrite K2, Hn1; exact C1|]. intros sts0 Hs; discriminate.
        * destruct (batch script news SSender rn2) as [rn3 rj2] eqn:Eb2.
          destruct (batch_inv news SSender rn2 rn3 rj2 K1) as [L1 [L2 [L3 L4]]]; [intros; rewrite K2; eauto| |exact Eb2|].
          { split; [exact C4|]. intros c s H Hk. destruct (K4 _ Hk) as [Ho|[Hs _]].
            - rewrite Hl1 in Ho. exact (Hold c s SSender H Ho).
            - cbn in Hs. discriminate. }
          destruct rj2.
          -- inversion E; subst rn' o. split; [exact L1|]. split; [rewrite L2, K2, Hn1; exact C1|]. intros sts0 Hs; discriminate.
          -- eapply (AFTER rn3 L1); [rewrite L2, K2; exact Hn1|rewrite L3, K3; exact Hs1|exact E].
      + eapply (AFTER rn1 HI1 Hn1); [exact Hs1|exact E].
  Qed.

  Lemma set_from_inv rn : Inv rn -> Inv (set_from rn).
  Proof. intros [A B C D E]. constructor; assumption. Qed.
  Lemma add_checked_inv rn r : Inv rn -> Inv (add_checked rn r).
  Proof. intros [A B C D E]. constructor; assumption. Qed.

  Lemma check_conn_sender_inv checks rn rn' ok :
    Inv rn -> check_conn_sender script checks rn = (rn', ok) -> Inv rn'.
  Proof.
    intros HI E. unfold check_conn_sender in E.
    destruct (check_states script checks (set_from rn)) as [rn1 o] eqn:Ec.
    destruct (check_states_inv checks _ rn1 o (set_from_inv rn HI) Ec) as [I1 _].
    destruct o; inversion E; subst; exact I1.
  Qed.
  Lemma check_rcpt_inv checks r rn rn' ok :
    Inv rn -> check_rcpt script checks r rn = (rn', ok) -> Inv rn'.
  Proof.
    intros HI E. unfold check_rcpt in E.
    destruct (check_states script checks rn) as [rn1 o] eqn:Ec.
    destruct (check_states_inv checks rn rn1 o HI Ec) as [I1 [_ I3]].
    destruct o as [sts|]; [|inversion E; subst; exact I1].
    destruct (batch script sts (SRcpt r) rn1) as [rn2 rj] eqn:Eb.
    destruct (batch_inv sts (SRcpt r) rn1 rn2 rj I1 (I3 sts eq_refl) I Eb) as [J1 _].
    inversion E; subst. apply add_checked_inv. exact J1.
  Qed.
  Lemma check_body_inv checks rn rn' ok :
    Inv rn -> check_body script checks rn = (rn', ok) -> Inv rn'.
  Proof.
    intros HI E. unfold check_body in E.
    destruct (check_states script checks rn) as [rn1 o] eqn:Ec.
    destruct (check_states_inv checks rn rn1 o HI Ec) as [I1 [_ I3]].
    destruct o as [sts|]; [|inversion E; subst; exact I1].
    destruct (batch script sts SBody rn1) as [rn2 rj] eqn:Eb.
    destruct (batch_inv sts SBody rn1 rn2 rj I1 (I3 sts eq_refl) I Eb) as [J1 _].
    inversion E; subst. exact J1.
  Qed.

  Lemma start_inv cfg s ok : start script cfg = (s, ok) -> Inv (s_rn s).
  Proof.
    unfold start. intros E.
    destruct (check_conn_sender script (g_checks cfg) runner0) as [rn b] eqn:E1.
    pose proof (check_conn_sender_inv _ _ _ _ inv0 E1) as I1.
    destruct b; [|inversion E; subst; exact I1].
    destruct (check_conn_sender script (s_checks cfg) rn) as [rn' b'] eqn:E2.
    pose proof (check_conn_sender_inv _ _ _ _ I1 E2) as I2. inversion E; subst. exact I2.
  Qed.

  Lemma add_rcpt_inv cfg s r b s' ok :
    Inv (s_rn s) -> add_rcpt script cfg s r b = (s', ok) -> Inv (s_rn s').
  Proof.
    intros HI E. unfold add_rcpt in E.
    destruct (check_rcpt script (g_checks cfg) r (s_rn s)) as [rn b1] eqn:E1.
    pose proof (check_rcpt_inv _ _ _ _ _ HI E1) as I1.
    destruct b1; [|inversion E; subst; exact I1].
    destruct (check_rcpt script (s_checks cfg) r rn) as [rn1 b2] eqn:E2.
    pose proof (check_rcpt_inv _ _ _ _ _ I1 E2) as I2.
    destruct b2; [|inversion E; subst; exact I2].
    destruct (check_rcpt script (block_checks cfg b) r rn1) as [rn2 b3] eqn:E3.
    pose proof (check_rcpt_inv _ _ _ _ _ I2 E3) as I3.
    destruct b3; [destruct (existsb (N.eqb r) (mod_fail cfg))|]; inversion E; subst; exact I3.
  Qed.

  Lemma body_blocks_inv cfg : forall bs rn rn' ok,
    Inv rn -> body_blocks script cfg bs rn = (rn', ok) -> Inv rn'.
  Proof.
    induction bs as [|b rest IH]; intros rn rn' ok HI E; cbn [body_blocks] in E.
    - inversion E; subst. exact HI.
    - destruct (check_body script (block_checks cfg b) rn) as [rn1 b1] eqn:E1.
      pose proof (check_body_inv _ _ _ _ HI E1) as I1.
      destruct b1; [eapply IH; eauto|inversion E; subst; exact I1].
  Qed.

  Lemma body_inv cfg s rn res : Inv (s_rn s) -> body script cfg s = (rn, res) -> Inv rn.
  Proof.
    intros HI E. unfold body in E.
    destruct (check_body script (g_checks cfg) (s_rn s)) as [rn0 b0] eqn:E0.
    pose proof (check_body_inv _ _ _ _ HI E0) as I0.
    destruct b0; [|inversion E; subst; exact I0].
    destruct (check_body script (s_checks cfg) rn0) as [rn1 b1] eqn:E1.
    pose proof (check_body_inv _ _ _ _ I0 E1) as I1.
    destruct b1; [|inversion E; subst; exact I1].
    destruct (body_blocks script cfg (s_used s) rn1) as [rn2 b2] eqn:E2.
    pose proof (body_blocks_inv cfg _ _ _ _ I1 E2) as I2.
    destruct b2; [|inversion E; subst; exact I2].
    destruct (dmarc cfg =? 2); inversion E; subst; exact I2.
  Qed.

  Lemma rcpts_go_inv cfg : forall l s s' oks,
    Inv (s_rn s) -> rcpts_go script cfg s l = (s', oks) -> Inv (s_rn s').
  Proof.
    induction l as [|[r b] rest IH]; intros s s' oks HI E; cbn [rcpts_go] in E.
    - inversion E; subst. exact HI.
    - destruct (add_rcpt script cfg s r b) as [s1 ok] eqn:E1.
      pose proof (add_rcpt_inv _ _ _ _ _ _ HI E1) as I1.
      destruct (rcpts_go script cfg s1 rest) as [s2 oks2] eqn:E2. inversion E; subst.
      eapply IH; eauto.
  Qed.

  (* No check state is shown the same stage (the connection, the sender, a given recipient, the
     body) twice in one message - for every script of verdicts, every configuration of global,
     per-sender and per-block checks, every list of recipients, on both body paths. *)
  Theorem no_state_sees_a_stage_twice cfg l :
    NoDup (map key (o_log (run_message script cfg l))).
  Proof.
    unfold run_message.
    destruct (start script cfg) as [s ok] eqn:Es. pose proof (start_inv cfg s ok Es) as I0.
    destruct ok; [|cbn [o_log]; exact (i_nodup _ I0)].
    destruct (rcpts_go script cfg s l) as [s' oks] eqn:Er.
    pose proof (rcpts_go_inv cfg l s s' oks I0 Er) as I1.
    destruct (existsb (fun b => b) oks); [|cbn [o_log]; exact (i_nodup _ I1)].
    destruct (body script cfg s') as [rn res] eqn:Eb.
    pose proof (body_inv cfg s' rn res I1 Eb) as I2. cbn [o_log]. exact (i_nodup _ I2).
  Qed.
End Once.

(* in the form the monitor uses (clause 6 of ChecksCorr) *)
From Maddy Require Import Pipeline.ChecksCorr.

Lemma stage_eqb_eq a b : stage_eqb a b = true <-> a = b.
Proof.
  destruct a, b; cbn; try (split; [discriminate|intros H; discriminate]); try tauto.
  rewrite N.eqb_eq. split; [intros ->; reflexivity|intros H; inversion H; reflexivity].
Qed.

Lemma nodup_calls_once (l : list call) :
  NoDup (map key l) ->
  forall s st, (length (filter (fun cl : call => N.eqb (snd (fst cl)) s && stage_eqb (snd cl) st) l) <= 1)%nat.
Proof.
  induction l as [|cl l IH]; intros Hn s st; [cbn; lia|].
  cbn [map] in Hn. inversion Hn as [|? ? Hk Hl]; subst. cbn [filter].
  destruct (N.eqb (snd (fst cl)) s && stage_eqb (snd cl) st) eqn:E; [|apply IH; exact Hl].
  apply andb_true_iff in E. destruct E as [E1 E2]. apply N.eqb_eq in E1. apply stage_eqb_eq in E2.
  assert (Hnone : filter (fun cl0 : call => N.eqb (snd (fst cl0)) s && stage_eqb (snd cl0) st) l = []).
  { destruct (filter _ l) as [|x r] eqn:Ef; [reflexivity|]. exfalso.
    assert (Hx : In x (filter (fun cl0 : call => N.eqb (snd (fst cl0)) s && stage_eqb (snd cl0) st) l)) by (rewrite Ef; left; reflexivity).
    apply filter_In in Hx. destruct Hx as [Hin Hm]. apply andb_true_iff in Hm. destruct Hm as [M1 M2].
    apply N.eqb_eq in M1. apply stage_eqb_eq in M2. apply Hk. apply in_map_iff. exists x. split; [|exact Hin].
    unfold key. rewrite M1, M2, E1, E2. reflexivity. }
  rewrite Hnone. cbn. lia.
Qed.

Theorem model_outcomes_pass_clause_6 script cfg l :
  let o := run_message script cfg l in
  forallb (fun cl : call => Nat.leb (calls_of o (snd (fst cl)) (snd cl)) 1) (o_log o) = true.
Proof.
  intros o. apply forallb_forall. intros cl _. apply Nat.leb_le. unfold calls_of.
  apply nodup_calls_once. apply no_state_sees_a_stage_twice.
Qed.
