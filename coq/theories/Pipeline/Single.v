(* C04: one recipient, one block - what the targets see. *)
From Maddy Require Import Lib.Base Pipeline.Route Pipeline.Spec Pipeline.Lemmas Pipeline.Whole.
Local Open Scope N_scope.

Section Single.
  Variable flk : str -> option str.
  Variable split_dom : str -> option str.
  Variable tbl : N -> str -> bool.
  Variable rw_s : N -> str -> option str.
  Variable rw_r : N -> str -> option (list str).

  Lemma seq_all_single {A : Type} (f : A -> outc) (x : A) : seq_all f [x] = f x.
  Proof. apply seq_all_one. Qed.

  (* a scope without rewrites of its own: the recipient goes, under each address its block's
     rewrites produce, to every target of the selected block, in order - and to nothing else *)
  Lemma add_rcpt_leaf_block f sin per d rin rper rd from to rm ids l3 :
    select_rcpt flk split_dom tbl (Src [] rin rper rd) to = SBlock (Rblk rm None (map TLeaf ids)) ->
    group_rcpt rw_r rm to = Some l3 ->
    add_rcpt flk split_dom tbl rw_s rw_r (S f) (Pipe [] sin per d) (Src [] rin rper rd) from to =
    (flat_map (fun to3 => map (fun id => (id, from, to3)) ids) l3, None).
  Proof.
    intros Sel G. cbn [add_rcpt group_rcpt group_rcpt_l map_opt_flat app].
    rewrite seq_all_one. rewrite Sel, G.
    rewrite (seq_all_ext _ (fun to3 => (map (fun id => (id, from, to3)) ids, None))).
    - apply seq_all_leaf.
    - intros to3 _. clear. induction ids as [|id ids IH]; [reflexivity|].
      cbn [map seq_all]. rewrite IH. reflexivity.
  Qed.

  (* a rejecting block: the configured reply, and no target sees the recipient *)
  Lemma add_rcpt_reject_block f sin per d rin rper rd from to rm c tg :
    select_rcpt flk split_dom tbl (Src [] rin rper rd) to = SBlock (Rblk rm (Some c) tg) ->
    add_rcpt flk split_dom tbl rw_s rw_r (S f) (Pipe [] sin per d) (Src [] rin rper rd) from to = ([], Some c).
  Proof.
    intros Sel. cbn [add_rcpt group_rcpt group_rcpt_l map_opt_flat app].
    rewrite seq_all_one, Sel. reflexivity.
  Qed.
End Single.
