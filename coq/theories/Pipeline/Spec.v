(* C04: the documented routing rules, stated directly on the directive tree (no tables are
   built): a scope's block for a key is the first *_in directive whose table has the key, else
   the first source / destination directive one of whose rules normalises to the full key, else
   the first one with a rule equal to the domain, else the default block.  Definitions only. *)
From Maddy Require Export Lib.Base Pipeline.Route.
Local Open Scope N_scope.

Section Spec.
  Variable flk : str -> option str.
  Variable dflk : str -> option str.
  Variable valid_rule : str -> bool.
  Variable split_dom : str -> option str.
  Variable tbl : N -> str -> bool.
  Variable rw_s : N -> str -> option str.
  Variable rw_r : N -> str -> option (list str).

  Notation norm_rule := (norm_rule flk dflk valid_rule).

  Definition declares (args : list str) (k : str) : bool :=
    existsb (fun r => match norm_rule r with Some k' => str_eqb k' k | None => false end) args.

  (* the children of the first directive [din] whose table contains the key *)
  Fixpoint first_in (din : dname -> bool) (nodes : list node) (k : str) : option (list node) :=
    match nodes with
    | [] => None
    | Node d _ ids _ ch :: rest =>
        if din d && match ids with [t] => tbl t k | _ => false end then Some ch else first_in din rest k
    end.
  (* the children of the first directive [drule] declaring the key *)
  Fixpoint first_rule (drule : dname -> bool) (nodes : list node) (k : str) : option (list node) :=
    match nodes with
    | [] => None
    | Node d args _ _ ch :: rest => if drule d && declares args k then Some ch else first_rule drule rest k
    end.
  Definition is_d (x : dname) (d : dname) : bool :=
    match x, d with
    | DSourceIn, DSourceIn | DSource, DSource | DDefaultSource, DDefaultSource | DDestIn, DDestIn
    | DDest, DDest | DDefaultDest, DDefaultDest | DModify, DModify | DDeliver, DDeliver
    | DReroute, DReroute | DReject, DReject => true
    | _, _ => false
    end.
  Definition handling_root (d : dname) : bool :=
    match d with DDeliver | DReroute | DDestIn | DDest | DDefaultDest | DReject => true | _ => false end.
  Definition handling_src (d : dname) : bool :=
    match d with DDeliver | DReroute | DReject => true | _ => false end.

  (* the default block: the explicit default directive, else the handling directives of the scope *)
  Definition default_of (ddef : dname -> bool) (handling : dname -> bool) (nodes : list node) : list node :=
    match flat_map (fun n => match n with Node d _ _ _ ch => if ddef d then (match ch with [] => [] | _ => [ch] end) else [] end) nodes with
    | ch :: _ => ch
    | [] => filter (fun n => match n with Node d _ _ _ _ => handling d end) nodes
    end.
  Definition mods_of (nodes : list node) : list N :=
    flat_map (fun n => match n with Node DModify _ ids _ _ => ids | _ => [] end) nodes.

  Inductive pick := PNodes (l : list node) | PFail (reply : N).

  (* documented precedence, for a scope with the given directive kinds *)
  Definition pick_block (din drule ddef handling : dname -> bool) (nodes : list node) (clean : str)
             (allow_empty : bool) : pick :=
    match first_in din nodes clean with
    | Some ch => PNodes ch
    | None =>
      match first_rule drule nodes clean with
      | Some ch => PNodes ch
      | None =>
        match split_dom clean with
        | None => if allow_empty && match clean with [] => true | _ => false end
                  then match first_rule drule nodes [] with
                       | Some ch => PNodes ch
                       | None => PNodes (default_of ddef handling nodes) end
                  else PFail 501513
        | Some dom => match first_rule drule nodes dom with
                      | Some ch => PNodes ch
                      | None => PNodes (default_of ddef handling nodes)
                      end
        end
      end
    end.

  Definition spec_start (nodes : list node) (from : str) : sel (list node * str) :=
    match group_sender rw_s (mods_of nodes) from with
    | None => SFail 999
    | Some from1 =>
      match (match from1 with [] => Some [] | _ => flk from1 end) with
      | None => SFail 501517
      | Some clean =>
        match pick_block (is_d DSourceIn) (is_d DSource) (is_d DDefaultSource) handling_root nodes clean true with
        | PFail r => SFail r
        | PNodes src_nodes =>
          match group_sender rw_s (mods_of src_nodes) from1 with
          | None => SFail 999
          | Some from2 => SBlock (src_nodes, from2)
          end
        end
      end
    end.

  (* the reply of a block: its last reject directive *)
  Definition reject_of (nodes : list node) : option N :=
    fold_left (fun acc n => match n with Node DReject _ ids _ _ => parse_reject ids | _ => acc end) nodes None.

  Fixpoint spec_add_rcpt (fuel : nat) (root_nodes src_nodes : list node) (from to : str) : outc :=
    match fuel with
    | O => ([], Some 998)
    | S f =>
      match group_rcpt rw_r (mods_of root_nodes) to with
      | None => ([], Some 999)
      | Some l1 =>
        match map_opt_flat (group_rcpt rw_r (mods_of src_nodes)) l1 with
        | None => ([], Some 999)
        | Some l2 =>
          seq_all (fun to2 =>
            match flk to2 with
            | None => ([], Some 553512)
            | Some clean =>
              match pick_block (is_d DDestIn) (is_d DDest) (is_d DDefaultDest) handling_src src_nodes clean false with
              | PFail r => ([], Some r)
              | PNodes blk =>
                match reject_of blk with
                | Some c => ([], Some c)
                | None =>
                  match group_rcpt rw_r (mods_of blk) to2 with
                  | None => ([], Some 999)
                  | Some l3 =>
                    seq_all (fun to3 =>
                      seq_all (fun n =>
                        match n with
                        | Node DDeliver _ [id] _ _ => ([(id, from, to3)], None)
                        | Node DReroute _ _ _ ch =>
                            match spec_start ch from with
                            | SFail r => ([], Some r)
                            | SBlock (src', from') => spec_add_rcpt f ch src' from' to3
                            end
                        | _ => ([], None)
                        end) blk) l3
                  end
                end
              end
            end) l2
        end
      end
    end.

  Definition spec_message (fuel : nat) (nodes : list node) (from : str) (tos : list str) : option N * list outc :=
    match spec_start nodes from with
    | SFail r => (Some r, [])
    | SBlock (s, from') => (None, map (spec_add_rcpt fuel nodes s from') tos)
    end.

  (* every recipient block of the configuration decides: it delivers, reroutes or rejects *)
  Definition decides (blk : list node) : bool :=
    existsb (fun n => match n with Node d _ _ _ _ => is_d DDeliver d || is_d DReroute d || is_d DReject d end) blk.
  Fixpoint all_decided (fuel : nat) (level : nat) (nodes : list node) : bool :=
    match fuel with
    | O => false
    | S f =>
      match level with
      | O => (* root scope *)
          forallb (all_decided f 1)
            (flat_map (fun n => match n with Node d _ _ _ ch => if is_d DSourceIn d || is_d DSource d then [ch] else [] end) nodes)
          && all_decided f 1 (default_of (is_d DDefaultSource) handling_root nodes)
      | 1%nat => (* source scope *)
          forallb (all_decided f 2)
            (flat_map (fun n => match n with Node d _ _ _ ch => if is_d DDestIn d || is_d DDest d then [ch] else [] end) nodes)
          && all_decided f 2 (default_of (is_d DDefaultDest) handling_src nodes)
      | _ => (* recipient block *)
          decides nodes &&
          forallb (fun n => match n with Node DReroute _ _ _ ch => all_decided f 0 ch | _ => true end) nodes
      end
    end.
End Spec.

(* the hypothesis of the model = documented rules theorems (C04_selection_is_documented_precedence_*, C04_route_eq_spec):
   a directive without a block has no children, at every depth *)
Fixpoint wf_deepb (fuel : nat) (ns : list node) : bool :=
  match fuel with
  | O => false
  | S f => forallb (fun n => match n with Node _ _ _ blk ch => (blk || match ch with [] => true | _ => false end) && wf_deepb f ch end) ns
  end.
