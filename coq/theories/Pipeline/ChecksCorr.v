(* C06 correspondence and monitor *)
From Maddy Require Export Lib.Base Pipeline.Checks.
Local Open Scope N_scope.

Definition stab := list (N * stage * verdict).
Definition script_of (t : stab) (c : N) (st : stage) : verdict :=
  match find (fun e => (fst (fst e) =? c) && stage_eqb (snd (fst e)) st) t with
  | Some e => snd e
  | None => VNone
  end.

Inductive case :=
| CMsg (script : stab) (cfg : pcfg) (rcpts : list (N * N)) (atomic nonatomic : outcome)
| CRemote (quar : bool) (rcpts : list N) (refused : list (N * bool))
(* a recipient refused by a check and named again in the same transaction: the replies to it (first
   and repeated), and the reply to another recipient no check objects to (recorded only: a
   destination-scoped check that refuses a recipient is replayed that recipient for every later one
   of the block and refuses them too) *)
| CRepeat (replies : list bool) (other : bool).

Definition call_eqb (a b : call) : bool :=
  (fst (fst a) =? fst (fst b)) && (snd (fst a) =? snd (fst b)) && stage_eqb (snd a) (snd b).
Definition count {A : Type} (eqb : A -> A -> bool) (x : A) (l : list A) : nat := length (filter (eqb x) l).
Definition multiset_eqb {A : Type} (eqb : A -> A -> bool) (a b : list A) : bool :=
  Nat.eqb (length a) (length b) && forallb (fun x => Nat.eqb (count eqb x a) (count eqb x b)) a.

Definition deliv_eqb (a b : N * list N * bool) : bool :=
  (fst (fst a) =? fst (fst b)) && list_eqb N.eqb (snd (fst a)) (snd (fst b)) && Bool.eqb (snd a) (snd b).
Definition obody_eqb (a b : option (option (list (N * list N * bool)))) : bool :=
  match a, b with
  | None, None => true
  | Some None, Some None => true
  | Some (Some x), Some (Some y) => multiset_eqb deliv_eqb x y
  | _, _ => false
  end.

(* the call log cut at the marks: one segment per command *)
Fixpoint segments (log : list call) (marks : list nat) (pos : nat) : list (list call) :=
  match marks with
  | [] => []
  | m :: rest => firstn (m - pos) log :: segments (skipn (m - pos) log) rest m
  end.
Definition segs (o : outcome) : list (list call) := segments (o_log o) (o_marks o) 0.
Definition body_refused (o : outcome) : bool := match o_body o with Some None => true | _ => false end.
Definition not_body (cl : call) : bool := match snd cl with SBody => false | _ => true end.
(* when the body is refused the order in which destination blocks were consulted (a map
   iteration in the implementation) decides which later checks still saw the body *)
Definition norm_segs (o : outcome) : list (list call) :=
  if body_refused o then map (filter not_body) (segs o) else segs o.

Definition outcome_eqb (m o : outcome) : bool :=
  Bool.eqb (o_start m) (o_start o) && list_eqb Bool.eqb (o_rcpts m) (o_rcpts o)
  && obody_eqb (o_body m) (o_body o)
  && list_eqb (multiset_eqb call_eqb) (norm_segs m) (norm_segs o).

Definition agrees (c : case) : bool :=
  match c with
  | CMsg t cfg rcpts oa on =>
      let m := run_message (script_of t) cfg rcpts in outcome_eqb m oa && outcome_eqb m on
  | CRemote q rs refused =>
      list_eqb (fun a b => (fst a =? fst b) && Bool.eqb (snd a) (snd b)) (remote_body q rs) refused
  | CRepeat replies _ => forallb negb replies
  end.
Definition mismatches (cs : list case) : list N := find_idx (fun c => negb (agrees c)) cs.

(* ---- monitor ---- *)
Section Mon.
  Variable script : N -> stage -> verdict.
  Variable cfg : pcfg.
  Variable rcpts : list (N * N).

  Definition seg_rejects (sg : list call) : bool := existsb (fun cl : call => is_reject (script (fst (fst cl)) (snd cl))) sg.
  Definition seg_quars (sg : list call) : bool := existsb (fun cl : call => is_quar (script (fst (fst cl)) (snd cl))) sg.

  Definition body_ok (o : outcome) : option (list (N * list N * bool)) :=
    match o_body o with Some (Some d) => Some d | _ => None end.

  (* accepted flags per segment: MAIL, each RCPT, the body *)
  Definition accepted_flags (o : outcome) : list bool :=
    o_start o :: o_rcpts o ++ (match o_body o with Some (Some _) => [true] | Some None => [false] | None => [] end).

  Definition accepted_rcpts (o : outcome) : list (N * N) :=
    flat_map (fun x : (N * N) * bool => if snd x then [fst x] else []) (combine rcpts (o_rcpts o)).
  Definition used_blocks (o : outcome) : list N := map snd (accepted_rcpts o).
  Definition in_scope (o : outcome) (c : N) : list N :=       (* accepted recipients check c must see *)
    if existsb (N.eqb c) (g_checks cfg) || existsb (N.eqb c) (s_checks cfg) then map fst (accepted_rcpts o)
    else flat_map (fun rb => if existsb (N.eqb c) (block_checks cfg (snd rb)) then [fst rb] else []) (accepted_rcpts o).
  Definition applicable (o : outcome) : list N :=
    g_checks cfg ++ s_checks cfg ++ flat_map (block_checks cfg) (used_blocks o).

  Definition calls_of (o : outcome) (s : N) (st : stage) : nat :=
    length (filter (fun cl => (snd (fst cl) =? s) && stage_eqb (snd cl) st) (o_log o)).
  Definition states_of (o : outcome) (c : N) : list N :=
    flat_map (fun cl => if fst (fst cl) =? c then [snd (fst cl)] else []) (o_log o).

  Definition mon_one (o : outcome) : list N :=
    let sg := segs o in
    (* 1-3: an accepted command with a rejecting call *)
    flat_map (fun x => if snd x && seg_rejects (fst x) then [1] else []) (combine sg (accepted_flags o)) ++
    (match body_ok o with
     | None => []
     | Some d =>
       let must := existsb (fun x => snd x && seg_quars (fst x)) (combine sg (accepted_flags o)) || (dmarc cfg =? 1) in
       let any := existsb seg_quars sg || (dmarc cfg =? 1) in
       (if must && negb (forallb (fun x => snd x) d) then [4] else []) ++
       (if negb any && existsb (fun x => snd x) d then [5] else []) ++
       (if dmarc cfg =? 2 then [8] else []) ++
       (* 7: every applicable check has a state that saw every stage in its scope exactly once *)
       (if forallb (fun c =>
             existsb (fun s => Nat.eqb (calls_of o s SConn) 1 && Nat.eqb (calls_of o s SSender) 1
                               && Nat.eqb (calls_of o s SBody) 1
                               && forallb (fun r => Nat.eqb (calls_of o s (SRcpt r)) 1) (in_scope o c))
                     (states_of o c)) (applicable o)
        then [] else [7])
     end) ++
    (* 6: no state sees a stage twice *)
    (if forallb (fun cl => Nat.leb (calls_of o (snd (fst cl)) (snd cl)) 1) (o_log o) then [] else [6]).

  Definition class (o : outcome) : bool * list bool * option (option bool) :=
    (o_start o, o_rcpts o,
     match o_body o with
     | None => None
     | Some None => Some None
     | Some (Some d) => Some (Some (existsb (fun x => snd x) d))
     end).
  Definition class_eqb (a b : bool * list bool * option (option bool)) : bool :=
    Bool.eqb (fst (fst a)) (fst (fst b)) && list_eqb Bool.eqb (snd (fst a)) (snd (fst b))
    && option_eqb (option_eqb Bool.eqb) (snd a) (snd b).
End Mon.

Definition monitor (c : case) : list N :=
  match c with
  | CMsg t cfg rcpts oa on =>
      mon_one (script_of t) cfg rcpts oa ++ mon_one (script_of t) cfg rcpts on ++
      (if class_eqb (class oa) (class on) then [] else [9])
  | CRemote q rs refused => if q && negb (forallb (fun x => snd x) refused && Nat.eqb (length refused) (length rs)) then [10] else []
  | CRepeat replies _ => if forallb negb replies then [] else [1]
  end.

Definition dedup_N (l : list N) : list N :=
  fold_right (fun x acc => if existsb (N.eqb x) acc then acc else x :: acc) [] l.
Definition monitor_failures (cs : list case) : list (N * list N) :=
  let fix go (i : N) (l : list case) :=
    match l with
    | [] => []
    | c :: t => match dedup_N (monitor c) with [] => go (N.succ i) t | cl => (i, cl) :: go (N.succ i) t end
    end in go 0%N cs.

Definition tag (c : case) : N :=
  match c with
  | CMsg t cfg rcpts oa on =>
      (if o_start oa then 1 else 0)
      + (if existsb (fun b => b) (o_rcpts oa) then 2 else 0)
      + (if existsb negb (o_rcpts oa) then 4 else 0)
      + (match o_body oa with Some (Some d) => if existsb (fun x => snd x) d then 24 else 8 | Some None => 32 | None => 0 end)
      + (if existsb (fun e => match snd e with VIgnore => true | _ => false end) t then 64 else 0)
      + (if dmarc cfg =? 0 then 0 else 128)
      + (if Nat.ltb 1 (length (blocks cfg)) then 256 else 0)
  | CRemote q _ _ => 512 + (if q then 1 else 0)
  | CRepeat replies other => 1024 + N.of_nat (length replies) + (if other then 16 else 0)
  end.
Definition tags (cs : list case) : list N := map tag cs.
