From Maddy Require Import Lib.Base Pipeline.Checks.
From Coq Require Import Lia Permutation.
Local Open Scope N_scope.

Section Checks.
  Variable script : N -> stage -> verdict.

  Definition call_rej (cl : call) : bool := is_reject (script (fst (fst cl)) (snd cl)).
  Definition call_quar (cl : call) : bool := is_quar (script (fst (fst cl)) (snd cl)).

  (* [rn'] extends the call log of [rn]; none of the new calls rejected; a quarantine verdict
     among them, or an earlier one, leaves the flag set *)
  Definition ext (rn rn' : runner) : Prop :=
    exists new, r_log rn' = r_log rn ++ new /\ forallb (fun cl => negb (call_rej cl)) new = true /\
                (r_quar rn = true \/ existsb call_quar new = true -> r_quar rn' = true).

  Lemma ext_refl rn : ext rn rn.
  Proof. exists []. rewrite app_nil_r. cbn. intuition discriminate. Qed.
  Lemma ext_trans a b c : ext a b -> ext b c -> ext a c.
  Proof.
    intros (n1 & L1 & F1 & Q1) (n2 & L2 & F2 & Q2). exists (n1 ++ n2).
    rewrite L2, L1, app_assoc. split; [reflexivity|]. split; [rewrite forallb_app, F1, F2; reflexivity|].
    intros [H|H]; apply Q2; [left; apply Q1; left; exact H|].
    rewrite existsb_app in H. apply Bool.orb_true_iff in H as [H|H]; [left; apply Q1; right; exact H|right; exact H].
  Qed.

  (* weaker: the log is only extended (used for refused commands) *)
  Definition grows (rn rn' : runner) : Prop := exists new, r_log rn' = r_log rn ++ new.

  Lemma batch_go_spec sts stg : forall rn rej quar rn' rej' quar',
    batch_go script sts stg rn rej quar = (rn', rej', quar') ->
    exists new, r_log rn' = r_log rn ++ new /\ r_quar rn' = r_quar rn /\
                rej' = rej || existsb call_rej new /\ quar' = quar || existsb call_quar new.
  Proof.
    induction sts as [|[c s] rest IH]; intros rn rej quar rn' rej' quar' H; cbn in H.
    - inversion H; subst. exists []. rewrite app_nil_r, !Bool.orb_false_r. auto.
    - destruct (skipped rn s stg).
      + apply IH. exact H.
      + destruct (IH _ _ _ _ _ _ H) as (new & L & Q & R & Qu). cbn in L, Q.
        exists ((c, s, stg) :: new). rewrite L, <- app_assoc. cbn [app]. split; [reflexivity|].
        split; [exact Q|]. unfold call_rej, call_quar in *. cbn [existsb fst snd].
        rewrite R, Qu, !Bool.orb_assoc. auto.
  Qed.

  Lemma batch_accept sts stg rn rn' : batch script sts stg rn = (rn', false) -> ext rn rn'.
  Proof.
    unfold batch. destruct (batch_go script sts stg rn false false) as [[r1 rj] q] eqn:E.
    destruct (batch_go_spec _ _ _ _ _ _ _ _ E) as (new & L & Q & R & Qu). cbn in R, Qu.
    destruct rj; intro H; inversion H; subst. exists new. cbn [set_quar r_log r_quar].
    split; [exact L|]. split.
    - symmetry in R. rewrite <- (Bool.negb_involutive (existsb call_rej new)) in R.
      apply Bool.negb_false_iff in R. rewrite forallb_forall. intros x Hx.
      destruct (call_rej x) eqn:Ex; [|reflexivity].
      exfalso. assert (existsb call_rej new = true) by (apply existsb_exists; exists x; auto).
      rewrite H0 in R. discriminate.
    - rewrite Q. intros [Hq|Hq]; [rewrite Hq; reflexivity|]. rewrite Hq. apply Bool.orb_true_r.
  Qed.
  Lemma batch_grows sts stg rn rn' b : batch script sts stg rn = (rn', b) -> grows rn rn'.
  Proof.
    unfold batch. destruct (batch_go script sts stg rn false false) as [[r1 rj] q] eqn:E.
    destruct (batch_go_spec _ _ _ _ _ _ _ _ E) as (new & L & _).
    destruct rj; intro H; inversion H; subst; exists new; exact L.
  Qed.

  Lemma replay_accept sts rcpts : forall rn rn', replay script sts rcpts rn = (rn', false) -> ext rn rn'.
  Proof.
    induction rcpts as [|r rest IH]; intros rn rn' H; cbn in H.
    - inversion H; subst. apply ext_refl.
    - destruct (batch script sts (SRcpt r) rn) as [r1 [|]] eqn:E; [discriminate|].
      eapply ext_trans; [eapply batch_accept; exact E|apply IH; exact H].
  Qed.

  Lemma ext_with_next rn n : ext rn (with_next rn n).
  Proof. exists []. cbn. rewrite app_nil_r. intuition discriminate. Qed.
  Lemma ext_register rn news : ext rn (register rn news).
  Proof. exists []. cbn. rewrite app_nil_r. intuition discriminate. Qed.
  Lemma ext_set_from rn : ext rn (set_from rn).
  Proof. exists []. cbn. rewrite app_nil_r. intuition discriminate. Qed.
  Lemma ext_add_checked rn r : ext rn (add_checked rn r).
  Proof. exists []. cbn. rewrite app_nil_r. intuition discriminate. Qed.

  Lemma check_states_accept checks rn rn' sts :
    check_states script checks rn = (rn', Some sts) -> ext rn rn'.
  Proof.
    unfold check_states. destruct (collect checks (r_states rn) (r_next rn)) as [[st news] n].
    destruct news as [|nw news].
    - intro H; inversion H; subst. apply ext_with_next.
    - set (rn0 := with_next rn n). assert (E0 : ext rn rn0) by apply ext_with_next.
      destruct (r_from rn0).
      + destruct (batch script (nw :: news) SConn rn0) as [r1 [|]] eqn:E1; [discriminate|].
        destruct (batch script (nw :: news) SSender r1) as [r2 [|]] eqn:E2; [discriminate|].
        destruct (replay script st (r_checked r2) r2) as [r3 [|]] eqn:E3; [discriminate|].
        intro H; inversion H; subst.
        eapply ext_trans; [exact E0|]. eapply ext_trans; [eapply batch_accept; exact E1|].
        eapply ext_trans; [eapply batch_accept; exact E2|].
        eapply ext_trans; [eapply replay_accept; exact E3|apply ext_register].
      + destruct (replay script st (r_checked rn0) rn0) as [r3 [|]] eqn:E3; [discriminate|].
        intro H; inversion H; subst.
        eapply ext_trans; [exact E0|]. eapply ext_trans; [eapply replay_accept; exact E3|apply ext_register].
  Qed.

  Lemma check_conn_sender_accept checks rn rn' :
    check_conn_sender script checks rn = (rn', true) -> ext rn rn'.
  Proof.
    unfold check_conn_sender. destruct (check_states script checks (set_from rn)) as [r1 [sts|]] eqn:E; [|discriminate].
    intro H; inversion H; subst. eapply ext_trans; [apply ext_set_from|eapply check_states_accept; exact E].
  Qed.
  Lemma check_rcpt_accept checks r rn rn' :
    check_rcpt script checks r rn = (rn', true) -> ext rn rn'.
  Proof.
    unfold check_rcpt. destruct (check_states script checks rn) as [r1 [sts|]] eqn:E; [|discriminate].
    destruct (batch script sts (SRcpt r) r1) as [r2 [|]] eqn:E2; [discriminate|].
    intro H; inversion H; subst.
    eapply ext_trans; [eapply check_states_accept; exact E|].
    eapply ext_trans; [eapply batch_accept; exact E2|apply ext_add_checked].
  Qed.
  Lemma check_body_accept checks rn rn' :
    check_body script checks rn = (rn', true) -> ext rn rn'.
  Proof.
    unfold check_body. destruct (check_states script checks rn) as [r1 [sts|]] eqn:E; [|discriminate].
    destruct (batch script sts SBody r1) as [r2 [|]] eqn:E2; [discriminate|].
    intro H; inversion H; subst.
    eapply ext_trans; [eapply check_states_accept; exact E|eapply batch_accept; exact E2].
  Qed.

  Lemma start_accept cfg s : start script cfg = (s, true) -> ext runner0 (s_rn s).
  Proof.
    unfold start. destruct (check_conn_sender script (g_checks cfg) runner0) as [r1 [|]] eqn:E1; [|discriminate].
    destruct (check_conn_sender script (s_checks cfg) r1) as [r2 ok] eqn:E2.
    intro H; inversion H; subst. cbn.
    eapply ext_trans; [eapply check_conn_sender_accept; exact E1|eapply check_conn_sender_accept; exact E2].
  Qed.
  Lemma add_rcpt_accept cfg s r b s' :
    add_rcpt script cfg s r b = (s', true) -> ext (s_rn s) (s_rn s').
  Proof.
    unfold add_rcpt. destruct (check_rcpt script (g_checks cfg) r (s_rn s)) as [r1 [|]] eqn:E1; [|discriminate].
    destruct (check_rcpt script (s_checks cfg) r r1) as [r2 [|]] eqn:E2; [|discriminate].
    destruct (check_rcpt script (block_checks cfg b) r r2) as [r3 [|]] eqn:E3; [|discriminate].
    destruct (existsb (N.eqb r) (mod_fail cfg)); [discriminate|].
    intro H; inversion H; subst. cbn.
    eapply ext_trans; [eapply check_rcpt_accept; exact E1|].
    eapply ext_trans; [eapply check_rcpt_accept; exact E2|eapply check_rcpt_accept; exact E3].
  Qed.
  Lemma body_blocks_accept cfg bs : forall rn rn', body_blocks script cfg bs rn = (rn', true) -> ext rn rn'.
  Proof.
    induction bs as [|b rest IH]; intros rn rn' H; cbn in H.
    - inversion H; subst. apply ext_refl.
    - destruct (check_body script (block_checks cfg b) rn) as [r1 [|]] eqn:E; [|discriminate].
      eapply ext_trans; [eapply check_body_accept; exact E|apply IH; exact H].
  Qed.

  (* the body stage: accepted only if no call made for it rejected; every target then sees the
     same flag, set when a check quarantined in an accepted command or the DMARC policy says so *)
  Lemma body_accept cfg s rn d :
    body script cfg s = (rn, Some d) ->
    ext (s_rn s) rn /\ dmarc cfg <> 2 /\
    d = map (fun x => (fst x, snd x, r_quar rn || (dmarc cfg =? 1))) (s_deliv s).
  Proof.
    unfold body. destruct (check_body script (g_checks cfg) (s_rn s)) as [r1 [|]] eqn:E1; [|discriminate].
    destruct (check_body script (s_checks cfg) r1) as [r2 [|]] eqn:E2; [|discriminate].
    destruct (body_blocks script cfg (s_used s) r2) as [r3 [|]] eqn:E3; [|discriminate].
    destruct (dmarc cfg =? 2) eqn:Ed; [discriminate|].
    intro H; inversion H; subst. split; [|split; [apply N.eqb_neq; exact Ed|reflexivity]].
    eapply ext_trans; [eapply check_body_accept; exact E1|].
    eapply ext_trans; [eapply check_body_accept; exact E2|eapply body_blocks_accept; exact E3].
  Qed.

  (* ---- the verdict of a stage does not depend on the completion order ---- *)
  Definition active (rn : runner) (stg : stage) (cs : N * N) : bool := negb (skipped rn (snd cs) stg).

  Lemma skipped_mark_other rn c s stg s' : s' <> s -> skipped (mark rn c s stg) s' stg = skipped rn s' stg.
  Proof.
    intro Hne. unfold skipped, mark. destruct stg; cbn; try reflexivity.
    - unfold nn_eqb at 1. cbn. destruct (s' =? s) eqn:E; [apply N.eqb_eq in E; contradiction|reflexivity].
    - destruct (s' =? s) eqn:E; [apply N.eqb_eq in E; contradiction|reflexivity].
  Qed.

  Lemma existsb_ext_in' {A : Type} (f g : A -> bool) (l : list A) :
    (forall x, In x l -> f x = g x) -> existsb f l = existsb g l.
  Proof.
    induction l as [|x l IH]; intro H; [reflexivity|]. cbn. rewrite (H x (or_introl eq_refl)).
    f_equal. apply IH. intros y Hy. apply H. right. exact Hy.
  Qed.
  Lemma existsb_perm {A : Type} (f : A -> bool) (l l' : list A) : Permutation l l' -> existsb f l = existsb f l'.
  Proof.
    induction 1 as [|x l l' _ IH|x y l|l l' l'' _ IH1 _ IH2]; cbn.
    - reflexivity.
    - rewrite IH. reflexivity.
    - destruct (f x), (f y); reflexivity.
    - congruence.
  Qed.

  Lemma batch_go_flags sts stg : forall rn rej quar,
    NoDup (map snd sts) ->
    snd (fst (batch_go script sts stg rn rej quar)) =
      rej || existsb (fun cs => active rn stg cs && is_reject (script (fst cs) stg)) sts /\
    snd (batch_go script sts stg rn rej quar) =
      quar || existsb (fun cs => active rn stg cs && is_quar (script (fst cs) stg)) sts.
  Proof.
    induction sts as [|[c s] rest IH]; intros rn rej quar Hnd; cbn [batch_go existsb].
    - rewrite !Bool.orb_false_r. split; reflexivity.
    - inversion Hnd as [|x l Hnin Hnd']; subst. unfold active at 1 3. cbn [fst snd].
      destruct (skipped rn s stg) eqn:Es; cbn [negb andb orb].
      + apply IH. exact Hnd'.
      + destruct (IH (mark rn c s stg) (rej || is_reject (script c stg)) (quar || is_quar (script c stg)) Hnd') as [H1 H2].
        rewrite H1, H2. rewrite <- !Bool.orb_assoc.
        assert (Ex : forall f, existsb (fun cs => active (mark rn c s stg) stg cs && f cs) rest =
                               existsb (fun cs => active rn stg cs && f cs) rest).
        { intro f. apply existsb_ext_in'. intros [c' s'] Hin. unfold active. cbn [snd].
          rewrite skipped_mark_other; [reflexivity|].
          intro Heq. subst s'. apply Hnin. apply in_map_iff. exists (c', s). split; [reflexivity|exact Hin]. }
        rewrite (Ex (fun cs => is_reject (script (fst cs) stg))), (Ex (fun cs => is_quar (script (fst cs) stg))).
        split; reflexivity.
  Qed.

  Lemma batch_go_quar_unchanged sts stg rn rej quar :
    r_quar (fst (fst (batch_go script sts stg rn rej quar))) = r_quar rn.
  Proof.
    destruct (batch_go script sts stg rn rej quar) as [[r1 rj] q] eqn:E.
    destruct (batch_go_spec _ _ _ _ _ _ _ _ E) as (new & _ & Q & _). exact Q.
  Qed.

  (* one stage over a set of states: whether the command is refused and whether the message
     becomes quarantined are the same for every order in which the checks complete *)
  Lemma batch_order_independent sts sts' stg rn :
    Permutation sts sts' -> NoDup (map snd sts) ->
    snd (batch script sts stg rn) = snd (batch script sts' stg rn) /\
    r_quar (fst (batch script sts stg rn)) = r_quar (fst (batch script sts' stg rn)).
  Proof.
    intros Hp Hnd.
    assert (Hnd' : NoDup (map snd sts')) by (eapply Permutation_NoDup; [apply Permutation_map; exact Hp|exact Hnd]).
    destruct (batch_go_flags sts stg rn false false Hnd) as [R1 Q1].
    destruct (batch_go_flags sts' stg rn false false Hnd') as [R2 Q2].
    rewrite (existsb_perm _ _ _ Hp) in R1. rewrite (existsb_perm _ _ _ Hp) in Q1. cbn [orb] in *.
    assert (G1 := batch_go_quar_unchanged sts stg rn false false).
    assert (G2 := batch_go_quar_unchanged sts' stg rn false false).
    unfold batch.
    destruct (batch_go script sts stg rn false false) as [[r1 rj1] q1].
    destruct (batch_go script sts' stg rn false false) as [[r2 rj2] q2].
    cbn [fst snd] in *. subst rj1 q1. rewrite <- R2, <- Q2.
    destruct rj2; cbn [fst snd set_quar r_quar]; [split; [reflexivity|congruence]|].
    split; [reflexivity|]. rewrite G1, G2. reflexivity.
  Qed.

  (* a state whose check rejects the stage, and which has not seen it yet, refuses the command *)
  Lemma batch_rejects sts stg rn c s :
    NoDup (map snd sts) -> In (c, s) sts -> skipped rn s stg = false -> script c stg = VReject ->
    snd (batch script sts stg rn) = true.
  Proof.
    intros Hnd Hin Hs Hv. destruct (batch_go_flags sts stg rn false false Hnd) as [R _].
    unfold batch. destruct (batch_go script sts stg rn false false) as [[r1 rj] q]. cbn [fst snd orb] in R.
    assert (rj = true).
    { rewrite R. apply existsb_exists. exists (c, s). split; [exact Hin|]. unfold active. cbn. rewrite Hs, Hv. reflexivity. }
    subst rj. rewrite H. reflexivity.
  Qed.
End Checks.

(* ---- 'ignore' changes nothing ---- *)
Section Ignore.
  Variable s1 s2 : N -> stage -> verdict.
  Hypothesis same_rej : forall c st, is_reject (s1 c st) = is_reject (s2 c st).
  Hypothesis same_quar : forall c st, is_quar (s1 c st) = is_quar (s2 c st).

  Lemma batch_go_same sts stg : forall rn rej quar, batch_go s1 sts stg rn rej quar = batch_go s2 sts stg rn rej quar.
  Proof.
    induction sts as [|[c s] rest IH]; intros; cbn; [reflexivity|].
    destruct (skipped rn s stg); [apply IH|]. rewrite same_rej, same_quar. apply IH.
  Qed.
  Lemma batch_same sts stg rn : batch s1 sts stg rn = batch s2 sts stg rn.
  Proof. unfold batch. rewrite batch_go_same. reflexivity. Qed.
  Lemma replay_same sts rcpts : forall rn, replay s1 sts rcpts rn = replay s2 sts rcpts rn.
  Proof.
    induction rcpts as [|r rest IH]; intro rn; cbn; [reflexivity|]. rewrite batch_same.
    destruct (batch s2 sts (SRcpt r) rn) as [r1 [|]]; [reflexivity|apply IH].
  Qed.
  Lemma check_states_same checks rn : check_states s1 checks rn = check_states s2 checks rn.
  Proof.
    unfold check_states. destruct (collect checks (r_states rn) (r_next rn)) as [[st news] n].
    destruct news; [reflexivity|]. rewrite !batch_same.
    destruct (r_from (with_next rn n)).
    - destruct (batch s2 (p :: news) SConn (with_next rn n)) as [r1 [|]]; [reflexivity|].
      rewrite batch_same. destruct (batch s2 (p :: news) SSender r1) as [r2 [|]]; [reflexivity|].
      rewrite replay_same. reflexivity.
    - rewrite replay_same. reflexivity.
  Qed.
  Lemma check_rcpt_same checks r rn : check_rcpt s1 checks r rn = check_rcpt s2 checks r rn.
  Proof. unfold check_rcpt. rewrite check_states_same. destruct (check_states s2 checks rn) as [r1 [sts|]]; [rewrite batch_same|]; reflexivity. Qed.
  Lemma check_body_same checks rn : check_body s1 checks rn = check_body s2 checks rn.
  Proof. unfold check_body. rewrite check_states_same. destruct (check_states s2 checks rn) as [r1 [sts|]]; [rewrite batch_same|]; reflexivity. Qed.
  Lemma check_conn_sender_same checks rn : check_conn_sender s1 checks rn = check_conn_sender s2 checks rn.
  Proof. unfold check_conn_sender. rewrite check_states_same. reflexivity. Qed.
  Lemma start_same cfg : start s1 cfg = start s2 cfg.
  Proof. unfold start. rewrite !check_conn_sender_same. destruct (check_conn_sender s2 (g_checks cfg) runner0) as [r1 [|]]; [rewrite check_conn_sender_same|]; reflexivity. Qed.
  Lemma add_rcpt_same cfg s r b : add_rcpt s1 cfg s r b = add_rcpt s2 cfg s r b.
  Proof.
    unfold add_rcpt. rewrite check_rcpt_same. destruct (check_rcpt s2 (g_checks cfg) r (s_rn s)) as [r1 [|]]; [|reflexivity].
    rewrite check_rcpt_same. destruct (check_rcpt s2 (s_checks cfg) r r1) as [r2 [|]]; [|reflexivity].
    rewrite check_rcpt_same. reflexivity.
  Qed.
  Lemma body_blocks_same cfg bs : forall rn, body_blocks s1 cfg bs rn = body_blocks s2 cfg bs rn.
  Proof.
    induction bs as [|b rest IH]; intro rn; cbn; [reflexivity|]. rewrite check_body_same.
    destruct (check_body s2 (block_checks cfg b) rn) as [r1 [|]]; [apply IH|reflexivity].
  Qed.
  Lemma body_same cfg s : body s1 cfg s = body s2 cfg s.
  Proof.
    unfold body. rewrite check_body_same. destruct (check_body s2 (g_checks cfg) (s_rn s)) as [r1 [|]]; [|reflexivity].
    rewrite check_body_same. destruct (check_body s2 (s_checks cfg) r1) as [r2 [|]]; [|reflexivity].
    rewrite body_blocks_same. reflexivity.
  Qed.
  Lemma rcpts_go_same cfg l : forall s, rcpts_go s1 cfg s l = rcpts_go s2 cfg s l.
  Proof.
    induction l as [|[r b] rest IH]; intro s; cbn; [reflexivity|]. rewrite add_rcpt_same.
    destruct (add_rcpt s2 cfg s r b) as [s' ok]. rewrite IH. reflexivity.
  Qed.
  Lemma rcpts_marks_same cfg l : forall s, rcpts_marks s1 cfg s l = rcpts_marks s2 cfg s l.
  Proof.
    induction l as [|[r b] rest IH]; intro s; cbn; [reflexivity|]. rewrite add_rcpt_same, IH. reflexivity.
  Qed.
  Lemma run_message_same cfg l : run_message s1 cfg l = run_message s2 cfg l.
  Proof.
    unfold run_message. rewrite start_same. destruct (start s2 cfg) as [s [|]]; [|reflexivity].
    rewrite rcpts_go_same, rcpts_marks_same. destruct (rcpts_go s2 cfg s l) as [s' oks].
    destruct (existsb (fun b => b) oks); [rewrite body_same|]; reflexivity.
  Qed.
End Ignore.
