(* C04: the block a parsed scope selects is the block the documented precedence picks on the
   directive tree as written (Spec.pick_block) - tables, full key, domain, default - for every
   configuration the parser accepts.  Lemmas only; the statements are in Props/C04.v. *)
From Maddy Require Import Lib.Base Pipeline.Route Pipeline.Spec Pipeline.Lemmas.
Local Open Scope N_scope.

(* a directive written without a block has no children (what the configuration reader produces) *)
Definition wf_nodes (nodes : list node) : Prop :=
  forall d args ids ch, In (Node d args ids false ch) nodes -> ch = [].
Lemma wf_nodes_tl n nodes : wf_nodes (n :: nodes) -> wf_nodes nodes.
Proof. intros H d args ids ch Hin. apply (H d args ids ch). right. exact Hin. Qed.

Definition dflt_blocks (ddef : dname -> bool) (nodes : list node) : list (list node) :=
  flat_map (fun n => match n with Node d _ _ _ ch => if ddef d then (match ch with [] => [] | _ => [ch] end) else [] end) nodes.
Lemma default_of_eq ddef handling nodes :
  default_of ddef handling nodes =
  match dflt_blocks ddef nodes with
  | ch :: _ => ch
  | [] => filter (fun n => match n with Node d _ _ _ _ => handling d end) nodes
  end.
Proof. reflexivity. Qed.

Section SpecSel.
  Variable flk : str -> option str.
  Variable dflk : str -> option str.
  Variable valid_rule : str -> bool.
  Variable split_dom : str -> option str.
  Variable tbl : N -> str -> bool.
  Notation declares := (declares flk dflk valid_rule).
  Notation src_go := (src_go flk dflk valid_rule).
  Notation root_go := (root_go flk dflk valid_rule).

  (* ---------------- destination side ---------------- *)
  Lemma src_go_first_in prcpt nodes k : forall acc acc',
    src_go prcpt acc nodes = Ok acc' ->
    match first_in tbl (is_d DDestIn) nodes k with
    | Some ch => exists r, prcpt ch = Ok r /\ first_table tbl (decl_in_r prcpt nodes) k = Some r
    | None => first_table tbl (decl_in_r prcpt nodes) k = None
    end.
  Proof.
    induction nodes as [|[d args ids blk ch] rest IH]; intros acc acc' H; [reflexivity|].
    cbn [Route.src_go] in H. unfold decl_in_r. cbn [first_in flat_map]. fold (decl_in_r prcpt rest).
    destruct d; cbn [is_d andb]; try discriminate; try (apply (IH _ _ H)).
    - (* DDestIn *)
      destruct ids as [|t [|t2 ids]]; try discriminate.
      destruct (prcpt ch) as [r| |] eqn:Ep; try discriminate.
      cbn [app first_table]. destruct (tbl t k).
      + exists r. split; [exact Ep|reflexivity].
      + apply (IH _ _ H).
    - (* DDest *)
      destruct (prcpt ch) as [r| |]; try discriminate. destruct args; [discriminate|].
      destruct (add_rules _ _ _ _ _ _); [|discriminate]. apply (IH _ _ H).
    - destruct (sa_dflt acc); [discriminate|]. apply (IH _ _ H).
  Qed.

  Lemma src_go_first_rule prcpt nodes k : forall acc acc',
    src_go prcpt acc nodes = Ok acc' ->
    match first_rule flk dflk valid_rule (is_d DDest) nodes k with
    | Some ch => exists r, prcpt ch = Ok r /\ first_decl_r flk dflk valid_rule prcpt nodes k = Some r
    | None => first_decl_r flk dflk valid_rule prcpt nodes k = None
    end.
  Proof.
    induction nodes as [|[d args ids blk ch] rest IH]; intros acc acc' H; [reflexivity|].
    cbn [Route.src_go] in H. cbn [first_rule first_decl_r].
    destruct d; cbn [is_d andb]; try discriminate; try (apply (IH _ _ H)).
    - destruct ids as [|t [|t2 ids]]; try discriminate.
      destruct (prcpt ch) as [r| |]; try discriminate. apply (IH _ _ H).
    - destruct (prcpt ch) as [r| |] eqn:Ep; try discriminate. destruct args as [|a args]; [discriminate|].
      destruct (add_rules _ _ _ _ _ _); [|discriminate].
      destruct (declares (a :: args) k).
      + exists r. split; [exact Ep|reflexivity].
      + apply (IH _ _ H).
    - destruct (sa_dflt acc); [discriminate|]. apply (IH _ _ H).
  Qed.

  Lemma src_go_oth prcpt nodes : forall acc acc',
    src_go prcpt acc nodes = Ok acc' ->
    sa_oth acc' = sa_oth acc ++ filter (fun n => match n with Node d _ _ _ _ => handling_src d end) nodes.
  Proof.
    induction nodes as [|[d args ids blk ch] rest IH]; intros acc acc' H.
    - cbn in H. inversion H; subst. cbn. rewrite app_nil_r. reflexivity.
    - cbn [Route.src_go] in H. cbn [filter].
      destruct d; cbn [handling_src]; try discriminate;
        try (rewrite (IH _ _ H); cbn [sa_oth]; try rewrite <- app_assoc; reflexivity).
      + destruct ids as [|t [|t2 ids]]; try discriminate.
        destruct (prcpt ch) as [r| |]; try discriminate. rewrite (IH _ _ H). reflexivity.
      + destruct (prcpt ch) as [r| |]; try discriminate. destruct args; [discriminate|].
        destruct (add_rules _ _ _ _ _ _); [|discriminate]. rewrite (IH _ _ H). reflexivity.
      + destruct (sa_dflt acc); [discriminate|]. rewrite (IH _ _ H). reflexivity.
  Qed.

  Lemma src_go_dflt prcpt nodes : forall acc acc',
    wf_nodes nodes -> src_go prcpt acc nodes = Ok acc' ->
    match sa_dflt acc with
    | Some _ => dflt_blocks (is_d DDefaultDest) nodes = [] /\ sa_dflt acc' = sa_dflt acc
    | None => dflt_blocks (is_d DDefaultDest) nodes =
              match sa_dflt acc' with Some (x :: l) => [x :: l] | _ => [] end
    end.
  Proof.
    induction nodes as [|[d args ids blk ch] rest IH]; intros acc acc' W H.
    - cbn in H. inversion H; subst. cbn. destruct (sa_dflt acc') as [[|x l]|]; auto.
    - pose proof (wf_nodes_tl _ _ W) as W'. cbn [Route.src_go] in H. unfold dflt_blocks. cbn [flat_map].
      fold (dflt_blocks (is_d DDefaultDest) rest).
      destruct d; cbn [is_d app]; try discriminate; try (apply (IH _ _ W' H)).
      + destruct ids as [|t [|t2 ids]]; try discriminate.
        destruct (prcpt ch) as [r| |]; try discriminate. apply (IH _ _ W' H).
      + destruct (prcpt ch) as [r| |]; try discriminate. destruct args; [discriminate|].
        destruct (add_rules _ _ _ _ _ _); [|discriminate]. apply (IH _ _ W' H).
      + destruct (sa_dflt acc) eqn:Ed; [discriminate|].
        pose proof (IH _ _ W' H) as I. cbn [sa_dflt] in I. destruct blk.
        * destruct I as [I1 I2]. rewrite I1, I2. destruct ch; reflexivity.
        * assert (ch = []) as -> by (apply (W DDefaultDest args ids ch); left; reflexivity).
          exact I.
  Qed.

  Lemma src_default_eq prcpt nodes acc dn :
    wf_nodes nodes -> src_go prcpt sacc0 nodes = Ok acc ->
    default_nodes (sa_per acc) (sa_dflt acc) (sa_oth acc) = Some dn ->
    default_of (is_d DDefaultDest) handling_src nodes = dn.
  Proof.
    intros W H D. rewrite default_of_eq.
    pose proof (src_go_dflt _ _ _ _ W H) as Hd. cbn [sa_dflt sacc0] in Hd.
    pose proof (src_go_oth _ _ _ _ H) as Ho. cbn [sa_oth sacc0 app] in Ho.
    rewrite Hd, <- Ho. unfold default_nodes in D.
    destruct (sa_dflt acc) as [[|x l]|]; destruct (sa_per acc); destruct (sa_oth acc); try discriminate;
      inversion D; reflexivity.
  Qed.

  Theorem select_rcpt_eq_spec f nodes s to clean :
    wf_nodes nodes ->
    parse_src flk dflk valid_rule (S f) nodes = Ok s ->
    flk to = Some clean ->
    match pick_block flk dflk valid_rule split_dom tbl (is_d DDestIn) (is_d DDest) (is_d DDefaultDest) handling_src nodes clean false with
    | PFail r => select_rcpt flk split_dom tbl s to = SFail r
    | PNodes blk => exists b, parse_rcpt flk dflk valid_rule f blk = Ok b /\
                              select_rcpt flk split_dom tbl s to = SBlock b
    end.
  Proof.
    intros W P Hk. destruct s as [sm rin rper rd].
    pose proof (parse_src_first_wins flk dflk valid_rule f nodes sm rin rper rd) as FW.
    rewrite parse_src_eq in P.
    destruct (Route.src_go _ _ _ _ _ nodes) as [acc| |] eqn:Eg; try discriminate.
    destruct (default_nodes _ _ _) as [dn|] eqn:Ed; [|discriminate].
    destruct (parse_rcpt flk dflk valid_rule f dn) as [r0| |] eqn:Er; try discriminate.
    inversion P; subst sm rin rper rd.
    assert (parse_src flk dflk valid_rule (S f) nodes = Ok (Src (sa_m acc) (sa_in acc) (sa_per acc) r0)) as P'
      by (rewrite parse_src_eq, Eg, Ed, Er; reflexivity).
    unfold pick_block, select_rcpt. rewrite Hk.
    destruct (FW clean P') as [_ Hin]. rewrite Hin.
    pose proof (src_go_first_in _ _ clean _ _ Eg) as H1.
    destruct (first_in tbl (is_d DDestIn) nodes clean) as [ch|].
    { destruct H1 as [r [Hr Ht]]. exists r. rewrite Ht. split; [exact Hr|reflexivity]. }
    rewrite H1.
    destruct (FW clean P') as [Hc _]. rewrite Hc.
    pose proof (src_go_first_rule _ _ clean _ _ Eg) as H2.
    destruct (first_rule flk dflk valid_rule (is_d DDest) nodes clean) as [ch|].
    { destruct H2 as [r [Hr Ht]]. exists r. rewrite Ht. split; [exact Hr|reflexivity]. }
    rewrite H2. cbn [andb]. destruct (split_dom clean) as [dom|]; [|reflexivity].
    destruct (FW dom P') as [Hdm _]. rewrite Hdm.
    pose proof (src_go_first_rule _ _ dom _ _ Eg) as H3.
    destruct (first_rule flk dflk valid_rule (is_d DDest) nodes dom) as [ch|].
    { destruct H3 as [r [Hr Ht]]. exists r. rewrite Ht. split; [exact Hr|reflexivity]. }
    rewrite H3. exists r0. rewrite (src_default_eq _ _ _ _ W Eg Ed). split; [exact Er|reflexivity].
  Qed.

  (* ---------------- source side ---------------- *)
  Definition decl_in_s (psrc : list node -> res src) (nodes : list node) : list (N * src) :=
    flat_map (fun n => match n with
                       | Node DSourceIn _ [t] _ ch => match psrc ch with Ok r => [(t, r)] | _ => [] end
                       | _ => [] end) nodes.
  Lemma root_go_in psrc nodes : forall acc acc',
    root_go psrc acc nodes = Ok acc' -> pa_in acc' = pa_in acc ++ decl_in_s psrc nodes.
  Proof.
    induction nodes as [|[d args ids blk ch] rest IH]; intros acc acc' H.
    - cbn in H. inversion H; subst. cbn. rewrite app_nil_r. reflexivity.
    - cbn [Route.root_go] in H. unfold decl_in_s. cbn [flat_map]. fold (decl_in_s psrc rest).
      destruct d; try discriminate; try (rewrite (IH _ _ H); cbn [pa_in]; reflexivity).
      + destruct ids as [|t [|t2 ids]]; try discriminate.
        destruct (psrc ch) as [r| |]; try discriminate. rewrite (IH _ _ H). cbn [pa_in].
        rewrite <- app_assoc. reflexivity.
      + destruct (psrc ch) as [r| |]; try discriminate. destruct args; [discriminate|].
        destruct (add_rules _ _ _ _ _ _); [|discriminate]. rewrite (IH _ _ H). reflexivity.
      + destruct (pa_dflt acc); [discriminate|]. rewrite (IH _ _ H). reflexivity.
  Qed.
  Lemma root_go_first_in psrc nodes k : forall acc acc',
    root_go psrc acc nodes = Ok acc' ->
    match first_in tbl (is_d DSourceIn) nodes k with
    | Some ch => exists r, psrc ch = Ok r /\ first_table tbl (decl_in_s psrc nodes) k = Some r
    | None => first_table tbl (decl_in_s psrc nodes) k = None
    end.
  Proof.
    induction nodes as [|[d args ids blk ch] rest IH]; intros acc acc' H; [reflexivity|].
    cbn [Route.root_go] in H. unfold decl_in_s. cbn [first_in flat_map]. fold (decl_in_s psrc rest).
    destruct d; cbn [is_d andb]; try discriminate; try (apply (IH _ _ H)).
    - (* DSourceIn *)
      destruct ids as [|t [|t2 ids]]; try discriminate.
      destruct (psrc ch) as [r| |] eqn:Ep; try discriminate.
      cbn [app first_table]. destruct (tbl t k).
      + exists r. split; [exact Ep|reflexivity].
      + apply (IH _ _ H).
    - (* DSource *)
      destruct (psrc ch) as [r| |]; try discriminate. destruct args; [discriminate|].
      destruct (add_rules _ _ _ _ _ _); [|discriminate]. apply (IH _ _ H).
    - destruct (pa_dflt acc); [discriminate|]. apply (IH _ _ H).
  Qed.

  Lemma root_go_first_rule psrc nodes k : forall acc acc',
    root_go psrc acc nodes = Ok acc' ->
    match first_rule flk dflk valid_rule (is_d DSource) nodes k with
    | Some ch => exists r, psrc ch = Ok r /\ first_decl_s flk dflk valid_rule psrc nodes k = Some r
    | None => first_decl_s flk dflk valid_rule psrc nodes k = None
    end.
  Proof.
    induction nodes as [|[d args ids blk ch] rest IH]; intros acc acc' H; [reflexivity|].
    cbn [Route.root_go] in H. cbn [first_rule first_decl_s].
    destruct d; cbn [is_d andb]; try discriminate; try (apply (IH _ _ H)).
    - destruct ids as [|t [|t2 ids]]; try discriminate.
      destruct (psrc ch) as [r| |]; try discriminate. apply (IH _ _ H).
    - destruct (psrc ch) as [r| |] eqn:Ep; try discriminate. destruct args as [|a args]; [discriminate|].
      destruct (add_rules _ _ _ _ _ _); [|discriminate].
      destruct (declares (a :: args) k).
      + exists r. split; [exact Ep|reflexivity].
      + apply (IH _ _ H).
    - destruct (pa_dflt acc); [discriminate|]. apply (IH _ _ H).
  Qed.

  Lemma root_go_oth psrc nodes : forall acc acc',
    root_go psrc acc nodes = Ok acc' ->
    pa_oth acc' = pa_oth acc ++ filter (fun n => match n with Node d _ _ _ _ => handling_root d end) nodes.
  Proof.
    induction nodes as [|[d args ids blk ch] rest IH]; intros acc acc' H.
    - cbn in H. inversion H; subst. cbn. rewrite app_nil_r. reflexivity.
    - cbn [Route.root_go] in H. cbn [filter].
      destruct d; cbn [handling_root]; try discriminate;
        try (rewrite (IH _ _ H); cbn [pa_oth]; try rewrite <- app_assoc; reflexivity).
      + destruct ids as [|t [|t2 ids]]; try discriminate.
        destruct (psrc ch) as [r| |]; try discriminate. rewrite (IH _ _ H). reflexivity.
      + destruct (psrc ch) as [r| |]; try discriminate. destruct args; [discriminate|].
        destruct (add_rules _ _ _ _ _ _); [|discriminate]. rewrite (IH _ _ H). reflexivity.
      + destruct (pa_dflt acc); [discriminate|]. rewrite (IH _ _ H). reflexivity.
  Qed.

  Lemma root_go_dflt psrc nodes : forall acc acc',
    wf_nodes nodes -> root_go psrc acc nodes = Ok acc' ->
    match pa_dflt acc with
    | Some _ => dflt_blocks (is_d DDefaultSource) nodes = [] /\ pa_dflt acc' = pa_dflt acc
    | None => dflt_blocks (is_d DDefaultSource) nodes =
              match pa_dflt acc' with Some (x :: l) => [x :: l] | _ => [] end
    end.
  Proof.
    induction nodes as [|[d args ids blk ch] rest IH]; intros acc acc' W H.
    - cbn in H. inversion H; subst. cbn. destruct (pa_dflt acc') as [[|x l]|]; auto.
    - pose proof (wf_nodes_tl _ _ W) as W'. cbn [Route.root_go] in H. unfold dflt_blocks. cbn [flat_map].
      fold (dflt_blocks (is_d DDefaultSource) rest).
      destruct d; cbn [is_d app]; try discriminate; try (apply (IH _ _ W' H)).
      + destruct ids as [|t [|t2 ids]]; try discriminate.
        destruct (psrc ch) as [r| |]; try discriminate. apply (IH _ _ W' H).
      + destruct (psrc ch) as [r| |]; try discriminate. destruct args; [discriminate|].
        destruct (add_rules _ _ _ _ _ _); [|discriminate]. apply (IH _ _ W' H).
      + destruct (pa_dflt acc) eqn:Ed; [discriminate|].
        pose proof (IH _ _ W' H) as I. cbn [pa_dflt] in I. destruct blk.
        * destruct I as [I1 I2]. rewrite I1, I2. destruct ch; reflexivity.
        * assert (ch = []) as -> by (apply (W DDefaultSource args ids ch); left; reflexivity).
          exact I.
  Qed.


  Lemma root_default_eq psrc nodes acc dn :
    wf_nodes nodes -> root_go psrc pacc0 nodes = Ok acc ->
    default_nodes (pa_per acc) (pa_dflt acc) (pa_oth acc) = Some dn ->
    default_of (is_d DDefaultSource) handling_root nodes = dn.
  Proof.
    intros W H D. rewrite default_of_eq.
    pose proof (root_go_dflt _ _ _ _ W H) as Hd. cbn [pa_dflt pacc0] in Hd.
    pose proof (root_go_oth _ _ _ _ H) as Ho. cbn [pa_oth pacc0 app] in Ho.
    rewrite Hd, <- Ho. unfold default_nodes in D.
    destruct (pa_dflt acc) as [[|x l]|]; destruct (pa_per acc); destruct (pa_oth acc); try discriminate;
      inversion D; reflexivity.
  Qed.

  (* the sender side: [from] is the sender after the global modifiers; the null sender has the empty key *)
  Theorem select_src_eq_spec f nodes p from clean :
    wf_nodes nodes ->
    parse_root flk dflk valid_rule (S f) nodes = Ok p ->
    (match from with [] => Some [] | _ => flk from end) = Some clean ->
    match pick_block flk dflk valid_rule split_dom tbl (is_d DSourceIn) (is_d DSource) (is_d DDefaultSource) handling_root nodes clean true with
    | PFail r => select_src flk split_dom tbl p from = SFail r
    | PNodes blk => exists s, parse_src flk dflk valid_rule f blk = Ok s /\
                              select_src flk split_dom tbl p from = SBlock s
    end.
  Proof.
    intros W P Hk. destruct p as [gm sin per d0].
    pose proof (parse_root_first_wins flk dflk valid_rule f nodes gm sin per d0) as FW.
    rewrite parse_root_eq in P.
    destruct (Route.root_go _ _ _ _ _ nodes) as [acc| |] eqn:Eg; try discriminate.
    destruct (default_nodes _ _ _) as [dn|] eqn:Ed; [|discriminate].
    destruct (parse_src flk dflk valid_rule f dn) as [s0| |] eqn:Er; try discriminate.
    inversion P; subst gm sin per d0.
    assert (parse_root flk dflk valid_rule (S f) nodes = Ok (Pipe (pa_m acc) (pa_in acc) (pa_per acc) s0)) as P'
      by (rewrite parse_root_eq, Eg, Ed, Er; reflexivity).
    unfold pick_block, select_src. rewrite Hk.
    rewrite (root_go_in _ _ _ _ Eg). cbn [pa_in pacc0 app].
    pose proof (root_go_first_in _ _ clean _ _ Eg) as H1.
    destruct (first_in tbl (is_d DSourceIn) nodes clean) as [ch|].
    { destruct H1 as [r [Hr Ht]]. exists r. rewrite Ht. split; [exact Hr|reflexivity]. }
    rewrite H1. rewrite (FW clean P').
    pose proof (root_go_first_rule _ _ clean _ _ Eg) as H2.
    destruct (first_rule flk dflk valid_rule (is_d DSource) nodes clean) as [ch|].
    { destruct H2 as [r [Hr Ht]]. exists r. rewrite Ht. split; [exact Hr|reflexivity]. }
    rewrite H2. cbn [andb].
    pose proof (root_default_eq _ _ _ _ W Eg Ed) as Hdn.
    destruct (split_dom clean) as [dom|].
    - rewrite (FW dom P').
      pose proof (root_go_first_rule _ _ dom _ _ Eg) as H3.
      destruct (first_rule flk dflk valid_rule (is_d DSource) nodes dom) as [ch|].
      { destruct H3 as [r [Hr Ht]]. exists r. rewrite Ht. destruct clean; (split; [exact Hr|reflexivity]). }
      rewrite H3. exists s0. rewrite Hdn. destruct clean; (split; [exact Er|reflexivity]).
    - destruct clean as [|c cl]; [|reflexivity].
      rewrite (FW [] P').
      pose proof (root_go_first_rule _ _ [] _ _ Eg) as H3.
      destruct (first_rule flk dflk valid_rule (is_d DSource) nodes []) as [ch|].
      { destruct H3 as [r [Hr Ht]]. exists r. rewrite Ht. split; [exact Hr|reflexivity]. }
      rewrite H3. exists s0. rewrite Hdn. split; [exact Er|reflexivity].
  Qed.
End SpecSel.
