(* C06: the check runner of the message pipeline (check_runner.go) and the two body paths of
   msgpipelineDelivery, for scripted checks.  A check is a number, its per-message state a
   number handed out at creation, its verdict a function of the stage.  Targets never fail here
   (C03).  Definitions only. *)
From Maddy Require Export Lib.Base.
Local Open Scope N_scope.

Inductive verdict := VNone | VIgnore | VQuar | VReject.
Inductive stage := SConn | SSender | SRcpt (r : N) | SBody.
Definition stage_eqb (a b : stage) : bool :=
  match a, b with
  | SConn, SConn | SSender, SSender | SBody, SBody => true
  | SRcpt x, SRcpt y => x =? y
  | _, _ => false
  end.
Definition is_reject (v : verdict) : bool := match v with VReject => true | _ => false end.
Definition is_quar (v : verdict) : bool := match v with VQuar => true | _ => false end.

Definition call := (N * N * stage)%type.      (* check, state, stage *)
Record runner := {
  r_states : list (N * N);      (* registered: check -> state *)
  r_next : N;
  r_from : bool;                (* mailFromReceived *)
  r_checked : list N;           (* checkedRcpts *)
  r_seen : list (N * N);        (* (state, recipient) pairs already shown *)
  r_body : list N;              (* states that have seen the body *)
  r_quar : bool;                (* mergedRes.Quarantine *)
  r_log : list call }.
Definition runner0 : runner :=
  {| r_states := []; r_next := 0; r_from := false; r_checked := []; r_seen := []; r_body := []; r_quar := false; r_log := [] |}.

Definition nn_eqb (a b : N * N) : bool := (fst a =? fst b) && (snd a =? snd b).

Section Checks.
  Variable script : N -> stage -> verdict.

  (* shown already? (only recipients and the body are de-duplicated) *)
  Definition skipped (rn : runner) (s : N) (stg : stage) : bool :=
    match stg with
    | SRcpt r => existsb (nn_eqb (s, r)) (r_seen rn)
    | SBody => existsb (N.eqb s) (r_body rn)
    | _ => false
    end.
  Definition mark (rn : runner) (c s : N) (stg : stage) : runner :=
    {| r_states := r_states rn; r_next := r_next rn; r_from := r_from rn; r_checked := r_checked rn;
       r_seen := match stg with SRcpt r => (s, r) :: r_seen rn | _ => r_seen rn end;
       r_body := match stg with SBody => s :: r_body rn | _ => r_body rn end;
       r_quar := r_quar rn; r_log := r_log rn ++ [(c, s, stg)] |}.

  (* runAndMergeResults for one stage over the given states; the list order stands for one
     completion order.  Returns the runner, "some check rejected", "some check quarantined". *)
  Fixpoint batch_go (sts : list (N * N)) (stg : stage) (rn : runner) (rej quar : bool) : runner * bool * bool :=
    match sts with
    | [] => (rn, rej, quar)
    | (c, s) :: rest =>
        if skipped rn s stg then batch_go rest stg rn rej quar
        else let v := script c stg in
             batch_go rest stg (mark rn c s stg) (rej || is_reject v) (quar || is_quar v)
    end.
  Definition set_quar (rn : runner) (q : bool) : runner :=
    {| r_states := r_states rn; r_next := r_next rn; r_from := r_from rn; r_checked := r_checked rn;
       r_seen := r_seen rn; r_body := r_body rn; r_quar := r_quar rn || q; r_log := r_log rn |}.
  Definition batch (sts : list (N * N)) (stg : stage) (rn : runner) : runner * bool :=
    match batch_go sts stg rn false false with
    | (rn', true, _) => (rn', true)
    | (rn', false, q) => (set_quar rn' q, false)
    end.

  (* checkStates *)
  Fixpoint collect (checks : list N) (reg : list (N * N)) (next : N) : list (N * N) * list (N * N) * N :=
    match checks with
    | [] => ([], [], next)
    | c :: rest =>
        match alookup N.eqb c reg with
        | Some s => let '(sts, news, n) := collect rest reg next in ((c, s) :: sts, news, n)
        | None => let '(sts, news, n) := collect rest reg (next + 1) in ((c, next) :: sts, (c, next) :: news, n)
        end
    end.
  Fixpoint replay (sts : list (N * N)) (rcpts : list N) (rn : runner) : runner * bool :=
    match rcpts with
    | [] => (rn, false)
    | r :: rest => match batch sts (SRcpt r) rn with
                   | (rn', true) => (rn', true)
                   | (rn', false) => replay sts rest rn'
                   end
    end.
  Definition with_next (rn : runner) (n : N) : runner :=
    {| r_states := r_states rn; r_next := n; r_from := r_from rn; r_checked := r_checked rn;
       r_seen := r_seen rn; r_body := r_body rn; r_quar := r_quar rn; r_log := r_log rn |}.
  Definition register (rn : runner) (news : list (N * N)) : runner :=
    {| r_states := r_states rn ++ news; r_next := r_next rn; r_from := r_from rn; r_checked := r_checked rn;
       r_seen := r_seen rn; r_body := r_body rn; r_quar := r_quar rn; r_log := r_log rn |}.

  Definition check_states (checks : list N) (rn : runner) : runner * option (list (N * N)) :=
    let '(sts, news, n) := collect checks (r_states rn) (r_next rn) in
    let rn := with_next rn n in
    match news with
    | [] => (rn, Some sts)
    | _ =>
      let after_sender :=
        if r_from rn then
          match batch news SConn rn with
          | (rn1, true) => (rn1, true)
          | (rn1, false) => batch news SSender rn1
          end
        else (rn, false) in
      match after_sender with
      | (rn2, true) => (rn2, None)
      | (rn2, false) =>
          match replay sts (r_checked rn2) rn2 with
          | (rn3, true) => (rn3, None)
          | (rn3, false) => (register rn3 news, Some sts)
          end
      end
    end.

  Definition set_from (rn : runner) : runner :=
    {| r_states := r_states rn; r_next := r_next rn; r_from := true; r_checked := r_checked rn;
       r_seen := r_seen rn; r_body := r_body rn; r_quar := r_quar rn; r_log := r_log rn |}.
  Definition add_checked (rn : runner) (r : N) : runner :=
    {| r_states := r_states rn; r_next := r_next rn; r_from := r_from rn; r_checked := r_checked rn ++ [r];
       r_seen := r_seen rn; r_body := r_body rn; r_quar := r_quar rn; r_log := r_log rn |}.

  (* each returns the runner and whether the command goes on (true) or is refused *)
  Definition check_conn_sender (checks : list N) (rn : runner) : runner * bool :=
    match check_states checks (set_from rn) with
    | (rn', Some _) => (rn', true)
    | (rn', None) => (rn', false)
    end.
  Definition check_rcpt (checks : list N) (r : N) (rn : runner) : runner * bool :=
    match check_states checks rn with
    | (rn', None) => (rn', false)
    | (rn', Some sts) => match batch sts (SRcpt r) rn' with
                         | (rn'', rej) => (add_checked rn'' r, negb rej)
                         end
    end.
  Definition check_body (checks : list N) (rn : runner) : runner * bool :=
    match check_states checks rn with
    | (rn', None) => (rn', false)
    | (rn', Some sts) => match batch sts SBody rn' with (rn'', rej) => (rn'', negb rej) end
    end.

  (* ---- the pipeline around the runner ---- *)
  Record pcfg := { g_checks : list N; s_checks : list N; blocks : list (list N * N);   (* checks, target *)
                   dmarc : N;          (* DMARC policy to apply: 0 none, 1 quarantine, 2 reject *)
                   mod_fail : list N }. (* recipients for which the block's recipient modifier fails *)
  Record sess := { s_rn : runner; s_used : list N;             (* blocks in use, in order of first use *)
                   s_deliv : list (N * list N) }.              (* target -> recipients *)
  Definition block_checks (cfg : pcfg) (b : N) : list N :=
    match nth_error (blocks cfg) (N.to_nat b) with Some (cs, _) => cs | None => [] end.
  Definition block_target (cfg : pcfg) (b : N) : N :=
    match nth_error (blocks cfg) (N.to_nat b) with Some (_, t) => t | None => 0 end.

  Definition start (cfg : pcfg) : sess * bool :=
    match check_conn_sender (g_checks cfg) runner0 with
    | (rn, false) => ({| s_rn := rn; s_used := []; s_deliv := [] |}, false)
    | (rn, true) => match check_conn_sender (s_checks cfg) rn with
                    | (rn', ok) => ({| s_rn := rn'; s_used := []; s_deliv := [] |}, ok)
                    end
    end.

  Fixpoint add_deliv (d : list (N * list N)) (t r : N) : list (N * list N) :=
    match d with
    | [] => [(t, [r])]
    | (t', rs) :: rest => if t' =? t then (t', rs ++ [r]) :: rest else (t', rs) :: add_deliv rest t r
    end.
  Definition with_rn (s : sess) (rn : runner) : sess := {| s_rn := rn; s_used := s_used s; s_deliv := s_deliv s |}.

  Definition add_rcpt (cfg : pcfg) (s : sess) (r b : N) : sess * bool :=
    match check_rcpt (g_checks cfg) r (s_rn s) with
    | (rn, false) => (with_rn s rn, false)
    | (rn, true) =>
      match check_rcpt (s_checks cfg) r rn with
      | (rn1, false) => (with_rn s rn1, false)
      | (rn1, true) =>
        match check_rcpt (block_checks cfg b) r rn1 with
        | (rn2, false) => (with_rn s rn2, false)
        | (rn2, true) =>
            (* the block's modifiers rewrite the recipient after its checks: a failure refuses the
               recipient; the block stays (or becomes) one whose checks see the body - the modifier
               state created for it is what the body stage iterates over *)
            if existsb (N.eqb r) (mod_fail cfg) then
              ({| s_rn := rn2;
                  s_used := if existsb (N.eqb b) (s_used s) then s_used s else s_used s ++ [b];
                  s_deliv := s_deliv s |}, false)
            else
            ({| s_rn := rn2;
                s_used := if existsb (N.eqb b) (s_used s) then s_used s else s_used s ++ [b];
                s_deliv := add_deliv (s_deliv s) (block_target cfg b) r |}, true)
        end
      end
    end.

  Fixpoint body_blocks (cfg : pcfg) (bs : list N) (rn : runner) : runner * bool :=
    match bs with
    | [] => (rn, true)
    | b :: rest => match check_body (block_checks cfg b) rn with
                   | (rn', false) => (rn', false)
                   | (rn', true) => body_blocks cfg rest rn'
                   end
    end.

  (* the body stage, the same on the atomic and on the per-recipient path: None = refused
     (atomic: the DATA command fails; per-recipient: every recipient gets the error), otherwise
     the deliveries with the quarantine flag every target sees *)
  Definition body (cfg : pcfg) (s : sess) : runner * option (list (N * list N * bool)) :=
    match check_body (g_checks cfg) (s_rn s) with
    | (rn, false) => (rn, None)
    | (rn, true) =>
      match check_body (s_checks cfg) rn with
      | (rn1, false) => (rn1, None)
      | (rn1, true) =>
        match body_blocks cfg (s_used s) rn1 with
        | (rn2, false) => (rn2, None)
        | (rn2, true) =>
            if dmarc cfg =? 2 then (rn2, None)
            else let q := r_quar rn2 || (dmarc cfg =? 1) in
                 (rn2, Some (map (fun d => (fst d, snd d, q)) (s_deliv s)))
        end
      end
    end.

  (* a whole message: MAIL, the recipients with the block each is routed to, then the body if
     some recipient was accepted *)
  Fixpoint rcpts_go (cfg : pcfg) (s : sess) (l : list (N * N)) : sess * list bool :=
    match l with
    | [] => (s, [])
    | (r, b) :: rest => match add_rcpt cfg s r b with
                        | (s', ok) => let '(s'', oks) := rcpts_go cfg s' rest in (s'', ok :: oks)
                        end
    end.
  (* o_marks: length of the call log after MAIL, after each RCPT and after the body *)
  Record outcome := { o_start : bool; o_rcpts : list bool; o_body : option (option (list (N * list N * bool)));
                      o_log : list call; o_marks : list nat }.
  Fixpoint rcpts_marks (cfg : pcfg) (s : sess) (l : list (N * N)) : list nat :=
    match l with
    | [] => []
    | (r, b) :: rest => let s' := fst (add_rcpt cfg s r b) in length (r_log (s_rn s')) :: rcpts_marks cfg s' rest
    end.
  Definition run_message (cfg : pcfg) (l : list (N * N)) : outcome :=
    match start cfg with
    | (s, false) => {| o_start := false; o_rcpts := []; o_body := None; o_log := r_log (s_rn s);
                       o_marks := [length (r_log (s_rn s))] |}
    | (s, true) =>
      let '(s', oks) := rcpts_go cfg s l in
      let marks := length (r_log (s_rn s)) :: rcpts_marks cfg s l in
      if existsb (fun b => b) oks then
        let '(rn, res) := body cfg s' in
        {| o_start := true; o_rcpts := oks; o_body := Some res; o_log := r_log rn;
           o_marks := marks ++ [length (r_log rn)] |}
      else {| o_start := true; o_rcpts := oks; o_body := None; o_log := r_log (s_rn s'); o_marks := marks |}
    end.
End Checks.

(* the remote target and the quarantine flag: every recipient is refused *)
Definition remote_body (quarantined : bool) (rcpts : list N) : list (N * bool) :=   (* recipient, refused by the flag *)
  map (fun r => (r, quarantined)) rcpts.
