(* C09: per-recipient results.  smtpconn.C (accepted recipients of a connection, SMTPUTF8
   capability, A-label conversion), target.remote BodyNonAtomic (statuses per connection),
   target.lmtp BodyNonAtomic (positional statuses) and the pipeline's statusCollector (reverse
   translation of rewritten recipients).  Definitions only. *)
From Maddy Require Export Lib.Base.
Local Open Scope N_scope.

Definition is_ascii (s : str) : bool := forallb (fun c => c <? 128) s.

Section Conn.
  Variable to_ascii : str -> option str.        (* address.ToASCII *)

  (* ---- smtpconn.C ---- *)
  Record conn := { c_utf8 : bool; c_rcpts : list str }.
  Definition conn_mail (c : conn) : conn := {| c_utf8 := c_utf8 c; c_rcpts := [] |}.
  (* the address put on the wire, None: cannot be expressed for this server *)
  Definition wire (c : conn) (to : str) : option str :=
    if negb (is_ascii to) && negb (c_utf8 c) then to_ascii to else Some to.
  (* RCPT: [accepts] is the next hop's verdict on the address on the wire *)
  Definition conn_rcpt (accepts : str -> bool) (c : conn) (to : str) : conn * bool :=
    match wire c to with
    | None => (c, false)
    | Some w => if accepts w then ({| c_utf8 := c_utf8 c; c_rcpts := c_rcpts c ++ [to] |}, true) else (c, false)
    end.

  (* ---- one transaction of target.remote over one (possibly reused) connection ---- *)
  Record txn := { t_rcpts : list str; t_refused : list str;    (* wire addresses the next hop refuses *)
                  t_data_ok : bool }.
  Definition accepts_of (t : txn) (w : str) : bool := negb (mem_b str_eqb w (t_refused t)).
  Fixpoint add_all (accepts : str -> bool) (c : conn) (tos : list str) : conn * list bool :=
    match tos with
    | [] => (c, [])
    | to :: rest => let '(c1, ok) := conn_rcpt accepts c to in
                    let '(c2, oks) := add_all accepts c1 rest in (c2, ok :: oks)
    end.
  (* result: replies to AddRcpt, statuses set in BodyNonAtomic (none if nothing was accepted) *)
  Definition run_txn (c : conn) (t : txn) : conn * list bool * list (str * bool) :=
    let '(c1, oks) := add_all (accepts_of t) (conn_mail c) (t_rcpts t) in
    (c1, oks, match c_rcpts c1 with [] => [] | l => map (fun r => (r, t_data_ok t)) l end).
  Fixpoint run_history (c : conn) (ts : list txn) : list (list bool * list (str * bool)) :=
    match ts with
    | [] => []
    | t :: rest => let '(c1, oks, sts) := run_txn c t in (oks, sts) :: run_history c1 rest
    end.

  (* what the property asks for: the recipients accepted in this transaction, as given *)
  Fixpoint accepted (tos : list str) (oks : list bool) : list str :=
    match tos, oks with
    | to :: ts, true :: os => to :: accepted ts os
    | _ :: ts, false :: os => accepted ts os
    | _, _ => []
    end.
End Conn.

(* ---- target.lmtp: replies of the next hop come in RCPT order; [answered] of them arrived
   before the transfer failed as a whole (or all of them) ---- *)
Definition lmtp_statuses (rcpts : list str) (replies : list bool) (transfer_ok : bool) : list (str * bool) :=
  let n := length replies in
  map (fun p => (fst p, snd p)) (combine rcpts replies)
  ++ (if transfer_ok then [] else map (fun r => (r, false)) (skipn n rcpts)).

(* ---- pipeline statusCollector: OriginalRcpts is a map, a later entry replaces an earlier one ---- *)
Definition orig_of (m : list (str * str)) (eff : str) : str :=
  match alookup str_eqb eff (rev m) with Some o => o | None => eff end.
Definition translate (m : list (str * str)) (sts : list (str * bool)) : list (str * bool) :=
  map (fun p => (orig_of m (fst p), snd p)) sts.

(* ---- the pipeline end to end: AddRcpt records the rewrites of its own level (a pipeline,
   or a pipeline nested in another one), BodyNonAtomic of each level translates the results of
   the level below through the rewrites recorded at that level ---- *)
Definition rwtab := list (str * list str).
Definition rw_of (rw : rwtab) (a : str) : list str :=
  match alookup str_eqb a rw with Some l => l | None => [a] end.
(* what AddRcpt of one level records for one recipient: an entry for every address that differs
   from the one it was given *)
Definition entries_of (rw : rwtab) (to : str) : list (str * str) :=
  flat_map (fun e => if str_eqb e to then [] else [(e, to)]) (rw_of rw to).
Definition m1 (rw : rwtab) (rcpts : list str) : list (str * str) := flat_map (entries_of rw) rcpts.
(* the record of each level, outermost first: a level sees the addresses the level above hands on *)
Fixpoint pipe_maps (rws : list rwtab) (rcpts : list str) : list (list (str * str)) :=
  match rws with
  | [] => []
  | rw :: rest => m1 rw rcpts :: pipe_maps rest (flat_map (rw_of rw) rcpts)
  end.
(* the addresses handed to the next hop, in order *)
Fixpoint pipe_handed (rws : list rwtab) (rcpts : list str) : list str :=
  match rws with
  | [] => rcpts
  | rw :: rest => pipe_handed rest (flat_map (rw_of rw) rcpts)
  end.
(* the innermost level translates first *)
Definition translate_levels (maps : list (list (str * str))) (sts : list (str * bool)) : list (str * bool) :=
  fold_right translate sts maps.
Definition pipe_e2e (rws : list rwtab) (rcpts fails : list str) : list (str * bool) :=
  translate_levels (pipe_maps rws rcpts)
                   (map (fun e => (e, negb (mem_b str_eqb e fails))) (pipe_handed rws rcpts)).
(* what the property asks for: every result under the address the client supplied, one per
   address handed on for it *)
Definition pipe_want (rws : list rwtab) (rcpts : list str) : list str :=
  flat_map (fun r => map (fun _ => r) (pipe_handed rws [r])) rcpts.
