(* C13 correspondence and monitor for verifyDANE / CheckConn. *)
From Maddy Require Export Lib.Base Remote.Dane Remote.DaneLemmas.
Local Open Scope N_scope.

(* oracle tables recorded from TLSA.Verify and x509 Verify *)
Record tabs := {
  t_match : list (N * N * N * N * N);    (* (usage, sel, mtype, data, cert id) that match *)
  t_chains : list (list N)               (* sets of root ids (in chain order) for which the leaf verifies *)
}.
Definition tup_eqb (a b : N * N * N * N * N) : bool :=
  let '(a1, a2, a3, a4, a5) := a in let '(b1, b2, b3, b4, b5) := b in
  (a1 =? b1) && (a2 =? b2) && (a3 =? b3) && (a4 =? b4) && (a5 =? b5).
Definition matches_of (T : tabs) (r : tlsa) (c : cert) : bool :=
  existsb (tup_eqb (usage r, sel r, mtype r, data r, cid c)) (t_match T).
Definition chains_of (T : tabs) (roots inters : list cert) : bool :=
  existsb (list_eqb N.eqb (map cid roots)) (t_chains T).

Inductive lk := KRecs | KNotFound | KErr.
Record case := {
  c_recs : list tlsa; c_hs : bool; c_chain : list cert; c_tabs : tabs; c_lk : lk;
  c_out : dane_out;          (* verifyDANE *)
  c_conn : conn_out          (* CheckConn with the discovery future preset according to c_lk *)
}.

Definition out_eqb (a b : dane_out) : bool :=
  match a, b with
  | NoOpinion, NoOpinion | Authenticated, Authenticated | Refuse, Refuse | Panic, Panic => true
  | _, _ => false
  end.
Definition conn_eqb (a b : conn_out) : bool :=
  match a, b with
  | COk x, COk y => Bool.eqb x y
  | CTempFail, CTempFail | CPermFail, CPermFail | CPanic, CPanic => true
  | _, _ => false
  end.

Definition model_out (c : case) : dane_out :=
  verify_dane (matches_of (c_tabs c)) (chains_of (c_tabs c)) (c_recs c) (c_hs c) (c_chain c).
Definition model_conn (c : case) : conn_out :=
  check_conn (matches_of (c_tabs c)) (chains_of (c_tabs c)) true
    (match c_lk c with KRecs => LRecs (c_recs c) | KNotFound => LNotFound | KErr => LErr end)
    (c_hs c) (c_chain c).
Definition agrees (c : case) : bool :=
  out_eqb (model_out c) (c_out c) && conn_eqb (model_conn c) (c_conn c).
Definition mismatches (cs : list case) : list N := find_idx (fun c => negb (agrees c)) cs.

Definition monitor (c : case) : list N :=
  let T := c_tabs c in
  let sa := spec_auth (matches_of T) (chains_of T) (c_recs c) (c_hs c) (c_chain c) in
  let sr := spec_refuse (matches_of T) (chains_of T) (c_recs c) (c_hs c) (c_chain c) in
  match c_chain c with
  | [] => []                                      (* go's TLS stack never reports an empty chain *)
  | _ =>
    (if Bool.eqb (out_eqb (c_out c) Authenticated) sa then [] else [1]) ++
    (if Bool.eqb (out_eqb (c_out c) Refuse) sr then [] else [2]) ++
    (if negb (existsb usable (c_recs c)) && (out_eqb (c_out c) Authenticated || (c_hs c && out_eqb (c_out c) Refuse))
     then [3] else []) ++
    (if out_eqb (c_out c) Panic then [4] else []) ++
    (match c_lk c, c_conn c with
     | KErr, CTempFail => []
     | KErr, _ => [5]                             (* discovery failure must defer *)
     | KNotFound, COk false => []
     | KNotFound, _ => [6]
     | KRecs, COk true => if sa then [] else [7]  (* authenticated without a matching record *)
     | KRecs, COk false => if sa || sr then [8] else []
     | KRecs, CPermFail => if sr then [] else [9]
     | KRecs, _ => [10]
     end)
  end.
Definition monitor_failures (cs : list case) : list (N * list N) :=
  let fix go (i : N) (l : list case) :=
    match l with
    | [] => []
    | c :: t => match monitor c with [] => go (N.succ i) t | cl => (i, cl) :: go (N.succ i) t end
    end in go 0%N cs.

Definition tag (c : case) : N :=
  (match c_out c with NoOpinion => 1 | Authenticated => 2 | Refuse => 3 | Panic => 4 end)
  + (if c_hs c then 8 else 0) + (if existsb is_ee (c_recs c) then 16 else 0)
  + (if existsb is_ta (c_recs c) then 32 else 0)
  + (if existsb (fun r => negb (usable r)) (c_recs c) then 64 else 0)
  + 128 * N.of_nat (length (c_chain c)).
Definition tags (cs : list case) : list N := map tag cs.
