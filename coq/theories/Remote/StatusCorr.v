(* C09 correspondence and monitor *)
From Maddy Require Export Lib.Base Remote.Status.
Local Open Scope N_scope.

Definition otab := list (str * option str).
Definition tab_fun (t : otab) (s : str) : option str :=
  match alookup str_eqb s t with Some v => v | None => None end.

Inductive case :=
| CRemote (utf8 : bool) (toascii : otab) (txns : list txn) (obs : list (list bool * list (str * bool)))
| CLmtp (rcpts : list str) (replies : list bool) (transfer_ok : bool) (obs : list (str * bool))
| CPipe (m : list (str * str)) (sts : list (str * bool)) (obs : list (str * bool))
| CPipeE (rws : list rwtab) (rcpts fails : list str) (obs : list (str * bool))
(* one transaction of target.remote whose recipients spell one destination domain in several ways
   (several connections, statuses in any order): recipients, replies to AddRcpt, DATA result, statuses *)
| CRemoteSpell (rcpts : list str) (oks : list bool) (data_ok : bool) (obs : list (str * bool)).

Definition st_eqb (a b : str * bool) : bool := str_eqb (fst a) (fst b) && Bool.eqb (snd a) (snd b).
Definition res_eqb (a b : list bool * list (str * bool)) : bool :=
  list_eqb Bool.eqb (fst a) (fst b) && list_eqb st_eqb (snd a) (snd b).

Definition agrees (c : case) : bool :=
  match c with
  | CRemote u ta txns obs =>
      list_eqb res_eqb (run_history (tab_fun ta) {| c_utf8 := u; c_rcpts := [] |} txns) obs
  | CLmtp rcpts replies ok obs => list_eqb st_eqb (lmtp_statuses rcpts replies ok) obs
  | CPipe m sts obs => list_eqb st_eqb (translate m sts) obs
  | CPipeE rws rcpts fails obs => list_eqb st_eqb (pipe_e2e rws rcpts fails) obs
  | CRemoteSpell rcpts oks data_ok obs =>
      let want := map (fun r => (r, data_ok)) (accepted rcpts oks) in
      Nat.eqb (length want) (length obs) &&
      forallb (fun x => Nat.eqb (length (filter (st_eqb x) want)) (length (filter (st_eqb x) obs))) (want ++ obs)
  end.
Definition mismatches (cs : list case) : list N := find_idx (fun c => negb (agrees c)) cs.

Definition count_s (x : str) (l : list str) : nat := length (filter (str_eqb x) l).
Definition same_multiset (a b : list str) : bool :=
  Nat.eqb (length a) (length b) && forallb (fun x => Nat.eqb (count_s x a) (count_s x b)) a.

Definition monitor (c : case) : list N :=
  match c with
  | CRemote _ _ txns obs =>
      flat_map (fun p => let t := fst p in let r := snd p in
                         if same_multiset (map fst (snd r)) (accepted (t_rcpts t) (fst r)) then [] else [1])
               (combine txns obs)
  | CLmtp rcpts _ _ obs => if same_multiset (map fst obs) rcpts then [] else [2]
  | CPipe m sts obs =>
      (* every client address whose effective address got a result is named once per result *)
      (* the i-th result for an effective address belongs to the i-th client address rewritten to it *)
      let nth_orig (eff : str) (i : nat) : str :=
        match filter (fun e => str_eqb (fst e) eff) m with
        | [] => eff
        | es => snd (nth (Nat.modulo i (length es)) es (eff, eff))
        end in
      let fix go (sts : list (str * bool)) (seen : list str) : list str :=
        match sts with
        | [] => []
        | p :: rest => nth_orig (fst p) (count_s (fst p) seen) :: go rest (fst p :: seen)
        end in
      let want := go sts [] in
      let uniq := forallb (fun e => Nat.eqb (length (filter (fun e' => str_eqb (fst e') (fst e)) m)) 1) m in
      if same_multiset (map fst obs) want then [] else if uniq then [3] else [110]
  | CRemoteSpell rcpts oks _ obs =>
      if same_multiset (map fst obs) (accepted rcpts oks) && same_multiset (accepted rcpts oks) (map fst obs) then [] else [1]
  | CPipeE rws rcpts fails obs =>
      let maps := pipe_maps rws rcpts in
      let handed := pipe_handed rws rcpts in
      (* the maps cannot tell two results apart: an address handed on twice, or a key with two originals at one level *)
      let ambiguous := negb (forallb (fun e => Nat.eqb (count_s e handed) 1) handed)
                       || negb (forallb (fun m => forallb (fun e => forallb (fun e' => negb (str_eqb (fst e) (fst e')) || str_eqb (snd e) (snd e')) m) m) maps) in
      if same_multiset (map fst obs) (pipe_want rws rcpts) then []
      else if ambiguous then [110] else [3]
  end.

Definition dedup_N (l : list N) : list N :=
  fold_right (fun x acc => if existsb (N.eqb x) acc then acc else x :: acc) [] l.
Definition monitor_failures (cs : list case) : list (N * list N) :=
  let fix go (i : N) (l : list case) :=
    match l with
    | [] => []
    | c :: t => match dedup_N (monitor c) with [] => go (N.succ i) t | cl => (i, cl) :: go (N.succ i) t end
    end in go 0%N cs.

Definition tag (c : case) : N :=
  match c with
  | CRemote u ta txns obs =>
      1 + (if u then 2 else 0) + (if Nat.ltb 1 (length txns) then 4 else 0)
      + (if existsb (fun r => existsb (fun p => negb (is_ascii (fst p))) (snd r)) obs then 8 else 0)
      + (if existsb (fun r => existsb negb (fst r)) obs then 16 else 0)
      + (if existsb (fun r => existsb (fun p => negb (snd p)) (snd r)) obs then 32 else 0)
  | CLmtp _ replies ok _ => 64 + (if ok then 0 else 128) + (if existsb negb replies then 256 else 0)
  | CPipe m _ _ => 512 + (match m with [] => 0 | _ => 1024 end)
  | CRemoteSpell rcpts oks ok _ => 16384 + (if ok then 1 else 0) + (if existsb negb oks then 2 else 0)
  | CPipeE rws rcpts _ _ => 2048 + (if Nat.ltb 1 (length rws) then 4096 else 0)
                            + (if existsb (fun m => match m with [] => false | _ => true end) (pipe_maps rws rcpts) then 8192 else 0)
  end.
Definition tags (cs : list case) : list N := map tag cs.
