(* C13 correspondence and monitor for discoverTLSA: the view is what the DNSSEC-aware resolver
   functions returned for the case's zone; the observation is what discoverTLSA returned. *)
From Maddy Require Export Lib.Base Remote.Dane Remote.DaneLemmas.
Local Open Scope N_scope.

Record case := { c_view : dns_view; c_res : lookup }.

Definition tlsa_eqb (a b : tlsa) : bool :=
  (usage a =? usage b) && (sel a =? sel b) && (mtype a =? mtype b) && (data a =? data b).
Definition lookup_eqb (a b : lookup) : bool :=
  match a, b with
  | LRecs x, LRecs y => list_eqb tlsa_eqb x y
  | LNotFound, LNotFound | LErr, LErr => true
  | _, _ => false
  end.
Definition agrees (c : case) : bool := lookup_eqb (discover (c_view c)) (c_res c).
Definition mismatches (cs : list case) : list N := find_idx (fun c => negb (agrees c)) cs.

Definition ad_answer (q : qres (list tlsa)) (recs : list tlsa) : bool :=
  match q with QOk true r => list_eqb tlsa_eqb r recs | _ => false end.
Definition is_fail {A} (q : qres A) : bool := match q with QFail => true | _ => false end.

Definition monitor (c : case) : list N :=
  let v := c_view c in
  (match c_res c with
   | LRecs (x :: l) =>
       if ad_answer (v_tlsa_canon v) (x :: l) || ad_answer (v_tlsa_orig v) (x :: l) then [] else [21]
   | _ => []
   end) ++
  (* a failing address query, or (authenticated address, no CNAME) a failing TLSA query, defers *)
  (if is_fail (v_addr v) && negb (lookup_eqb (c_res c) LErr) then [21] else []) ++
  (match v_addr v with
   | QOk true (Some false) => if is_fail (v_tlsa_orig v) && negb (lookup_eqb (c_res c) LErr) then [21] else []
   | _ => []
   end) ++
  (* authenticated address, usable records published at the MX name itself, and the canonical name
     (if any) has no authenticated records of its own: they are the ones to use (RFC 7672, 2.2.2) *)
  (match v_addr v, v_tlsa_orig v with
   | QOk true (Some ic), QOk true (x :: l) =>
       let canon_decides := ic && match v_tlsa_canon v with QFail => true | QOk true (_ :: _) => true | _ => false end in
       if negb canon_decides && negb (lookup_eqb (c_res c) (LRecs (x :: l))) then [22] else []
   | _, _ => []
   end) ++
  (* a failing TLSA query at the canonical name of an MX that is an authenticated alias defers:
     the records that decide may be exactly the ones that could not be fetched *)
  (let consults_canon :=
     match v_addr v with
     | QOk true (Some true) => true
     | QOk false (Some true) => match v_cname v with QOk true _ => true | _ => false end
     | _ => false
     end in
   if consults_canon && is_fail (v_tlsa_canon v) && negb (lookup_eqb (c_res c) LErr) then [23] else []).
Definition monitor_failures (cs : list case) : list (N * list N) :=
  let fix go (i : N) (l : list case) :=
    match l with
    | [] => []
    | c :: t => match monitor c with [] => go (N.succ i) t | cl => (i, cl) :: go (N.succ i) t end
    end in go 0%N cs.
Definition qtag {A} (q : qres A) : N := match q with QOk true _ => 1 | QOk false _ => 2 | QNotFound => 3 | QFail => 0 end.
Definition tag (c : case) : N :=
  let v := c_view c in
  1 + qtag (v_addr v) + 4 * qtag (v_cname v) + 16 * qtag (v_tlsa_canon v) + 64 * qtag (v_tlsa_orig v)
  + (match c_res c with LRecs [] => 256 | LRecs _ => 512 | LNotFound => 768 | LErr => 1024 end).
Definition tags (cs : list case) : list N := map tag cs.
