(* C13: executable model of internal/target/remote/dane.go verifyDANE and of
   daneDelivery.CheckConn / discoverTLSA (security.go).  TLSA matching and X.509 chain
   verification are Section variables.  Definitions only. *)
From Maddy Require Export Lib.Base.
Local Open Scope N_scope.

Record tlsa := { usage : N; sel : N; mtype : N; data : N }.   (* data: id of the association value *)
Record cert := { cid : N; is_ca : bool }.

Inductive dane_out := NoOpinion | Authenticated | Refuse | Panic.

Definition usable_shape (r : tlsa) : bool := (mtype r <=? 2) && (sel r <=? 1).
Definition is_ee (r : tlsa) : bool := usable_shape r && (usage r =? 3).
Definition is_ta (r : tlsa) : bool := usable_shape r && (usage r =? 2).

Section Oracles.
  Variable matches : tlsa -> cert -> bool.              (* TLSA.Verify(cert) = nil *)
  (* leaf.Verify with DNSName = MX name, Roots = the given certificates of the presented chain,
     Intermediates = all other presented certificates *)
  Variable chains : list cert -> list cert -> bool.

  Definition ta_root (ta : list tlsa) (c : cert) : bool :=
    is_ca c && existsb (fun r => matches r c) ta.

  Definition verify_dane (recs : list tlsa) (handshake : bool) (chain : list cert) : dane_out :=
    match recs with
    | [] => NoOpinion
    | _ =>
        if negb handshake then Refuse
        else
          let ee := filter is_ee recs in
          let ta := filter is_ta recs in
          match ee, ta with
          | [], [] => NoOpinion
          | _, _ =>
              match chain with
              | [] => Panic                 (* PeerCertificates[0] on an empty slice *)
              | leaf :: _ =>
                  if existsb (fun r => matches r leaf) ee then Authenticated
                  else match ta with
                       | [] => Refuse
                       | _ => if chains (filter (ta_root ta) chain)
                                        (filter (fun c => negb (ta_root ta c)) chain)
                              then Authenticated else Refuse
                       end
              end
          end
    end.

  (* result of the TLSA discovery future as CheckConn sees it *)
  Inductive lookup := LRecs (recs : list tlsa) | LNotFound | LErr.
  Inductive conn_out := COk (authenticated : bool) | CTempFail | CPermFail | CPanic.

  Definition check_conn (have_resolver : bool) (l : lookup) (handshake : bool) (chain : list cert)
    : conn_out :=
    if negb have_resolver then COk false
    else match l with
         | LNotFound => COk false
         | LErr => CTempFail
         | LRecs recs =>
             match verify_dane recs handshake chain with
             | NoOpinion => COk false
             | Authenticated => COk true
             | Refuse => CPermFail
             | Panic => CPanic
             end
         end.
End Oracles.

(* discoverTLSA: answers of the DNSSEC-aware resolver *)
Inductive qres (A : Type) := QOk (ad : bool) (v : A) | QNotFound | QFail.
Arguments QOk {A}. Arguments QNotFound {A}. Arguments QFail {A}.

Record dns_view := {
  v_addr : qres (option bool);        (* CheckCNAMEAD: Some is_cname = has addresses, None = no address *)
  v_cname : qres unit;                (* AuthLookupCNAME of the MX name *)
  v_tlsa_canon : qres (list tlsa);    (* TLSA at the canonical (CNAME target) name *)
  v_tlsa_orig : qres (list tlsa)      (* TLSA at the MX name itself *)
}.

Definition tlsa_at_orig (v : dns_view) : lookup :=
  match v_tlsa_orig v with
  | QFail => LErr
  | QNotFound => LRecs []             (* not-found is not an error here; no AD, no records *)
  | QOk ad recs => if ad then LRecs recs else LRecs []
  end.

(* the canonical name is tried first when the MX name is a CNAME; only an authenticated,
   non-empty answer there stops the fallback to the MX name itself *)
Definition tlsa_lookup (v : dns_view) (is_cname : bool) : lookup :=
  if is_cname then
    match v_tlsa_canon v with
    | QFail => LErr
    | QOk true (x :: l) => LRecs (x :: l)
    | _ => tlsa_at_orig v
    end
  else tlsa_at_orig v.

Definition discover (v : dns_view) : lookup :=
  match v_addr v with
  | QFail => LErr
  | QNotFound => LNotFound
  | QOk _ None => LErr                       (* no address associated with the host *)
  | QOk adA (Some is_cname) =>
      if adA then tlsa_lookup v is_cname
      else if negb is_cname then LRecs []
           else match v_cname v with
                | QFail => LErr
                | QNotFound => LNotFound
                | QOk ad _ => if ad then tlsa_lookup v is_cname else LRecs []
                end
  end.
