(* Proofs about Remote/Dane.v (C13). *)
From Maddy Require Import Lib.Base Remote.Dane.
Local Open Scope N_scope.

Section Oracles.
  Variable matches : tlsa -> cert -> bool.
  Variable chains : list cert -> list cert -> bool.
  Notation verify_dane := (verify_dane matches chains).

  Definition usable (r : tlsa) : bool := is_ee r || is_ta r.

  (* the specification, stated over the published record set directly *)
  Definition anchor (recs : list tlsa) (c : cert) : bool :=
    is_ca c && existsb (fun r => is_ta r && matches r c) recs.
  Definition spec_auth (recs : list tlsa) (hs : bool) (chain : list cert) : bool :=
    hs && match chain with
          | [] => false
          | leaf :: _ =>
              existsb (fun r => is_ee r && matches r leaf) recs
              || (existsb is_ta recs
                  && chains (filter (anchor recs) chain) (filter (fun c => negb (anchor recs c)) chain))
          end.
  Definition spec_refuse (recs : list tlsa) (hs : bool) (chain : list cert) : bool :=
    match recs with [] => false | _ => true end
    && (negb hs || (existsb usable recs && negb (spec_auth recs hs chain))).

  Lemma existsb_filter {A} (p q : A -> bool) l :
    existsb q (filter p l) = existsb (fun x => p x && q x) l.
  Proof. induction l as [|x l IH]; simpl; auto. destruct (p x); simpl; rewrite IH; reflexivity. Qed.

  Lemma filter_nil_existsb {A} (p : A -> bool) l : filter p l = [] <-> existsb p l = false.
  Proof.
    induction l as [|x l IH]; simpl; [tauto|]. destruct (p x); simpl; [split; discriminate|exact IH].
  Qed.

  Lemma ta_root_anchor recs c : ta_root matches (filter is_ta recs) c = anchor recs c.
  Proof. unfold ta_root, anchor. rewrite existsb_filter. reflexivity. Qed.

  Lemma filter_ext_eq {A} (p q : A -> bool) l : (forall x, p x = q x) -> filter p l = filter q l.
  Proof. intros H. induction l as [|x l IH]; simpl; auto. rewrite H, IH. reflexivity. Qed.

  Lemma verify_dane_shape recs hs leaf rest :
    recs <> [] ->
    verify_dane recs hs (leaf :: rest) =
      if negb hs then Refuse
      else if negb (existsb usable recs) then NoOpinion
      else if spec_auth recs hs (leaf :: rest) then Authenticated else Refuse.
  Proof.
    intros Hne. unfold Dane.verify_dane.
    assert (M : forall X Y : dane_out, match recs with [] => X | _ :: _ => Y end = Y)
      by (destruct recs; [tauto|reflexivity]).
    rewrite M. clear M.
    destruct hs; cbn [negb]; [|reflexivity].
    unfold spec_auth. rewrite andb_true_l.
    assert (Hu : existsb usable recs = existsb is_ee recs || existsb is_ta recs).
    { unfold usable. clear. induction recs as [|x l IH]; simpl; auto. rewrite IH.
      destruct (is_ee x), (is_ta x), (existsb is_ee l), (existsb is_ta l); reflexivity. }
    rewrite Hu.
    rewrite (filter_ext_eq (ta_root matches (filter is_ta recs)) (anchor recs)) by apply ta_root_anchor.
    rewrite (filter_ext_eq (fun c => negb (ta_root matches (filter is_ta recs) c))
                           (fun c => negb (anchor recs c)))
      by (intros; rewrite ta_root_anchor; reflexivity).
    rewrite existsb_filter.
    destruct (filter is_ee recs) as [|e ee] eqn:Ee; destruct (filter is_ta recs) as [|t ta] eqn:Et.
    - apply filter_nil_existsb in Ee. apply filter_nil_existsb in Et. rewrite Ee, Et. reflexivity.
    - apply filter_nil_existsb in Ee. rewrite Ee.
      assert (Ht : existsb is_ta recs = true).
      { destruct (existsb is_ta recs) eqn:X; auto. apply filter_nil_existsb in X. congruence. }
      rewrite Ht. simpl.
      assert (Hm : existsb (fun x => is_ee x && matches x leaf) recs = false).
      { clear -Ee. induction recs as [|x l IH]; simpl in *; auto.
        apply orb_false_iff in Ee as [-> E]. simpl. auto. }
      rewrite Hm. simpl. reflexivity.
    - assert (He : existsb is_ee recs = true).
      { destruct (existsb is_ee recs) eqn:X; auto. apply filter_nil_existsb in X. congruence. }
      apply filter_nil_existsb in Et. rewrite He, Et. simpl.
      rewrite orb_false_r. destruct (existsb (fun x => is_ee x && matches x leaf) recs); reflexivity.
    - assert (He : existsb is_ee recs = true).
      { destruct (existsb is_ee recs) eqn:X; auto. apply filter_nil_existsb in X. congruence. }
      assert (Ht : existsb is_ta recs = true).
      { destruct (existsb is_ta recs) eqn:X; auto. apply filter_nil_existsb in X. congruence. }
      rewrite He, Ht. simpl.
      destruct (existsb (fun x => is_ee x && matches x leaf) recs); simpl; reflexivity.
  Qed.

  Lemma auth_iff recs hs leaf rest :
    verify_dane recs hs (leaf :: rest) = Authenticated <->
    (recs <> [] /\ existsb usable recs = true /\ spec_auth recs hs (leaf :: rest) = true).
  Proof.
    destruct recs as [|r0 recs'] eqn:E.
    - simpl. split; [discriminate|intros [H _]; tauto].
    - rewrite <- E. assert (Hne : recs <> []) by (rewrite E; discriminate).
      rewrite (verify_dane_shape recs hs leaf rest Hne).
      destruct hs; cbn [negb].
      + destruct (existsb usable recs); cbn [negb].
        * destruct (spec_auth recs true (leaf :: rest)).
          -- split; auto.
          -- split; [discriminate|]. intros (_ & _ & H); discriminate.
        * split; [discriminate|intros (_ & H & _); discriminate].
      + split; [discriminate|]. intros (_ & _ & H). unfold spec_auth in H. discriminate.
  Qed.

  Lemma spec_auth_usable recs hs chain : spec_auth recs hs chain = true -> existsb usable recs = true.
  Proof.
    unfold spec_auth. destruct hs; [|discriminate]. destruct chain as [|leaf rest]; [discriminate|].
    simpl. intros H. apply orb_true_iff in H as [H|H].
    - clear -H. induction recs as [|x l IH]; simpl in *; [discriminate|].
      apply orb_true_iff in H as [H|H]; [|rewrite IH by exact H; apply orb_true_r].
      apply andb_true_iff in H as [H _]. unfold usable. rewrite H. reflexivity.
    - apply andb_true_iff in H as [H _].
      clear -H. induction recs as [|x l IH]; simpl in *; [discriminate|].
      apply orb_true_iff in H as [H|H]; [|rewrite IH by exact H; apply orb_true_r].
      unfold usable. rewrite H, orb_true_r. reflexivity.
  Qed.

  (* authenticated <-> the specification, for every record multiset and chain *)
  Lemma auth_iff_spec recs hs leaf rest :
    verify_dane recs hs (leaf :: rest) = Authenticated <-> spec_auth recs hs (leaf :: rest) = true.
  Proof.
    rewrite auth_iff. split; [tauto|]. intros H. split; [|split; [eapply spec_auth_usable; eauto|exact H]].
    intros ->. apply spec_auth_usable in H. discriminate.
  Qed.

  Lemma refuse_iff_spec recs hs leaf rest :
    verify_dane recs hs (leaf :: rest) = Refuse <-> spec_refuse recs hs (leaf :: rest) = true.
  Proof.
    destruct recs as [|r0 recs'] eqn:E.
    - simpl. split; discriminate.
    - rewrite <- E. assert (Hne : recs <> []) by (rewrite E; discriminate).
      rewrite (verify_dane_shape recs hs leaf rest Hne). unfold spec_refuse.
      assert (M : match recs with [] => false | _ :: _ => true end = true) by (rewrite E; reflexivity).
      rewrite M, andb_true_l. clear M.
      destruct hs; cbn [negb].
      + rewrite orb_false_l. destruct (existsb usable recs); cbn [negb andb].
        * destruct (spec_auth recs true (leaf :: rest)); cbn [negb]; split; auto; discriminate.
        * split; discriminate.
      + rewrite orb_true_l. tauto.
  Qed.

  Lemma unusable_neutral recs hs chain :
    existsb usable recs = false ->
    verify_dane recs hs chain <> Authenticated /\
    (hs = true -> verify_dane recs hs chain = NoOpinion).
  Proof.
    intros Hu.
    assert (He : filter is_ee recs = []).
    { apply filter_nil_existsb. clear -Hu. induction recs as [|x l IH]; simpl in *; auto.
      apply orb_false_iff in Hu as [H1 H2]. unfold usable in H1. apply orb_false_iff in H1 as [-> _].
      simpl. auto. }
    assert (Ht : filter is_ta recs = []).
    { apply filter_nil_existsb. clear -Hu. induction recs as [|x l IH]; simpl in *; auto.
      apply orb_false_iff in Hu as [H1 H2]. unfold usable in H1. apply orb_false_iff in H1 as [_ ->].
      simpl. auto. }
    unfold Dane.verify_dane. rewrite He, Ht.
    destruct recs; [split; [discriminate|reflexivity]|].
    destruct hs; simpl; split; try discriminate; auto.
  Qed.

  Lemma no_panic recs hs leaf rest : verify_dane recs hs (leaf :: rest) <> Panic.
  Proof.
    destruct recs as [|r0 recs'] eqn:E; [discriminate|]. rewrite <- E.
    rewrite verify_dane_shape by (rewrite E; discriminate).
    destruct (negb hs); [discriminate|]. destruct (negb (existsb usable recs)); [discriminate|].
    destruct (spec_auth recs hs (leaf :: rest)); discriminate.
  Qed.

  (* with an X.509 verifier that accepts no chain without a trust anchor, authentication through
     DANE-TA needs a usable TA record matching a CA certificate of the presented chain *)
  Lemma ta_needs_matching_ca recs hs leaf rest :
    (forall inters, chains [] inters = false) ->
    verify_dane recs hs (leaf :: rest) = Authenticated ->
    existsb (fun r => is_ee r && matches r leaf) recs = true \/
    exists c, In c (leaf :: rest) /\ is_ca c = true /\
              existsb (fun r => is_ta r && matches r c) recs = true.
  Proof.
    intros Hc H. apply auth_iff_spec in H.
    assert (S : spec_auth recs hs (leaf :: rest) =
                hs && (existsb (fun r => is_ee r && matches r leaf) recs
                       || (existsb is_ta recs
                           && chains (filter (anchor recs) (leaf :: rest))
                                     (filter (fun c => negb (anchor recs c)) (leaf :: rest)))))
      by reflexivity.
    rewrite S in H. clear S. apply andb_true_iff in H as [_ H].
    apply orb_true_iff in H as [H|H]; [left; exact H|].
    right. apply andb_true_iff in H as [_ H].
    destruct (filter (anchor recs) (leaf :: rest)) as [|c l] eqn:F.
    - rewrite Hc in H. discriminate.
    - assert (In c (filter (anchor recs) (leaf :: rest))) by (rewrite F; left; reflexivity).
      apply filter_In in H0 as [Hin Ha]. unfold anchor in Ha. apply andb_true_iff in Ha as [? ?].
      exists c. auto.
  Qed.

  (* CheckConn: a lookup failure defers, a missing resolver / not-found changes nothing,
     authentication only through verify_dane *)
  Lemma check_conn_spec l hs chain :
    check_conn matches chains true LErr hs chain = CTempFail /\
    check_conn matches chains true LNotFound hs chain = COk false /\
    check_conn matches chains false l hs chain = COk false /\
    (forall recs, check_conn matches chains true (LRecs recs) hs chain = COk true <->
                  verify_dane recs hs chain = Authenticated).
  Proof.
    repeat split; try reflexivity; unfold check_conn; simpl;
      destruct (verify_dane recs hs chain); try discriminate; auto.
  Qed.
End Oracles.

(* discovery: records are only ever taken from an answer carrying the AD bit, and a failing
   query that the discovery depends on defers *)
Lemma tlsa_at_orig_recs v recs :
  tlsa_at_orig v = LRecs recs -> recs <> [] -> v_tlsa_orig v = QOk true recs.
Proof.
  unfold tlsa_at_orig. destruct (v_tlsa_orig v) as [ad r| |]; try discriminate.
  - destruct ad; intros E Hne; inversion E; subst; [reflexivity|tauto].
  - intros E Hne; inversion E; subst; tauto.
Qed.

Lemma tlsa_lookup_recs v c recs :
  tlsa_lookup v c = LRecs recs -> recs <> [] ->
  v_tlsa_canon v = QOk true recs \/ v_tlsa_orig v = QOk true recs.
Proof.
  unfold tlsa_lookup. destruct c; [|intros; right; apply tlsa_at_orig_recs; auto].
  destruct (v_tlsa_canon v) as [[|] [|x l]| |]; try discriminate;
    try (intros; right; apply tlsa_at_orig_recs; auto; fail).
  intros E _; inversion E; subst. left; reflexivity.
Qed.

Lemma discover_only_authenticated v recs :
  discover v = LRecs recs -> recs <> [] ->
  v_tlsa_canon v = QOk true recs \/ v_tlsa_orig v = QOk true recs.
Proof.
  unfold discover. intros H Hne.
  destruct (v_addr v) as [adA [is_cname|]| |]; try discriminate.
  destruct adA; [eapply tlsa_lookup_recs; eauto|].
  destruct (negb is_cname); [inversion H; subst; tauto|].
  destruct (v_cname v) as [ad u| |]; try discriminate.
  destruct ad; [eapply tlsa_lookup_recs; eauto|inversion H; subst; tauto].
Qed.

Lemma discover_addr_failure_defers v : v_addr v = QFail -> discover v = LErr.
Proof. intros H. unfold discover. rewrite H. reflexivity. Qed.

Lemma discover_tlsa_failure_defers v is_cname :
  v_addr v = QOk true (Some is_cname) -> v_tlsa_orig v = QFail ->
  (is_cname = false \/ v_tlsa_canon v = QNotFound \/ v_tlsa_canon v = QFail) ->
  discover v = LErr.
Proof.
  intros Ha Ho Hc. unfold discover, tlsa_lookup, tlsa_at_orig. rewrite Ha, Ho.
  destruct is_cname; [|reflexivity].
  destruct Hc as [Hc|[Hc|Hc]]; [discriminate| |]; rewrite Hc; reflexivity.
Qed.

Lemma discover_canon_failure_defers v :
  (v_addr v = QOk true (Some true) \/
   (v_addr v = QOk false (Some true) /\ exists x, v_cname v = QOk true x)) ->
  v_tlsa_canon v = QFail -> discover v = LErr.
Proof.
  intros [Ha|[Ha [x Hc]]] Hq; unfold discover, tlsa_lookup; rewrite Ha; cbn [negb]; [|rewrite Hc]; rewrite Hq; reflexivity.
Qed.
