From Maddy Require Import Lib.Base Remote.Status Auth.Lemmas.
From Coq Require Import Lia.
Local Open Scope N_scope.

Section Conn.
  Variable to_ascii : str -> option str.

  Lemma add_all_rcpts accepts tos : forall c c' oks,
    add_all to_ascii accepts c tos = (c', oks) ->
    c_rcpts c' = c_rcpts c ++ accepted tos oks /\ length oks = length tos /\ c_utf8 c' = c_utf8 c.
  Proof.
    induction tos as [|to rest IH]; intros c c' oks H; cbn in H.
    - inversion H; subst. cbn. rewrite app_nil_r. auto.
    - destruct (conn_rcpt to_ascii accepts c to) as [c1 ok] eqn:E1.
      destruct (add_all to_ascii accepts c1 rest) as [c2 oks'] eqn:E2. inversion H; subst.
      destruct (IH _ _ _ E2) as (R & L & U). unfold conn_rcpt in E1.
      destruct (wire to_ascii c to) as [w|]; [destruct (accepts w)|]; inversion E1; subst; cbn in *.
      + rewrite R, <- app_assoc. cbn. auto.
      + rewrite R. auto.
      + rewrite R. auto.
  Qed.

  (* the statuses of a transaction name exactly the recipients accepted in it, under the
     addresses given, each once and in order - whatever the connection saw before *)
  Lemma run_txn_keys c t c' oks sts :
    run_txn to_ascii c t = (c', oks, sts) ->
    map fst sts = accepted (t_rcpts t) oks /\ length oks = length (t_rcpts t) /\
    (forall p, In p sts -> snd p = t_data_ok t).
  Proof.
    unfold run_txn. destruct (add_all to_ascii (accepts_of t) (conn_mail c) (t_rcpts t)) as [c1 oks'] eqn:E.
    intro H; inversion H; subst. destruct (add_all_rcpts _ _ _ _ _ E) as (R & L & _). cbn in R.
    split; [|split; [exact L|]].
    - rewrite <- R. destruct (c_rcpts c') as [|x l]; [reflexivity|]. cbn [map fst]. f_equal. rewrite map_map. cbn [fst]. apply map_id.
    - intros p Hp. destruct (c_rcpts c') as [|x l]; [destruct Hp|]. change ((x, t_data_ok t) :: map (fun r : str => (r, t_data_ok t)) l) with (map (fun r : str => (r, t_data_ok t)) (x :: l)) in Hp. apply in_map_iff in Hp as (r & Hr & _). subst. reflexivity.
  Qed.

  Lemma run_history_keys ts : forall c,
    Forall2 (fun t res => map fst (snd res) = accepted (t_rcpts t) (fst res)) ts (run_history to_ascii c ts).
  Proof.
    induction ts as [|t rest IH]; intro c; cbn; [constructor|].
    destruct (run_txn to_ascii c t) as [[c1 oks] sts] eqn:E. constructor; [|apply IH].
    cbn. exact (proj1 (run_txn_keys _ _ _ _ _ E)).
  Qed.
End Conn.

Lemma lmtp_keys rcpts replies ok :
  (length replies <= length rcpts)%nat -> (ok = true -> length replies = length rcpts) ->
  map fst (lmtp_statuses rcpts replies ok) = rcpts.
Proof.
  intros Hl Hok. unfold lmtp_statuses. rewrite map_app, map_map. cbn [fst].
  assert (C : map (fun p : str * bool => fst p) (combine rcpts replies) = firstn (length replies) rcpts).
  { clear Hok. revert replies Hl. induction rcpts as [|r rs IH]; intros [|b bs] Hl; cbn in *; try reflexivity; try lia.
    f_equal. apply IH. lia. }
  rewrite C. destruct ok.
  - cbn. rewrite app_nil_r. rewrite (Hok eq_refl). apply firstn_all.
  - rewrite map_map. cbn. rewrite map_id. apply firstn_skipn.
Qed.

(* a rewrite table in which every effective address has one original *)
Lemma alookup_in_unique (m : list (str * str)) eff o :
  In (eff, o) m -> (forall o', In (eff, o') m -> o' = o) -> alookup str_eqb eff (rev m) = Some o.
Proof.
  intros Hin Hu. assert (Hin' : In (eff, o) (rev m)) by (apply in_rev in Hin; exact Hin).
  assert (Hu' : forall o', In (eff, o') (rev m) -> o' = o) by (intros o' H; apply Hu; apply in_rev; exact H).
  clear Hin Hu. induction (rev m) as [|[k v] l IH]; [destruct Hin'|]. cbn.
  destruct (str_eqb eff k) eqn:E.
  - apply str_eqb_eq in E. subst k. f_equal. apply Hu'. left. reflexivity.
  - destruct Hin' as [Hh|Ht]; [inversion Hh; subst; rewrite str_eqb_refl in E; discriminate|].
    apply IH; [exact Ht|]. intros o' H. apply Hu'. right. exact H.
Qed.
Lemma translate_original m eff o v :
  In (eff, o) m -> (forall o', In (eff, o') m -> o' = o) -> translate m [(eff, v)] = [(o, v)].
Proof. intros Hin Hu. unfold translate, orig_of. cbn. rewrite (alookup_in_unique m eff o Hin Hu). reflexivity. Qed.

(* ---- the pipeline end to end, one level ---- *)
Definition entries_of (rw : rwtab) (to : str) : list (str * str) :=
  flat_map (fun e => if str_eqb e to then [] else [(e, to)]) (rw_of rw to).
Definition m1 (rw : rwtab) (rcpts : list str) : list (str * str) := flat_map (entries_of rw) rcpts.

Lemma translate_nil sts : translate [] sts = sts.
Proof. unfold translate, orig_of. cbn. induction sts as [|[a b] l IH]; [reflexivity|]. cbn. rewrite IH. reflexivity. Qed.

Lemma add_levels_one_fold to : forall effs accm acch,
  fold_left (fun acc e => let r := add_levels [] e in
               (zip_app (fst acc) ((if str_eqb e to then [] else [(e, to)]) :: fst r), snd acc ++ snd r))
            effs (accm, acch)
  = (fold_left (fun a e => zip_app a [if str_eqb e to then [] else [(e, to)]]) effs accm, acch ++ effs).
Proof.
  induction effs as [|e effs IH]; intros accm acch; cbn [fold_left].
  - rewrite app_nil_r. reflexivity.
  - cbn [add_levels fst snd]. rewrite IH. rewrite <- app_assoc. reflexivity.
Qed.
Lemma add_levels_one rw to :
  add_levels [rw] to = (fold_left (fun a e => zip_app a [if str_eqb e to then [] else [(e, to)]]) (rw_of rw to) [], rw_of rw to).
Proof. cbn [add_levels]. rewrite add_levels_one_fold. reflexivity. Qed.

(* the per-level maps of a one-level pipeline: nothing, or one map *)
Definition one_map (maps : list (list (str * str))) (m : list (str * str)) : Prop :=
  (maps = [] /\ m = []) \/ maps = [m].
Lemma one_map_zip maps m x : one_map maps m -> one_map (zip_app maps [x]) (m ++ x).
Proof. intros [[-> ->]| ->]; right; reflexivity. Qed.
Lemma fold_one_map to : forall effs maps m,
  one_map maps m ->
  one_map (fold_left (fun a e => zip_app a [if str_eqb e to then [] else [(e, to)]]) effs maps)
          (m ++ flat_map (fun e => if str_eqb e to then [] else [(e, to)]) effs).
Proof.
  induction effs as [|e effs IH]; intros maps m H; cbn [fold_left flat_map].
  - rewrite app_nil_r. exact H.
  - rewrite app_assoc. apply IH. apply one_map_zip. exact H.
Qed.
Lemma one_map_zip2 a ma b mb : one_map a ma -> one_map b mb -> one_map (zip_app a b) (ma ++ mb).
Proof.
  intros [[-> ->]| ->] [[-> ->]| ->]; cbn; try (left; split; reflexivity); try (right; rewrite ?app_nil_r; reflexivity).
Qed.
Lemma pipe_maps_one rw : forall rcpts maps m,
  one_map maps m ->
  one_map (fold_left (fun acc r => zip_app acc (fst (add_levels [rw] r))) rcpts maps) (m ++ m1 rw rcpts).
Proof.
  induction rcpts as [|r rcpts IH]; intros maps m H; cbn [fold_left].
  - unfold m1. cbn. rewrite app_nil_r. exact H.
  - unfold m1. cbn [flat_map]. rewrite app_assoc. apply IH. apply one_map_zip2; [exact H|].
    rewrite add_levels_one. cbn [fst]. apply (fold_one_map r (rw_of rw r) [] []). left. split; reflexivity.
Qed.
Lemma translate_levels_one maps m sts : one_map maps m -> translate_levels maps sts = translate m sts.
Proof. intros [[-> ->]| ->]; cbn; [symmetry; apply translate_nil|reflexivity]. Qed.
Lemma pipe_handed_one rw rcpts : pipe_handed [rw] rcpts = flat_map (rw_of rw) rcpts.
Proof.
  unfold pipe_handed. induction rcpts as [|r l IH]; [reflexivity|]. cbn [flat_map]. rewrite IH, add_levels_one. reflexivity.
Qed.
Lemma pipe_want_one rw rcpts : pipe_want [rw] rcpts = flat_map (fun r => map (fun _ => r) (rw_of rw r)) rcpts.
Proof.
  unfold pipe_want. induction rcpts as [|r l IH]; [reflexivity|]. cbn [flat_map]. rewrite IH, add_levels_one. reflexivity.
Qed.

Lemma NoDup_app_inv {A} (a b : list A) : NoDup (a ++ b) -> NoDup a /\ NoDup b /\ (forall x, In x a -> ~ In x b).
Proof.
  induction a as [|x a IH]; cbn; intros H.
  - repeat split; [constructor|exact H|intros x []].
  - inversion H as [|? ? Hn Hd]; subst. destruct (IH Hd) as [Ha [Hb Hab]]. repeat split.
    + constructor; [|exact Ha]. intros Hin. apply Hn. apply in_or_app. left. exact Hin.
    + exact Hb.
    + intros y [->|Hy]; [intros Hin; apply Hn; apply in_or_app; right; exact Hin|apply Hab; exact Hy].
Qed.
(* an address handed on once comes from one client recipient *)
Lemma handed_once_origin (f : str -> list str) : forall rcpts,
  NoDup (flat_map f rcpts) ->
  forall r r' e, In r rcpts -> In r' rcpts -> In e (f r) -> In e (f r') -> r = r'.
Proof.
  induction rcpts as [|a l IH]; intros Hn r r' e Hr Hr' He He'; [destruct Hr|].
  cbn [flat_map] in Hn. destruct (NoDup_app_inv _ _ Hn) as [_ [Hl Hsep]].
  destruct Hr as [->|Hr]; destruct Hr' as [->|Hr'].
  - reflexivity.
  - exfalso. apply (Hsep e He). apply in_flat_map. exists r'. split; assumption.
  - exfalso. apply (Hsep e He'). apply in_flat_map. exists r. split; assumption.
  - exact (IH Hl r r' e Hr Hr' He He').
Qed.
Lemma in_m1 rw rcpts e o : In (e, o) (m1 rw rcpts) <-> In o rcpts /\ In e (rw_of rw o) /\ e <> o.
Proof.
  unfold m1, entries_of. rewrite in_flat_map. split.
  - intros [r [Hr Hin]]. apply in_flat_map in Hin. destruct Hin as [x [Hx Hin]].
    destruct (str_eqb x r) eqn:E; [destruct Hin|]. destruct Hin as [Heq|[]]. inversion Heq; subst.
    repeat split; try assumption. intros ->. rewrite str_eqb_refl in E. discriminate.
  - intros [Ho [He Hne]]. exists o. split; [exact Ho|]. apply in_flat_map. exists e. split; [exact He|].
    destruct (str_eqb e o) eqn:E; [apply str_eqb_eq in E; contradiction|left; reflexivity].
Qed.
Lemma alookup_none_notin (m : list (str * str)) e : (forall o, ~ In (e, o) m) -> alookup str_eqb e m = None.
Proof.
  induction m as [|[k v] l IH]; intros H; [reflexivity|]. cbn.
  destruct (str_eqb e k) eqn:E.
  - apply str_eqb_eq in E. subst k. exfalso. apply (H v). left. reflexivity.
  - apply IH. intros o Hin. apply (H o). right. exact Hin.
Qed.
Lemma orig_of_handed rw rcpts r e :
  NoDup (flat_map (rw_of rw) rcpts) -> In r rcpts -> In e (rw_of rw r) -> orig_of (m1 rw rcpts) e = r.
Proof.
  intros Hn Hr He. unfold orig_of. destruct (list_eq_dec N.eq_dec e r) as [->|Hne].
  - rewrite alookup_none_notin; [reflexivity|]. intros o Hin. apply in_rev in Hin. apply in_m1 in Hin.
    destruct Hin as [Ho [Hin Hne]]. apply Hne. symmetry. exact (handed_once_origin _ _ Hn o r r Ho Hr Hin He).
  - rewrite (alookup_in_unique (m1 rw rcpts) e r); [reflexivity| |].
    + apply in_m1. repeat split; assumption.
    + intros o' Hin. apply in_m1 in Hin. destruct Hin as [Ho [Hin _]].
      exact (handed_once_origin _ _ Hn o' r e Ho Hr Hin He).
Qed.

(* One pipeline, any 1-to-N rewrite table, any recipients and any results of the next hop: if no
   address is handed to the next hop twice, every result is reported under the address the client
   supplied - one per address handed on, in order. *)
Theorem pipeline_results_under_client_addresses rw rcpts fails :
  NoDup (pipe_handed [rw] rcpts) ->
  map fst (pipe_e2e [rw] rcpts fails) = pipe_want [rw] rcpts.
Proof.
  intros Hn. rewrite pipe_handed_one in Hn. unfold pipe_e2e.
  rewrite (translate_levels_one _ (m1 rw rcpts)).
  2:{ unfold pipe_maps. apply (pipe_maps_one rw rcpts [] []). left. split; reflexivity. }
  rewrite pipe_handed_one, pipe_want_one. unfold translate. rewrite !map_map. cbn [fst].
  assert (H : forall l, (forall r, In r l -> In r rcpts) ->
              map (fun x => orig_of (m1 rw rcpts) x) (flat_map (rw_of rw) l)
              = flat_map (fun r => map (fun _ => r) (rw_of rw r)) l).
  { induction l as [|r l IH]; intros Hsub; [reflexivity|]. cbn [flat_map]. rewrite map_app. f_equal.
    - apply map_ext_in. intros e He. apply orig_of_handed; [exact Hn|apply Hsub; left; reflexivity|exact He].
    - apply IH. intros r' Hr'. apply Hsub. right. exact Hr'. }
  apply H. intros r Hr. exact Hr.
Qed.
