From Maddy Require Import Lib.Base Remote.Status Auth.Lemmas.
From Coq Require Import Lia.
Local Open Scope N_scope.

Section Conn.
  Variable to_ascii : str -> option str.

  Lemma add_all_rcpts accepts tos : forall c c' oks,
    add_all to_ascii accepts c tos = (c', oks) ->
    c_rcpts c' = c_rcpts c ++ accepted tos oks /\ length oks = length tos /\ c_utf8 c' = c_utf8 c.
  Proof.
    induction tos as [|to rest IH]; intros c c' oks H; cbn in H.
    - inversion H; subst. cbn. rewrite app_nil_r. auto.
    - destruct (conn_rcpt to_ascii accepts c to) as [c1 ok] eqn:E1.
      destruct (add_all to_ascii accepts c1 rest) as [c2 oks'] eqn:E2. inversion H; subst.
      destruct (IH _ _ _ E2) as (R & L & U). unfold conn_rcpt in E1.
      destruct (wire to_ascii c to) as [w|]; [destruct (accepts w)|]; inversion E1; subst; cbn in *.
      + rewrite R, <- app_assoc. cbn. auto.
      + rewrite R. auto.
      + rewrite R. auto.
  Qed.

  (* the statuses of a transaction name exactly the recipients accepted in it, under the
     addresses given, each once and in order - whatever the connection saw before *)
  Lemma run_txn_keys c t c' oks sts :
    run_txn to_ascii c t = (c', oks, sts) ->
    map fst sts = accepted (t_rcpts t) oks /\ length oks = length (t_rcpts t) /\
    (forall p, In p sts -> snd p = t_data_ok t).
  Proof.
    unfold run_txn. destruct (add_all to_ascii (accepts_of t) (conn_mail c) (t_rcpts t)) as [c1 oks'] eqn:E.
    intro H; inversion H; subst. destruct (add_all_rcpts _ _ _ _ _ E) as (R & L & _). cbn in R.
    split; [|split; [exact L|]].
    - rewrite <- R. destruct (c_rcpts c') as [|x l]; [reflexivity|]. cbn [map fst]. f_equal. rewrite map_map. cbn [fst]. apply map_id.
    - intros p Hp. destruct (c_rcpts c') as [|x l]; [destruct Hp|]. change ((x, t_data_ok t) :: map (fun r : str => (r, t_data_ok t)) l) with (map (fun r : str => (r, t_data_ok t)) (x :: l)) in Hp. apply in_map_iff in Hp as (r & Hr & _). subst. reflexivity.
  Qed.

  Lemma run_history_keys ts : forall c,
    Forall2 (fun t res => map fst (snd res) = accepted (t_rcpts t) (fst res)) ts (run_history to_ascii c ts).
  Proof.
    induction ts as [|t rest IH]; intro c; cbn; [constructor|].
    destruct (run_txn to_ascii c t) as [[c1 oks] sts] eqn:E. constructor; [|apply IH].
    cbn. exact (proj1 (run_txn_keys _ _ _ _ _ E)).
  Qed.
End Conn.

Lemma lmtp_keys rcpts replies ok :
  (length replies <= length rcpts)%nat -> (ok = true -> length replies = length rcpts) ->
  map fst (lmtp_statuses rcpts replies ok) = rcpts.
Proof.
  intros Hl Hok. unfold lmtp_statuses. rewrite map_app, map_map. cbn [fst].
  assert (C : map (fun p : str * bool => fst p) (combine rcpts replies) = firstn (length replies) rcpts).
  { clear Hok. revert replies Hl. induction rcpts as [|r rs IH]; intros [|b bs] Hl; cbn in *; try reflexivity; try lia.
    f_equal. apply IH. lia. }
  rewrite C. destruct ok.
  - cbn. rewrite app_nil_r. rewrite (Hok eq_refl). apply firstn_all.
  - rewrite map_map. cbn. rewrite map_id. apply firstn_skipn.
Qed.

(* a rewrite table in which every effective address has one original *)
Lemma alookup_in_unique (m : list (str * str)) eff o :
  In (eff, o) m -> (forall o', In (eff, o') m -> o' = o) -> alookup str_eqb eff (rev m) = Some o.
Proof.
  intros Hin Hu. assert (Hin' : In (eff, o) (rev m)) by (apply in_rev in Hin; exact Hin).
  assert (Hu' : forall o', In (eff, o') (rev m) -> o' = o) by (intros o' H; apply Hu; apply in_rev; exact H).
  clear Hin Hu. induction (rev m) as [|[k v] l IH]; [destruct Hin'|]. cbn.
  destruct (str_eqb eff k) eqn:E.
  - apply str_eqb_eq in E. subst k. f_equal. apply Hu'. left. reflexivity.
  - destruct Hin' as [Hh|Ht]; [inversion Hh; subst; rewrite str_eqb_refl in E; discriminate|].
    apply IH; [exact Ht|]. intros o' H. apply Hu'. right. exact H.
Qed.
Lemma translate_original m eff o v :
  In (eff, o) m -> (forall o', In (eff, o') m -> o' = o) -> translate m [(eff, v)] = [(o, v)].
Proof. intros Hin Hu. unfold translate, orig_of. cbn. rewrite (alookup_in_unique m eff o Hin Hu). reflexivity. Qed.
