From Maddy Require Import Lib.Base Remote.Status Auth.Lemmas.
From Coq Require Import Lia.
Local Open Scope N_scope.

Section Conn.
  Variable to_ascii : str -> option str.

  Lemma add_all_rcpts accepts tos : forall c c' oks,
    add_all to_ascii accepts c tos = (c', oks) ->
    c_rcpts c' = c_rcpts c ++ accepted tos oks /\ length oks = length tos /\ c_utf8 c' = c_utf8 c.
  Proof.
    induction tos as [|to rest IH]; intros c c' oks H; cbn in H.
    - inversion H; subst. cbn. rewrite app_nil_r. auto.
    - destruct (conn_rcpt to_ascii accepts c to) as [c1 ok] eqn:E1.
      destruct (add_all to_ascii accepts c1 rest) as [c2 oks'] eqn:E2. inversion H; subst.
      destruct (IH _ _ _ E2) as (R & L & U). unfold conn_rcpt in E1.
      destruct (wire to_ascii c to) as [w|]; [destruct (accepts w)|]; inversion E1; subst; cbn in *.
      + rewrite R, <- app_assoc. cbn. auto.
      + rewrite R. auto.
      + rewrite R. auto.
  Qed.

  (* the statuses of a transaction name exactly the recipients accepted in it, under the
     addresses given, each once and in order - whatever the connection saw before *)
  Lemma run_txn_keys c t c' oks sts :
    run_txn to_ascii c t = (c', oks, sts) ->
    map fst sts = accepted (t_rcpts t) oks /\ length oks = length (t_rcpts t) /\
    (forall p, In p sts -> snd p = t_data_ok t).
  Proof.
    unfold run_txn. destruct (add_all to_ascii (accepts_of t) (conn_mail c) (t_rcpts t)) as [c1 oks'] eqn:E.
    intro H; inversion H; subst. destruct (add_all_rcpts _ _ _ _ _ E) as (R & L & _). cbn in R.
    split; [|split; [exact L|]].
    - rewrite <- R. destruct (c_rcpts c') as [|x l]; [reflexivity|]. cbn [map fst]. f_equal. rewrite map_map. cbn [fst]. apply map_id.
    - intros p Hp. destruct (c_rcpts c') as [|x l]; [destruct Hp|]. change ((x, t_data_ok t) :: map (fun r : str => (r, t_data_ok t)) l) with (map (fun r : str => (r, t_data_ok t)) (x :: l)) in Hp. apply in_map_iff in Hp as (r & Hr & _). subst. reflexivity.
  Qed.

  Lemma run_history_keys ts : forall c,
    Forall2 (fun t res => map fst (snd res) = accepted (t_rcpts t) (fst res)) ts (run_history to_ascii c ts).
  Proof.
    induction ts as [|t rest IH]; intro c; cbn; [constructor|].
    destruct (run_txn to_ascii c t) as [[c1 oks] sts] eqn:E. constructor; [|apply IH].
    cbn. exact (proj1 (run_txn_keys _ _ _ _ _ E)).
  Qed.
End Conn.

Lemma lmtp_keys rcpts replies ok :
  (length replies <= length rcpts)%nat -> (ok = true -> length replies = length rcpts) ->
  map fst (lmtp_statuses rcpts replies ok) = rcpts.
Proof.
  intros Hl Hok. unfold lmtp_statuses. rewrite map_app, map_map. cbn [fst].
  assert (C : map (fun p : str * bool => fst p) (combine rcpts replies) = firstn (length replies) rcpts).
  { clear Hok. revert replies Hl. induction rcpts as [|r rs IH]; intros [|b bs] Hl; cbn in *; try reflexivity; try lia.
    f_equal. apply IH. lia. }
  rewrite C. destruct ok.
  - cbn. rewrite app_nil_r. rewrite (Hok eq_refl). apply firstn_all.
  - rewrite map_map. cbn. rewrite map_id. apply firstn_skipn.
Qed.

(* a rewrite table in which every effective address has one original *)
Lemma alookup_in_unique (m : list (str * str)) eff o :
  In (eff, o) m -> (forall o', In (eff, o') m -> o' = o) -> alookup str_eqb eff (rev m) = Some o.
Proof.
  intros Hin Hu. assert (Hin' : In (eff, o) (rev m)) by (apply in_rev in Hin; exact Hin).
  assert (Hu' : forall o', In (eff, o') (rev m) -> o' = o) by (intros o' H; apply Hu; apply in_rev; exact H).
  clear Hin Hu. induction (rev m) as [|[k v] l IH]; [destruct Hin'|]. cbn.
  destruct (str_eqb eff k) eqn:E.
  - apply str_eqb_eq in E. subst k. f_equal. apply Hu'. left. reflexivity.
  - destruct Hin' as [Hh|Ht]; [inversion Hh; subst; rewrite str_eqb_refl in E; discriminate|].
    apply IH; [exact Ht|]. intros o' H. apply Hu'. right. exact H.
Qed.
Lemma translate_original m eff o v :
  In (eff, o) m -> (forall o', In (eff, o') m -> o' = o) -> translate m [(eff, v)] = [(o, v)].
Proof. intros Hin Hu. unfold translate, orig_of. cbn. rewrite (alookup_in_unique m eff o Hin Hu). reflexivity. Qed.

(* ---- the pipeline end to end ---- *)
Lemma NoDup_app_inv {A} (a b : list A) : NoDup (a ++ b) -> NoDup a /\ NoDup b /\ (forall x, In x a -> ~ In x b).
Proof.
  induction a as [|x a IH]; cbn; intros H.
  - repeat split; [constructor|exact H|intros x []].
  - inversion H as [|? ? Hn Hd]; subst. destruct (IH Hd) as [Ha [Hb Hab]]. repeat split.
    + constructor; [|exact Ha]. intros Hin. apply Hn. apply in_or_app. left. exact Hin.
    + exact Hb.
    + intros y [->|Hy]; [intros Hin; apply Hn; apply in_or_app; right; exact Hin|apply Hab; exact Hy].
Qed.
(* an address handed on once comes from one recipient *)
Lemma handed_once_origin (f : str -> list str) : forall rcpts,
  NoDup (flat_map f rcpts) ->
  forall r r' e, In r rcpts -> In r' rcpts -> In e (f r) -> In e (f r') -> r = r'.
Proof.
  induction rcpts as [|a l IH]; intros Hn r r' e Hr Hr' He He'; [destruct Hr|].
  cbn [flat_map] in Hn. destruct (NoDup_app_inv _ _ Hn) as [_ [Hl Hsep]].
  destruct Hr as [->|Hr]; destruct Hr' as [->|Hr'].
  - reflexivity.
  - exfalso. apply (Hsep e He). apply in_flat_map. exists r'. split; assumption.
  - exfalso. apply (Hsep e He'). apply in_flat_map. exists r. split; assumption.
  - exact (IH Hl r r' e Hr Hr' He He').
Qed.
Lemma in_m1 rw rcpts e o : In (e, o) (m1 rw rcpts) <-> In o rcpts /\ In e (rw_of rw o) /\ e <> o.
Proof.
  unfold m1, entries_of. rewrite in_flat_map. split.
  - intros [r [Hr Hin]]. apply in_flat_map in Hin. destruct Hin as [x [Hx Hin]].
    destruct (str_eqb x r) eqn:E; [destruct Hin|]. destruct Hin as [Heq|[]]. inversion Heq; subst.
    repeat split; try assumption. intros ->. rewrite str_eqb_refl in E. discriminate.
  - intros [Ho [He Hne]]. exists o. split; [exact Ho|]. apply in_flat_map. exists e. split; [exact He|].
    destruct (str_eqb e o) eqn:E; [apply str_eqb_eq in E; contradiction|left; reflexivity].
Qed.
Lemma alookup_none_notin (m : list (str * str)) e : (forall o, ~ In (e, o) m) -> alookup str_eqb e m = None.
Proof.
  induction m as [|[k v] l IH]; intros H; [reflexivity|]. cbn.
  destruct (str_eqb e k) eqn:E.
  - apply str_eqb_eq in E. subst k. exfalso. apply (H v). left. reflexivity.
  - apply IH. intros o Hin. apply (H o). right. exact Hin.
Qed.
Lemma orig_of_handed rw rcpts r e :
  NoDup (flat_map (rw_of rw) rcpts) -> In r rcpts -> In e (rw_of rw r) -> orig_of (m1 rw rcpts) e = r.
Proof.
  intros Hn Hr He. unfold orig_of. destruct (list_eq_dec N.eq_dec e r) as [->|Hne].
  - rewrite alookup_none_notin; [reflexivity|]. intros o Hin. apply in_rev in Hin. apply in_m1 in Hin.
    destruct Hin as [Ho [Hin Hne]]. apply Hne. symmetry. exact (handed_once_origin _ _ Hn o r r Ho Hr Hin He).
  - rewrite (alookup_in_unique (m1 rw rcpts) e r); [reflexivity| |].
    + apply in_m1. repeat split; assumption.
    + intros o' Hin. apply in_m1 in Hin. destruct Hin as [Ho [Hin _]].
      exact (handed_once_origin _ _ Hn o' r e Ho Hr Hin He).
Qed.

(* no address is handed on twice, at any level *)
Fixpoint levels_nodup (rws : list rwtab) (rcpts : list str) : Prop :=
  match rws with
  | [] => True
  | rw :: rest => NoDup (flat_map (rw_of rw) rcpts) /\ levels_nodup rest (flat_map (rw_of rw) rcpts)
  end.

Lemma pipe_handed_app rws : forall a b, pipe_handed rws (a ++ b) = pipe_handed rws a ++ pipe_handed rws b.
Proof.
  induction rws as [|rw rest IH]; intros a b; cbn [pipe_handed]; [reflexivity|].
  rewrite flat_map_app. apply IH.
Qed.
Lemma pipe_handed_flat rws : forall l, pipe_handed rws l = flat_map (fun r => pipe_handed rws [r]) l.
Proof.
  induction l as [|r l IH]; cbn [flat_map].
  - induction rws as [|rw rest IHr]; [reflexivity|exact IHr].
  - change (r :: l) with ([r] ++ l). rewrite pipe_handed_app, IH. reflexivity.
Qed.
Lemma map_fst_translate m sts : map fst (translate m sts) = map (orig_of m) (map fst sts).
Proof. unfold translate. rewrite !map_map. reflexivity. Qed.

(* the keys after the translations of all levels, for any results of the next hop *)
Lemma levels_keys rws : forall rcpts (sts : list (str * bool)),
  levels_nodup rws rcpts -> map fst sts = pipe_handed rws rcpts ->
  map fst (translate_levels (pipe_maps rws rcpts) sts) = pipe_want rws rcpts.
Proof.
  induction rws as [|rw rest IH]; intros rcpts sts Hn Hk.
  - cbn. rewrite Hk. cbn. unfold pipe_want. cbn. clear. induction rcpts as [|r l IHl]; [reflexivity|]. cbn. f_equal. exact IHl.
  - destruct Hn as [Hn1 Hn]. cbn [pipe_maps translate_levels fold_right].
    rewrite map_fst_translate. fold (translate_levels (pipe_maps rest (flat_map (rw_of rw) rcpts)) sts).
    rewrite (IH _ sts Hn Hk). unfold pipe_want.
    assert (H : forall l, (forall r, In r l -> In r rcpts) ->
                map (orig_of (m1 rw rcpts))
                    (flat_map (fun r' => map (fun _ => r') (pipe_handed rest [r'])) (flat_map (rw_of rw) l))
                = flat_map (fun r => map (fun _ => r) (pipe_handed (rw :: rest) [r])) l).
    { induction l as [|r l IHl]; intros Hsub; [reflexivity|]. cbn [flat_map]. rewrite flat_map_app, map_app. f_equal.
      - cbn [pipe_handed flat_map]. rewrite app_nil_r.
        rewrite (pipe_handed_flat rest (rw_of rw r)).
        assert (Hr : In r rcpts) by (apply Hsub; left; reflexivity).
        assert (G : forall es, (forall e, In e es -> In e (rw_of rw r)) ->
                    map (orig_of (m1 rw rcpts)) (flat_map (fun r' => map (fun _ => r') (pipe_handed rest [r'])) es)
                    = map (fun _ => r) (flat_map (fun r0 => pipe_handed rest [r0]) es)).
        { induction es as [|e es IHe]; intros Hes; [reflexivity|]. cbn [flat_map]. rewrite !map_app. f_equal.
          - rewrite map_map. apply map_ext. intros _. apply orig_of_handed; [exact Hn1|exact Hr|apply Hes; left; reflexivity].
          - apply IHe. intros e' He'. apply Hes. right. exact He'. }
        apply G. intros e He. exact He.
      - apply IHl. intros r' Hr'. apply Hsub. right. exact Hr'. }
    apply H. intros r Hr. exact Hr.
Qed.

(* Pipelines nested to any depth, any 1-to-N rewrite table at each level, any recipients and any
   results of the next hop: if no level hands an address on twice, every result is reported under
   the address the client supplied - one per address handed to the next hop for it, in order. *)
Theorem pipeline_results_under_client_addresses rws rcpts fails :
  levels_nodup rws rcpts ->
  map fst (pipe_e2e rws rcpts fails) = pipe_want rws rcpts.
Proof.
  intros Hn. unfold pipe_e2e. apply levels_keys; [exact Hn|]. rewrite map_map. cbn [fst]. apply map_id.
Qed.
Lemma map_snd_translate m sts : map snd (translate m sts) = map snd sts.
Proof. unfold translate. rewrite map_map. reflexivity. Qed.
Lemma map_snd_translate_levels maps : forall sts, map snd (translate_levels maps sts) = map snd sts.
Proof.
  induction maps as [|m maps IH]; intros sts; [reflexivity|]. cbn [translate_levels fold_right].
  rewrite map_snd_translate. apply IH.
Qed.
Lemma combine_fst_snd {A B} (l : list (A * B)) : l = combine (map fst l) (map snd l).
Proof. induction l as [|[a b] l IH]; [reflexivity|]. cbn. f_equal. exact IH. Qed.

(* full strength: every result is reported under the address the client supplied AND carries the
   result the next hop gave for the address handed on, in the order handed on *)
Theorem pipeline_results_full rws rcpts fails :
  levels_nodup rws rcpts ->
  pipe_e2e rws rcpts fails =
  combine (pipe_want rws rcpts) (map (fun e => negb (mem_b str_eqb e fails)) (pipe_handed rws rcpts)).
Proof.
  intros Hn. rewrite (combine_fst_snd (pipe_e2e rws rcpts fails)).
  rewrite (pipeline_results_under_client_addresses rws rcpts fails Hn). f_equal.
  unfold pipe_e2e. rewrite map_snd_translate_levels, map_map. reflexivity.
Qed.
