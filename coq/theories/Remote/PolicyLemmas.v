From Maddy Require Import Lib.Base Remote.Policy.
From Coq Require Import Lia ZifyN ZifyBool.
Local Open Scope N_scope.

Ltac crush := cbn in *; repeat split; intros; subst; cbn in *; try discriminate; try congruence; try lia; auto;
  try (match goal with H : _ \/ _ |- _ => destruct H end; try discriminate; try congruence; auto).

Lemma connect_sound f tr :
  connect f = Some tr ->
  (t_level tr = 2 -> t_verified tr = true) /\ (1 <= t_level tr -> t_handshake tr = true) /\
  (t_verified tr = true -> t_handshake tr = true) /\ t_level tr <= 2.
Proof.
  unfold connect. destruct (f_dial f); [|discriminate]. destruct (f_starttls f); [|intro H; inversion H; crush].
  destruct (f_tls_breaks f); [intro H; inversion H; crush|]. destruct (f_cert_ok f); intro H; inversion H; crush.
Qed.

Lemma mx_level_sound pol ad f mx :
  mx_level pol ad f = Some mx ->
  (match p_local pol with Some (mn, _) => mn <= mx | None => True end) /\
  (p_mtasts pol = true -> forall m, f_sts f = StsEnforce m -> m = true) /\
  (1 <= mx -> (p_dnssec pol = true /\ ad = true) \/ (p_mtasts pol = true /\ (f_sts f = StsTesting true \/ f_sts f = StsEnforce true))).
Proof.
  unfold mx_level. destruct (p_dnssec pol) eqn:Ed, ad; cbn [andb];
    (destruct (p_mtasts pol) eqn:Em; [destruct (f_sts f) as [|[|]|[|]] eqn:Es|]; try discriminate;
     (destruct (p_local pol) as [[mn mt]|] eqn:El;
      [match goal with |- context [?a <? mn] => destruct (a <? mn) eqn:E1 end; [discriminate|]|];
      intro H; inversion H; subst; crush)).
Qed.

Lemma tls_level_sound pol f tr tls :
  connect f = Some tr -> tls_level pol f tr = Some tls ->
  (match p_local pol with Some (_, mn) => mn <= tls | None => True end) /\
  (p_mtasts pol = true -> forall m, f_sts f = StsEnforce m -> t_handshake tr = true /\ t_verified tr = true) /\
  (p_dane pol = true -> f_dane f <> DLookupFail /\ f_dane f <> DMismatch /\ (f_dane f = DMatch \/ f_dane f = DUnusable -> t_handshake tr = true)) /\
  (tls = 2 -> (t_verified tr = true \/ (p_dane pol = true /\ f_dane f = DMatch))) /\
  (1 <= tls -> t_handshake tr = true).
Proof.
  intro Hc. destruct (connect_sound f tr Hc) as (C1 & C2 & C3 & C4). unfold tls_level.
  destruct (p_mtasts pol) eqn:Em; cbn [andb].
  - destruct (f_sts f) as [|m|m] eqn:Es;
      try (destruct (t_handshake tr) eqn:Eh; destruct (t_verified tr) eqn:Ev; cbn [andb negb]; try discriminate);
      (destruct (p_dane pol) eqn:Ed; [destruct (f_dane f) eqn:Edn; try discriminate; try (destruct (t_handshake tr) eqn:Eh2; try discriminate)|];
       (destruct (p_local pol) as [[mm mn]|] eqn:El;
        [match goal with |- context [?a <? mn] => destruct (a <? mn) eqn:E1 end; [discriminate|]|];
        intro H; inversion H; subst; crush)).
  - destruct (p_dane pol) eqn:Ed; [destruct (f_dane f) eqn:Edn; try discriminate; try (destruct (t_handshake tr) eqn:Eh2; try discriminate)|];
       (destruct (p_local pol) as [[mm mn]|] eqn:El;
        [match goal with |- context [?a <? mn] => destruct (a <? mn) eqn:E1 end; [discriminate|]|];
        intro H; inversion H; subst; crush).
Qed.

Lemma attempt_mx_sound pol ad f mx tls tr u :
  attempt_mx pol ad f = Some (mx, tls, tr) ->
  pol_holds pol {| c_mx := mx; c_tls := tls; c_facts := f; c_tlsres := tr; c_ad := ad; c_vetted := pol; c_unvetted := u |}.
Proof.
  unfold attempt_mx. destruct (mx_level pol ad f) as [mx0|] eqn:Em; [|discriminate].
  destruct (connect f) as [tr0|] eqn:Ec; [|discriminate].
  destruct (tls_level pol f tr0) as [tls0|] eqn:Et; [|discriminate].
  intro H; inversion H; subst.
  destruct (mx_level_sound _ _ _ _ Em) as (M1 & M2 & M3).
  destruct (tls_level_sound _ _ _ _ Ec Et) as (T1 & T2 & T3 & T4 & T5).
  unfold pol_holds. cbn [c_mx c_tls c_facts c_tlsres c_ad].
  split. { destruct (p_local pol) as [[a b]|]; [split; assumption|exact I]. }
  split. { intros Hp m Hs. split; [exact (M2 Hp m Hs)|exact (T2 Hp m Hs)]. }
  split; [exact T3|]. split; [exact T4|]. split; [exact T5|]. split; [exact M3|exact Ec].
Qed.

Lemma new_conn_sound pol ad u cands c :
  new_conn pol ad u cands = Some c ->
  pol_holds pol c /\ c_unvetted c = u /\ In (c_facts c) cands.
Proof.
  induction cands as [|f rest IH]; cbn; [discriminate|].
  destruct (attempt_mx pol ad f) as [[[mx tls] tr]|] eqn:E.
  - intro H; inversion H; subst. split; [eapply attempt_mx_sound; exact E|]. split; [reflexivity|left; reflexivity].
  - intro H. destruct (IH H) as (A & B & C). split; [exact A|]. split; [exact B|right; exact C].
Qed.

(* the pool only holds connections vetted against the target's own policies *)
Definition PoolInv (t : target) (pool : option conn) : Prop :=
  match pool with Some c => pol_holds (t_pol t) c /\ c_unvetted c = false | None => True end.

Definition overridden (t : target) (m : message) : bool := m_override m && t_allow_override t.

Lemma deliver_sound t pool m c reused pool' :
  PoolInv t pool -> deliver t pool m = (Sent c reused, pool') ->
  m_quarantine m = false /\
  (overridden t m = false -> pol_holds (t_pol t) c) /\
  (m_reqtls m = true -> 2 <= c_tls c /\ 1 <= c_mx c) /\
  (reused = false -> In (c_facts c) (m_cands m)) /\
  PoolInv t pool'.
Proof.
  intros HI. unfold deliver. destruct (m_quarantine m); [discriminate|].
  fold (overridden t m).
  assert (Heff : overridden t m = false -> effective_policies t m = t_pol t).
  { unfold effective_policies, overridden. intro H; rewrite H; reflexivity. }
  assert (K : forall c0 r0,
     (overridden t m = false -> pol_holds (t_pol t) c0) ->
     (c_unvetted c0 = false -> pol_holds (t_pol t) c0) ->
     (r0 = false -> In (c_facts c0) (m_cands m)) ->
     (if m_reqtls m && ((c_tls c0 <? 2) || (c_mx c0 <? 1)) then (Refused, None)
      else if m_reqtls m && negb (t_relaxed t) && negb (f_reqtls_ext (c_facts c0)) then (Refused, None)
      else (Sent c0 r0, if m_data_ok m && negb (c_unvetted c0) then Some c0 else None)) = (Sent c reused, pool') ->
     false = false /\ (overridden t m = false -> pol_holds (t_pol t) c) /\
     (m_reqtls m = true -> 2 <= c_tls c /\ 1 <= c_mx c) /\ (reused = false -> In (c_facts c) (m_cands m)) /\ PoolInv t pool').
  { intros c0 r0 H1 H2 H3. destruct (m_reqtls m) eqn:Er; cbn [andb].
    - destruct (c_tls c0 <? 2) eqn:E1; [discriminate|]. destruct (c_mx c0 <? 1) eqn:E2; [discriminate|]. cbn [orb].
      destruct (negb (t_relaxed t) && negb (f_reqtls_ext (c_facts c0))); [discriminate|].
      intro H; inversion H; subst. split; [reflexivity|]. split; [exact H1|]. split; [intros _; lia|]. split; [exact H3|].
      destruct (m_data_ok m); cbn; [|exact I]. destruct (c_unvetted c) eqn:Eu; cbn; [exact I|]. split; [apply H2; reflexivity|exact Eu].
    - intro H; inversion H; subst. split; [reflexivity|]. split; [exact H1|]. split; [discriminate|]. split; [exact H3|].
      destruct (m_data_ok m); cbn; [|exact I]. destruct (c_unvetted c) eqn:Eu; cbn; [exact I|]. split; [apply H2; reflexivity|exact Eu]. }
  assert (N : forall c0, new_conn (effective_policies t m) (m_ad m) (overridden t m) (m_cands m) = Some c0 ->
     (overridden t m = false -> pol_holds (t_pol t) c0) /\ (c_unvetted c0 = false -> pol_holds (t_pol t) c0) /\ In (c_facts c0) (m_cands m)).
  { intros c0 Hn. destruct (new_conn_sound _ _ _ _ _ Hn) as (A & B & C). split; [|split; [|exact C]].
    - intro Ho. rewrite <- (Heff Ho). exact A.
    - intro Hu. rewrite B in Hu. rewrite <- (Heff Hu). exact A. }
  destruct pool as [pc|].
  - destruct HI as [Hp Hu]. destruct (m_reqtls m) eqn:Er.
    + destruct (new_conn _ _ _ _) as [c0|] eqn:En; [|discriminate].
      destruct (N c0 eq_refl) as (A & B & C). intro H. apply (K c0 false A B (fun _ => C)). try rewrite Er. exact H.
    + intro H. apply (K pc true (fun _ => Hp) (fun _ => Hp)); [discriminate|]. try rewrite Er. exact H.
  - destruct (new_conn _ _ _ _) as [c0|] eqn:En; [|discriminate].
    destruct (N c0 eq_refl) as (A & B & C). intro H. apply (K c0 false A B (fun _ => C)). exact H.
Qed.

Lemma deliver_pool_inv t pool m : PoolInv t pool -> PoolInv t (snd (deliver t pool m)).
Proof.
  intro HI. destruct (deliver t pool m) as [[c r|] pool'] eqn:E.
  - exact (proj2 (proj2 (proj2 (proj2 (deliver_sound _ _ _ _ _ _ HI E))))).
  - cbn. unfold deliver in E. destruct (m_quarantine m); [inversion E; subst; exact HI|].
    destruct pool as [pc|].
    + destruct (m_reqtls m).
      * destruct (new_conn _ _ _ _) as [c0|]; [|inversion E; exact I].
        destruct (true && _); [inversion E; exact I|]. destruct (true && _ && _); inversion E; exact I.
      * cbn [andb] in E. discriminate.
    + destruct (new_conn _ _ _ _) as [c0|]; [|inversion E; exact I].
      destruct (m_reqtls m && _); [inversion E; exact I|]. destruct (m_reqtls m && _ && _); inversion E; exact I.
Qed.

(* every message of every history: content goes out only over a connection satisfying the
   policies in force, whatever the pool inherited from earlier messages *)
Lemma deliver_all_sound t ms : forall pool,
  PoolInv t pool ->
  Forall2 (fun m r => match r with
                      | Sent c reused => m_quarantine m = false /\ (overridden t m = false -> pol_holds (t_pol t) c) /\
                                         (m_reqtls m = true -> 2 <= c_tls c /\ 1 <= c_mx c)
                      | Refused => True end) ms (deliver_all t pool ms).
Proof.
  induction ms as [|m rest IH]; intros pool HI; cbn; [constructor|].
  destruct (deliver t pool m) as [r pool'] eqn:E. constructor.
  - destruct r as [c reused|]; [|exact I]. destruct (deliver_sound _ _ _ _ _ _ HI E) as (A & B & C & _). auto.
  - apply IH. replace pool' with (snd (deliver t pool m)) by (rewrite E; reflexivity). apply deliver_pool_inv. exact HI.
Qed.

(* DANE: a failed TLSA lookup never yields a connection *)
Lemma tlsa_failure_defers pol ad f : p_dane pol = true -> f_dane f = DLookupFail -> attempt_mx pol ad f = None.
Proof.
  intros Hd Hf. unfold attempt_mx. destruct (mx_level pol ad f); [|reflexivity]. destruct (connect f) as [tr|]; [|reflexivity].
  unfold tls_level. rewrite Hd, Hf. destruct (p_mtasts pol && _); reflexivity.
Qed.
