(* C05: outbound security policy of target.remote.  Facts about an MX candidate, the connect
   ladder (authenticated TLS, unauthenticated TLS after a verification error, plaintext), attemptMX
   with the policies in weight order (dnssec, mtasts, dane, local_policy), connectionForDomain with
   the REQUIRETLS checks and the connection pool, and histories of messages to one domain sharing
   the pool.  Definitions only.

   Levels: MX 0 none, 1 MTA-STS, 2 DNSSEC; TLS 0 none, 1 encrypted, 2 authenticated. *)
From Maddy Require Export Lib.Base.
Local Open Scope N_scope.

Inductive sts := StsNone | StsTesting (matches : bool) | StsEnforce (matches : bool).
Inductive dane := DNone | DLookupFail | DMatch | DMismatch | DUnusable.
Record mxfacts := { f_dial : bool;            (* the TCP connection and greeting succeed *)
                    f_starttls : bool;        (* STARTTLS offered (and a client TLS configuration exists) *)
                    f_tls_breaks : bool;      (* the handshake fails for a reason other than verification *)
                    f_cert_ok : bool;         (* the chain verifies for the MX name *)
                    f_sts : sts; f_dane : dane;
                    f_reqtls_ext : bool }.
Record policies := { p_dnssec : bool; p_mtasts : bool; p_dane : bool; p_local : option (N * N) }.   (* min MX, min TLS *)
Definition no_policies : policies := {| p_dnssec := false; p_mtasts := false; p_dane := false; p_local := None |}.

Record tlsres := { t_level : N; t_handshake : bool; t_verified : bool }.
(* remoteDelivery.connect *)
Definition connect (f : mxfacts) : option tlsres :=
  if negb (f_dial f) then None
  else if negb (f_starttls f) then Some {| t_level := 0; t_handshake := false; t_verified := false |}
  else if f_tls_breaks f then Some {| t_level := 0; t_handshake := false; t_verified := false |}
  else if f_cert_ok f then Some {| t_level := 2; t_handshake := true; t_verified := true |}
  else Some {| t_level := 1; t_handshake := true; t_verified := false |}.

Record conn := { c_mx : N; c_tls : N; c_facts : mxfacts; c_tlsres : tlsres; c_ad : bool;    (* DNSSEC status of the MX lookup it was opened after *)
                 c_vetted : policies; c_unvetted : bool }.

(* the CheckMX fold (dnssec, mtasts, dane, local_policy); None = a policy refuses the candidate *)
Definition mx_level (pol : policies) (ad : bool) (f : mxfacts) : option N :=
  let mx1 := if p_dnssec pol && ad then 2 else 0 in
  let mx2 := if p_mtasts pol then
               match f_sts f with
               | StsNone => Some mx1
               | StsTesting m => Some (if m then N.max mx1 1 else mx1)
               | StsEnforce m => if m then Some (N.max mx1 1) else None
               end
             else Some mx1 in
  match mx2 with
  | None => None
  | Some mx => if match p_local pol with Some (mn, _) => mx <? mn | None => false end then None else Some mx
  end.
(* the CheckConn fold over an established connection *)
Definition tls_level (pol : policies) (f : mxfacts) (tr : tlsres) : option N :=
  if p_mtasts pol && match f_sts f with StsEnforce _ => negb (t_handshake tr && t_verified tr) | _ => false end then None
  else
    let after_dane :=
      if p_dane pol then
        match f_dane f with
        | DNone => Some (t_level tr)
        | DUnusable => if t_handshake tr then Some (t_level tr) else None     (* records exist: TLS is mandatory *)
        | DLookupFail | DMismatch => None
        | DMatch => if t_handshake tr then Some 2 else None
        end
      else Some (t_level tr) in
    match after_dane with
    | None => None
    | Some tls => if match p_local pol with Some (_, mn) => tls <? mn | None => false end then None else Some tls
    end.
(* attemptMX: None = this candidate cannot be used (any policy or connection error) *)
Definition attempt_mx (pol : policies) (ad : bool) (f : mxfacts) : option (N * N * tlsres) :=
  match mx_level pol ad f with
  | None => None
  | Some mx =>
      match connect f with
      | None => None
      | Some tr => match tls_level pol f tr with
                   | None => None
                   | Some tls => Some (mx, tls, tr)
                   end
      end
  end.

Fixpoint new_conn (pol : policies) (ad : bool) (unvetted : bool) (cands : list mxfacts) : option conn :=
  match cands with
  | [] => None
  | f :: rest =>
      match attempt_mx pol ad f with
      | Some (mx, tls, tr) => Some {| c_mx := mx; c_tls := tls; c_facts := f; c_tlsres := tr; c_ad := ad; c_vetted := pol; c_unvetted := unvetted |}
      | None => new_conn pol ad unvetted rest
      end
  end.

Record target := { t_pol : policies; t_allow_override : bool; t_relaxed : bool }.
Record message := { m_reqtls : bool; m_override : bool; m_quarantine : bool;
                    m_ad : bool; m_cands : list mxfacts;      (* DNS and MX facts when the message is handled *)
                    m_data_ok : bool }.

(* what happened to one message: the connection its content went over, if any *)
Inductive result := Sent (c : conn) (reused : bool) | Refused.

Definition effective_policies (t : target) (m : message) : policies :=
  if m_override m && t_allow_override t then no_policies else t_pol t.

(* AddRcpt (connectionForDomain + MAIL + RCPT) then the body; the pool holds at most one
   connection for the domain here *)
Definition deliver (t : target) (pool : option conn) (m : message) : result * option conn :=
  if m_quarantine m then (Refused, pool)
  else
    let overridden := m_override m && t_allow_override t in
    let pick :=
      match pool with
      | Some c => if m_reqtls m then (new_conn (effective_policies t m) (m_ad m) overridden (m_cands m), false)
                  else (Some c, true)
      | None => (new_conn (effective_policies t m) (m_ad m) overridden (m_cands m), false)
      end in
    match pick with
    | (None, _) => (Refused, None)
    | (Some c, reused) =>
        if m_reqtls m && ((c_tls c <? 2) || (c_mx c <? 1)) then (Refused, None)
        (* strict mode: MAIL ... REQUIRETLS needs the extension on the next hop *)
        else if m_reqtls m && negb (t_relaxed t) && negb (f_reqtls_ext (c_facts c)) then (Refused, None)
        else
          (* the pooled connection is kept when it is usable, errored ones and those opened under
             the override are closed *)
          (Sent c reused, if m_data_ok m && negb (c_unvetted c) then Some c else None)
    end.

Fixpoint deliver_all (t : target) (pool : option conn) (ms : list message) : list result :=
  match ms with
  | [] => []
  | m :: rest => let '(r, pool') := deliver t pool m in r :: deliver_all t pool' rest
  end.

(* ---- the property: the policies in force for the message hold of the connection used ---- *)
Definition pol_holds (pol : policies) (c : conn) : Prop :=
  let f := c_facts c in let tr := c_tlsres c in let ad := c_ad c in
  (* local_policy minimum levels, the levels being justified by the facts *)
  (match p_local pol with Some (mn_mx, mn_tls) => mn_mx <= c_mx c /\ mn_tls <= c_tls c | None => True end) /\
  (* MTA-STS enforce: matching MX, verified TLS *)
  (p_mtasts pol = true -> forall m, f_sts f = StsEnforce m -> m = true /\ t_handshake tr = true /\ t_verified tr = true) /\
  (* DANE: usable records must match; a failed lookup never lets the message through *)
  (p_dane pol = true -> f_dane f <> DLookupFail /\ f_dane f <> DMismatch /\ (f_dane f = DMatch \/ f_dane f = DUnusable -> t_handshake tr = true)) /\
  (* the levels are what the facts justify *)
  (c_tls c = 2 -> (t_verified tr = true \/ (p_dane pol = true /\ f_dane f = DMatch))) /\
  (1 <= c_tls c -> t_handshake tr = true) /\
  (1 <= c_mx c -> (p_dnssec pol = true /\ ad = true) \/ (p_mtasts pol = true /\ (f_sts f = StsTesting true \/ f_sts f = StsEnforce true))) /\
  connect f = Some tr.
