(* C05 correspondence and monitor *)
From Maddy Require Export Lib.Base Remote.Policy.
Local Open Scope N_scope.

(* what the scripted servers saw for one message: delivered to candidate [o_mx] (index in
   m_cands) over TLS or not, on a connection already used by an earlier message or not *)
Record obs := { o_sent : bool; o_mx : N; o_tls : bool; o_reused : bool;
                o_flag_kept : bool }.    (* the message metadata still says REQUIRETLS afterwards *)
Record case := { c_target : target; c_msgs : list message; c_obs : list obs }.

Fixpoint index_of (f : mxfacts) (l : list mxfacts) (eqb : mxfacts -> mxfacts -> bool) (i : N) : N :=
  match l with [] => 99 | x :: r => if eqb x f then i else index_of f r eqb (i + 1) end.
Definition sts_eqb (a b : sts) : bool :=
  match a, b with StsNone, StsNone => true | StsTesting x, StsTesting y | StsEnforce x, StsEnforce y => Bool.eqb x y | _, _ => false end.
Definition dane_eqb (a b : dane) : bool :=
  match a, b with DNone, DNone | DLookupFail, DLookupFail | DMatch, DMatch | DMismatch, DMismatch | DUnusable, DUnusable => true | _, _ => false end.
(* candidates of one scenario differ at least in their position tag kept in f_reqtls_ext? no:
   compare all fields, the harness never generates two identical candidates for one message *)
Definition facts_eqb (a b : mxfacts) : bool :=
  Bool.eqb (f_dial a) (f_dial b) && Bool.eqb (f_starttls a) (f_starttls b) && Bool.eqb (f_tls_breaks a) (f_tls_breaks b)
  && Bool.eqb (f_cert_ok a) (f_cert_ok b) && sts_eqb (f_sts a) (f_sts b) && dane_eqb (f_dane a) (f_dane b)
  && Bool.eqb (f_reqtls_ext a) (f_reqtls_ext b).

Definition obs_of (m : message) (r : result) : obs :=
  match r with
  | Refused => {| o_sent := false; o_mx := 0; o_tls := false; o_reused := false; o_flag_kept := true |}
  | Sent c reused => {| o_sent := m_data_ok m; o_mx := index_of (c_facts c) (m_cands m) facts_eqb 0;
                        o_tls := t_handshake (c_tlsres c); o_reused := reused; o_flag_kept := true |}
  end.
Definition obs_eqb (a b : obs) : bool :=
  Bool.eqb (o_sent a) (o_sent b) &&
  (negb (o_sent a) || ((o_mx a =? o_mx b) && Bool.eqb (o_tls a) (o_tls b) && Bool.eqb (o_reused a) (o_reused b))).

Definition agrees (c : case) : bool :=
  list_eqb obs_eqb (map (fun p => obs_of (fst p) (snd p)) (combine (c_msgs c) (deliver_all (c_target c) None (c_msgs c)))) (c_obs c).
Definition mismatches (cs : list case) : list N := find_idx (fun c => negb (agrees c)) cs.

(* ---- monitor: the policies in force, evaluated on what the servers saw ---- *)
Definition mon_msg (t : target) (m : message) (o : obs) : list N :=
  (if m_reqtls m && negb (o_flag_kept o) then [8] else []) ++
  if negb (o_sent o) then []
  else
    (if m_quarantine m then [6] else []) ++
    match nth_error (m_cands m) (N.to_nat (o_mx o)) with
    | None => [7]
    | Some f =>
      let pol := t_pol t in
      let over := m_override m && t_allow_override t in
      let authed := o_tls o && (f_cert_ok f || (p_dane pol && negb over && dane_eqb (f_dane f) DMatch)) in
      let mxlvl := if negb over && p_dnssec pol && m_ad m then 2
                   else if negb over && p_mtasts pol && (sts_eqb (f_sts f) (StsTesting true) || sts_eqb (f_sts f) (StsEnforce true)) then 1 else 0 in
      (if m_reqtls m && negb (authed && (1 <=? mxlvl)) then [5] else []) ++
      (if over then []
       else
         (match p_local pol with
          | Some (mn_mx, mn_tls) =>
              (if ((1 <=? mn_tls) && negb (o_tls o)) || ((2 <=? mn_tls) && negb authed) then [1] else []) ++
              (if mxlvl <? mn_mx then [2] else [])
          | None => [] end) ++
         (if p_mtasts pol && match f_sts f with StsEnforce mm => negb (mm && o_tls o && f_cert_ok f) | _ => false end then [3] else []) ++
         (if p_dane pol && (dane_eqb (f_dane f) DLookupFail || dane_eqb (f_dane f) DMismatch || ((dane_eqb (f_dane f) DMatch || dane_eqb (f_dane f) DUnusable) && negb (o_tls o))) then [4] else []))
    end.
Definition monitor (c : case) : list N :=
  flat_map (fun p => mon_msg (c_target c) (fst p) (snd p)) (combine (c_msgs c) (c_obs c)).

Definition dedup_N (l : list N) : list N :=
  fold_right (fun x acc => if existsb (N.eqb x) acc then acc else x :: acc) [] l.
Definition monitor_failures (cs : list case) : list (N * list N) :=
  let fix go (i : N) (l : list case) :=
    match l with
    | [] => []
    | c :: t => match dedup_N (monitor c) with [] => go (N.succ i) t | cl => (i, cl) :: go (N.succ i) t end
    end in go 0%N cs.

Definition tag (c : case) : N :=
  let pol := t_pol (c_target c) in
  (if existsb o_sent (c_obs c) then 1 else 0) + (if existsb (fun o => negb (o_sent o)) (c_obs c) then 2 else 0)
  + (if existsb o_reused (c_obs c) then 4 else 0) + (if existsb o_tls (c_obs c) then 8 else 0)
  + (if p_mtasts pol then 16 else 0) + (if p_dane pol then 32 else 0) + (if p_dnssec pol then 64 else 0)
  + (match p_local pol with Some _ => 128 | None => 0 end)
  + (if existsb m_reqtls (c_msgs c) then 256 else 0) + (if existsb m_override (c_msgs c) then 512 else 0).
Definition tags (cs : list case) : list N := map tag cs.
