(* C07: executable model of internal/dmarc/{evaluate,verifier}.go and of the DMARC part of
   msgpipeline.checkRunner.applyResults.  The public-suffix list is a Section variable.
   Definitions only. *)
From Maddy Require Export Lib.Base.
Local Open Scope N_scope.

Inductive res := Pass | Fail | RNone | Neutral | SoftFail | TempError | PermError.
Definition res_eqb (a b : res) : bool :=
  match a, b with
  | Pass, Pass | Fail, Fail | RNone, RNone | Neutral, Neutral | SoftFail, SoftFail
  | TempError, TempError | PermError, PermError => true
  | _, _ => false
  end.

Inductive policy := PNone | PQuarantine | PReject.
Inductive mode := Relaxed | Strict.

(* authentication results handed to DMARC; AOther = any other method *)
Inductive ar :=
| ADkim (v : res) (d : str)
| ASpf (v : res) (from helo : str)
| AOther.

Record record := { r_p : policy; r_sp : option policy; r_adkim : mode; r_aspf : mode;
                   r_pct : option N }.

(* strings.EqualFold on the ASCII range, strings.ToLower on the ASCII range *)
Definition lower1 (c : N) : N := if (65 <=? c) && (c <=? 90) then c + 32 else c.
Definition lower_ascii (s : str) : str := map lower1 s.
Definition eqfold (a b : str) : bool := str_eqb (lower_ascii a) (lower_ascii b).

Section PSL.
  (* publicsuffix.EffectiveTLDPlusOne (None = error) and publicsuffix.PublicSuffix *)
  Variable org : str -> option str.
  Variable psuffix : str -> str.

  (* evaluate.go isAligned (after the fix: names are lower-cased before the suffix list is consulted) *)
  Definition is_aligned (from auth : str) (m : mode) : bool :=
    match m with
    | Strict => eqfold from auth
    | Relaxed =>
        let f := lower_ascii from in let a := lower_ascii auth in
        if eqfold f (psuffix f) then eqfold f a
        else match org f, org a with
             | Some x, Some y => eqfold x y
             | _, _ => false
             end
    end.

  Record evst := { spf_al : bool; spf_val : option res; dkim_al : bool; dkim_present : bool;
                   dkim_temp : bool }.
  Definition ev0 := {| spf_al := false; spf_val := None; dkim_al := false; dkim_present := false;
                       dkim_temp := false |}.

  Definition ev_step (from : str) (r : record) (s : evst) (a : ar) : evst :=
    match a with
    | ADkim v d =>
        let al := is_aligned from d (r_adkim r) in
        {| spf_al := spf_al s; spf_val := spf_val s;
           dkim_al := dkim_al s || (al && res_eqb v Pass);
           dkim_present := true;
           dkim_temp := dkim_temp s || (al && res_eqb v TempError) |}
    | ASpf v f h =>
        let id := match f with [] => h | _ => f end in
        let al := is_aligned from id (r_aspf r) in
        {| spf_al := spf_al s || (al && res_eqb v Pass); spf_val := Some v;
           dkim_al := dkim_al s; dkim_present := dkim_present s; dkim_temp := dkim_temp s |}
    | AOther => s
    end.

  (* EvaluateAlignment: verdict (Authres.Value) *)
  Definition verdict_of (s : evst) : res :=
    match dkim_present s, spf_val s with
    | false, _ | _, None => RNone
    | true, Some sv =>
        if dkim_temp s && negb (dkim_al s) && negb (spf_al s) then TempError
        else if negb (dkim_al s) && res_eqb sv TempError then TempError
        else if dkim_al s || spf_al s then Pass else Fail
    end.
  Definition evaluate_alignment (from : str) (r : record) (rs : list ar) : res :=
    verdict_of (fold_left (ev_step from r) rs ev0).

  (* one TXT lookup of _dmarc.<domain> *)
  Inductive txt := TDmarc (parsed : option record) | TOther.   (* None = dmarc.Parse error *)
  Inductive lres := LTxt (l : list txt) | LNotFound | LErrTemp | LErrPerm | LErrOther.

  Inductive fetch := FRec (policy_domain : str) (r : record) | FNoPolicy
                   | FErrTempDns | FErrOther.

  Definition is_dmarc (t : txt) : bool := match t with TDmarc _ => true | TOther => false end.
  Definition pick (pd : str) (l : list txt) : fetch :=
    match filter is_dmarc l with
    | [TDmarc (Some r)] => FRec pd r
    | [TDmarc None] => FErrOther
    | _ => FNoPolicy
    end.
  Definition lerr (l : lres) : option fetch :=
    match l with
    | LErrTemp => Some FErrTempDns
    | LErrPerm | LErrOther => Some FErrOther
    | _ => None
    end.
  Definition ltxts (l : lres) : list txt := match l with LTxt t => t | _ => [] end.

  (* FetchRecord: the zone maps a domain to the answer for its _dmarc name *)
  Definition fetch_record (zone : str -> lres) (from : str) : fetch :=
    match lerr (zone from) with
    | Some e => e
    | None =>
        match ltxts (zone from) with
        | [] =>
            match org (lower_ascii from) with
            | None => FErrOther
            | Some od =>
                match lerr (zone od) with
                | Some e => e
                | None => match ltxts (zone od) with [] => FNoPolicy | l => pick od l end
                end
            end
        | l => pick from l
        end
    end.

  (* shape of the From header as ExtractFromDomain sees it *)
  Inductive from_hdr := HOne (d : str) | HBad.   (* HBad: no / several fields or addresses, malformed *)

  (* Verifier.Apply for pct absent or 100 *)
  Definition apply (h : from_hdr) (zone : str -> lres) (rs : list ar) : res * policy :=
    match h with
    | HBad => (PermError, PNone)
    | HOne from =>
        match fetch_record zone from with
        | FErrTempDns => (TempError, PReject)
        | FErrOther => (PermError, PNone)
        | FNoPolicy => (RNone, PNone)
        | FRec pd r =>
            let v := evaluate_alignment from r rs in
            match v with
            | Pass | RNone => (v, PNone)
            | _ =>
                (v, match r_sp r with
                    | Some sp => if eqfold pd from then r_p r else sp
                    | None => r_p r
                    end)
            end
        end
    end.

  Inductive action := Accept | Quarantine | Reject (code : Z) (e0 e1 e2 : Z).
  Definition action_of (v : res) (p : policy) : action :=
    match p with
    | PReject => if res_eqb v TempError then Reject 450 4 7 1 else Reject 550 5 7 1
    | PQuarantine => Quarantine
    | PNone => Accept
    end.
End PSL.
